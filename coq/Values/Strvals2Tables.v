(* The lexical constants and decisions of the --set parsers as the translator reads them out of
   pkg/strvals/parser.go and literal_parser.go on every run (Gen/StrvalsTable.v), tied to the
   models SEMANTICALLY:
   - the stop set of every runesUntil call (looked up by function name, however the set is
     built in Go) is, on every byte, the stop function the models use in that state;
   - typedVal, extracted as ordered (test, result) rules whatever its syntax, is interpreted
     here and proved equal to the model's typed_val2 FOR ALL STRINGS (EqualFold(v, "0") and
     v == "0" are the same test);
   - the range checks of setIndex / key / listItem, compiled to boolean functions of integers,
     are proved equivalent to the model's tests FOR ALL INTEGERS (lia);
   - the sets of runes each function compares the current rune with are the expected sets. *)
From Coq Require Import List String Ascii Bool Arith ZArith Lia ZifyBool.
From Helm Require Import Common.Strs Values.Tree Values.Strvals Values.Strvals2 Values.Strvals2Read Gen.StrvalsTable.
Import ListNotations.
Local Open Scope string_scope.

Definition mem_nat (n : nat) (l : list nat) : bool := existsb (Nat.eqb n) l.

Fixpoint assoc_s {A} (k : string) (l : list (string * A)) : option A :=
  match l with
  | [] => None
  | (k', x) :: t => if String.eqb k k' then Some x else assoc_s k t
  end.

(* ---------- stop sets ---------- *)
(* f is the characteristic function of the byte set [set] (all ASCII) *)
Definition stop_agrees (f : ascii -> bool) (set : list nat) : bool :=
  forallb (fun n => Bool.eqb (f (ascii_of_nat n)) (mem_nat n set)) (seq 0 256)
  && forallb (fun n => Nat.ltb n 128) set.

Lemma stop_agrees_all : forall f set, stop_agrees f set = true ->
  forall c, f c = mem_nat (nat_of_ascii c) set.
Proof.
  intros f set H c. unfold stop_agrees in H. apply andb_true_iff in H. destruct H as [H _].
  rewrite forallb_forall in H.
  assert (L : nat_of_ascii c < 256) by apply nat_ascii_bounded.
  specialize (H (nat_of_ascii c)). rewrite ascii_nat_embedding in H.
  apply eqb_prop. apply H. apply in_seq. lia.
Qed.

(* the stop function the models use in each state *)
Definition model_stops : list (string * (ascii -> bool)) :=
  [ ("parser.key", stop_key); ("parser.keyIndex", stop_rbr); ("parser.listItem", stop_item);
    ("parser.val", stop_comma); ("parser.valList", stop_list);
    ("literalParser.key", stop_key_lit); ("literalParser.keyIndex", stop_rbr);
    ("literalParser.listItem", stop_item); ("literalParser.val", stop_none) ].

(* every runesUntil call of the Go code is in a state the model knows and passes the model's
   stop set; every state of the model is read somewhere *)
Definition stops_ok (gs : list (string * list nat)) : bool :=
  forallb (fun e => match assoc_s (fst e) model_stops with Some f => stop_agrees f (snd e) | None => false end) gs
  && forallb (fun m => existsb (fun e => String.eqb (fst e) (fst m)) gs) model_stops.

(* ---------- rune comparisons ---------- *)
Definition expected_rune_sets : list (string * list nat) :=
  [ ("parser.key", [44; 46; 61; 91]); ("parser.listItem", [46; 61; 91]); ("parser.emptyVal", [44]);
    ("parser.valList", [44; 123; 125]); ("runesUntil", [92]);                 (* runesUntilLiteral: none — no escapes *)
    ("literalParser.key", [46; 61; 91]); ("literalParser.listItem", [46; 61; 91]) ].

Fixpoint nats_eqb (a b : list nat) : bool :=
  match a, b with
  | [], [] => true
  | x :: a', y :: b' => Nat.eqb x y && nats_eqb a' b'
  | _, _ => false
  end.

Definition rune_sets_ok (gs : list (string * list nat)) : bool :=
  forallb (fun e => match assoc_s (fst e) gs with Some s => nats_eqb s (snd e) | None => false end) expected_rune_sets
  && forallb (fun g => match assoc_s (fst g) expected_rune_sets with Some _ => true | None => false end) gs.

(* ---------- typedVal as interpreted rules ---------- *)
Inductive tatom := ANonempty | AFirstNe (c : nat).
Inductive ttest := TSt | TFold (w : string) | TEq (w : string) | TAnd (atoms : list tatom) | TElse.
Inductive tres := RStr | RBool (b : bool) | RNull | RInt (n : Z) | RParseInt (base size skip : nat).

Definition strip (p s : string) : option string :=
  if String.prefix p s then Some (substring (String.length p) (String.length s - String.length p) s) else None.

Fixpoint split_on (c : ascii) (s : string) : list string :=
  match s with
  | EmptyString => [EmptyString]
  | String a t =>
      if Ascii.eqb a c then EmptyString :: split_on c t
      else match split_on c t with
           | h :: r => String a h :: r
           | [] => [String a EmptyString]
           end
  end.

Definition parse_nat (s : string) : option nat :=
  match s with
  | EmptyString => None
  | _ => option_map Z.to_nat (digits_val 0 s)
  end.

Definition parse_atom (s : string) : option tatom :=
  if String.eqb s "nonempty" then Some ANonempty
  else match strip "first-ne:" s with
       | Some n => option_map AFirstNe (parse_nat n)
       | None => None
       end.

Fixpoint all_some {A} (l : list (option A)) : option (list A) :=
  match l with
  | [] => Some []
  | Some x :: t => option_map (cons x) (all_some t)
  | None :: _ => None
  end.

Definition parse_test (s : string) : option ttest :=
  if String.eqb s "st" then Some TSt
  else if String.eqb s "else" then Some TElse
  else match strip "fold:" s with
       | Some w => Some (TFold w)
       | None =>
           match strip "eq:" s with
           | Some w => Some (TEq w)
           | None =>
               match strip "and:" s with
               | Some r => option_map TAnd (all_some (map parse_atom (split_on "&" r)))
               | None => None
               end
           end
       end.

Definition parse_res (s : string) : option tres :=
  if String.eqb s "str" then Some RStr
  else if String.eqb s "null" then Some RNull
  else if String.eqb s "bool:true" then Some (RBool true)
  else if String.eqb s "bool:false" then Some (RBool false)
  else match strip "int:" s with
       | Some n => option_map (fun k => RInt (Z.of_nat k)) (parse_nat n)
       | None =>
           match strip "parseint:" s with
           | Some r =>
               match split_on ":" r with
               | [b; z] => match parse_nat b, parse_nat z with Some b', Some z' => Some (RParseInt b' z' 0) | _, _ => None end
               | [b; z; k] =>
                   match parse_nat b, parse_nat z, strip "skip" k with
                   | Some b', Some z', Some k' => option_map (RParseInt b' z') (parse_nat k')
                   | _, _, _ => None
                   end
               | _ => None
               end
           | None => None
           end
       end.

Definition parse_rules (l : list (string * string)) : option (list (ttest * tres)) :=
  all_some (map (fun p => match parse_test (fst p), parse_res (snd p) with Some t, Some r => Some (t, r) | _, _ => None end) l).

Definition atom_holds (v : string) (a : tatom) : bool :=
  match a with
  | ANonempty => negb (String.eqb v EmptyString)
  | AFirstNe c => match v with String ch _ => negb (Nat.eqb (nat_of_ascii ch) c) | EmptyString => true end
  end.

Definition test_holds (t : ttest) (st : bool) (v : string) : bool :=
  match t with
  | TSt => st
  | TFold w => eq_fold2 v w                  (* strings.EqualFold(val, w) *)
  | TEq w => String.eqb v w                  (* val == w *)
  | TAnd atoms => forallb (atom_holds v) atoms
  | TElse => true
  end.

(* the rules in order; a ParseInt rule whose parse fails goes on after [skip] further rules (the
   rest of its switch); None = the rules do not define a result (or ParseInt is not base 10 / 64 bits) *)
Fixpoint interp (skip : nat) (rules : list (ttest * tres)) (st : bool) (v : string) : option val :=
  match rules with
  | [] => None
  | (t, r) :: rest =>
      match skip with
      | S k => interp k rest st v
      | O =>
          if test_holds t st v then
            match r with
            | RStr => Some (VStr v)
            | RBool b => Some (VBool b)
            | RNull => Some VNull
            | RInt n => Some (VNum n)
            | RParseInt b z k =>
                if Nat.eqb b 10 && Nat.eqb z 64
                then match parse_int v with Some n => Some (VNum n) | None => interp k rest st v end
                else None
            end
          else interp 0 rest st v
      end
  end.

Definition go_rules_parsed : option (list (ttest * tres)) := Eval vm_compute in parse_rules go_typed_rules.

Lemma eq_fold2_zero_b : forall v, eq_fold2 v "0" = String.eqb v "0".
Proof.
  intros v. destruct (String.eqb v "0") eqn:E.
  - apply String.eqb_eq in E. subst. reflexivity.
  - destruct (eq_fold2 v "0") eqn:F; [|reflexivity]. apply eq_fold2_zero in F. subst. discriminate.
Qed.

Lemma first_ne_zero : forall c, Nat.eqb (nat_of_ascii c) 48 = ch_eq c "0".
Proof.
  intros c. destruct (ch_eq c "0") eqn:E.
  - apply Ascii.eqb_eq in E. subst. reflexivity.
  - apply Nat.eqb_neq. intros H. apply Ascii.eqb_neq in E. apply E.
    rewrite <- (ascii_nat_embedding c), H. reflexivity.
Qed.

(* typedVal of the Go source = the model's typed_val2, for every flag and every string *)
Theorem typed_rules_ok :
  exists rules, go_rules_parsed = Some rules /\ forall st v, interp 0 rules st v = Some (typed_val2 st v).
Proof.
  eexists. split; [reflexivity|].
  intros st v. unfold typed_val2. cbn [interp test_holds forallb atom_holds Nat.eqb andb].
  rewrite ?eq_fold2_zero_b.
  destruct st; [reflexivity|].
  destruct (eq_fold2 v "true"); [reflexivity|].
  destruct (eq_fold2 v "false"); [reflexivity|].
  destruct (eq_fold2 v "null"); [reflexivity|].
  destruct (String.eqb v "0"); [reflexivity|].
  destruct v as [|c t]; [reflexivity|].
  cbn [String.eqb negb andb]. rewrite ?first_ne_zero, ?andb_true_r.
  destruct (ch_eq c "0"); cbn [negb]; [reflexivity|].
  destruct (parse_int (String c t)); reflexivity.
Qed.

(* ---------- range checks ---------- *)
Definition fns_of (name : string) (tbl : list (string * list (Z -> Z -> Z -> bool))) : list (Z -> Z -> Z -> bool) :=
  match assoc_s name tbl with Some l => l | None => [] end.

Definition any_holds (fs : list (Z -> Z -> Z -> bool)) (index len level : Z) : bool :=
  existsb (fun f => f index len level) fs.

(* the nesting-level test of the models, on integers *)
Lemma level_test_Z : forall lvl : nat,
  Nat.ltb max_nested_name_level (S lvl) = (Z.of_nat max_nested_name_level <? Z.of_nat lvl + 1)%Z.
Proof. intros lvl. unfold max_nested_name_level. destruct (Nat.ltb 30 (S lvl)) eqn:E; lia. Qed.

Theorem range_checks_ok :
  (* setIndex rejects exactly the indexes outside 0..MaxIndex, whatever the form and order of its tests … *)
  (forall index len level,
     any_holds (fns_of "setIndex" go_error_guards) index len level = ((index <? 0) || (max_index <? index))%Z)
  (* … and allocates a longer list exactly when the index is not inside the list *)
  /\ (List.length (fns_of "setIndex" go_len_conds) = 1
      /\ forall f, In f (fns_of "setIndex" go_len_conds) -> forall index len level, f index len level = (len <=? index)%Z)
  (* listItem of both parsers rejects exactly the negative indexes up front *)
  /\ (forall index len level, any_holds (fns_of "parser.listItem" go_error_guards) index len level = (index <? 0)%Z)
  /\ (forall index len level, any_holds (fns_of "literalParser.listItem" go_error_guards) index len level = (index <? 0)%Z)
  (* the nesting-level tests: one in key(), two in listItem() ('[' and '.'), each on the level after its increment *)
  /\ (List.length (fns_of "parser.key" go_level_guards) = 1 /\ List.length (fns_of "parser.listItem" go_level_guards) = 2
      /\ List.length (fns_of "literalParser.key" go_level_guards) = 1 /\ List.length (fns_of "literalParser.listItem" go_level_guards) = 2)
  /\ (forall f, In f (fns_of "parser.key" go_level_guards ++ fns_of "parser.listItem" go_level_guards
                      ++ fns_of "literalParser.key" go_level_guards ++ fns_of "literalParser.listItem" go_level_guards)%list ->
        forall index len level, f index len level = (Z.of_nat max_nested_name_level <? level + 1)%Z)
  (* "is there an element at list[i]": two places in each listItem, the model's in_range for i >= 0 *)
  /\ (List.length (fns_of "parser.listItem" go_len_conds) = 2 /\ List.length (fns_of "literalParser.listItem" go_len_conds) = 2)
  /\ (forall f, In f (fns_of "parser.listItem" go_len_conds ++ fns_of "literalParser.listItem" go_len_conds)%list ->
        forall index len level, f index len level = (index <? len)%Z)
  (* nothing else in these functions tests the index, the length or the level *)
  /\ forallb (fun e => match snd e with [] => true | _ => false end) go_other_conds = true
  /\ fns_of "parser.key" go_error_guards = [] /\ fns_of "literalParser.key" go_error_guards = []
  /\ fns_of "setIndex" go_level_guards = [] /\ fns_of "parser.key" go_len_conds = [] /\ fns_of "literalParser.key" go_len_conds = [].
Proof.
  unfold any_holds.
  repeat match goal with |- _ /\ _ => split end;
    try reflexivity;
    try (intros index len level; cbn; unfold go_max_index, max_index; lia);
    try (intros f Hf index len level; cbn in Hf;
         repeat (destruct Hf as [<-|Hf]; [unfold go_max_nested_name_level, max_nested_name_level, go_max_index, max_index; lia|]);
         contradiction).
Qed.

(* ---------- everything together ---------- *)
Theorem tables_all :
  go_max_index = max_index
  /\ go_max_nested_name_level = max_nested_name_level
  /\ stops_ok go_stop_sets = true
  /\ rune_sets_ok go_rune_sets = true
  /\ go_is_space_users = ["parser.emptyVal"].
Proof. repeat split; vm_compute; reflexivity. Qed.

(* every stop rune of every state is the byte set the translator extracted — for all bytes *)
Lemma stops_all_bytes : forall c,
  stop_key c = mem_nat (nat_of_ascii c) [61; 91; 44; 46]
  /\ stop_key_lit c = mem_nat (nat_of_ascii c) [61; 91; 46]
  /\ stop_item c = mem_nat (nat_of_ascii c) [91; 46; 61]
  /\ stop_rbr c = mem_nat (nat_of_ascii c) [93]
  /\ stop_comma c = mem_nat (nat_of_ascii c) [44]
  /\ stop_list c = mem_nat (nat_of_ascii c) [44; 125]
  /\ stop_none c = mem_nat (nat_of_ascii c) [].
Proof.
  intros c. repeat split; apply stop_agrees_all; vm_compute; reflexivity.
Qed.

(* the models decide with the extracted constants *)
Lemma set_index_uses_table : forall l i v,
  set_index l i v = if (i <? 0)%Z then None else if (go_max_index <? i)%Z then None else Some (set_nth (Z.to_nat i) v l).
Proof. reflexivity. Qed.

(* The document evaluator of Values/Schema2.v never runs out of fuel: on a document that passed
   [supported] and [meta_ok] (and values whose numbers it can read), [ev] started with [fuel_of]
   always returns a verdict.  The argument is the library's own: on one value every schema location
   is entered at most once (scope.checkCycle - here [seen] - stops a second visit), and every step to
   a member makes the value smaller. *)
From Coq Require Import List String Ascii Bool Arith ZArith Lia.
From Helm Require Import Values.Tree Values.Schema2.
Import ListNotations.
Local Open Scope string_scope.

(* ---------- the subschemas of a schema object, by the keyword table ---------- *)

Definition is_list (v : val) : bool := match v with VList _ => true | _ => false end.

Definition kids_of_kind (kd : kind) (x : val) : list val :=
  match kd with
  | KSchema => [x]
  | KSchemaArr => match x with VList l => l | _ => [] end
  | KSchemaMap => match x with VMap mm => map snd mm | _ => [] end
  | KDeps => match x with VMap mm => filter (fun z => negb (is_list z)) (map snd mm) | _ => [] end
  | KItems => match x with VList _ => [] | _ => [x] end
  | _ => []
  end.

(* a schema the evaluator can work on: inside the family and accepted by the metaschema *)
Definition good (dr : draft) (root s : val) : Prop :=
  (exists ar, supported dr root ar s = true) /\ meta_ok dr s = true.

Lemma supported_kids : forall dr root ar m k x kd c,
  supported dr root ar (VMap m) = true -> In (k, x) m -> kw_info dr k = Some (kd, true) ->
  In c (kids_of_kind kd x) -> supported dr root false c = true.
Proof.
  intros dr root ar m k x kd c H Hin Hk Hc. simpl in H. apply andb_prop in H as [_ H].
  induction m as [|[k' x'] t IH]; [contradiction|].
  apply andb_prop in H as [Hh Ht]. destruct Hin as [E|Hin]; [|exact (IH Ht Hin)].
  injection E as -> ->. clear IH Ht. rewrite Hk in Hh. apply andb_prop in Hh as [_ Hh].
  destruct kd; simpl in Hc; try contradiction.
  - destruct Hc as [<-|[]]. exact Hh.
  - destruct x; try contradiction. induction l as [|z l IHl]; [contradiction|].
    apply andb_prop in Hh as [Hz Hl]. destruct Hc as [<-|Hc]; [exact Hz|exact (IHl Hl Hc)].
  - destruct x; try contradiction. apply andb_prop in Hh as [_ Hh].
    induction m as [|[kz z] mm IHm]; [contradiction|].
    apply andb_prop in Hh as [Hz Hm]. destruct Hc as [<-|Hc]; [exact Hz|exact (IHm Hm Hc)].
  - destruct x; try contradiction. apply andb_prop in Hh as [_ Hh].
    induction m as [|[kz z] mm IHm]; [contradiction|].
    apply andb_prop in Hh as [Hz Hm]. simpl in Hc.
    destruct (is_list z) eqn:El; simpl in Hc.
    + exact (IHm Hm Hc).
    + destruct Hc as [<-|Hc]; [|exact (IHm Hm Hc)]. destruct z; try discriminate; exact Hz.
  - destruct x; try contradiction; destruct Hc as [<-|[]]; exact Hh.
Qed.

Lemma meta_kids : forall dr m k x kd b c,
  meta_ok dr (VMap m) = true -> In (k, x) m -> kw_info dr k = Some (kd, b) ->
  In c (kids_of_kind kd x) -> meta_ok dr c = true.
Proof.
  intros dr m k x kd b c H Hin Hk Hc. simpl in H.
  induction m as [|[k' x'] t IH]; [contradiction|].
  apply andb_prop in H as [Hh Ht]. destruct Hin as [E|Hin]; [|exact (IH Ht Hin)].
  injection E as -> ->. clear IH Ht. rewrite Hk in Hh.
  destruct kd; simpl in Hc; try contradiction.
  - destruct Hc as [<-|[]]. exact Hh.
  - destruct x; try contradiction. destruct l as [|y l]; [contradiction|].
    apply andb_prop in Hh as [Hy Hl]. destruct Hc as [<-|Hc]; [exact Hy|]. clear Hy.
    induction l as [|z l IHl]; [contradiction|].
    apply andb_prop in Hl as [Hz Hl]. destruct Hc as [<-|Hc]; [exact Hz|exact (IHl Hl Hc)].
  - destruct x; try contradiction.
    induction m as [|[kz z] mm IHm]; [contradiction|].
    apply andb_prop in Hh as [Hz Hm]. destruct Hc as [<-|Hc]; [exact Hz|exact (IHm Hm Hc)].
  - destruct x; try contradiction.
    induction m as [|[kz z] mm IHm]; [contradiction|].
    apply andb_prop in Hh as [Hz Hm]. simpl in Hc.
    destruct (is_list z) eqn:El; simpl in Hc.
    + exact (IHm Hm Hc).
    + destruct Hc as [<-|Hc]; [|exact (IHm Hm Hc)]. destruct z; try discriminate; exact Hz.
  - destruct x; try contradiction; destruct Hc as [<-|[]]; exact Hh.
Qed.

Lemma good_kids : forall dr root m k x kd c,
  good dr root (VMap m) -> In (k, x) m -> kw_info dr k = Some (kd, true) ->
  In c (kids_of_kind kd x) -> good dr root c.
Proof.
  intros dr root m k x kd c [[ar Hs] Hm] Hin Hk Hc. split.
  - exists false. exact (supported_kids dr root ar m k x kd c Hs Hin Hk Hc).
  - exact (meta_kids dr m k x kd true c Hm Hin Hk Hc).
Qed.

Ltac member_head H Hin :=
  simpl in H; apply andb_prop in H as [_ H];
  match type of Hin with
  | In _ ?m =>
      let IH := fresh "IH" in let kk := fresh "kk" in let xx := fresh "xx" in let tt := fresh "tt" in
      let Hh := fresh "Hh" in let Ht := fresh "Ht" in let E := fresh "E" in
      induction m as [|[kk xx] tt IH]; [contradiction|];
      apply andb_prop in H as [Hh Ht];
      destruct Hin as [E|Hin]; [|exact (IH Ht Hin)];
      injection E as -> ->; clear IH Ht; rename Hh into Hhead
  end.

Lemma supported_ref : forall dr root ar m r,
  supported dr root ar (VMap m) = true -> In ("$ref", VStr r) m -> kw_info dr "$ref" = Some (KRef, true) ->
  exists p t, parse_ref r = Some p /\ lookup_ptr root p = Some t /\ (is_table t = true \/ exists b, t = VBool b).
Proof.
  intros dr root ar m r H Hin Hk. member_head H Hin.
  rewrite Hk in Hhead. apply andb_prop in Hhead as [_ Hh].
  destruct (parse_ref r) as [p|] eqn:Ep; [|discriminate].
  destruct (lookup_ptr root p) as [t|] eqn:El; [|discriminate].
  exists p, t. split; [reflexivity|]. split; [exact El|].
  destruct t; try discriminate; [right; eexists; reflexivity|left; reflexivity].
Qed.

Lemma supported_items_form : forall dr root ar m x,
  supported dr root ar (VMap m) = true -> In ("items", x) m -> kw_info dr "items" = Some (KItems, true) ->
  is_list x = false.
Proof.
  intros dr root ar m x H Hin Hk. member_head H Hin.
  rewrite Hk in Hhead. apply andb_prop in Hhead as [_ Hh]. destruct x; try reflexivity. discriminate.
Qed.

(* draft-07: the entries of a "$defs" member are checked although the draft does not know it *)
Lemma supported_defs7 : forall dr root ar m mm c,
  supported dr root ar (VMap m) = true -> In ("$defs", VMap mm) m -> kw_info dr "$defs" = None ->
  In c (map snd mm) -> supported dr root false c = true /\ meta_ok dr c = true.
Proof.
  intros dr root ar m mm c H Hin Hk Hc. member_head H Hin.
  rewrite Hk in Hhead. simpl in Hhead. rename Hhead into Hh.
  induction mm as [|[kz z] mm IHm]; [contradiction|].
  apply andb_prop in Hh as [Hz Hm]. apply andb_prop in Hz as [Hz1 Hz2].
  destruct Hc as [<-|Hc]; [now split|exact (IHm Hm Hc)].
Qed.

Lemma mget_In : forall k m x, mget k m = Some x -> In (k, x) m.
Proof.
  induction m as [|[k' x'] t IH]; simpl; intros x H; [discriminate|].
  destruct (String.eqb k k') eqn:E.
  - apply String.eqb_eq in E as ->. injection H as ->. now left.
  - right. now apply IH.
Qed.

Lemma kw_In : forall dr m k x, kw dr m k = Some x ->
  In (k, x) m /\ exists kd, kw_info dr k = Some (kd, true).
Proof.
  intros dr m k x H. unfold kw, kw_active in H.
  destruct (kw_info dr k) as [[kd [|]]|] eqn:E; try discriminate.
  split; [now apply mget_In|now exists kd].
Qed.

(* the target of a "$ref" is again a good schema *)
Lemma good_ref_target : forall dr root p t,
  good dr root root -> lookup_ptr root p = Some t ->
  (p = [] \/ exists n, p = [TK "$defs"; TK n] \/ p = [TK "definitions"; TK n]) ->
  good dr root t.
Proof.
  intros dr root p t Hg Hl [->|(n & [->| ->])].
  - simpl in Hl. injection Hl as <-. exact Hg.
  - simpl in Hl. destruct root as [| | | | | |rm]; try discriminate.
    destruct (mget "$defs" rm) as [dx|] eqn:Ed; [|discriminate].
    destruct dx as [| | | | | |dm]; try discriminate.
    destruct (mget n dm) as [t'|] eqn:En; [|discriminate]. injection Hl as ->.
    apply mget_In in Ed. apply mget_In in En.
    assert (Hc : In t (map snd dm)) by (apply in_map_iff; now exists (n, t)).
    destruct (kw_info dr "$defs") as [[kd b]|] eqn:Ek.
    + assert (kd = KSchemaMap /\ b = true) as [-> ->] by (destruct dr; vm_compute in Ek; inversion Ek; now split).
      exact (good_kids dr (VMap rm) rm "$defs" (VMap dm) KSchemaMap t Hg Ed Ek Hc).
    + destruct Hg as [[ar Hs] Hm].
      destruct (supported_defs7 dr (VMap rm) ar rm dm t Hs Ed Ek Hc) as [H1 H2].
      split; [now exists false|exact H2].
  - simpl in Hl. destruct root as [| | | | | |rm]; try discriminate.
    destruct (mget "definitions" rm) as [dx|] eqn:Ed; [|discriminate].
    destruct dx as [| | | | | |dm]; try discriminate.
    destruct (mget n dm) as [t'|] eqn:En; [|discriminate]. injection Hl as ->.
    apply mget_In in Ed. apply mget_In in En.
    assert (Hc : In t (map snd dm)) by (apply in_map_iff; now exists (n, t)).
    assert (Ek : kw_info dr "definitions" = Some (KSchemaMap, true)) by (destruct dr; reflexivity).
    exact (good_kids dr (VMap rm) rm "definitions" (VMap dm) KSchemaMap t Hg Ed Ek Hc).
Qed.

Lemma parse_ref_shape : forall r p, parse_ref r = Some p ->
  p = [] \/ exists n, p = [TK "$defs"; TK n] \/ p = [TK "definitions"; TK n].
Proof.
  intros r p H. unfold parse_ref in H.
  destruct (String.eqb r "#"); [injection H as <-; now left|].
  destruct (after_prefix "#/$defs/" r) as [n|].
  - destruct (plain_name n && negb (String.eqb n "")); [|discriminate]. injection H as <-. right. exists n. now left.
  - destruct (after_prefix "#/definitions/" r) as [n|]; [|discriminate].
    destruct (plain_name n && negb (String.eqb n "")); [|discriminate]. injection H as <-. right. exists n. now right.
Qed.

(* ---------- one evaluation step gives a verdict when its callbacks do ---------- *)

Definition children (dr : draft) (m : vmap) : list val :=
  flat_map (fun kv => match kw_info dr (fst kv) with
                      | Some (kd, true) => kids_of_kind kd (snd kv)
                      | _ => []
                      end) m.

Lemma good_children : forall dr root m c, good dr root (VMap m) -> In c (children dr m) -> good dr root c.
Proof.
  intros dr root m c Hg Hc. unfold children in Hc. apply in_flat_map in Hc as ([k x] & Hin & Hc). simpl in Hc.
  destruct (kw_info dr k) as [[kd [|]]|] eqn:E; try contradiction.
  exact (good_kids dr root m k x kd c Hg Hin E Hc).
Qed.

Lemma kw_children : forall dr m k x kd c,
  kw dr m k = Some x -> kw_info dr k = Some (kd, true) -> In c (kids_of_kind kd x) -> In c (children dr m).
Proof.
  intros dr m k x kd c H Hk Hc. apply kw_In in H as [Hin _].
  unfold children. apply in_flat_map. exists (k, x). split; [exact Hin|]. simpl. now rewrite Hk.
Qed.

Lemma kw_kind : forall dr m k x, kw dr m k = Some x -> exists kd, kw_info dr k = Some (kd, true).
Proof. intros dr m k x H. now apply kw_In in H as [_ H]. Qed.

(* the metaschema kind of the keys [step] descends into *)
Ltac kind_fact := intros dr kd H; destruct dr; vm_compute in H; try discriminate; now inversion H.

Lemma kind_schema_keys : forall k, In k ["not"; "if"; "then"; "else"; "contains"; "additionalProperties"; "propertyNames"] ->
  forall dr kd, kw_info dr k = Some (kd, true) -> kd = KSchema.
Proof. intros k Hk. repeat (destruct Hk as [<-|Hk]; [kind_fact|]). contradiction. Qed.

Lemma kind_arr_keys : forall k, In k ["allOf"; "anyOf"; "oneOf"; "prefixItems"] ->
  forall dr kd, kw_info dr k = Some (kd, true) -> kd = KSchemaArr.
Proof. intros k Hk. repeat (destruct Hk as [<-|Hk]; [kind_fact|]). contradiction. Qed.

Lemma kind_map_keys : forall k, In k ["properties"; "dependentSchemas"] ->
  forall dr kd, kw_info dr k = Some (kd, true) -> kd = KSchemaMap.
Proof. intros k Hk. repeat (destruct Hk as [<-|Hk]; [kind_fact|]). contradiction. Qed.

Lemma kind_dependencies : forall dr kd, kw_info dr "dependencies" = Some (kd, true) -> kd = KDeps.
Proof. kind_fact. Qed.

Lemma kind_ref : forall dr kd, kw_info dr "$ref" = Some (kd, true) -> kd = KRef.
Proof. kind_fact. Qed.

Lemma kind_items : forall dr kd, kw_info dr "items" = Some (kd, true) ->
  if ge2020 dr then kd = KSchema else kd = KItems.
Proof. intros dr kd H; destruct dr; vm_compute in H; simpl; now inversion H. Qed.

Lemma oall_not_none : forall l, (forall x, In x l -> x <> None) -> oall l <> None.
Proof.
  induction l as [|a t IH]; simpl; intros H; [discriminate|].
  destruct a as [b|]; [|now elim (H None (or_introl eq_refl))].
  destruct (oall t) eqn:E; [discriminate|]. elim IH; [|reflexivity]. intros x Hx. apply H. now right.
Qed.

Lemma ocount_not_none : forall l, (forall x, In x l -> x <> None) -> ocount l <> None.
Proof.
  induction l as [|a t IH]; simpl; intros H; [discriminate|].
  destruct a as [b|]; [|now elim (H None (or_introl eq_refl))].
  destruct (ocount t) eqn:E; [discriminate|]. elim IH; [|reflexivity]. intros x Hx. apply H. now right.
Qed.

Lemma option_map_not_none : forall {A B} (f : A -> B) o, o <> None -> option_map f o <> None.
Proof. intros A B f [a|] H; [discriminate|now elim H]. Qed.

Lemma in_mapi_from' : forall {A B} (f : nat -> A -> B) l k y,
  In y (mapi_from k f l) -> exists i a, In a l /\ nth_error l i = Some a /\ y = f (k + i)%nat a.
Proof.
  intros A B f. induction l as [|x t IH]; simpl; intros k y H; [contradiction|].
  destruct H as [<-|H].
  - exists O, x. repeat split; [now left|now rewrite Nat.add_0_r].
  - apply IH in H as (i & a & Hin & Hn & ->). exists (S i), a. repeat split; [now right|exact Hn|f_equal; lia].
Qed.

Definition member_of (x v : val) : Prop :=
  match v with
  | VMap o => exists k, In (k, x) o
  | VList a => In x a
  | _ => False
  end.

Definition key_of (n : string) (v : val) : Prop :=
  match v with VMap o => exists x, In (n, x) o | _ => False end.

Lemma kw_mget : forall dr m k x, kw dr m k = Some x -> mget k m = Some x.
Proof. intros dr m k x H. unfold kw in H. destruct (kw_active dr k); [exact H|discriminate]. Qed.

Lemma unique_mget : forall m k x, keys_unique m = true -> In (k, x) m -> mget k m = Some x.
Proof.
  induction m as [|[k' x'] t IH]; simpl; intros k x Hu Hin; [contradiction|].
  apply andb_prop in Hu as [Hh Ht]. destruct Hin as [E|Hin].
  - injection E as -> ->. now rewrite String.eqb_refl.
  - destruct (String.eqb k k') eqn:Ek; [|now apply IH].
    apply String.eqb_eq in Ek as <-. apply negb_true_iff in Hh.
    assert (existsb (fun kv => String.eqb k (fst kv)) t = true).
    { apply existsb_exists. exists (k, x). split; [exact Hin|apply String.eqb_refl]. }
    congruence.
Qed.

Lemma supported_unique : forall dr root ar m k mm kd,
  supported dr root ar (VMap m) = true -> In (k, VMap mm) m -> kw_info dr k = Some (kd, true) ->
  kd = KSchemaMap \/ kd = KDeps -> keys_unique mm = true.
Proof.
  intros dr root ar m k mm kd H Hin Hk Hkd. member_head H Hin.
  rewrite Hk in Hhead. apply andb_prop in Hhead as [_ Hh].
  destruct Hkd as [-> | ->]; now apply andb_prop in Hh as [Hh _].
Qed.

Section StepSome.
  Variables (dr : draft) (root : val) (m : vmap) (here : ptr).
  Variable self : ptr -> val -> option bool.
  Variable follow : ptr -> option bool.
  Variable child : ptr -> val -> val -> option bool.
  Variable names : ptr -> val -> string -> option bool.
  Variable v : val.
  Hypothesis Hgood : good dr root (VMap m).
  Hypothesis Hnums : nums_ok v = true.
  (* the callbacks answer on every subschema c of m, called with its location here ++ suf *)
  Hypothesis Hself : forall c suf, In c (children dr m) -> lookup_ptr (VMap m) suf = Some c ->
                                   self (here ++ suf)%list c <> None.
  Hypothesis Hchild : forall c suf x, In c (children dr m) -> lookup_ptr (VMap m) suf = Some c -> member_of x v ->
                                      child (here ++ suf)%list c x <> None.
  Hypothesis Hnames : forall c suf n, In c (children dr m) -> lookup_ptr (VMap m) suf = Some c -> key_of n v ->
                                      names (here ++ suf)%list c n <> None.
  Hypothesis Hfollow : forall r p, kw dr m "$ref" = Some (VStr r) -> parse_ref r = Some p -> follow p <> None.

  Lemma kid_schema : forall k x, In k ["not"; "if"; "then"; "else"; "contains"; "additionalProperties"; "propertyNames"] ->
    kw dr m k = Some x -> In x (children dr m) /\ lookup_ptr (VMap m) [TK k] = Some x.
  Proof.
    intros k x Hk H. split.
    - destruct (kw_kind _ _ _ _ H) as (kd & Hkd).
      rewrite (kind_schema_keys k Hk dr kd Hkd) in Hkd. apply (kw_children dr m k x KSchema x H Hkd). now left.
    - simpl. now rewrite (kw_mget _ _ _ _ H).
  Qed.

  Lemma kid_arr : forall k l i c, In k ["allOf"; "anyOf"; "oneOf"; "prefixItems"] ->
    kw dr m k = Some (VList l) -> nth_error l i = Some c ->
    In c (children dr m) /\ lookup_ptr (VMap m) [TK k; TI i] = Some c.
  Proof.
    intros k l i c Hk H Hc. split.
    - destruct (kw_kind _ _ _ _ H) as (kd & Hkd).
      rewrite (kind_arr_keys k Hk dr kd Hkd) in Hkd.
      apply (kw_children dr m k (VList l) KSchemaArr c H Hkd). simpl. now apply nth_error_In with i.
    - simpl. now rewrite (kw_mget _ _ _ _ H), Hc.
  Qed.

  Lemma a_ref_some : a_ref dr m follow <> None.
  Proof.
    unfold a_ref. destruct (kw dr m "$ref") as [x|] eqn:E; [|discriminate].
    destruct x; try discriminate.
    destruct (kw_In _ _ _ _ E) as (Hin & kd & Hkd). pose proof (kind_ref dr kd Hkd) as ->.
    destruct Hgood as [[ar Hs] _].
    destruct (supported_ref dr root ar m s Hs Hin Hkd) as (p & t & Hp & _).
    rewrite Hp. now apply (Hfollow s p).
  Qed.

  Lemma a_self_kw_some : forall k, In k ["then"; "else"] -> a_self_kw dr m here self k <> None.
  Proof.
    intros k Hk. unfold a_self_kw. destruct (kw dr m k) as [s|] eqn:E; [|discriminate].
    destruct (kid_schema k s) as [H1 H2]; [simpl in *; tauto|exact E|]. exact (Hself s [TK k] H1 H2).
  Qed.

  Lemma a_not_some : a_not dr m here self <> None.
  Proof.
    unfold a_not. destruct (kw dr m "not") as [s|] eqn:E; [|discriminate].
    apply option_map_not_none. destruct (kid_schema "not" s) as [H1 H2]; [simpl; tauto|exact E|].
    exact (Hself s [TK "not"] H1 H2).
  Qed.

  Lemma mapi_self_some : forall k l, In k ["allOf"; "anyOf"; "oneOf"] -> kw dr m k = Some (VList l) ->
    forall y, In y (mapi_from 0 (fun i s => self (at_idx here k i) s) l) -> y <> None.
  Proof.
    intros k l Hk H y Hy. apply in_mapi_from' in Hy as (i & s & Hin & Hn & ->). cbn [Nat.add].
    destruct (kid_arr k l i s) as [H1 H2]; [simpl in *; tauto|exact H|exact Hn|].
    exact (Hself s [TK k; TI i] H1 H2).
  Qed.

  Lemma a_all_of_some : a_all_of dr m here self <> None.
  Proof.
    unfold a_all_of. destruct (kw dr m "allOf") as [x|] eqn:E; [|discriminate].
    destruct x; try discriminate. apply oall_not_none. apply (mapi_self_some "allOf" l); [simpl; tauto|exact E].
  Qed.

  Lemma a_any_of_some : a_any_of dr m here self <> None.
  Proof.
    unfold a_any_of. destruct (kw dr m "anyOf") as [x|] eqn:E; [|discriminate].
    destruct x; try discriminate. destruct l as [|s0 l]; [discriminate|].
    apply option_map_not_none, ocount_not_none. apply (mapi_self_some "anyOf" (s0 :: l)); [simpl; tauto|exact E].
  Qed.

  Lemma a_one_of_some : a_one_of dr m here self <> None.
  Proof.
    unfold a_one_of. destruct (kw dr m "oneOf") as [x|] eqn:E; [|discriminate].
    destruct x; try discriminate. destruct l as [|s0 l]; [discriminate|].
    apply option_map_not_none, ocount_not_none. apply (mapi_self_some "oneOf" (s0 :: l)); [simpl; tauto|exact E].
  Qed.

  Lemma a_if_some : a_if dr m here self <> None.
  Proof.
    unfold a_if. destruct (kw dr m "if") as [s|] eqn:E; [|discriminate].
    assert (Hs : self (at_kw here "if") s <> None).
    { destruct (kid_schema "if" s) as [H1 H2]; [simpl; tauto|exact E|]. exact (Hself s [TK "if"] H1 H2). }
    destruct (self (at_kw here "if") s) as [[|]|]; [| |now elim Hs]; apply a_self_kw_some; simpl; tauto.
  Qed.

  Lemma a_dep_schemas_some : forall k o, In k ["dependencies"; "dependentSchemas"] ->
    a_dep_schemas dr m here self k o <> None.
  Proof.
    intros k o Hk. unfold a_dep_schemas. destruct (kw dr m k) as [x|] eqn:E; [|discriminate].
    destruct x as [| | | | | |deps]; try discriminate. apply oall_not_none. intros y Hy.
    apply in_map_iff in Hy as ([p s] & <- & Hin). simpl.
    assert (Hc : is_list s = false -> In s (children dr m) /\ lookup_ptr (VMap m) [TK k; TK p] = Some s).
    { intros Hl. destruct (kw_In _ _ _ _ E) as (Hinm & kd & Hkd). destruct Hgood as [[ar Hs] _].
      assert (Hkind : (k = "dependencies" /\ kd = KDeps) \/ (k = "dependentSchemas" /\ kd = KSchemaMap)).
      { destruct Hk as [<-|[<-|[]]].
        - left. split; [reflexivity|exact (kind_dependencies dr kd Hkd)].
        - right. split; [reflexivity|exact (kind_map_keys "dependentSchemas" (or_intror (or_introl eq_refl)) dr kd Hkd)]. }
      assert (Hu : keys_unique deps = true).
      { apply (supported_unique dr root ar m k deps kd Hs Hinm Hkd). destruct Hkind as [[_ ->]|[_ ->]]; tauto. }
      split.
      - apply (kw_children dr m k (VMap deps) kd s E Hkd).
        destruct Hkind as [[_ ->]|[_ ->]]; simpl.
        + apply filter_In. split; [apply in_map_iff; now exists (p, s)|now rewrite Hl].
        + apply in_map_iff. now exists (p, s).
      - simpl. rewrite (kw_mget _ _ _ _ E). now rewrite (unique_mget deps p s Hu Hin). }
    destruct s; try discriminate;
      (destruct (mhas p o); [|discriminate]; destruct Hc as [H1 H2]; [reflexivity|]; exact (Hself _ [TK k; TK p] H1 H2)).
  Qed.

  Lemma a_properties_some : forall o, v = VMap o -> a_properties dr m here child o <> None.
  Proof.
    intros o Hv. unfold a_properties. apply oall_not_none. intros y Hy.
    apply in_map_iff in Hy as ([pn pv] & <- & Hin). simpl. unfold a_member.
    assert (Hmem : member_of pv v) by (rewrite Hv; simpl; now exists pn).
    destruct (match kw dr m "properties" with Some (VMap ps) => mget pn ps | _ => None end) as [sp|] eqn:Ep.
    - destruct (kw dr m "properties") as [x|] eqn:E; [|discriminate].
      destruct x as [| | | | | |ps]; try discriminate.
      apply (Hchild sp [TK "properties"; TK pn]); [| |exact Hmem].
      + destruct (kw_kind _ _ _ _ E) as (kd & Hkd).
        rewrite (kind_map_keys "properties" (or_introl eq_refl) dr kd Hkd) in Hkd.
        apply (kw_children dr m "properties" (VMap ps) KSchemaMap sp E Hkd). simpl.
        apply in_map_iff. exists (pn, sp). split; [reflexivity|now apply mget_In].
      + simpl. now rewrite (kw_mget _ _ _ _ E), Ep.
    - destruct (kw dr m "additionalProperties") as [sa|] eqn:E; [|discriminate].
      destruct (kid_schema "additionalProperties" sa) as [H1 H2]; [simpl; tauto|exact E|].
      exact (Hchild sa [TK "additionalProperties"] pv H1 H2 Hmem).
  Qed.

  Lemma a_property_names_some : forall o, v = VMap o -> a_property_names dr m here names o <> None.
  Proof.
    intros o Hv. unfold a_property_names. destruct (kw dr m "propertyNames") as [sn|] eqn:E; [|discriminate].
    apply oall_not_none. intros y Hy. apply in_map_iff in Hy as ([pn pv] & <- & Hin). simpl.
    destruct (kid_schema "propertyNames" sn) as [H1 H2]; [simpl; tauto|exact E|].
    apply (Hnames sn [TK "propertyNames"] pn H1 H2). rewrite Hv. simpl. now exists pv.
  Qed.

  Lemma a_items_some : forall a, v = VList a -> a_items dr m here child a <> None.
  Proof.
    intros a Hv. unfold a_items. destruct (ge2020 dr) eqn:Ed.
    - apply oall_not_none. intros y Hy. apply in_mapi_from' in Hy as (i & x & Hin & _ & ->).
      assert (Hmem : member_of x v) by (rewrite Hv; exact Hin).
      cbn [Nat.add].
      match goal with |- context [nth_error ?l i] => destruct (nth_error l i) as [sp|] eqn:En end.
      + destruct (kw dr m "prefixItems") as [px|] eqn:E; [|destruct i; discriminate].
        destruct px as [| | | | |ps|]; try (destruct i; discriminate).
        destruct (kid_arr "prefixItems" ps i sp) as [H1 H2]; [simpl; tauto|exact E|exact En|].
        exact (Hchild sp [TK "prefixItems"; TI i] x H1 H2 Hmem).
      + destruct (kw dr m "items") as [si|] eqn:E; [|discriminate].
        apply (Hchild si [TK "items"] x); [| |exact Hmem].
        * destruct (kw_kind _ _ _ _ E) as (kd & Hkd).
          pose proof (kind_items dr kd Hkd) as Hki. rewrite Ed in Hki. subst kd.
          apply (kw_children dr m "items" si KSchema si E Hkd). now left.
        * simpl. now rewrite (kw_mget _ _ _ _ E).
    - destruct (kw dr m "items") as [si|] eqn:E; [|discriminate].
      destruct (kw_In _ _ _ _ E) as (Hin & kd & Hkd).
      pose proof (kind_items dr kd Hkd) as Hki. rewrite Ed in Hki. subst kd.
      destruct Hgood as [[ar Hs] _].
      pose proof (supported_items_form dr root ar m si Hs Hin Hkd) as Hl.
      assert (Hc : In si (children dr m)).
      { apply (kw_children dr m "items" si KItems si E Hkd). destruct si; try discriminate; now left. }
      assert (Hp : lookup_ptr (VMap m) [TK "items"] = Some si) by (simpl; now rewrite (kw_mget _ _ _ _ E)).
      destruct si; try discriminate; (apply oall_not_none; intros y Hy; apply in_map_iff in Hy as (x & <- & Hx);
        apply (Hchild _ [TK "items"] x Hc Hp); rewrite Hv; exact Hx).
  Qed.

  Lemma a_contains_some : forall a, v = VList a -> a_contains dr m here child a <> None.
  Proof.
    intros a Hv. unfold a_contains. destruct (kw dr m "contains") as [sc|] eqn:E; [|discriminate].
    apply option_map_not_none, ocount_not_none. intros y Hy. apply in_map_iff in Hy as (x & <- & Hx).
    destruct (kid_schema "contains" sc) as [H1 H2]; [simpl; tauto|exact E|].
    apply (Hchild sc [TK "contains"] x H1 H2). rewrite Hv. exact Hx.
  Qed.

  Lemma by_kind_some : by_kind dr m here self child names v <> None.
  Proof.
    pose proof a_items_some as Hi. pose proof a_contains_some as Hc.
    pose proof a_properties_some as Hp. pose proof a_property_names_some as Hn.
    pose proof Hnums as Hnum.
    unfold by_kind. destruct v as [| | |s| |a|o]; try discriminate.
    - simpl in *. destruct (parse_dec s); [discriminate|discriminate Hnum].
    - apply oall_not_none. intros x Hx. simpl in Hx.
      destruct Hx as [<-|[<-|[<-|[<-|[]]]]]; try discriminate;
        [now apply Hi|now apply Hc].
    - apply oall_not_none. intros x Hx. simpl in Hx.
      destruct Hx as [<-|[<-|[<-|[<-|[<-|[<-|[<-|[<-|[]]]]]]]]]; try discriminate.
      + apply a_dep_schemas_some. simpl; tauto.
      + now apply Hp.
      + now apply Hn.
      + apply a_dep_schemas_some. simpl; tauto.
  Qed.

  Lemma step_some : step dr m here self follow child names v <> None.
  Proof.
    unfold step. destruct (negb (ge2019 dr) && _).
    - pose proof a_ref_some as H. destruct (a_ref dr m follow); [discriminate|now elim H].
    - apply oall_not_none. intros x Hx. simpl in Hx.
      destruct Hx as [<-|[<-|[<-|[<-|[<-|[<-|[<-|[<-|[<-|[<-|[]]]]]]]]]]]; try discriminate.
      + exact a_ref_some.
      + exact by_kind_some.
      + exact a_not_some.
      + exact a_all_of_some.
      + exact a_any_of_some.
      + exact a_one_of_some.
      + exact a_if_some.
  Qed.
End StepSome.

(* ---------- every schema location at most once per value ---------- *)

Fixpoint all_ptrs (v : val) : list ptr :=
  [] :: match v with
        | VMap m =>
            (fix go (m : list (string * val)) : list ptr :=
               match m with
               | [] => []
               | (k, x) :: t => (map (cons (TK k)) (all_ptrs x) ++ go t)%list
               end) m
        | VList l =>
            (fix go (i : nat) (l : list val) : list ptr :=
               match l with
               | [] => []
               | x :: t => (map (cons (TI i)) (all_ptrs x) ++ go (S i) t)%list
               end) 0%nat l
        | _ => []
        end.

Fixpoint map_ptrs (m : list (string * val)) : list ptr :=
  match m with [] => [] | (k, x) :: t => (map (cons (TK k)) (all_ptrs x) ++ map_ptrs t)%list end.
Fixpoint list_ptrs (i : nat) (l : list val) : list ptr :=
  match l with [] => [] | x :: t => (map (cons (TI i)) (all_ptrs x) ++ list_ptrs (S i) t)%list end.

Lemma all_ptrs_map : forall m, all_ptrs (VMap m) = [] :: map_ptrs m.
Proof. reflexivity. Qed.

Lemma all_ptrs_list : forall l, all_ptrs (VList l) = [] :: list_ptrs 0 l.
Proof. reflexivity. Qed.

Lemma lookup_in_all_ptrs : forall p v t, lookup_ptr v p = Some t -> In p (all_ptrs v).
Proof.
  induction p as [|[k|i] p IH]; intros v t H.
  - destruct v; simpl; now left.
  - simpl in H. destruct v as [| | | | | |m]; try discriminate. rewrite all_ptrs_map. right.
    destruct (mget k m) as [x|] eqn:Eg; [|discriminate]. apply IH in H. clear IH.
    induction m as [|[k' x'] tl IHm]; simpl in *; [discriminate|].
    apply in_or_app. destruct (String.eqb k k') eqn:E.
    + apply String.eqb_eq in E as <-. injection Eg as ->. left. now apply in_map.
    + right. now apply IHm.
  - simpl in H. destruct v as [| | | | |l|]; try discriminate. rewrite all_ptrs_list. right.
    destruct (nth_error l i) as [x|] eqn:En; [|discriminate]. apply IH in H. clear IH.
    assert (G : forall l j i, nth_error l i = Some x -> In (TI (j + i) :: p) (list_ptrs j l)).
    { clear l i En. induction l as [|y tl IHl]; intros j i En; [destruct i; discriminate|].
      simpl. apply in_or_app. destruct i as [|i]; simpl in En.
      - injection En as ->. left. rewrite Nat.add_0_r. now apply in_map.
      - right. replace (j + S i)%nat with (S j + i)%nat by lia. now apply IHl. }
    exact (G l 0%nat i En).
Qed.

Lemma list_ptrs_length : forall l i,
  Forall (fun v => List.length (all_ptrs v) = val_size v) l ->
  List.length (list_ptrs i l)
  = (fix go (l : list val) : nat := match l with [] => O | x :: t => (val_size x + go t)%nat end) l.
Proof.
  induction l as [|x t IHl]; intros i IH; simpl; [reflexivity|].
  inversion IH as [|? ? Hx Ht]; subst. rewrite app_length, map_length. f_equal; [exact Hx|exact (IHl (S i) Ht)].
Qed.

Lemma all_ptrs_length : forall v, List.length (all_ptrs v) = val_size v.
Proof.
  induction v as [| | | | |l IH|m IH] using val_ind'; try reflexivity.
  - rewrite all_ptrs_list. simpl. f_equal. now apply list_ptrs_length.
  - rewrite all_ptrs_map. simpl. f_equal.
    induction m as [|[k x] t IHm]; simpl; [reflexivity|].
    inversion IH as [|? ? Hx Ht]; subst. simpl in Hx. rewrite app_length, map_length. f_equal; [exact Hx|exact (IHm Ht)].
Qed.

Lemma lookup_ptr_app : forall p root s suf,
  lookup_ptr root p = Some s -> lookup_ptr root (p ++ suf)%list = lookup_ptr s suf.
Proof.
  induction p as [|[k|i] p IH]; simpl; intros root s suf H.
  - now injection H as ->.
  - destruct root; try discriminate. destruct (mget k m); [|discriminate]. now apply IH.
  - destruct root; try discriminate. destruct (nth_error l i); [|discriminate]. now apply IH.
Qed.

Lemma tok_eqb_eq : forall a b, tok_eqb a b = true <-> a = b.
Proof.
  intros [x|x] [y|y]; simpl; split; intros H; try discriminate.
  - apply String.eqb_eq in H. now subst.
  - injection H as ->. apply String.eqb_refl.
  - apply Nat.eqb_eq in H. now subst.
  - injection H as ->. apply Nat.eqb_refl.
Qed.

Lemma ptr_eqb_eq : forall a b, ptr_eqb a b = true <-> a = b.
Proof.
  induction a as [|x s IH]; intros [|y t]; simpl; split; intros H; try discriminate; try reflexivity.
  - apply andb_prop in H as [H1 H2]. apply tok_eqb_eq in H1. apply IH in H2. now subst.
  - injection H as -> ->. apply andb_true_intro. split; [now apply tok_eqb_eq|now apply IH].
Qed.

Lemma ptr_mem_false : forall p l, ptr_mem p l = false -> ~ In p l.
Proof.
  intros p l H Hin. unfold ptr_mem in H.
  assert (existsb (ptr_eqb p) l = true) by (apply existsb_exists; exists p; split; [exact Hin|now apply ptr_eqb_eq]).
  congruence.
Qed.

Lemma member_depth : forall x v, member_of x v -> (val_depth x < val_depth v)%nat.
Proof.
  intros x [| | | | |l|m]; simpl; try contradiction.
  - intros Hin. apply Nat.lt_succ_r. induction l as [|y t IH]; [contradiction|].
    destruct Hin as [->|Hin]; [apply Nat.le_max_l|]. etransitivity; [exact (IH Hin)|apply Nat.le_max_r].
  - intros (k & Hin). apply Nat.lt_succ_r. induction m as [|[k' y] t IH]; [contradiction|].
    destruct Hin as [E|Hin]; [injection E as -> ->; apply Nat.le_max_l|]. etransitivity; [exact (IH Hin)|apply Nat.le_max_r].
Qed.

Lemma member_nums : forall x v, member_of x v -> nums_ok v = true -> nums_ok x = true.
Proof.
  intros x [| | | | |l|m]; simpl; try contradiction.
  - intros Hin H. induction l as [|y t IH]; [contradiction|].
    apply andb_prop in H as [Hy Ht]. destruct Hin as [->|Hin]; [exact Hy|exact (IH Hin Ht)].
  - intros (k & Hin) H. induction m as [|[k' y] t IH]; [contradiction|].
    apply andb_prop in H as [Hy Ht]. destruct Hin as [E|Hin]; [injection E as -> ->; exact Hy|exact (IH Hin Ht)].
Qed.

Section Total.
  Variables (dr : draft) (root : val).
  Hypothesis Hroot : good dr root root.
  Let N := val_size root.

  Lemma ev_some : forall fuel seen p s v,
    good dr root s -> lookup_ptr root p = Some s -> nums_ok v = true ->
    NoDup seen -> (forall q, In q seen -> In q (all_ptrs root)) ->
    ((N + 2) * (val_depth v + 1) + (N + 1 - List.length seen) <= fuel)%nat ->
    ev root dr fuel seen p s v <> None.
  Proof.
    induction fuel as [|f IH]; intros seen p s v Hg Hp Hn Hnd Hseen Hf; [lia|].
    assert (Hlen : (List.length seen <= N)%nat).
    { unfold N. rewrite <- all_ptrs_length. apply NoDup_incl_length; [exact Hnd|exact Hseen]. }
    destruct s as [|b| | | | |m]; try (destruct Hg as [_ Hm]; discriminate Hm); [discriminate|].
    destruct m as [|[k x] m]; [discriminate|].
    simpl. destruct (ptr_mem p seen) eqn:Em; [discriminate|].
    assert (Hnd' : NoDup (p :: seen)) by (constructor; [now apply ptr_mem_false|exact Hnd]).
    assert (Hseen' : forall q, In q (p :: seen) -> In q (all_ptrs root)).
    { intros q [<-|Hq]; [exact (lookup_in_all_ptrs p root _ Hp)|now apply Hseen]. }
    assert (Hlen' : (List.length (p :: seen) <= N)%nat).
    { unfold N. rewrite <- all_ptrs_length. apply NoDup_incl_length; [exact Hnd'|exact Hseen']. }
    simpl in Hlen'.
    apply (step_some dr root ((k, x) :: m) p _ _ _ _ v Hg Hn).
    - (* the same value, one more location on the stack *)
      intros c suf Hc Hl. apply IH; try assumption.
      + exact (good_children dr root _ c Hg Hc).
      + now rewrite (lookup_ptr_app p root _ suf Hp).
      + simpl. lia.
    - (* a member of the value *)
      intros c suf y Hc Hl Hy. apply IH.
      + exact (good_children dr root _ c Hg Hc).
      + now rewrite (lookup_ptr_app p root _ suf Hp).
      + exact (member_nums y v Hy Hn).
      + constructor.
      + intros q [].
      + pose proof (member_depth y v Hy). simpl. nia.
    - (* a key of the value, as a string *)
      intros c suf n Hc Hl Hk. apply IH.
      + exact (good_children dr root _ c Hg Hc).
      + now rewrite (lookup_ptr_app p root _ suf Hp).
      + reflexivity.
      + constructor.
      + intros q [].
      + assert (1 <= val_depth v)%nat by (destruct v; simpl in Hk; try contradiction; simpl; lia).
        simpl. nia.
    - (* "$ref" *)
      intros r q Hr Hq.
      destruct (kw_In _ _ _ _ Hr) as (Hin & kd & Hkd). pose proof (kind_ref dr kd Hkd) as ->.
      destruct Hg as [[ar Hs] Hm].
      destruct (supported_ref dr root ar _ r Hs Hin Hkd) as (q' & t & Hq' & Hl & _).
      rewrite Hq in Hq'. injection Hq' as <-. rewrite Hl. apply IH; try assumption.
      + exact (good_ref_target dr root q t Hroot Hl (parse_ref_shape r q Hq)).
      + simpl. lia.
  Qed.
End Total.

(* ValidateAgainstSingleSchema's model always reaches a verdict: never [VFuel] *)
Theorem run_never_out_of_fuel : forall dl doc v, run_with dl doc v <> VFuel.
Proof.
  intros [dr| |] doc v; simpl; try discriminate.
  destruct (supported dr doc true doc && nums_ok v) eqn:Es; simpl; [|discriminate].
  destruct (meta_ok dr doc) eqn:Em; simpl; [|discriminate].
  apply andb_prop in Es as [Hs Hn].
  assert (Hg : good dr doc doc) by (split; [now exists true|exact Em]).
  pose proof (ev_some dr doc Hg (fuel_of doc v) [] [] doc v Hg eq_refl Hn (NoDup_nil _) (fun q H => match H with end)) as H.
  destruct (ev doc dr (fuel_of doc v) [] [] doc v) as [[|]|]; try discriminate.
  elim H; [|reflexivity]. unfold fuel_of. simpl. nia.
Qed.

Corollary doc_verdict_never_out_of_fuel : forall doc v, doc_verdict doc v <> VFuel.
Proof.
  intros doc v. unfold doc_verdict, run. destruct doc; try discriminate; apply run_never_out_of_fuel.
Qed.

(* Proofs about Values/Deps.v: the flag computed by tags-then-conditions is the specification
   "first boolean condition decides, otherwise the tags verdict". *)
From Coq Require Import List String Ascii Bool ZArith.
From Helm Require Import Values.Tree Values.Schema Values.Scope Values.Deps Values.ScopeProofs.
Import ListNotations.
Local Open Scope string_scope.

Lemma cond_loop_spec : forall cvals cpath cs r,
  denabled (cond_loop cvals cpath cs r) =
  match first_bool cvals cpath cs with Some b => b | None => denabled r end.
Proof.
  induction cs as [|c t IH]; intros r; simpl; [reflexivity|].
  destruct (nonempty c); [|apply IH].
  destruct (path_value cvals (cpath ++ c)) as [[| b | | | | |]|]; try apply IH.
  reflexivity.
Qed.

Lemma cond_loop_keeps : forall cvals cpath cs r,
  dname (cond_loop cvals cpath cs r) = dname r /\ dcond (cond_loop cvals cpath cs r) = dcond r
  /\ dtags (cond_loop cvals cpath cs r) = dtags r.
Proof.
  induction cs as [|c t IH]; intros r; simpl; [auto|].
  destruct (nonempty c); [|apply IH].
  destruct (path_value cvals (cpath ++ c)) as [[| b | | | | |]|]; try apply IH.
  simpl; auto.
Qed.

Lemma process_tags_spec : forall reqs cvals,
  Forall (fun r => denabled r = true) reqs ->
  map denabled (process_tags reqs cvals) = map (fun r => tags_enabled cvals (dtags r)) reqs.
Proof.
  intros reqs cvals Hall. unfold process_tags, tags_enabled. simpl.
  destruct (mget "tags" cvals) as [[| ? | ? | ? | ? | ? | vt]|].
  1-6,8: (induction Hall as [|r rs Hr _ IH]; simpl; [reflexivity| now rewrite Hr, IH]).
  rewrite map_map. apply map_ext_in. intros r _.
  destruct (existsb (tag_is vt true) (dtags r)), (existsb (tag_is vt false) (dtags r)); reflexivity.
Qed.

Lemma process_tags_keeps : forall reqs cvals,
  map dname (process_tags reqs cvals) = map dname reqs
  /\ map dcond (process_tags reqs cvals) = map dcond reqs
  /\ map dtags (process_tags reqs cvals) = map dtags reqs.
Proof.
  intros. unfold process_tags. destruct (table_at ["tags"] cvals); [|auto].
  rewrite !map_map. repeat split; apply map_ext; intros r;
    destruct (negb _ && _); simpl; try reflexivity;
    destruct (_ || _); reflexivity.
Qed.

(* tags first, then conditions: the resulting flag is the specification *)
Lemma flag_reqs_enabled : forall reqs cvals path,
  Forall (fun r => denabled r = true) reqs ->
  map denabled (flag_reqs reqs cvals path) = map (enabled_spec cvals path) reqs.
Proof.
  intros reqs cvals path Hall. unfold flag_reqs, process_conditions.
  pose proof (process_tags_spec reqs cvals Hall) as Ht.
  destruct (process_tags_keeps reqs cvals) as (_ & Hc & Hg).
  revert Ht Hc Hg. generalize (process_tags reqs cvals) as l.
  induction reqs as [|r t IH]; intros [|x l] Ht Hc Hg; simpl in *; try discriminate; [reflexivity|].
  inversion Hall; subst. injection Ht as Ht1 Ht2. injection Hc as Hc1 Hc2. injection Hg as Hg1 Hg2.
  f_equal; [|apply IH; assumption].
  rewrite cond_loop_spec. unfold enabled_spec. rewrite Hc1, Ht1. reflexivity.
Qed.

Lemma flag_reqs_names : forall reqs cvals path,
  map dname (flag_reqs reqs cvals path) = map dname reqs.
Proof.
  intros. unfold flag_reqs, process_conditions. rewrite map_map.
  destruct (process_tags_keeps reqs cvals) as (Hn & _). rewrite <- Hn.
  apply map_ext. intros r. apply cond_loop_keeps.
Qed.

(* ---------- the flagged list in closed form ---------- *)

Lemma set_enabled_id : forall r, set_enabled r (denabled r) = r.
Proof. destruct r; reflexivity. Qed.

Lemma cond_loop_closed : forall cvals cpath cs r,
  cond_loop cvals cpath cs r =
  set_enabled r (match first_bool cvals cpath cs with Some b => b | None => denabled r end).
Proof.
  induction cs as [|c t IH]; intros r; simpl; [symmetry; apply set_enabled_id|].
  destruct (nonempty c); [|apply IH].
  destruct (path_value cvals (cpath ++ c)) as [[| b | | | | |]|]; try apply IH.
  reflexivity.
Qed.

Lemma process_tags_closed : forall reqs cvals,
  Forall (fun r => denabled r = true) reqs ->
  process_tags reqs cvals = map (fun r => set_enabled r (tags_enabled cvals (dtags r))) reqs.
Proof.
  intros reqs cvals Hall. unfold process_tags, tags_enabled. simpl.
  destruct (mget "tags" cvals) as [[| ? | ? | ? | ? | ? | vt]|].
  1-6,8: (induction Hall as [|r rs Hr _ IH]; simpl; [reflexivity|];
          rewrite <- IH; f_equal; rewrite <- Hr; symmetry; apply set_enabled_id).
  apply map_ext. intros r.
  destruct (existsb (tag_is vt true) (dtags r)), (existsb (tag_is vt false) (dtags r)); reflexivity.
Qed.

Definition flagged_spec (cvals : vmap) (path : string) (reqs : list dependency) : list dependency :=
  map (fun r => set_enabled r (enabled_spec cvals path r)) reqs.

Lemma flag_reqs_closed : forall reqs cvals path,
  Forall (fun r => denabled r = true) reqs ->
  flag_reqs reqs cvals path = flagged_spec cvals path reqs.
Proof.
  intros. unfold flag_reqs, process_conditions, flagged_spec.
  rewrite process_tags_closed by assumption. rewrite map_map. apply map_ext. intros r.
  rewrite cond_loop_closed. unfold enabled_spec. simpl.
  destruct (first_bool cvals path (split_comma (trim_space (dcond r)))); destruct r; reflexivity.
Qed.

Lemma resolved_reqs_enabled : forall reqs0, Forall (fun r => denabled r = true) (resolved_reqs reqs0).
Proof. intros. unfold resolved_reqs. apply Forall_forall. intros r Hin. apply in_map_iff in Hin as (x & <- & _). reflexivity. Qed.

(* a name survives iff no requirement carrying it is disabled *)
Definition keep_name (cvals : vmap) (path : string) (reqs : list dependency) (n : string) : bool :=
  forallb (fun r => implb (String.eqb (dname r) n) (enabled_spec cvals path r)) reqs.

Lemma not_removed_spec : forall cvals path reqs n,
  not_removed (removed_names (flagged_spec cvals path reqs)) n = keep_name cvals path reqs n.
Proof.
  intros. unfold not_removed, removed_names, flagged_spec, keep_name.
  induction reqs as [|r t IH]; simpl; [reflexivity|].
  destruct (enabled_spec cvals path r) eqn:E; simpl.
  - rewrite IH. destruct (String.eqb (dname r) n); reflexivity.
  - destruct r as [nm ? ? ? ? ? ?]; simpl in *. rewrite String.eqb_sym.
    destruct (String.eqb nm n); simpl; [reflexivity|apply IH].
Qed.

Lemma process_kept_names : forall cd cvals path cd',
  process_kept cd cvals path = Ok cd' -> map cname cd' = map (fun ek => cname (fst ek)) cd.
Proof.
  induction cd as [|[t k] rest IH]; simpl; intros cvals path cd' H.
  - injection H as <-. reflexivity.
  - destruct (k cvals _) as [t'|]; [|discriminate].
    destruct (process_kept rest cvals path) as [l|] eqn:E; [|discriminate].
    injection H as <-. simpl. f_equal. apply (IH _ _ _ E).
Qed.

Lemma pde_unfold : forall compat c, pde compat c = pde_level compat c (kids_of compat c).
Proof.
  intros compat [n ver vals sch deps md tpls crds]. simpl. unfold kids_of. simpl.
  reflexivity.
Qed.

(* one level of processDependencyEnabled, in specification form *)
Lemma pde_body_spec : forall compat c kids v path c',
  pde_body compat c kids v path = Ok c' ->
  let reqs0 := mdeps_list c in
  let ks := resolved_kids compat kids reqs0 in
  let reqs := resolved_reqs reqs0 in
  exists cvals,
    CoalesceValues (set_deps c (map fst ks)) v = Ok cvals
    /\ cmdeps c' = (match filter (fun r => keep_name cvals path reqs (dname r)) (flagged_spec cvals path reqs) with
                    | [] => None | l => Some l end)
    /\ process_kept (filter (fun ek => keep_name cvals path reqs (cname (fst ek))) ks) cvals path = Ok (cdeps c')
    /\ cname c' = cname c /\ cvalues c' = cvalues c /\ cschema c' = cschema c /\ ctemplates c' = ctemplates c.
Proof.
  intros compat c kids v path c' H reqs0 ks reqs. unfold pde_body in H.
  fold reqs0 in H. fold ks reqs in H.
  destruct (CoalesceValues (set_deps c (map fst ks)) v) as [cvals|] eqn:Ec; [|discriminate].
  exists cvals. split; [reflexivity|].
  rewrite (flag_reqs_closed reqs cvals path (resolved_reqs_enabled reqs0)) in H.
  rewrite (filter_ext _ (fun ek => keep_name cvals path reqs (cname (fst ek)))) in H
    by (intros a; apply not_removed_spec).
  rewrite (filter_ext (fun r => not_removed _ (dname r)) (fun r => keep_name cvals path reqs (dname r))) in H
    by (intros a; apply not_removed_spec).
  destruct (process_kept _ cvals path) as [cd'|] eqn:Ek; [|discriminate].
  injection H as <-. destruct c as [n ver vals sch deps md tpls crds]; simpl. repeat split; try reflexivity.
  destruct (filter _ (flagged_spec cvals path reqs)); reflexivity.
Qed.

Lemma coalesce_leaf_ok : forall merge c v, cdeps c = [] -> exists cv, coalesce merge c v = Ok cv.
Proof. intros merge c v H. rewrite coalesce_unfold, H. simpl. eauto. Qed.

Lemma pde_level_spec : forall compat c kids v path c',
  map fst kids = cdeps c ->
  pde_level compat c kids v path = Ok c' ->
  let reqs0 := mdeps_list c in
  let ks := resolved_kids compat kids reqs0 in
  let reqs := resolved_reqs reqs0 in
  exists cvals,
    CoalesceValues (set_deps c (map fst ks)) v = Ok cvals
    /\ cmdeps c' = (match filter (fun r => keep_name cvals path reqs (dname r)) (flagged_spec cvals path reqs) with
                    | [] => None | l => Some l end)
    /\ process_kept (filter (fun ek => keep_name cvals path reqs (cname (fst ek))) ks) cvals path = Ok (cdeps c')
    /\ cname c' = cname c /\ cvalues c' = cvalues c /\ cschema c' = cschema c /\ ctemplates c' = ctemplates c.
Proof.
  intros compat c kids v path c' Hk H. unfold pde_level in H.
  destruct (cmdeps c) as [l|] eqn:Em; [now apply pde_body_spec|].
  destruct kids as [|k0 kt]; [|now apply pde_body_spec].
  injection H as <-. simpl in Hk. unfold mdeps_list. rewrite Em. simpl.
  destruct (coalesce_leaf_ok false (set_deps c []) v) as (cv & Hc); [reflexivity|].
  exists cv. split; [exact Hc|]. repeat split; try reflexivity; try exact Em. now rewrite <- Hk.
Qed.

(* ---------- unique names: a name survives iff its requirement is enabled ---------- *)

Lemma keep_name_other : forall cvals path reqs n,
  ~ In n (map dname reqs) -> keep_name cvals path reqs n = true.
Proof.
  intros cvals path reqs n. unfold keep_name. induction reqs as [|a t IH]; simpl; intros Hn; [reflexivity|].
  destruct (String.eqb (dname a) n) eqn:E.
  - apply String.eqb_eq in E. exfalso. apply Hn. now left.
  - simpl. apply IH. intros H. apply Hn. now right.
Qed.

Lemma keep_name_nodup : forall cvals path reqs r,
  NoDup (map dname reqs) -> In r reqs ->
  keep_name cvals path reqs (dname r) = enabled_spec cvals path r.
Proof.
  intros cvals path reqs r. induction reqs as [|a t IH]; simpl; intros Hnd Hin; [contradiction|].
  inversion Hnd as [|? ? Hna Hnd']; subst. unfold keep_name in *. simpl.
  destruct Hin as [->|Hin].
  - rewrite String.eqb_refl. simpl. fold (keep_name cvals path t (dname r)).
    rewrite keep_name_other by assumption. apply andb_true_r.
  - destruct (String.eqb (dname a) (dname r)) eqn:E.
    + apply String.eqb_eq in E. exfalso. apply Hna. rewrite E. now apply in_map.
    + simpl. apply IH; assumption.
Qed.

Lemma keep_name_false : forall cvals path reqs r,
  In r reqs -> enabled_spec cvals path r = false -> keep_name cvals path reqs (dname r) = false.
Proof.
  intros cvals path reqs r Hin Hs. unfold keep_name.
  apply not_true_is_false. intros H. rewrite forallb_forall in H. specialize (H r Hin).
  rewrite String.eqb_refl, Hs in H. discriminate.
Qed.

Lemma keep_name_true : forall cvals path reqs n,
  keep_name cvals path reqs n = true ->
  forall r, In r reqs -> dname r = n -> enabled_spec cvals path r = true.
Proof.
  intros cvals path reqs n H r Hin Hn. unfold keep_name in H. rewrite forallb_forall in H.
  specialize (H r Hin). rewrite Hn, String.eqb_refl in H. exact H.
Qed.

Lemma flagged_names : forall cvals path reqs f,
  map dname (filter (fun r => f (dname r)) (flagged_spec cvals path reqs)) = filter f (map dname reqs).
Proof.
  intros. unfold flagged_spec. induction reqs as [|a t IH]; simpl; [reflexivity|].
  replace (dname (set_enabled a (enabled_spec cvals path a))) with (dname a) by (destruct a; reflexivity).
  destruct (f (dname a)); simpl; rewrite IH; [|reflexivity].
  destruct a; reflexivity.
Qed.

Lemma get_alias_name : forall compat kids r t k,
  get_alias compat kids r = Some (t, k) -> cname t = dname (apply_alias r).
Proof.
  intros compat kids r t k. induction kids as [|[e ke] rest IH]; simpl; [discriminate|].
  destruct (req_matches compat r e) eqn:E; [|exact IH].
  intros H. injection H as <- <-. unfold apply_alias.
  destruct (nonempty (dalias r)).
  - destruct e, r; reflexivity.
  - unfold req_matches in E. apply andb_prop in E as [E _]. apply String.eqb_eq in E.
    destruct r; exact E.
Qed.

Lemma listed_in : forall compat kids reqs0 r x,
  In r reqs0 -> get_alias compat kids r = Some x -> In x (listed compat kids reqs0).
Proof.
  intros. unfold listed. apply in_flat_map. exists r. split; [assumption|]. rewrite H0. now left.
Qed.

Lemma kids_of_fst : forall compat c, map fst (kids_of compat c) = cdeps c.
Proof. intros. unfold kids_of. rewrite map_map. simpl. apply map_id. Qed.

(* the records kept at this level *)
Lemma pde_level_records : forall compat c kids v path c' cvals,
  map fst kids = cdeps c -> pde_level compat c kids v path = Ok c' ->
  CoalesceValues (set_deps c (map fst (resolved_kids compat kids (mdeps_list c)))) v = Ok cvals ->
  map dname (mdeps_list c') = filter (keep_name cvals path (resolved_reqs (mdeps_list c))) (map dname (resolved_reqs (mdeps_list c))).
Proof.
  intros compat c kids v path c' cvals Hk H Hc.
  destruct (pde_level_spec compat c kids v path c' Hk H) as (cv & Hc' & Hm & _).
  rewrite Hc in Hc'. injection Hc' as <-. unfold mdeps_list at 1. rewrite Hm.
  rewrite <- (flagged_names cvals path).
  destruct (filter _ (flagged_spec cvals path (resolved_reqs (mdeps_list c)))); reflexivity.
Qed.

Lemma pde_level_charts : forall compat c kids v path c' cvals,
  map fst kids = cdeps c -> pde_level compat c kids v path = Ok c' ->
  CoalesceValues (set_deps c (map fst (resolved_kids compat kids (mdeps_list c)))) v = Ok cvals ->
  map cname (cdeps c') = filter (keep_name cvals path (resolved_reqs (mdeps_list c)))
                                (map (fun ek => cname (fst ek)) (resolved_kids compat kids (mdeps_list c))).
Proof.
  intros compat c kids v path c' cvals Hk H Hc.
  destruct (pde_level_spec compat c kids v path c' Hk H) as (cv & Hc' & _ & Hp & _).
  rewrite Hc in Hc'. injection Hc' as <-.
  rewrite (process_kept_names _ _ _ _ Hp).
  clear. induction (resolved_kids compat kids (mdeps_list c)) as [|a t IH]; simpl; [reflexivity|].
  destruct (keep_name cvals path (resolved_reqs (mdeps_list c)) (cname (fst a))); simpl; rewrite IH; reflexivity.
Qed.

Lemma process_kept_each : forall cd cvals path cd',
  process_kept cd cvals path = Ok cd' ->
  Forall2 (fun ek t' => exists t'', snd ek cvals (path ++ cname (fst ek) ++ ".") = Ok t''
                                     /\ t' = set_name t'' (cname (fst ek))) cd cd'.
Proof.
  induction cd as [|[t k] rest IH]; simpl; intros cvals path cd' H.
  - injection H as <-. constructor.
  - destruct (k cvals (path ++ cname t ++ ".")) as [t'|] eqn:Et; [|discriminate].
    destruct (process_kept rest cvals path) as [l|] eqn:E; [|discriminate].
    injection H as <-. constructor; [|apply (IH _ _ _ E)].
    exists t'. simpl. split; [exact Et|reflexivity].
Qed.

(* ---------- the property-level statements (used by Props/C11.v) ---------- *)

Lemma pde_coalesce_ok : forall compat c v path c',
  pde compat c v path = Ok c' ->
  exists cvals, CoalesceValues (set_deps c (map fst (resolved_kids compat (kids_of compat c) (mdeps_list c)))) v = Ok cvals.
Proof.
  intros compat c v path c' H. rewrite pde_unfold in H.
  destruct (pde_level_spec compat c _ v path c' (kids_of_fst compat c) H) as (cv & Hc & _). now exists cv.
Qed.

Lemma enabled_iff : forall compat c v path c',
  pde compat c v path = Ok c' ->
  let reqs0 := mdeps_list c in
  let ks := resolved_kids compat (kids_of compat c) reqs0 in
  let reqs := resolved_reqs reqs0 in
  exists cvals,
    CoalesceValues (set_deps c (map fst ks)) v = Ok cvals
    /\ (NoDup (map dname reqs) ->
        forall r, In r reqs ->
          (In (dname r) (map dname (mdeps_list c')) <-> enabled_spec cvals path r = true)
          /\ (In (dname r) (map cname (cdeps c')) <->
              In (dname r) (map (fun ek => cname (fst ek)) ks) /\ enabled_spec cvals path r = true)).
Proof.
  intros compat c v path c' H reqs0 ks reqs.
  destruct (pde_coalesce_ok compat c v path c' H) as (cvals & Hc).
  exists cvals. split; [exact Hc|]. intros Hnd r Hin.
  rewrite pde_unfold in H.
  rewrite (pde_level_records compat c _ v path c' cvals (kids_of_fst compat c) H Hc).
  rewrite (pde_level_charts compat c _ v path c' cvals (kids_of_fst compat c) H Hc).
  fold reqs0. fold reqs ks. rewrite !filter_In. rewrite (keep_name_nodup cvals path reqs r Hnd Hin).
  split; split.
  - intros [_ E]; exact E.
  - intros E; split; [now apply in_map|exact E].
  - intros [Hi E]; split; assumption.
  - intros [Hi E]; split; assumption.
Qed.

Lemma disabled_vanish : forall compat c v path c',
  pde compat c v path = Ok c' ->
  let reqs0 := mdeps_list c in
  let ks := resolved_kids compat (kids_of compat c) reqs0 in
  let reqs := resolved_reqs reqs0 in
  exists cvals,
    CoalesceValues (set_deps c (map fst ks)) v = Ok cvals
    /\ (forall r, In r reqs -> enabled_spec cvals path r = false ->
          ~ In (dname r) (map cname (cdeps c')) /\ ~ In (dname r) (map dname (mdeps_list c')))
    /\ (forall n, In n (map cname (cdeps c')) -> In n (map (fun ek => cname (fst ek)) ks)).
Proof.
  intros compat c v path c' H reqs0 ks reqs.
  destruct (pde_coalesce_ok compat c v path c' H) as (cvals & Hc).
  exists cvals. split; [exact Hc|].
  rewrite pde_unfold in H.
  rewrite (pde_level_records compat c _ v path c' cvals (kids_of_fst compat c) H Hc).
  rewrite (pde_level_charts compat c _ v path c' cvals (kids_of_fst compat c) H Hc).
  fold reqs0. fold reqs ks. split.
  - intros r Hin Hs. pose proof (keep_name_false cvals path reqs r Hin Hs) as Hk.
    split; intros Hx; apply filter_In in Hx as [_ Hx]; rewrite Hk in Hx; discriminate.
  - intros n Hx. apply filter_In in Hx as [Hx _]. exact Hx.
Qed.

Lemma alias_only : forall compat kids r t k,
  get_alias compat kids r = Some (t, k) ->
  cname t = (if nonempty (dalias r) then dalias r else dname r)
  /\ dname (apply_alias r) = (if nonempty (dalias r) then dalias r else dname r).
Proof.
  intros compat kids r t k H. pose proof (get_alias_name compat kids r t k H) as Hn.
  rewrite Hn. unfold apply_alias. destruct (nonempty (dalias r)); split; try reflexivity; destruct r; reflexivity.
Qed.

Lemma kids_of_origin : forall compat c reqs0 ek,
  In ek (resolved_kids compat (kids_of compat c) reqs0) ->
  exists d, In d (cdeps c) /\ snd ek = pde compat d /\ (fst ek = d \/ exists a, fst ek = set_name d a).
Proof.
  intros compat c reqs0 ek Hin. unfold resolved_kids in Hin. apply in_app_or in Hin as [Hin|Hin].
  - unfold unlisted in Hin. apply filter_In in Hin as [Hin _]. unfold kids_of in Hin.
    apply in_map_iff in Hin as (d & <- & Hd). exists d. simpl. auto.
  - unfold listed in Hin. apply in_flat_map in Hin as (r & _ & Hin).
    destruct (get_alias compat (kids_of compat c) r) as [x|] eqn:E; [|contradiction].
    destruct Hin as [<-|[]].
    unfold kids_of in E. induction (cdeps c) as [|d t IH]; simpl in E; [discriminate|].
    destruct (req_matches compat r d).
    + injection E as <-. exists d. simpl. split; [now left|]. split; [reflexivity|].
      destruct (nonempty (dalias r)); [right; now exists (dalias r)|now left].
    + destruct (IH E) as (d' & Hd & Hs & Hf). exists d'. split; [now right|]. auto.
Qed.

Lemma enabled_recursive : forall compat c v path c',
  pde compat c v path = Ok c' ->
  let reqs0 := mdeps_list c in
  let ks := resolved_kids compat (kids_of compat c) reqs0 in
  let reqs := resolved_reqs reqs0 in
  exists cvals,
    CoalesceValues (set_deps c (map fst ks)) v = Ok cvals
    /\ Forall2 (fun ek t' => exists t'', snd ek cvals (path ++ cname (fst ek) ++ ".") = Ok t''
                                        /\ t' = set_name t'' (cname (fst ek)))
               (filter (fun ek => keep_name cvals path reqs (cname (fst ek))) ks) (cdeps c').
Proof.
  intros compat c v path c' H reqs0 ks reqs. rewrite pde_unfold in H.
  destruct (pde_level_spec compat c _ v path c' (kids_of_fst compat c) H) as (cv & Hc & _ & Hk & _).
  exists cv. split; [exact Hc|]. apply process_kept_each. exact Hk.
Qed.

(* a chart without requirements keeps all its subcharts (and they are processed in turn) *)
Lemma no_requirements_keeps_all : forall compat c v path c',
  cmdeps c = None -> pde compat c v path = Ok c' ->
  map cname (cdeps c') = map cname (cdeps c) /\ cmdeps c' = None.
Proof.
  intros compat c v path c' Hm H.
  destruct (pde_coalesce_ok compat c v path c' H) as (cvals & Hc).
  rewrite pde_unfold in H.
  pose proof (pde_level_charts compat c _ v path c' cvals (kids_of_fst compat c) H Hc) as Hch.
  destruct (pde_level_spec compat c _ v path c' (kids_of_fst compat c) H) as (cv & _ & Hmd & _).
  unfold mdeps_list in *. rewrite Hm in *. simpl in *. split; [|exact Hmd].
  rewrite Hch. unfold resolved_kids, unlisted, listed. simpl. rewrite app_nil_r.
  unfold kids_of. induction (cdeps c) as [|d t IH]; simpl; [reflexivity|]. now rewrite IH.
Qed.

(* rendered templates come from the chart itself or from a chart that was kept *)
Lemma templates_from_kept : forall c root pp pv p x,
  In (p, x) (rec_all_tpls c root pp pv) ->
  let vals := scoped_values root (cname c) pv in
  let full := chart_full_path root pp (cname c) in
  (exists t, In t (ctemplates c) /\ p = full ++ "/" ++ t /\ x = VMap vals)
  \/ (exists d, In d (cdeps c) /\ In (p, x) (rec_all_tpls d false full vals)).
Proof.
  intros [n ver vs sch deps md tpls crds] root pp pv p x Hin. simpl in *.
  apply in_app_or in Hin as [Hin|Hin].
  - right. induction deps as [|d t IH]; simpl in Hin; [contradiction|].
    apply in_app_or in Hin as [Hin|Hin].
    + exists d. split; [now left|exact Hin].
    + destruct (IH Hin) as (d' & Hd & Hp). exists d'. split; [now right|exact Hp].
  - left. apply in_map_iff in Hin as (t & E & Ht). injection E as <- <-. now exists t.
Qed.

Lemma enabled_example :
  let sub := Chart "sub" "1.0.0" [("enabled", VBool true)] None [] None ["templates/p.yaml"] [] in
  let top := Chart "top" "1.0.0" [("tags", VMap [("t1", VBool true)])] None [sub]
               (Some [mkDep "sub" "*" "a1.enabled" ["t1"] "a1" false [];
                      mkDep "sub" "*" "a2.missing,a2.str" ["t0"; "t1"] "a2" false []])
               ["templates/p.yaml"] [] in
  let v := [("a1", VMap [("enabled", VBool false)]); ("a2", VMap [("str", VStr "yes")]); ("tags", VMap [("t0", VBool false)])] in
  NoDup (map dname (resolved_reqs [mkDep "sub" "*" "a1.enabled" ["t1"] "a1" false [];
                                   mkDep "sub" "*" "a2.missing,a2.str" ["t0"; "t1"] "a2" false []]))
  /\ match process_dependencies (fun _ _ => true) top v with
     | Ok c' => map cname (cdeps c') = ["a2"]
                /\ match CoalesceValues c' v with
                   | Ok vals => map fst (all_templates c' vals) = ["top/charts/a2/templates/p.yaml"; "top/templates/p.yaml"]
                   | Err _ => False
                   end
     | Err _ => False
     end.
Proof.
  split.
  - simpl. repeat constructor; simpl; intuition discriminate.
  - vm_compute. split; reflexivity.
Qed.

(* ---------- CRDs: a disabled dependency contributes none ---------- *)

(* CRD objects come from the chart's own crds/ or from a chart kept in its dependency list *)
Lemma crds_from_kept : forall c root pp o,
  In o (crd_objects c root pp) ->
  let full := chart_full_path root pp (cname c) in
  (exists f, In f (ccrds c) /\ o = (f, full ++ "/" ++ f))
  \/ (exists d, In d (cdeps c) /\ In o (crd_objects d false full)).
Proof.
  intros [n ver vs sch deps md tpls crds] root pp o Hin. simpl in *.
  apply in_app_or in Hin as [Hin|Hin].
  - left. apply in_map_iff in Hin as (f & <- & Hf). now exists f.
  - right. induction deps as [|d t IH]; simpl in Hin; [contradiction|].
    apply in_app_or in Hin as [Hin|Hin].
    + exists d. split; [now left|exact Hin].
    + destruct (IH Hin) as (d' & Hd & Hp). exists d'. split; [now right|exact Hp].
Qed.

Lemma pde_keeps_crds : forall compat c v path c', pde compat c v path = Ok c' -> ccrds c' = ccrds c.
Proof.
  intros compat c v path c' H. rewrite pde_unfold in H. unfold pde_level in H.
  assert (Hb : pde_body compat c (kids_of compat c) v path = Ok c' -> ccrds c' = ccrds c).
  { clear H. unfold pde_body. intros H.
    destruct (CoalesceValues _ v); [|discriminate].
    destruct (process_kept _ _ _); [|discriminate]. injection H as <-. destruct c; reflexivity. }
  destruct (cmdeps c); [now apply Hb|]. destruct (kids_of compat c); [|now apply Hb].
  now injection H as <-.
Qed.

Lemma disabled_no_crds : forall compat c v path c',
  pde compat c v path = Ok c' ->
  let reqs := resolved_reqs (mdeps_list c) in
  let ks := resolved_kids compat (kids_of compat c) (mdeps_list c) in
  exists cvals,
    CoalesceValues (set_deps c (map fst ks)) v = Ok cvals
    /\ forall r, In r reqs -> enabled_spec cvals path r = false ->
       forall root pp o, In o (crd_objects c' root pp) ->
         let full := chart_full_path root pp (cname c') in
         (exists f, In f (ccrds c) /\ o = (f, full ++ "/" ++ f))
         \/ (exists d, In d (cdeps c') /\ cname d <> dname r /\ In o (crd_objects d false full)).
Proof.
  intros compat c v path c' H reqs ks.
  destruct (disabled_vanish compat c v path c' H) as (cvals & Hc & Hdis & _).
  exists cvals. split; [exact Hc|]. intros r Hin Hs root pp o Ho.
  destruct (Hdis r Hin Hs) as (Hnc & _).
  destruct (crds_from_kept c' root pp o Ho) as [(f & Hf & E)|(d & Hd & Hp)].
  - left. exists f. rewrite <- (pde_keeps_crds _ _ _ _ _ H). now split.
  - right. exists d. repeat split; try assumption. intros E. apply Hnc. rewrite <- E. now apply in_map.
Qed.

(* import-values processing does not touch the CRDs *)
Section ChartInd2.
  Variable P : chart -> Prop.
  Hypothesis H : forall n ver vals sch deps md tpls crds,
      Forall P deps -> P (Chart n ver vals sch deps md tpls crds).
  Fixpoint chart_ind2 (c : chart) : P c :=
    match c with
    | Chart n ver vals sch deps md tpls crds =>
        H n ver vals sch deps md tpls crds
          ((fix go (ds : list chart) : Forall P ds :=
              match ds with
              | [] => Forall_nil _
              | d :: t => Forall_cons d (chart_ind2 d) (go t)
              end) deps)
    end.
End ChartInd2.

Fixpoint pdiv_list (ds : list chart) : res (list chart) :=
  match ds with
  | [] => Ok []
  | d :: t => match pdiv d with
              | Err e => Err e
              | Ok d' => match pdiv_list t with Err e => Err e | Ok l => Ok (d' :: l) end
              end
  end.

Lemma pdiv_unfold : forall c,
  pdiv c = match pdiv_list (cdeps c) with
                  | Err e => Err e
                  | Ok deps' => process_import_values (set_deps c deps')
                  end.
Proof.
  intros [n ver vals sch deps md tpls crds]. simpl.
  assert (E : (fix go (ds : list chart) : res (list chart) :=
                 match ds with
                 | [] => Ok []
                 | d :: t => match pdiv d with
                             | Err e => Err e
                             | Ok d' => match go t with Err e => Err e | Ok l => Ok (d' :: l) end
                             end
                 end) deps = pdiv_list deps).
  { induction deps as [|d t IH]; simpl; [reflexivity|]. now rewrite IH. }
  rewrite E. reflexivity.
Qed.

Lemma piv_keeps : forall c c', process_import_values c = Ok c' ->
  cname c' = cname c /\ cdeps c' = cdeps c /\ ccrds c' = ccrds c.
Proof.
  intros c c' H. unfold process_import_values in H.
  destruct (cmdeps c); [|injection H as <-; auto].
  destruct (MergeValues c []); [|discriminate].
  destruct (import_reqs _ _ _); [|discriminate]. injection H as <-. destruct c; auto.
Qed.

Lemma crd_objects_congr : forall c c' root pp,
  cname c' = cname c -> ccrds c' = ccrds c ->
  Forall2 (fun d d' => forall pp', crd_objects d' false pp' = crd_objects d false pp') (cdeps c) (cdeps c') ->
  crd_objects c' root pp = crd_objects c root pp.
Proof.
  intros [n ver vals sch deps md tpls crds] [n' ver' vals' sch' deps' md' tpls' crds'] root pp. simpl.
  intros -> -> HF. f_equal. induction HF as [|d d' t t' Hd _ IH]; simpl; [reflexivity|].
  now rewrite Hd, IH.
Qed.

Lemma pdiv_keeps_crds : forall c c',
  pdiv c = Ok c' -> cname c' = cname c /\ forall root pp, crd_objects c' root pp = crd_objects c root pp.
Proof.
  intros c. induction c as [n ver vals sch deps md tpls crds IH] using chart_ind2.
  intros c' H. rewrite pdiv_unfold in H. simpl in H.
  destruct (pdiv_list deps) as [deps'|] eqn:El; [|discriminate].
  destruct (piv_keeps _ _ H) as (Hn & Hd & Hc). simpl in Hn, Hd, Hc.
  split; [exact Hn|]. intros root pp.
  apply (crd_objects_congr (Chart n ver vals sch deps md tpls crds) c' root pp); [exact Hn|exact Hc|].
  cbn [cdeps]. rewrite Hd.
  clear H Hn Hd Hc. revert deps' El. induction IH as [|d t Hd _ IHt]; intros deps' El; simpl in El.
  - injection El as <-. constructor.
  - destruct (pdiv d) as [d'|] eqn:Ed; [|discriminate].
    destruct (pdiv_list t) as [l|] eqn:Et; [|discriminate]. injection El as <-.
    constructor; [|now apply IHt].
    intros pp'. destruct (Hd d' eq_refl) as (Hn' & Hc'). apply Hc'.
Qed.

Lemma process_dependencies_crds : forall compat c v c'',
  process_dependencies compat c v = Ok c'' ->
  exists c', pde compat c v "" = Ok c' /\ cname c'' = cname c'
             /\ forall root pp, crd_objects c'' root pp = crd_objects c' root pp.
Proof.
  intros compat c v c'' H. unfold process_dependencies in H.
  destruct (pde compat c v "") as [c'|] eqn:E; [|discriminate].
  exists c'. split; [reflexivity|]. now apply pdiv_keeps_crds.
Qed.

Lemma crds_example :
  let sub := Chart "sub" "1.0.0" [] None [] None [] ["crds/s.yaml"] in
  let top := Chart "top" "1.0.0" [] None [sub]
               (Some [mkDep "sub" "*" "a1.enabled" [] "a1" false []; mkDep "sub" "*" "a2.enabled" [] "a2" false []])
               [] ["crds/t.yaml"] in
  match process_dependencies (fun _ _ => true) top [("a1", VMap [("enabled", VBool false)])] with
  | Ok c' => crd_objects c' true "" = [("crds/t.yaml", "top/crds/t.yaml"); ("crds/s.yaml", "top/charts/a2/crds/s.yaml")]
  | Err _ => False
  end.
Proof. vm_compute. reflexivity. Qed.

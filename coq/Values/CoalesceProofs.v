(* Proofs about coalesce.go (Values/Coalesce.v): for a chart without dependencies the values
   handed to templates are the user's where the user defines them, the chart's defaults
   elsewhere; a user null removes a default when coalescing and survives MergeValues. *)
From Coq Require Import List String Bool Arith ZArith.
From Helm Require Import Values.Tree Values.Merge Values.Coalesce Values.TreeLemmas.
Import ListNotations.

Lemma coalesce_tables_v_map : forall merge dst src,
  coalesce_tables_v merge dst (VMap src) = ct_loop merge src dst.
Proof.
  intros merge dst src. simpl. revert dst.
  induction src as [|[k v] t IH]; intros dst; [reflexivity|].
  simpl. rewrite <- IH. reflexivity.
Qed.

Lemma coalesce_tables_loop : forall merge dst src, coalesce_tables merge dst src = ct_loop merge src dst.
Proof. intros. apply coalesce_tables_v_map. Qed.

(* a step touches only its own key *)
Lemma ct_step_other : forall merge k v dst k', k' <> k -> mget k' (ct_step merge k v dst) = mget k' dst.
Proof.
  intros merge k v dst k' Hn. unfold ct_step.
  destruct (mget k dst) as [dv|].
  - destruct (negb merge && is_null dv).
    + apply mget_mdel_neq. congruence.
    + destruct v; try reflexivity. destruct dv; try reflexivity. apply mget_mset_neq. congruence.
  - apply mget_mset_neq. congruence.
Qed.

Definition ct_result (merge : bool) (v : val) (old : option val) : option val :=
  match old with
  | Some dv =>
      if negb merge && is_null dv then None
      else match v, dv with
           | VMap src, VMap dvm => Some (VMap (ct_loop merge src dvm))
           | _, _ => Some dv
           end
  | None => Some v
  end.

Lemma ct_step_same : forall merge k v dst, mget k (ct_step merge k v dst) = ct_result merge v (mget k dst).
Proof.
  intros merge k v dst. unfold ct_step, ct_result.
  destruct (mget k dst) as [dv|] eqn:G.
  - destruct (negb merge && is_null dv).
    + apply mget_mdel_eq.
    + destruct v; try assumption. destruct dv; try assumption.
      rewrite mget_mset_eq. now rewrite coalesce_tables_v_map.
  - apply mget_mset_eq.
Qed.

(* what the loop leaves at a key, for a source with unique keys *)
Lemma ct_loop_get : forall merge src dst k,
  wf_b (VMap src) = true ->
  mget k (ct_loop merge src dst) =
  match mget k src with
  | Some v => ct_result merge v (mget k dst)
  | None => mget k dst
  end.
Proof.
  induction src as [|[k0 v0] t IH]; intros dst k Hwf; [reflexivity|].
  apply wf_map_cons in Hwf. destruct Hwf as (Hk0 & _ & Ht).
  simpl ct_loop. rewrite IH by assumption. simpl mget.
  destruct (String.eqb k k0) eqn:E.
  - apply String.eqb_eq in E; subst k0. rewrite Hk0. apply ct_step_same.
  - apply String.eqb_neq in E. rewrite ct_step_other by assumption. reflexivity.
Qed.

Section Tables.
  Variable merge : bool.

  (* a value the user (the destination) sets wins *)
  Theorem ct_dst_wins : forall p dst src x,
    wf_b (VMap src) = true ->
    lookup_path p (VMap dst) = Some x -> is_table x = false -> x <> VNull ->
    lookup_path p (VMap (ct_loop merge src dst)) = Some x.
  Proof.
    induction p as [|k p IH]; intros dst src x Hwf Hl Ht Hn.
    - simpl in Hl. inversion Hl; subst. discriminate.
    - rewrite lookup_cons_map in *. rewrite ct_loop_get by assumption.
      destruct (mget k dst) as [y|] eqn:Gd; [|discriminate].
      destruct (mget k src) as [v|] eqn:Gs; [|assumption].
      unfold ct_result.
      assert (Hy : is_null y = false).
      { destruct y; try reflexivity. destruct p; simpl in Hl; [inversion Hl; congruence | discriminate]. }
      rewrite Hy, andb_false_r.
      destruct v; try assumption. destruct y; try assumption.
      destruct p as [|k' p'].
      + simpl in Hl. inversion Hl; subst. discriminate.
      + apply IH; try assumption. eapply wf_mget; eauto.
  Qed.

  (* where the destination says nothing, the source shows through *)
  Theorem ct_src_fills : forall p dst src,
    wf_b (VMap src) = true ->
    defines p (VMap dst) = false ->
    lookup_path p (VMap (ct_loop merge src dst)) = lookup_path p (VMap src).
  Proof.
    induction p as [|k p IH]; intros dst src Hwf Hd; [discriminate|].
    rewrite !lookup_cons_map. rewrite ct_loop_get by assumption.
    simpl in Hd.
    destruct (mget k dst) as [y|] eqn:Gd.
    - destruct (mget k src) as [v|] eqn:Gs.
      + unfold ct_result.
        destruct (defines_false_table _ _ Hd) as [ym ->].
        simpl is_null. rewrite andb_false_r.
        destruct v; try (rewrite defines_false_lookup by assumption;
                         pose proof (defines_false_nonempty _ _ Hd) as Hne;
                         destruct p; [congruence | reflexivity]).
        apply IH; [eapply wf_mget; eauto | assumption].
      + now apply defines_false_lookup.
    - destruct (mget k src); reflexivity.
  Qed.
End Tables.

(* coalescing: a null in the destination removes the key when the source has it *)
Theorem ct_null_removes : forall p dst src y,
  wf_b (VMap src) = true ->
  lookup_path p (VMap dst) = Some VNull -> lookup_path p (VMap src) = Some y ->
  lookup_path p (VMap (ct_loop false src dst)) = None.
Proof.
  induction p as [|k p IH]; intros dst src y Hwf Hl Hs.
  - simpl in Hl. discriminate.
  - rewrite lookup_cons_map in *. rewrite ct_loop_get by assumption.
    destruct (mget k dst) as [yd|] eqn:Gd; [|discriminate].
    destruct (mget k src) as [v|] eqn:Gs; [|discriminate].
    unfold ct_result. simpl negb. rewrite andb_true_l.
    destruct p as [|k' p'].
    + simpl in Hl. inversion Hl; subst. reflexivity.
    + destruct yd; simpl in Hl; try discriminate.
      destruct v; simpl in Hs; try discriminate.
      simpl is_null. eapply IH; eauto. eapply wf_mget; eauto.
Qed.

(* ... and stays (as a null) when the source does not have the path *)
Theorem ct_null_stays : forall p dst src,
  wf_b (VMap src) = true ->
  lookup_path p (VMap dst) = Some VNull -> lookup_path p (VMap src) = None ->
  lookup_path p (VMap (ct_loop false src dst)) = Some VNull.
Proof.
  induction p as [|k p IH]; intros dst src Hwf Hl Hs.
  - simpl in Hl. discriminate.
  - rewrite lookup_cons_map in *. rewrite ct_loop_get by assumption.
    destruct (mget k dst) as [yd|] eqn:Gd; [|discriminate].
    destruct (mget k src) as [v|] eqn:Gs; [|assumption].
    unfold ct_result. simpl negb. rewrite andb_true_l.
    destruct p as [|k' p'].
    + simpl in Hs. discriminate.
    + destruct yd; simpl in Hl; try discriminate. simpl is_null.
      destruct v; try assumption.
      apply IH; try assumption. eapply wf_mget; eauto.
Qed.

(* merging (MergeValues / MergeTables): a null in the destination survives *)
Theorem ct_merge_keeps_null : forall p dst src,
  wf_b (VMap src) = true ->
  lookup_path p (VMap dst) = Some VNull ->
  lookup_path p (VMap (ct_loop true src dst)) = Some VNull.
Proof.
  induction p as [|k p IH]; intros dst src Hwf Hl.
  - simpl in Hl. discriminate.
  - rewrite lookup_cons_map in *. rewrite ct_loop_get by assumption.
    destruct (mget k dst) as [yd|] eqn:Gd; [|discriminate].
    destruct (mget k src) as [v|] eqn:Gs; [|assumption].
    unfold ct_result. simpl negb. rewrite andb_false_l.
    destruct v; try assumption. destruct yd; try assumption.
    destruct p as [|k' p']; [simpl in Hl; discriminate|].
    apply IH; try assumption. eapply wf_mget; eauto.
Qed.

(* ---- a chart without dependencies: coalesceValues is coalesceTables ---- *)
Lemma cv_step_nodeps : forall merge k d v, cv_step merge [] k d v = ct_step merge k d v.
Proof.
  intros. unfold cv_step, ct_step, child_chart_merge_true. simpl existsb.
  destruct (mget k v) as [value|]; [|reflexivity].
  rewrite andb_comm.
  destruct (negb merge && is_null value); [reflexivity|].
  destruct value; destruct d; reflexivity.
Qed.

Lemma cv_loop_nodeps : forall merge vc v, cv_loop merge [] vc v = ct_loop merge vc v.
Proof.
  induction vc as [|[k d] t IH]; intros v; [reflexivity|].
  simpl. rewrite cv_step_nodeps. apply IH.
Qed.

Lemma coalesce_nodeps : forall merge name vals dest,
  coalesce merge (mkChart name vals []) dest = Some (ct_loop merge vals dest).
Proof. intros. simpl. now rewrite cv_loop_nodeps. Qed.

(* the C04 statement for a single chart *)
Theorem coalesce_single_chart : forall name dflt user,
  wf (VMap dflt) ->
  exists r, to_render_values (mkChart name dflt []) user = Some r
  /\ (forall p x, lookup_path p (VMap user) = Some x -> is_table x = false -> x <> VNull ->
                  lookup_path p (VMap r) = Some x)
  /\ (forall p, defines p (VMap user) = false -> lookup_path p (VMap r) = lookup_path p (VMap dflt))
  /\ (forall p y, lookup_path p (VMap user) = Some VNull -> lookup_path p (VMap dflt) = Some y ->
                  lookup_path p (VMap r) = None)
  /\ (forall p, lookup_path p (VMap user) = Some VNull -> lookup_path p (VMap dflt) = None ->
                lookup_path p (VMap r) = Some VNull).
Proof.
  intros name dflt user Hwf. unfold wf in Hwf.
  exists (ct_loop false dflt user). split.
  - unfold to_render_values, coalesce_values_root. apply coalesce_nodeps.
  - repeat split; intros.
    + now apply ct_dst_wins.
    + now apply ct_src_fills.
    + eapply ct_null_removes; eauto.
    + now apply ct_null_stays.
Qed.

Theorem merge_values_single_chart : forall name dflt user,
  wf (VMap dflt) ->
  exists r, merge_values_root (mkChart name dflt []) user = Some r
  /\ (forall p x, lookup_path p (VMap user) = Some x -> is_table x = false -> x <> VNull ->
                  lookup_path p (VMap r) = Some x)
  /\ (forall p, defines p (VMap user) = false -> lookup_path p (VMap r) = lookup_path p (VMap dflt))
  /\ (forall p, lookup_path p (VMap user) = Some VNull -> lookup_path p (VMap r) = Some VNull).
Proof.
  intros name dflt user Hwf. unfold wf in Hwf.
  exists (ct_loop true dflt user). split.
  - unfold merge_values_root. apply coalesce_nodeps.
  - repeat split; intros.
    + now apply ct_dst_wins.
    + now apply ct_src_fills.
    + now apply ct_merge_keeps_null.
Qed.

(* non-vacuity *)
Local Open Scope string_scope.
Definition ex_dflt : vmap :=
  [("a", VMap [("x", VNum 1%Z); ("y", VNum 2%Z)]); ("b", VStr "keep"); ("c", VMap [("z", VBool true)]); ("n", VNull)].
Definition ex_user : vmap :=
  [("a", VMap [("x", VNull); ("w", VStr "new")]); ("c", VStr "scalar"); ("d", VNull)].

Example ex_dflt_wf : wf (VMap ex_dflt).
Proof. reflexivity. Qed.

Example ex_coalesce :
  exists r, to_render_values (mkChart "top" ex_dflt []) ex_user = Some r
  /\ lookup_path ["a"; "x"] (VMap r) = None                 (* user null removed the default *)
  /\ lookup_path ["a"; "y"] (VMap r) = Some (VNum 2%Z)       (* default shows through a merged table *)
  /\ lookup_path ["a"; "w"] (VMap r) = Some (VStr "new")     (* user value *)
  /\ lookup_path ["c"] (VMap r) = Some (VStr "scalar")       (* scalar replaces table *)
  /\ lookup_path ["d"] (VMap r) = Some VNull                 (* null with no default stays *)
  /\ lookup_path ["b"] (VMap r) = Some (VStr "keep").
Proof. eexists. split; [reflexivity|]. repeat split; reflexivity. Qed.

(* Proofs about the reading layer of Values/Strvals2.v: the rune reader never runs out of
   fuel; what runesUntil collects from well-formed UTF-8 is the bytes themselves, from
   anything else Go's string([]rune) of them; typedVal's rules as a complete
   characterisation. *)
From Coq Require Import List String Ascii Bool Arith ZArith Lia.
From Helm Require Import Common.Strs Values.Tree Values.Strvals Values.Strvals2.
Import ListNotations.
Local Open Scope string_scope.

(* ---------- read_rune makes progress; ru never runs out of fuel ---------- *)
Lemma read_rune_len : forall s r t, read_rune s = Some (r, t) -> String.length t < String.length s.
Proof.
  intros s r t. unfold read_rune. destruct s as [|c0 t0]; [discriminate|].
  destruct (Nat.ltb (byte c0) 128); [intros H; inversion H; simpl; lia|].
  destruct (lead c0) as [[n lo] hi].
  destruct n as [|[|[|[|[|n]]]]]; try (intros H; inversion H; simpl; lia).
  - destruct t0 as [|c1 t1]; [intros H; inversion H; simpl; lia|].
    destruct (in_rng lo hi c1); intros H; inversion H; simpl; lia.
  - destruct t0 as [|c1 [|c2 t2]]; try (intros H; inversion H; simpl; lia).
    destruct (in_rng lo hi c1 && cont c2); intros H; inversion H; simpl; lia.
  - destruct t0 as [|c1 [|c2 [|c3 t3]]]; try (intros H; inversion H; simpl; lia).
    destruct (in_rng lo hi c1 && cont c2 && cont c3); intros H; inversion H; simpl; lia.
Qed.

Lemma ru_enough : forall f esc stop s, String.length s < f -> exists x, ru f esc stop s = Some x.
Proof.
  induction f as [|f IH]; intros esc stop s Hf; [lia|].
  simpl ru. destruct (read_rune s) as [[r t]|] eqn:R; [|eexists; reflexivity].
  pose proof (read_rune_len _ _ _ R) as Ht.
  assert (Hrec : forall r0, exists x, match ru f esc stop t with Some (v, l, r') => Some (r0 ++ v, l, r') | None => None end = Some x).
  { intros r0. destruct (IH esc stop t) as [[[v l] r'] ->]; [lia|]. eexists; reflexivity. }
  destruct r as [|c [|c' r']]; try apply Hrec.
  destruct (stop c); [eexists; reflexivity|].
  destruct (esc && ch_eq c c_bsl).
  - destruct (read_rune t) as [[n t']|] eqn:R2; [|eexists; reflexivity].
    pose proof (read_rune_len _ _ _ R2) as Ht'.
    destruct (IH esc stop t') as [[[v l] r''] ->]; [lia|]. eexists; reflexivity.
  - destruct (IH esc stop t) as [[[v l] r''] ->]; [lia|]. eexists; reflexivity.
Qed.

(* the None branch of runes_until2 is dead *)
Theorem ru_total : forall esc stop s, exists x, ru (S (String.length s)) esc stop s = Some x.
Proof. intros. apply ru_enough. lia. Qed.

Lemma runes_until2_eq : forall esc stop s x, ru (S (String.length s)) esc stop s = Some x -> runes_until2 esc stop s = x.
Proof. intros esc stop s x H. unfold runes_until2. now rewrite H. Qed.

(* more fuel does not change the answer *)
Lemma ru_mono : forall f esc stop s x, ru f esc stop s = Some x -> forall g, f <= g -> ru g esc stop s = Some x.
Proof.
  induction f as [|f IH]; intros esc stop s x H g Hg; [discriminate|].
  destruct g as [|g]; [lia|]. simpl in H |- *.
  destruct (read_rune s) as [[r t]|]; [|assumption].
  assert (Hrec : forall r0 y, match ru f esc stop t with Some (v, l, r') => Some (r0 ++ v, l, r') | None => None end = Some y ->
                 match ru g esc stop t with Some (v, l, r') => Some (r0 ++ v, l, r') | None => None end = Some y).
  { intros r0 y Hy. destruct (ru f esc stop t) as [[[v l] r']|] eqn:E; [|discriminate].
    rewrite (IH _ _ _ _ E g) by lia. assumption. }
  destruct r as [|c [|c' r']]; try (now apply Hrec).
  destruct (stop c); [assumption|].
  destruct (esc && ch_eq c c_bsl).
  - destruct (read_rune t) as [[n t']|]; [|assumption].
    destruct (ru f esc stop t') as [[[v l] r'']|] eqn:E; [|discriminate].
    rewrite (IH _ _ _ _ E g) by lia. assumption.
  - destruct (ru f esc stop t) as [[[v l] r'']|] eqn:E; [|discriminate].
    rewrite (IH _ _ _ _ E g) by lia. assumption.
Qed.

Lemma runes_until2_ru : forall f esc stop s x, ru f esc stop s = Some x -> runes_until2 esc stop s = x.
Proof.
  intros f esc stop s x H. destruct (ru_total esc stop s) as [y Hy].
  rewrite (runes_until2_eq _ _ _ _ Hy).
  destruct (Nat.le_ge_cases f (S (String.length s))) as [L|L].
  - rewrite (ru_mono _ _ _ _ _ H _ L) in Hy. congruence.
  - rewrite (ru_mono _ _ _ _ _ Hy _ L) in H. congruence.
Qed.

(* ---------- well-formed UTF-8 ---------- *)
(* [rune r]: the bytes r are one well-formed UTF-8 sequence: ReadRune returns them as they are *)
Definition rune (r : string) : Prop := r <> EmptyString /\ forall t, read_rune (r ++ t) = Some (r, t).

Inductive utf8 : string -> Prop :=
| utf8_nil : utf8 EmptyString
| utf8_cons : forall r t, rune r -> utf8 t -> utf8 (r ++ t).

Lemma rune_ascii : forall c, Nat.ltb (byte c) 128 = true -> rune (String c EmptyString).
Proof. intros c H. split; [discriminate|]. intros t. simpl. now rewrite H. Qed.

(* a multi-byte rune has no ASCII byte *)
Definition high (c : ascii) : bool := Nat.leb 128 (byte c).
Fixpoint all_high (s : string) : bool := match s with EmptyString => true | String c t => high c && all_high t end.

Lemma in_rng_high : forall lo hi c, 128 <= lo -> in_rng lo hi c = true -> high c = true.
Proof.
  intros lo hi c Hlo H. unfold in_rng in H. apply andb_true_iff in H. destruct H as [H _].
  apply Nat.leb_le in H. unfold high. apply Nat.leb_le. lia.
Qed.

Lemma lead_lo : forall c0 n lo hi, lead c0 = (n, lo, hi) -> n <> 0 -> 128 <= lo.
Proof.
  intros c0 n lo hi. unfold lead.
  repeat (match goal with |- context [if ?b then _ else _] => destruct b end); intros HH; inversion HH; subst; lia.
Qed.

(* the shape of what read_rune returns: one ASCII byte, or a sequence of high bytes, or U+FFFD *)
Lemma read_rune_shape : forall s r t, read_rune s = Some (r, t) ->
  (exists c, r = String c EmptyString /\ Nat.ltb (byte c) 128 = true /\ s = String c t)
  \/ (all_high r = true /\ 2 <= String.length r).
Proof.
  intros s r t. unfold read_rune. destruct s as [|c0 t0]; [discriminate|].
  destruct (Nat.ltb (byte c0) 128) eqn:A; [intros H; inversion H; subst; left; eexists; repeat split; assumption|].
  assert (Hc0 : high c0 = true) by (unfold high; apply Nat.leb_le; apply Nat.ltb_ge in A; lia).
  assert (Hbad : forall t', Some (rune_err, t0) = Some (r, t') -> all_high r = true /\ 2 <= String.length r).
  { intros t' H. inversion H; subst. split; [reflexivity | simpl; lia]. }
  destruct (lead c0) as [[n lo] hi] eqn:L.
  assert (Hlo : n <> 0 -> 128 <= lo) by (eapply lead_lo; eauto).
  destruct n as [|[|[|[|[|n]]]]]; try solve [intros H; right; eapply Hbad; eauto].
  - destruct t0 as [|c1 t1]; [solve [intros H; right; eapply Hbad; eauto]|].
    destruct (in_rng lo hi c1) eqn:B; [|solve [intros H; right; eapply Hbad; eauto]].
    intros H; inversion H; subst. right. split; [|simpl; lia].
    simpl. rewrite Hc0. rewrite (in_rng_high lo hi c1) by (auto; lia). reflexivity.
  - destruct t0 as [|c1 [|c2 t2]]; try solve [intros H; right; eapply Hbad; eauto].
    destruct (in_rng lo hi c1 && cont c2) eqn:B; [|solve [intros H; right; eapply Hbad; eauto]].
    apply andb_true_iff in B. destruct B as [B1 B2].
    intros H; inversion H; subst. right. split; [|simpl; lia].
    simpl. rewrite Hc0. rewrite (in_rng_high lo hi c1) by (auto; lia).
    rewrite (in_rng_high 128 191 c2) by (auto; lia). reflexivity.
  - destruct t0 as [|c1 [|c2 [|c3 t3]]]; try solve [intros H; right; eapply Hbad; eauto].
    destruct (in_rng lo hi c1 && cont c2 && cont c3) eqn:B; [|solve [intros H; right; eapply Hbad; eauto]].
    apply andb_true_iff in B. destruct B as [B B3]. apply andb_true_iff in B. destruct B as [B1 B2].
    intros H; inversion H; subst. right. split; [|simpl; lia].
    simpl. rewrite Hc0. rewrite (in_rng_high lo hi c1) by (auto; lia).
    rewrite (in_rng_high 128 191 c2) by (auto; lia). rewrite (in_rng_high 128 191 c3) by (auto; lia). reflexivity.
Qed.

Lemma rune_shape : forall r, rune r ->
  (exists c, r = String c EmptyString /\ Nat.ltb (byte c) 128 = true) \/ (all_high r = true /\ 2 <= String.length r).
Proof.
  intros r [Hne H]. specialize (H EmptyString).
  destruct (read_rune_shape _ _ _ H) as [(c & -> & Hc & _)|Hh]; [left; eexists; split; [reflexivity | assumption] | right; assumption].
Qed.

(* ---------- runesUntil on well-formed input followed by a stop rune / the end ---------- *)
Lemma app_assoc_s : forall a b c : string, (a ++ b) ++ c = a ++ (b ++ c).
Proof. induction a; intros; simpl; [reflexivity | now rewrite IHa]. Qed.

Lemma app_nil_r_s : forall a : string, a ++ EmptyString = a.
Proof. induction a; simpl; [reflexivity | now rewrite IHa]. Qed.

Lemma len_app_s : forall a b : string, String.length (a ++ b) = String.length a + String.length b.
Proof. induction a; intros; simpl; [reflexivity | now rewrite IHa]. Qed.

Section ReadPlain.
  Variable esc : bool.
  Variable stop : ascii -> bool.
  (* the bytes of v are "plain": no stop rune and (when escapes are on) no backslash *)
  Definition plain (c : ascii) : bool := negb (stop c) && negb (esc && ch_eq c c_bsl).
  Fixpoint all_plain (s : string) : bool := match s with EmptyString => true | String c t => plain c && all_plain t end.

  Hypothesis stop_ascii : forall c, stop c = true -> Nat.ltb (byte c) 128 = true.

  Lemma high_not_stop : forall c, high c = true -> stop c = false.
  Proof.
    intros c H. destruct (stop c) eqn:S; [|reflexivity]. apply stop_ascii in S.
    unfold high in H. apply Nat.leb_le in H. apply Nat.ltb_lt in S. lia.
  Qed.

  (* one well-formed rune that is not a stop rune and not a backslash goes to the output *)
  Lemma ru_step_plain : forall f r t,
    rune r -> (forall c, r = String c EmptyString -> plain c = true) ->
    ru (S f) esc stop (r ++ t) =
    match ru f esc stop t with Some (v, l, r') => Some (r ++ v, l, r') | None => None end.
  Proof.
    intros f r t [Hne Hr] Hp. simpl ru. rewrite Hr.
    destruct r as [|c [|c' r']]; [congruence| |reflexivity].
    specialize (Hp c eq_refl). unfold plain in Hp. apply andb_true_iff in Hp. destruct Hp as [H1 H2].
    apply negb_true_iff in H1. apply negb_true_iff in H2. rewrite H1, H2. reflexivity.
  Qed.

  (* well-formed plain text followed by a stop rune *)
  Lemma ru_plain_stop : forall v, utf8 v -> all_plain v = true ->
    forall c rest f, stop c = true -> String.length v < f ->
    ru f esc stop (v ++ String c rest) = Some (v, Some c, rest).
  Proof.
    intros v Hu. induction Hu as [|r t Hr Ht IH]; intros Hp c rest f Hc Hf.
    - destruct f; [simpl in Hf; lia|]. simpl. rewrite (stop_ascii c Hc). now rewrite Hc.
    - destruct f; [lia|]. rewrite app_assoc_s.
      assert (Hpl : all_plain r = true /\ all_plain t = true).
      { clear - Hp. induction r; simpl in *; [auto|]. apply andb_true_iff in Hp. destruct Hp as [A B].
        destruct (IHr B) as [C D]. rewrite A, C. auto. }
      destruct Hpl as [Hpr Hpt].
      rewrite ru_step_plain; [|assumption|].
      + rewrite IH; [reflexivity | assumption | assumption |].
        rewrite len_app_s in Hf. destruct Hr as [Hne _]. destruct r; [congruence|]. simpl in Hf. lia.
      + intros c0 ->. simpl in Hpr. now rewrite andb_true_r in Hpr.
  Qed.

  (* … followed by the end of the input *)
  Lemma ru_plain_eof : forall v, utf8 v -> all_plain v = true ->
    forall f, String.length v < f -> ru f esc stop v = Some (v, None, EmptyString).
  Proof.
    intros v Hu. induction Hu as [|r t Hr Ht IH]; intros Hp f Hf.
    - destruct f; [simpl in Hf; lia|]. reflexivity.
    - destruct f; [lia|].
      assert (Hpl : all_plain r = true /\ all_plain t = true).
      { clear - Hp. induction r; simpl in *; [auto|]. apply andb_true_iff in Hp. destruct Hp as [A B].
        destruct (IHr B) as [C D]. rewrite A, C. auto. }
      destruct Hpl as [Hpr Hpt].
      rewrite ru_step_plain; [|assumption|].
      + rewrite IH; [reflexivity | assumption |].
        rewrite len_app_s in Hf. destruct Hr as [Hne _]. destruct r; [congruence|]. simpl in Hf. lia.
      + intros c0 ->. simpl in Hpr. now rewrite andb_true_r in Hpr.
  Qed.
End ReadPlain.

(* ---------- what the literal parser takes as a value: string([]rune(v)) ---------- *)
Lemma ru_none_all : forall f s, String.length s < f ->
  ru f false stop_none s = Some (to_utf8_f f s, None, EmptyString).
Proof.
  induction f as [|f IH]; intros s Hf; [lia|].
  simpl. destruct (read_rune s) as [[r t]|] eqn:R; [|reflexivity].
  pose proof (read_rune_len _ _ _ R) as Ht.
  rewrite IH by lia.
  destruct r as [|c [|c' r']]; reflexivity.
Qed.

Lemma to_utf8_f_any : forall f g s, String.length s <= f -> String.length s <= g -> to_utf8_f f s = to_utf8_f g s.
Proof.
  induction f as [|f IH]; intros g s Hf Hg.
  - destruct s; [|simpl in Hf; lia]. destruct g; reflexivity.
  - destruct g as [|g].
    + destruct s; [reflexivity | simpl in Hg; lia].
    + simpl. destruct (read_rune s) as [[r t]|] eqn:R; [|reflexivity].
      pose proof (read_rune_len _ _ _ R) as Ht. f_equal. apply IH; lia.
Qed.

Lemma to_utf8_f_mono : forall f s, String.length s <= f -> to_utf8_f f s = to_utf8 s.
Proof. intros f s Hf. unfold to_utf8. apply to_utf8_f_any; lia. Qed.

Theorem literal_value_is_to_utf8 : forall s, runes_until2 false stop_none s = (to_utf8 s, None, EmptyString).
Proof.
  intros s. apply (runes_until2_ru (S (String.length s))).
  rewrite ru_none_all by lia. rewrite to_utf8_f_mono by lia. reflexivity.
Qed.

(* on well-formed UTF-8 it is the bytes themselves *)
Theorem to_utf8_valid : forall v, utf8 v -> to_utf8 v = v.
Proof.
  intros v Hu. unfold to_utf8.
  induction Hu as [|r t [Hne Hr] Ht IH]; [reflexivity|].
  rewrite (to_utf8_f_any _ (S (String.length (r ++ t))) (r ++ t)) by lia.
  cbn [to_utf8_f]. rewrite Hr. f_equal.
  rewrite (to_utf8_f_any _ (String.length t) t) by (rewrite ?len_app_s; lia). exact IH.
Qed.

(* and on ill-formed input it is not: one byte FF becomes U+FFFD *)
Example to_utf8_invalid : to_utf8 (bs [255]) = bs [239; 191; 189] /\ to_utf8 (bs [255]) <> bs [255].
Proof. split; [reflexivity | discriminate]. Qed.

(* ---------- typedVal ---------- *)
(* [folds_to s w]: strings.EqualFold(s, w) for an ASCII lower-case word w *)
Inductive folds_to : string -> string -> Prop :=
| ft_nil : folds_to EmptyString EmptyString
| ft_char : forall a s w, folds_to s w -> folds_to (String a s) (String (lower a) w)
| ft_long_s : forall s w, folds_to s w -> folds_to (String (ascii_of_nat 197) (String (ascii_of_nat 191) s)) (String "s" w).

Lemma lower_long_s : lower (ascii_of_nat 197) <> "s"%char.
Proof. vm_compute. discriminate. Qed.

Lemma eq_fold2_spec : forall w s, eq_fold2 s w = true <-> folds_to s w.
Proof.
  induction w as [|b w IH]; intros s.
  - destruct s as [|a s]; simpl; split; intros H.
    + constructor.
    + reflexivity.
    + discriminate.
    + inversion H.
  - destruct s as [|a s]; simpl.
    + split; intros H; [discriminate | inversion H].
    + destruct (ch_eq (lower a) b) eqn:E.
      * apply Ascii.eqb_eq in E. subst b. rewrite IH. split; intros H; [now constructor|].
        inversion H; subst; try assumption; exfalso; apply lower_long_s; congruence.
      * apply Ascii.eqb_neq in E. destruct (ch_eq b "s") eqn:Es.
        -- apply Ascii.eqb_eq in Es. subst b. destruct s as [|a2 s].
           ++ split; intros H; [discriminate | inversion H; subst; congruence].
           ++ split; intros H.
              ** apply andb_true_iff in H. destruct H as [H H3]. apply andb_true_iff in H. destruct H as [H1 H2].
                 apply Nat.eqb_eq in H1. apply Nat.eqb_eq in H2. unfold byte in *.
                 rewrite <- (ascii_nat_embedding a), <- (ascii_nat_embedding a2), H1, H2.
                 constructor. now apply IH.
              ** inversion H; subst; [congruence|].
                 match goal with Hx : folds_to s w |- _ => apply IH in Hx; rewrite Hx end. reflexivity.
        -- split; intros H; [discriminate | inversion H; subst; [congruence | discriminate]].
Qed.

(* strconv.ParseInt(v, 10, 64): optional sign, at least one digit, digits only, int64 range *)
Definition int_text (v : string) (n : Z) : Prop :=
  exists (sg ds : string) (m : Z),
    v = sg ++ ds /\ (sg = EmptyString \/ sg = "+" \/ sg = "-") /\ ds <> EmptyString
    /\ digits_val 0 ds = Some m /\ n = (if String.eqb sg "-" then (- m)%Z else m)
    /\ (int64_min <= n <= int64_max)%Z.

Lemma digit_not_sign : forall c d, digit_of c = Some d -> c <> "+"%char /\ c <> "-"%char.
Proof. intros c d H. split; intros ->; vm_compute in H; discriminate. Qed.

(* the part of ParseInt after the sign *)
Definition pi_body (neg : bool) (body : string) : option Z :=
  match body with
  | EmptyString => None
  | _ => match digits_val 0 body with
         | Some n => let z := if neg then (- n)%Z else n in
                     if (int64_min <=? z)%Z && (z <=? int64_max)%Z then Some z else None
         | None => None
         end
  end.

Lemma pi_body_spec : forall neg body n,
  pi_body neg body = Some n <->
  body <> EmptyString /\ exists m, digits_val 0 body = Some m /\ n = (if neg then (- m)%Z else m) /\ (int64_min <= n <= int64_max)%Z.
Proof.
  intros neg body n. unfold pi_body. split.
  - intros H. destruct body as [|c t] eqn:B; [discriminate|]. rewrite <- B in *.
    split; [rewrite B; discriminate|].
    destruct (digits_val 0 body) as [m|]; [|discriminate]. cbv zeta in H.
    destruct ((int64_min <=? (if neg then (- m)%Z else m))%Z && ((if neg then (- m)%Z else m) <=? int64_max)%Z) eqn:R; [|discriminate].
    inversion H; subst n. apply andb_true_iff in R. destruct R as [R1 R2]. apply Z.leb_le in R1. apply Z.leb_le in R2.
    exists m. repeat split; lia.
  - intros (Hne & m & Hd & Hn & Hr). destruct body as [|c t] eqn:B; [congruence|]. rewrite <- B in *.
    rewrite Hd. cbv zeta. subst n.
    assert (R : ((int64_min <=? (if neg then (- m)%Z else m))%Z && ((if neg then (- m)%Z else m) <=? int64_max)%Z) = true).
    { apply andb_true_iff. split; apply Z.leb_le; lia. }
    now rewrite R.
Qed.

Lemma parse_int_spec : forall v n, parse_int v = Some n <-> int_text v n.
Proof.
  intros v n. unfold int_text. split.
  - intros H. destruct v as [|c t]; [discriminate|].
    unfold parse_int in H. destruct (ch_eq c "-") eqn:E1.
    + apply Ascii.eqb_eq in E1. subst c. apply (pi_body_spec true t n) in H.
      destruct H as (Hne & m & Hd & Hn & Hr). exists "-", t, m. repeat split; auto; lia.
    + destruct (ch_eq c "+") eqn:E2.
      * apply Ascii.eqb_eq in E2. subst c. apply (pi_body_spec false t n) in H.
        destruct H as (Hne & m & Hd & Hn & Hr). exists "+", t, m. repeat split; auto; lia.
      * apply (pi_body_spec false (String c t) n) in H.
        destruct H as (Hne & m & Hd & Hn & Hr). exists EmptyString, (String c t), m. repeat split; auto; lia.
  - intros (sg & ds & m & Hv & Hsg & Hne & Hd & Hn & Hr).
    destruct ds as [|c0 t0]; [congruence|].
    assert (Hc0 : c0 <> "+"%char /\ c0 <> "-"%char).
    { simpl in Hd. destruct (digit_of c0) eqn:Dg; [eapply digit_not_sign; eauto | discriminate]. }
    destruct Hc0 as [Hp Hm].
    destruct Hsg as [-> | [-> | ->]]; simpl in Hv; subst v; unfold parse_int.
    + assert (E1 : ch_eq c0 "-" = false) by (apply Ascii.eqb_neq; assumption).
      assert (E2 : ch_eq c0 "+" = false) by (apply Ascii.eqb_neq; assumption).
      rewrite E1, E2. apply (pi_body_spec false (String c0 t0) n). split; [discriminate|]. exists m. auto.
    + change (ch_eq "+" "-") with false. change (ch_eq "+" "+") with true. cbv iota.
      apply (pi_body_spec false (String c0 t0) n). split; [discriminate|]. exists m. auto.
    + change (ch_eq "-" "-") with true. cbv iota.
      apply (pi_body_spec true (String c0 t0) n). split; [discriminate|]. exists m. auto.
Qed.

(* typedVal(v, st) as a relation: exactly one of these forms, decided by these tests *)
Inductive typed_as : bool -> string -> val -> Prop :=
| ta_string : forall v, typed_as true v (VStr v)                       (* --set-string never infers a type *)
| ta_true : forall v, folds_to v "true" -> typed_as false v (VBool true)
| ta_false : forall v, folds_to v "false" -> typed_as false v (VBool false)
| ta_null : forall v, folds_to v "null" -> typed_as false v VNull
| ta_zero : typed_as false "0" (VNum 0)
| ta_int : forall c t n, c <> "0"%char -> int_text (String c t) n -> typed_as false (String c t) (VNum n)
| ta_text : forall v,
    ~ folds_to v "true" -> ~ folds_to v "false" -> ~ folds_to v "null" -> v <> "0" ->
    (v = EmptyString \/ (exists t, v = String "0" t) \/ forall n, ~ int_text v n) ->
    typed_as false v (VStr v).

Definition first_lower (v : string) : option ascii := match v with String a _ => Some (lower a) | EmptyString => None end.

Lemma fold_first : forall v b w, eq_fold2 v (String b w) = true -> ch_eq b "s" = false -> first_lower v = Some b.
Proof.
  intros [|a s] b w H Hs; simpl in H; [discriminate|].
  destruct (ch_eq (lower a) b) eqn:E; [apply Ascii.eqb_eq in E; subst; reflexivity|].
  rewrite Hs in H. discriminate.
Qed.

Lemma int_first : forall v n, int_text v n ->
  exists a t, v = String a t /\ (a = "+"%char \/ a = "-"%char \/ exists d, digit_of a = Some d).
Proof.
  intros v n (sg & ds & m & Hv & Hsg & Hne & Hd & _).
  destruct ds as [|c0 t0]; [congruence|].
  destruct Hsg as [-> | [-> | ->]]; simpl in Hv; subst v; eexists; eexists; split; try reflexivity; auto.
  right; right. simpl in Hd. destruct (digit_of c0) eqn:Dg; [eauto | discriminate].
Qed.

(* a sign or a digit is no letter of true / false / null, and only "0" folds to "0" *)
Lemma lower_sign_digit : forall a, (a = "+"%char \/ a = "-"%char \/ exists d, digit_of a = Some d) ->
  lower a <> "t"%char /\ lower a <> "f"%char /\ lower a <> "n"%char /\ (lower a = "0"%char -> a = "0"%char).
Proof.
  intros a H.
  assert (L : lower a = a).
  { destruct H as [->|[->|[d Hd]]]; try reflexivity.
    unfold digit_of in Hd. unfold lower.
    destruct (Nat.leb 48 (nat_of_ascii a) && Nat.leb (nat_of_ascii a) 57) eqn:R; [|discriminate].
    apply andb_true_iff in R. destruct R as [R1 R2]. apply Nat.leb_le in R1. apply Nat.leb_le in R2.
    destruct (Nat.leb 65 (nat_of_ascii a) && Nat.leb (nat_of_ascii a) 90) eqn:R'; [|reflexivity].
    apply andb_true_iff in R'. destruct R' as [R3 _]. apply Nat.leb_le in R3. lia. }
  rewrite L. destruct H as [->|[->|[d Hd]]]; repeat split; try discriminate; try (intros ->; vm_compute in Hd; discriminate); auto.
Qed.

Lemma lower_zero : forall a, lower a = "0"%char -> a = "0"%char.
Proof.
  intros a. unfold lower. destruct (Nat.leb 65 (nat_of_ascii a) && Nat.leb (nat_of_ascii a) 90) eqn:R; [|auto].
  apply andb_true_iff in R. destruct R as [R1 R2]. apply Nat.leb_le in R1. apply Nat.leb_le in R2.
  intros H. apply (f_equal nat_of_ascii) in H. rewrite nat_ascii_embedding in H by lia.
  change (nat_of_ascii "0") with 48 in H. lia.
Qed.

Lemma eq_fold2_zero : forall v, eq_fold2 v "0" = true <-> v = "0".
Proof.
  intros v. split.
  - destruct v as [|a [|b t]]; simpl; try discriminate.
    + destruct (ch_eq (lower a) "0") eqn:E; [|discriminate]. apply Ascii.eqb_eq in E. apply lower_zero in E. now subst.
    + destruct (ch_eq (lower a) "0"); discriminate.
  - intros ->. reflexivity.
Qed.

Theorem typed_val_sound : forall st v, typed_as st v (typed_val2 st v).
Proof.
  intros st v. unfold typed_val2. destruct st; [constructor|].
  destruct (eq_fold2 v "true") eqn:T; [constructor; now apply eq_fold2_spec|].
  destruct (eq_fold2 v "false") eqn:F; [constructor; now apply eq_fold2_spec|].
  destruct (eq_fold2 v "null") eqn:N; [constructor; now apply eq_fold2_spec|].
  destruct (eq_fold2 v "0") eqn:Z0; [apply eq_fold2_zero in Z0; subst; constructor|].
  assert (NT : ~ folds_to v "true") by (intros H; apply eq_fold2_spec in H; congruence).
  assert (NF : ~ folds_to v "false") by (intros H; apply eq_fold2_spec in H; congruence).
  assert (NN : ~ folds_to v "null") by (intros H; apply eq_fold2_spec in H; congruence).
  assert (NZ : v <> "0") by (intros ->; discriminate).
  destruct v as [|c t]; [apply ta_text; auto|].
  destruct (ch_eq c "0") eqn:E.
  - apply Ascii.eqb_eq in E. subst c. apply ta_text; auto. right; left. eexists; reflexivity.
  - destruct (parse_int (String c t)) as [n|] eqn:P.
    + apply ta_int; [intros ->; rewrite Ascii.eqb_refl in E; discriminate | now apply parse_int_spec].
    + apply ta_text; auto. right; right. intros n H. apply parse_int_spec in H. congruence.
Qed.

Theorem typed_val_complete : forall st v x, typed_as st v x -> typed_val2 st v = x.
Proof.
  intros st v x H. unfold typed_val2.
  assert (NS : forall b, b = "t"%char \/ b = "f"%char \/ b = "n"%char \/ b = "0"%char -> ch_eq b "s" = false)
    by (intros b [->|[-> | [-> | ->]]]; reflexivity).
  inversion H; subst; clear H.
  - reflexivity.
  - apply eq_fold2_spec in H0. now rewrite H0.
  - apply eq_fold2_spec in H0.
    destruct (eq_fold2 v "true") eqn:T.
    + apply fold_first in T; [|reflexivity]. apply fold_first in H0; [|reflexivity]. rewrite T in H0. discriminate.
    + now rewrite H0.
  - apply eq_fold2_spec in H0.
    destruct (eq_fold2 v "true") eqn:T.
    { apply fold_first in T; [|reflexivity]. apply fold_first in H0; [|reflexivity]. rewrite T in H0. discriminate. }
    destruct (eq_fold2 v "false") eqn:F.
    { apply fold_first in F; [|reflexivity]. apply fold_first in H0; [|reflexivity]. rewrite F in H0. discriminate. }
    now rewrite H0.
  - reflexivity.
  - destruct (int_first _ _ H1) as (a & t' & Hv & Ha). inversion Hv; subst a t'.
    destruct (lower_sign_digit c Ha) as (L1 & L2 & L3 & L4).
    assert (FL : first_lower (String c t) = Some (lower c)) by reflexivity.
    destruct (eq_fold2 (String c t) "true") eqn:T.
    { apply fold_first in T; [|reflexivity]. rewrite FL in T. inversion T. congruence. }
    destruct (eq_fold2 (String c t) "false") eqn:F.
    { apply fold_first in F; [|reflexivity]. rewrite FL in F. inversion F. congruence. }
    destruct (eq_fold2 (String c t) "null") eqn:N.
    { apply fold_first in N; [|reflexivity]. rewrite FL in N. inversion N. congruence. }
    destruct (eq_fold2 (String c t) "0") eqn:Z0.
    { apply fold_first in Z0; [|reflexivity]. rewrite FL in Z0. inversion Z0. exfalso. apply H0. now apply L4. }
    assert (E : ch_eq c "0" = false) by (apply Ascii.eqb_neq; assumption).
    rewrite E. apply parse_int_spec in H1. now rewrite H1.
  - assert (T : eq_fold2 v "true" = false) by (destruct (eq_fold2 v "true") eqn:T; [apply eq_fold2_spec in T; contradiction | reflexivity]).
    assert (F : eq_fold2 v "false" = false) by (destruct (eq_fold2 v "false") eqn:F; [apply eq_fold2_spec in F; contradiction | reflexivity]).
    assert (N : eq_fold2 v "null" = false) by (destruct (eq_fold2 v "null") eqn:N; [apply eq_fold2_spec in N; contradiction | reflexivity]).
    assert (Z0 : eq_fold2 v "0" = false) by (destruct (eq_fold2 v "0") eqn:Z0; [apply eq_fold2_zero in Z0; contradiction | reflexivity]).
    rewrite T, F, N, Z0.
    destruct H4 as [->|[[t ->]|Hn]]; [reflexivity | reflexivity |].
    destruct v as [|c t]; [reflexivity|].
    destruct (ch_eq c "0"); [reflexivity|].
    destruct (parse_int (String c t)) as [n|] eqn:P; [|reflexivity].
    apply parse_int_spec in P. exfalso. eapply Hn; eauto.
Qed.

(* the complete characterisation *)
Theorem typed_val_spec : forall st v x, typed_val2 st v = x <-> typed_as st v x.
Proof.
  intros st v x. split; [intros <-; apply typed_val_sound | apply typed_val_complete].
Qed.

(* corollaries in plain words *)
Corollary typed_val_string_never_infers : forall v, typed_val2 true v = VStr v.
Proof. reflexivity. Qed.

Corollary typed_val_text_verbatim : forall st v s, typed_val2 st v = VStr s -> s = v.
Proof. intros st v s H. apply typed_val_spec in H. inversion H; reflexivity. Qed.

Corollary typed_val_leading_zero : forall t, t <> EmptyString -> typed_val2 false (String "0" t) = VStr (String "0" t).
Proof.
  intros t Ht. unfold typed_val2.
  assert (Z0 : eq_fold2 (String "0" t) "0" = false).
  { destruct (eq_fold2 (String "0" t) "0") eqn:E; [|reflexivity]. apply eq_fold2_zero in E. inversion E. congruence. }
  rewrite Z0. reflexivity.
Qed.

Corollary typed_val_only_scalars : forall st v,
  match typed_val2 st v with VFlt _ | VList _ | VMap _ => False | _ => True end.
Proof. intros st v. pose proof (typed_val_sound st v) as H. destruct (typed_val2 st v); try exact I; inversion H. Qed.

(* the quirk: the leading-zero test looks at the first byte only *)
Example typed_val_signed_leading_zero :
  typed_val2 false "-007" = VNum (-7) /\ typed_val2 false "+0" = VNum 0 /\ typed_val2 false "007" = VStr "007".
Proof. repeat split; reflexivity. Qed.

Example typed_val_examples :
  typed_val2 false "TRUE" = VBool true /\ typed_val2 false "False" = VBool false /\ typed_val2 false "nUlL" = VNull
  /\ typed_val2 false ("fal" ++ bs [197; 191] ++ "e") = VBool false
  /\ typed_val2 false "0" = VNum 0 /\ typed_val2 false "00" = VStr "00" /\ typed_val2 false "1.5" = VStr "1.5"
  /\ typed_val2 false "9223372036854775807" = VNum 9223372036854775807
  /\ typed_val2 false "9223372036854775808" = VStr "9223372036854775808"
  /\ typed_val2 false "-9223372036854775808" = VNum (-9223372036854775808)
  /\ typed_val2 false "" = VStr "" /\ typed_val2 false "-" = VStr "-" /\ typed_val2 true "true" = VStr "true".
Proof. repeat split; reflexivity. Qed.

(* emptyVal never runs out of fuel either: more fuel than the input is long changes nothing *)
Lemma empty_val2_fuel : forall f g s, String.length s < f -> String.length s < g -> empty_val2_f f s = empty_val2_f g s.
Proof.
  induction f as [|f IH]; intros g s Hf Hg; [lia|].
  destruct g as [|g]; [lia|]. simpl.
  destruct (read_rune s) as [[r t]|] eqn:R; [|reflexivity].
  pose proof (read_rune_len _ _ _ R) as Ht.
  destruct (String.eqb r ","); [reflexivity|]. destruct (is_space_rune r); [|reflexivity].
  apply IH; lia.
Qed.

Example empty_val2_examples :
  empty_val2 EmptyString = (true, EmptyString) /\ empty_val2 " " = (true, EmptyString)
  /\ empty_val2 (" " ++ bs [194; 160] ++ ",x") = (true, "x") /\ empty_val2 " 1" = (false, "1").
Proof. repeat split; reflexivity. Qed.

(* The small typed family [SNode] (Values/Schema.v) written as JSON-Schema documents: [doc_of s]
   is the document the harness writes into values.schema.json for s (c11_chart.go: vSchema.doc).
   The correspondence run evaluates both [valid s v] and [doc_verdict (doc_of s) v] on every pair
   of the old family and compares them with the library ([agrees_on]) - the old evaluator is a
   sub-language of the new one on the values the generators produce.  (Not a theorem for all
   values: [valid] does not look at fractions - "integer" never matches a [VFlt], bounds skip it -
   while the library, and [doc_verdict], read 1e+21 as an integer.) *)
From Coq Require Import List String Bool ZArith.
From Helm Require Import Values.Tree Values.Schema2 Values.Schema.
Import ListNotations.
Local Open Scope string_scope.

Definition type_name (t : jtype) : string :=
  match t with
  | TObject => "object" | TArray => "array" | TString => "string" | TInteger => "integer"
  | TNumber => "number" | TBoolean => "boolean" | TNull => "null"
  end.

Definition opt_member {A} (k : string) (o : option A) (f : A -> val) : vmap :=
  match o with Some a => [(k, f a)] | None => [] end.

Fixpoint doc_of (s : schema) : val :=
  match s with
  | SInvalid => VStr "does not parse"
  | SDoc d => d
  | SNode ty required enum minimum maximum props additional items =>
      VMap (opt_member "type" ty (fun t => VStr (type_name t))
            ++ match required with [] => [] | _ => [("required", VList (map VStr required))] end
            ++ opt_member "enum" enum VList
            ++ opt_member "minimum" minimum VNum
            ++ opt_member "maximum" maximum VNum
            ++ match props with
               | [] => []
               | _ => [("properties",
                        VMap ((fix go (ps : list (string * schema)) : vmap :=
                                 match ps with [] => [] | (k, sk) :: t => (k, doc_of sk) :: go t end) props))]
               end
            ++ (if additional then [] else [("additionalProperties", VBool false)])
            ++ match items with Some si => [("items", doc_of si)] | None => [] end)%list
  end.

Definition agrees_on (s : schema) (v : val) : bool :=
  match s with
  | SInvalid => true
  | _ => Bool.eqb (valid s v) (verdict_eqb (doc_verdict (doc_of s) v) VOk)
  end.

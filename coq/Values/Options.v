(* values.Options.MergeValues (pkg/cli/values/options.go): the flag families folded into one
   table, lowest precedence first:
     -f files (loader.MergeMaps) ; --set-json ; --set ; --set-string ; --set-file ; --set-literal
   Any error ends the whole call with an error.

   Outside the model, supplied with the case: the tree each -f file decodes to (YAML), for
   --set-json the result of json.Unmarshal when the trimmed text starts with '{' and the
   decode table of Strvals.v, and the contents of the files named by --set-file.

   The fold order is a parameter ([merge_values_in]); the model is the instance at
   [expected_order], and Props/C04.v proves that the order extracted from the Go source on
   every run (Gen/ValueOrder.v) is that order. *)
From Coq Require Import List String Ascii Bool Arith ZArith.
From Helm Require Import Values.Tree Values.Merge Values.Strvals.
Import ListNotations.
Local Open Scope string_scope.

Record json_value := mkJson {
  jv_text : string;
  jv_obj : option vmap;                    (* json.Unmarshal(trimmed, &map): None = error *)
  jv_dec : list (nat * (val * nat))        (* Strvals.pjdec for the key=value form *)
}.

Record options := mkOptions {
  value_files : list vmap;                 (* -f/--values, decoded *)
  json_values : list json_value;           (* --set-json *)
  set_values : list string;                (* --set *)
  string_values : list string;             (* --set-string *)
  file_values : list string;               (* --set-file *)
  literal_values : list string;            (* --set-literal *)
  file_contents : list (string * string)   (* what readFile returns for the paths of --set-file *)
}.

Fixpoint trim_left (s : string) : string :=
  match s with
  | String c t => if is_space c then trim_left t else s
  | EmptyString => s
  end.

Definition starts_with_brace (s : string) : bool :=
  match trim_left s with String c _ => ch_eq c c_lbrace | EmptyString => false end.

(* one step of a family; None = error *)
Definition step_file (base : vmap) (f : vmap) : option vmap := Some (merge_maps base f).

Definition of_pres (r : pres) : option vmap := match r with POk d => Some d | _ => None end.

Definition step_json (base : vmap) (j : json_value) : option vmap :=
  if starts_with_brace (jv_text j)
  then match jv_obj j with Some m => Some (merge_maps base m) | None => None end
  else of_pres (parse_json (jv_dec j) (jv_text j) base).

Definition step_set (base : vmap) (s : string) : option vmap := of_pres (parse_into s base).
Definition step_set_string (base : vmap) (s : string) : option vmap := of_pres (parse_into_string s base).
Definition step_set_file (files : list (string * string)) (base : vmap) (s : string) : option vmap :=
  of_pres (parse_into_file files s base).
Definition step_set_literal (base : vmap) (s : string) : option vmap := of_pres (parse_literal_into s base).

Fixpoint fold_opt {A} (f : vmap -> A -> option vmap) (l : list A) (base : vmap) : option vmap :=
  match l with
  | [] => Some base
  | x :: t => match f base x with Some b => fold_opt f t b | None => None end
  end.

(* one family, by the name of its Options field *)
Definition run_family (o : options) (fam : string) (base : vmap) : option vmap :=
  if String.eqb fam "ValueFiles" then fold_opt step_file (value_files o) base
  else if String.eqb fam "JSONValues" then fold_opt step_json (json_values o) base
  else if String.eqb fam "Values" then fold_opt step_set (set_values o) base
  else if String.eqb fam "StringValues" then fold_opt step_set_string (string_values o) base
  else if String.eqb fam "FileValues" then fold_opt (step_set_file (file_contents o)) (file_values o) base
  else if String.eqb fam "LiteralValues" then fold_opt step_set_literal (literal_values o) base
  else None.

Fixpoint merge_values_in (order : list string) (o : options) (base : vmap) : option vmap :=
  match order with
  | [] => Some base
  | fam :: t => match run_family o fam base with Some b => merge_values_in t o b | None => None end
  end.

Definition expected_order : list string :=
  ["ValueFiles"; "JSONValues"; "Values"; "StringValues"; "FileValues"; "LiteralValues"].

Definition merge_values (o : options) : option vmap := merge_values_in expected_order o [].

(* Printed expressions over the second --set model (Values/Strvals2.v), for ALL FIVE parsers
   and paths with NESTED list indexes (a[0][1], a[1][0].b, …):

   * [scan_printed]: the scanner reads a printed path back as exactly its keys and indexes
     (with the documented escaping for the four escaping parsers, verbatim for the literal
     parser) — the link between the all-strings theorems of Strvals2Proofs.v and expressions
     a user writes;
   * [key2_printed] / [parse2_printed]: when the meaning [den_k] of the path over the
     destination exists, the parse succeeds and returns exactly it;
   * [literal_verbatim]: the literal parser takes everything after the first '=' as the value,
     commas, backslashes, '=' and brackets included — as string([]rune(v)) makes of it, i.e.
     verbatim for well-formed UTF-8 and NOT verbatim otherwise ([literal_verbatim_bytes_refuted]). *)
From Coq Require Import List String Ascii Bool Arith ZArith Lia.
From Helm Require Import Common.Strs Values.Tree Values.TreeLemmas Values.Strvals Values.StrvalsProofs Values.GrammarProofs
                         Values.Strvals2 Values.Strvals2Proofs Values.Strvals2Read.
Import ListNotations.
Local Open Scope string_scope.

(* ---------- reading back what the printer escaped, rune by rune ---------- *)
Section EscRead.
  Variables (ne stop : ascii -> bool).
  Hypothesis stop_ne : forall c, stop c = true -> ne c = true.
  Hypothesis ne_bsl : ne c_bsl = true.
  Hypothesis stop_bsl : stop c_bsl = false.
  Hypothesis ne_ascii : forall c, ne c = true -> Nat.ltb (byte c) 128 = true.

  Lemma ne_high : forall c, high c = true -> ne c = false.
  Proof.
    intros c H. destruct (ne c) eqn:N; [|reflexivity]. apply ne_ascii in N.
    unfold high in H. apply Nat.leb_le in H. apply Nat.ltb_lt in N. lia.
  Qed.

  Lemma esc_with_high : forall r t, all_high r = true -> esc_with ne (r ++ t) = r ++ esc_with ne t.
  Proof.
    induction r as [|c r IH]; intros t H; [reflexivity|].
    simpl in H. apply andb_true_iff in H. destruct H as [Hc Hr].
    simpl. rewrite (ne_high c Hc). now rewrite IH.
  Qed.

  Lemma read_rune_ascii : forall c t, Nat.ltb (byte c) 128 = true -> read_rune (String c t) = Some (String c EmptyString, t).
  Proof. intros c t H. simpl. now rewrite H. Qed.

  Lemma ru_esc_app : forall k, utf8 k ->
    forall tail v l r, (exists g, ru g true stop tail = Some (v, l, r)) ->
    exists g', ru g' true stop (esc_with ne k ++ tail) = Some (k ++ v, l, r).
  Proof.
    intros k Hu. induction Hu as [|r0 t Hr Ht IH]; intros tail v l r Hg.
    - exact Hg.
    - destruct (IH tail v l r Hg) as [g1 H1].
      exists (S g1).
      destruct (rune_shape r0 Hr) as [(c0 & -> & Hc0)|[Hh Hl]].
      + simpl esc_with. destruct (ne c0) eqn:N.
        * change ((String c_bsl (String c0 (esc_with ne t))) ++ tail) with (String c_bsl (String c0 (esc_with ne t ++ tail))).
          cbn [ru]. rewrite (read_rune_ascii c_bsl) by reflexivity. rewrite stop_bsl.
          change (true && ch_eq c_bsl c_bsl) with true. cbv iota.
          rewrite (read_rune_ascii c0) by assumption. rewrite H1. reflexivity.
        * change ((String c0 (esc_with ne t)) ++ tail) with (String c0 (esc_with ne t ++ tail)).
          cbn [ru]. rewrite (read_rune_ascii c0) by assumption.
          assert (S0 : stop c0 = false) by (destruct (stop c0) eqn:S0; [apply stop_ne in S0; congruence | reflexivity]).
          assert (B0 : ch_eq c0 c_bsl = false).
          { destruct (ch_eq c0 c_bsl) eqn:B0; [|reflexivity]. apply Ascii.eqb_eq in B0. subst c0. congruence. }
          rewrite S0, B0. simpl andb. cbv iota. rewrite H1. reflexivity.
      + rewrite esc_with_high by assumption. rewrite app_assoc_s.
        destruct Hr as [Hne Hrr]. cbn [ru]. rewrite Hrr.
        destruct r0 as [|c [|c' r']]; [congruence | simpl in Hl; lia |].
        rewrite H1. now rewrite app_assoc_s.
  Qed.

  Lemma stop_is_ascii : forall c, stop c = true -> Nat.ltb (byte c) 128 = true.
  Proof. intros c H. apply ne_ascii. now apply stop_ne. Qed.

  Lemma runes_until2_esc_stop : forall k c rest, utf8 k -> stop c = true ->
    runes_until2 true stop (esc_with ne k ++ String c rest) = (k, Some c, rest).
  Proof.
    intros k c rest Hu Hc.
    destruct (ru_esc_app k Hu (String c rest) EmptyString (Some c) rest) as [g H].
    { exists 1. cbn [ru]. rewrite (read_rune_ascii c) by now apply stop_is_ascii. now rewrite Hc. }
    rewrite app_nil_r_s in H. eapply runes_until2_ru; eauto.
  Qed.

  Lemma runes_until2_esc_eof : forall v, utf8 v ->
    runes_until2 true stop (esc_with ne v) = (v, None, EmptyString).
  Proof.
    intros v Hu.
    destruct (ru_esc_app v Hu EmptyString EmptyString None EmptyString) as [g H].
    { exists 1. reflexivity. }
    rewrite !app_nil_r_s in H. eapply runes_until2_ru; eauto.
  Qed.
End EscRead.

(* ---------- small reading facts ---------- *)
Lemma runes_until2_stop_first : forall e stop c rest, stop c = true -> Nat.ltb (byte c) 128 = true ->
  runes_until2 e stop (String c rest) = (EmptyString, Some c, rest).
Proof.
  intros e stop c rest Hc Ha. apply (runes_until2_ru 1). cbn [ru]. simpl read_rune. rewrite Ha. now rewrite Hc.
Qed.

Lemma runes_until2_empty : forall e stop, runes_until2 e stop EmptyString = (EmptyString, None, EmptyString).
Proof. reflexivity. Qed.

Lemma is_digit_range : forall c, is_digit c = true -> 48 <= nat_of_ascii c <= 57.
Proof.
  intros c H. unfold is_digit, digit_of in H. cbv zeta in H.
  destruct (Nat.leb 48 (nat_of_ascii c)) eqn:R1; destruct (Nat.leb (nat_of_ascii c) 57) eqn:R2; simpl in H; try discriminate.
  apply Nat.leb_le in R1. apply Nat.leb_le in R2. lia.
Qed.

Lemma digits_utf8 : forall txt, all_digits txt = true -> utf8 txt.
Proof.
  induction txt as [|c t IH]; intros H; [constructor|].
  simpl in H. apply andb_true_iff in H. destruct H as [Hc Ht].
  change (String c t) with (String c EmptyString ++ t). constructor; [|now apply IH].
  apply rune_ascii. apply Nat.ltb_lt. unfold byte. pose proof (is_digit_range c Hc). lia.
Qed.

Lemma digits_plain : forall e txt, all_digits txt = true -> all_plain e stop_rbr txt = true.
Proof.
  induction txt as [|c t IH]; intros H; [reflexivity|].
  simpl in H. apply andb_true_iff in H. destruct H as [Hc Ht]. simpl. rewrite IH by assumption. rewrite andb_true_r.
  pose proof (is_digit_range c Hc) as R. unfold plain.
  assert (A : stop_rbr c = false).
  { unfold stop_rbr. apply Ascii.eqb_neq. intros ->. change (nat_of_ascii c_rbr) with 93 in R. lia. }
  assert (B : ch_eq c c_bsl = false).
  { apply Ascii.eqb_neq. intros ->. change (nat_of_ascii c_bsl) with 92 in R. lia. }
  rewrite A, B. now rewrite andb_false_r.
Qed.

Lemma digits_read : forall e txt rest, all_digits txt = true ->
  runes_until2 e stop_rbr (txt ++ String c_rbr rest) = (txt, Some c_rbr, rest).
Proof.
  intros e txt rest H. apply (runes_until2_ru (S (String.length txt))).
  apply ru_plain_stop; auto using digits_utf8, digits_plain.
  intros c Hc. unfold stop_rbr in Hc. apply Ascii.eqb_eq in Hc. subst c. reflexivity.
Qed.

(* ---------- printed paths ---------- *)
Inductive pstep := PK (k : string) | PI (txt : string) (i : Z).

Definition step_of (p : pstep) : step := match p with PK k => SKey k | PI _ i => SIdx i end.

(* what follows a complete step: ".key…", "[index]…" or "=value" *)
Fixpoint show_after (ek : string -> string) (r : list pstep) (tail : string) : string :=
  match r with
  | [] => String c_eq tail
  | PK k :: r' => String c_dot (ek k ++ show_after ek r' tail)
  | PI txt _ :: r' => String c_lbr (txt ++ String c_rbr (show_after ek r' tail))
  end.

Definition show_path2 (ek : string -> string) (k0 : string) (r : list pstep) (tail : string) : string :=
  ek k0 ++ show_after ek r tail.

(* the meaning of "k0<r>=x" over a table / of "[i]<r>=x" over a list; None = the parse fails *)
Fixpoint den_k (r : list pstep) (k0 : string) (x : val) (d : vmap) {struct r} : option vmap :=
  match r with
  | [] => Some (mset k0 x d)
  | PK k :: r' =>
      match table_at k0 d with
      | Some (inner, _) => match den_k r' k x inner with Some inner' => Some (mset k0 (VMap inner') d) | None => None end
      | None => None
      end
  | PI _ i :: r' =>
      match list_at k0 d with
      | Some (l, _) => match den_i r' i x l with Some l' => Some (mset k0 (VList l') d) | None => None end
      | None => None
      end
  end
with den_i (r : list pstep) (i : Z) (x : val) (l : list val) {struct r} : option (list val) :=
  match r with
  | [] => set_index l i x
  | PK k :: r' =>
      let '(l1, inner, _) := inner_of l i in
      match den_k r' k x inner with Some inner' => set_index l1 i (VMap inner') | None => None end
  | PI _ j :: r' =>
      match crt_of l i with
      | Some (crt, _) => match den_i r' j x crt with Some l2 => set_index l i (VList l2) | None => None end
      | None => None
      end
  end.

Lemma den_k_nonempty : forall r k0 x d d', den_k r k0 x d = Some d' -> d' <> [].
Proof.
  intros [|[k|txt i] r] k0 x d d' H; simpl in H.
  - inversion H. apply mset_nonempty.
  - destruct (table_at k0 d) as [[inner ex]|]; [|discriminate]. destruct (den_k r k x inner); [|discriminate].
    inversion H. apply mset_nonempty.
  - destruct (list_at k0 d) as [[l ex]|]; [|discriminate]. destruct (den_i r i x l); [|discriminate].
    inversion H. apply mset_nonempty.
Qed.

Lemma den_i_nonneg : forall r i x l l', den_i r i x l = Some l' -> (0 <= i)%Z.
Proof.
  intros [|[k|txt j] r] i x l l' H; simpl in H.
  - now apply set_index_some in H.
  - destruct (inner_of l i) as [[l1 inner] ip]. destruct (den_k r k x inner); [|discriminate]. now apply set_index_some in H.
  - destruct (crt_of l i) as [[crt ex]|]; [|discriminate]. destruct (den_i r j x crt); [|discriminate]. now apply set_index_some in H.
Qed.

Section Printed.
  Variable mode : pmode.
  Variable rdr : string -> val * bool.
  Variable jdec : string -> option (val * nat).
  (* how keys are printed, and which keys the printer takes *)
  Variable ek : string -> string.
  Variable kok : string -> Prop.
  Hypothesis key_back : forall k c rest, kok k -> stopk mode c = true ->
    runes_until2 (esc mode) (stopk mode) (ek k ++ String c rest) = (k, Some c, rest).

  Notation key2' := (key2 mode rdr jdec).
  Notation list_item2' := (list_item2 mode rdr jdec).
  Notation scan_key' := (scan_key mode rdr jdec).
  Notation scan_item' := (scan_item mode rdr jdec).
  Notation vae := (value_after_eq2 mode rdr jdec).

  Definition pwf (p : pstep) : Prop :=
    match p with
    | PK k => kok k
    | PI txt i => all_digits txt = true /\ parse_int txt = Some i
    end.
  Definition pne (p : pstep) : Prop := match p with PK k => k <> EmptyString | PI _ _ => True end.

  Definition valof (tail : string) : option val :=
    match vae tail with
    | V2Ok v _ | V2OkEof v => Some v
    | V2Eof => Some (VStr EmptyString)
    | _ => None
    end.

  Lemma stopk_eq : stopk mode c_eq = true.  Proof. unfold stopk. destruct (lit mode); reflexivity. Qed.
  Lemma stopk_dot : stopk mode c_dot = true. Proof. unfold stopk. destruct (lit mode); reflexivity. Qed.
  Lemma stopk_lbr : stopk mode c_lbr = true. Proof. unfold stopk. destruct (lit mode); reflexivity. Qed.

  Lemma key_index2_printed : forall txt i rest, all_digits txt = true -> parse_int txt = Some i ->
    key_index2 mode (txt ++ String c_rbr rest) = Some (i, rest).
  Proof. intros txt i rest H1 H2. unfold key_index2. rewrite digits_read by assumption. now rewrite H2. Qed.

  (* --- the scanner reads the printed path back --- *)
  Lemma scan_printed_both : forall r, Forall pwf r ->
    (forall k0 f tail, kok k0 -> List.length r < f ->
        sc_path (scan_key' f (ek k0 ++ show_after ek r tail)) = SKey k0 :: map step_of r
        /\ sc_val (scan_key' f (ek k0 ++ show_after ek r tail)) = valof tail)
    /\ (forall f tail, List.length r < f ->
        sc_path (scan_item' f (show_after ek r tail)) = map step_of r
        /\ sc_val (scan_item' f (show_after ek r tail)) = valof tail).
  Proof.
    induction r as [|p r IH]; intros HF.
    - split.
      + intros k0 f tail Hk Hf. destruct f as [|f]; [simpl in Hf; lia|].
        rewrite scan_key_S. simpl show_after. rewrite key_back by (auto using stopk_eq).
        change (ch_eq c_eq c_lbr) with false. change (ch_eq c_eq c_eq) with true. cbv iota.
        unfold valof. destruct (vae tail); split; reflexivity.
      + intros f tail Hf. destruct f as [|f]; [simpl in Hf; lia|].
        rewrite scan_item_S. simpl show_after. rewrite runes_until2_stop_first by reflexivity.
        change (ch_eq c_eq c_eq) with true. cbv iota.
        unfold valof. destruct (vae tail); split; reflexivity.
    - inversion HF as [|? ? Hp HFr]; subst. destruct (IH HFr) as [IHk IHi].
      destruct p as [k|txt i]; simpl in Hp.
      + split.
        * intros k0 f tail Hk Hf. destruct f as [|f]; [simpl in Hf; lia|]. simpl List.length in Hf.
          rewrite scan_key_S. simpl show_after. rewrite key_back by (auto using stopk_dot).
          change (ch_eq c_dot c_lbr) with false. change (ch_eq c_dot c_eq) with false.
          change (ch_eq c_dot c_comma) with false. cbv iota.
          destruct (IHk k f tail Hp ltac:(lia)) as [E1 E2].
          unfold scan_cons. cbn [sc_path sc_val]. rewrite E1, E2. split; reflexivity.
        * intros f tail Hf. destruct f as [|f]; [simpl in Hf; lia|]. simpl List.length in Hf.
          rewrite scan_item_S. simpl show_after. rewrite runes_until2_stop_first by reflexivity.
          change (ch_eq c_dot c_eq) with false. change (ch_eq c_dot c_lbr) with false. cbv iota.
          destruct (IHk k f tail Hp ltac:(lia)) as [E1 E2]. rewrite E1, E2. split; reflexivity.
      + destruct Hp as [Hd Hi]. split.
        * intros k0 f tail Hk Hf. destruct f as [|f]; [simpl in Hf; lia|]. simpl List.length in Hf.
          rewrite scan_key_S. simpl show_after. rewrite key_back by (auto using stopk_lbr).
          change (ch_eq c_lbr c_lbr) with true. cbv iota.
          rewrite (key_index2_printed txt i _ Hd Hi).
          destruct (IHi f tail ltac:(lia)) as [E1 E2].
          unfold scan_cons. cbn [sc_path sc_val]. rewrite E1, E2. split; reflexivity.
        * intros f tail Hf. destruct f as [|f]; [simpl in Hf; lia|]. simpl List.length in Hf.
          rewrite scan_item_S. simpl show_after. rewrite runes_until2_stop_first by reflexivity.
          change (ch_eq c_lbr c_eq) with false. change (ch_eq c_lbr c_lbr) with true. cbv iota.
          rewrite (key_index2_printed txt i _ Hd Hi).
          destruct (IHi f tail ltac:(lia)) as [E1 E2].
          unfold scan_cons. cbn [sc_path sc_val]. rewrite E1, E2. split; reflexivity.
  Qed.

  (* --- the parse of a printed pair is its meaning --- *)
  Lemma key2_printed_both : forall r, Forall pwf r -> Forall pne r ->
    (forall k0 f d lvl tail x tail' d', kok k0 -> k0 <> EmptyString -> vae tail = V2Ok x tail' ->
        den_k r k0 x d = Some d' -> List.length r < f -> lvl + List.length r <= 30 ->
        key2' f d lvl (ek k0 ++ show_after ek r tail) = KOk d' tail')
    /\ (forall f l i lvl tail x tail' l', vae tail = V2Ok x tail' ->
        den_i r i x l = Some l' -> List.length r < f -> lvl + List.length r <= 30 ->
        list_item2' f l i lvl (show_after ek r tail) = LOk l' tail').
  Proof.
    induction r as [|p r IH]; intros HF HN.
    - split.
      + intros k0 f d lvl tail x tail' d' Hk Hne Hv Hden Hf Hl. destruct f as [|f]; [simpl in Hf; lia|].
        rewrite key2_S. simpl show_after. rewrite key_back by (auto using stopk_eq).
        change (ch_eq c_eq c_lbr) with false. change (ch_eq c_eq c_eq) with true. cbv iota.
        rewrite Hv. simpl in Hden. inversion Hden. unfold key_eq_finish. destruct k0; [congruence | reflexivity].
      + intros f l i lvl tail x tail' l' Hv Hden Hf Hl. destruct f as [|f]; [simpl in Hf; lia|].
        pose proof (den_i_nonneg _ _ _ _ _ Hden) as Hi.
        rewrite list_item2_S. assert (E : (i <? 0)%Z = false) by (apply Z.ltb_ge; lia). rewrite E.
        simpl show_after. rewrite runes_until2_stop_first by reflexivity.
        change (ch_eq c_eq c_eq) with true. cbv iota.
        rewrite Hv. simpl in Hden. unfold item_eq_finish. now rewrite Hden.
    - inversion HF as [|? ? Hp HFr]; subst. inversion HN as [|? ? Hpn HNr]; subst.
      destruct (IH HFr HNr) as [IHk IHi].
      assert (L : forall lvl, lvl + S (List.length r) <= 30 -> Nat.ltb max_nested_name_level (S lvl) = false).
      { intros lvl Hl. apply Nat.ltb_ge. unfold max_nested_name_level. lia. }
      destruct p as [k|txt j]; simpl in Hp, Hpn.
      + split.
        * intros k0 f d lvl tail x tail' d' Hk Hne Hv Hden Hf Hl. destruct f as [|f]; [simpl in Hf; lia|].
          simpl List.length in Hf, Hl.
          rewrite key2_S. simpl show_after. rewrite key_back by (auto using stopk_dot).
          change (ch_eq c_dot c_lbr) with false. change (ch_eq c_dot c_eq) with false.
          change (ch_eq c_dot c_comma) with false. cbv iota. rewrite (L lvl Hl).
          simpl in Hden. destruct (table_at k0 d) as [[inner ex]|]; [|discriminate].
          destruct (den_k r k x inner) as [inner'|] eqn:D; [|discriminate]. inversion Hden; subst d'.
          rewrite (IHk k f inner (S lvl) tail x tail' inner') by (auto; lia).
          pose proof (den_k_nonempty _ _ _ _ _ D) as NE.
          unfold key_dot_finish. destruct inner' as [|e0 inner']; [congruence|].
          unfold writeback. destruct ex; [reflexivity|]. destruct k0; [congruence | reflexivity].
        * intros f l i lvl tail x tail' l' Hv Hden Hf Hl. destruct f as [|f]; [simpl in Hf; lia|].
          simpl List.length in Hf, Hl.
          pose proof (den_i_nonneg _ _ _ _ _ Hden) as Hi.
          rewrite list_item2_S. assert (E : (i <? 0)%Z = false) by (apply Z.ltb_ge; lia). rewrite E.
          simpl show_after. rewrite runes_until2_stop_first by reflexivity.
          change (ch_eq c_dot c_eq) with false. change (ch_eq c_dot c_lbr) with false. cbv iota. rewrite (L lvl Hl).
          simpl in Hden. destruct (inner_of l i) as [[l1 inner] ip].
          destruct (den_k r k x inner) as [inner'|] eqn:D; [|discriminate].
          rewrite (IHk k f inner (S lvl) tail x tail' inner') by (auto; lia).
          unfold item_dot_finish. now rewrite Hden.
      + destruct Hp as [Hd Hj]. split.
        * intros k0 f d lvl tail x tail' d' Hk Hne Hv Hden Hf Hl. destruct f as [|f]; [simpl in Hf; lia|].
          simpl List.length in Hf, Hl.
          rewrite key2_S. simpl show_after. rewrite key_back by (auto using stopk_lbr).
          change (ch_eq c_lbr c_lbr) with true. cbv iota.
          rewrite (key_index2_printed txt j _ Hd Hj).
          simpl in Hden. destruct (list_at k0 d) as [[l ex]|]; [|discriminate].
          destruct (den_i r j x l) as [l'|] eqn:D; [|discriminate]. inversion Hden; subst d'.
          rewrite (IHi f l j lvl tail x tail' l') by (auto; lia).
          unfold key_lbr_finish, store_list. destruct k0; [congruence | reflexivity].
        * intros f l i lvl tail x tail' l' Hv Hden Hf Hl. destruct f as [|f]; [simpl in Hf; lia|].
          simpl List.length in Hf, Hl.
          pose proof (den_i_nonneg _ _ _ _ _ Hden) as Hi.
          rewrite list_item2_S. assert (E : (i <? 0)%Z = false) by (apply Z.ltb_ge; lia). rewrite E.
          simpl show_after. rewrite runes_until2_stop_first by reflexivity.
          change (ch_eq c_lbr c_eq) with false. change (ch_eq c_lbr c_lbr) with true. cbv iota. rewrite (L lvl Hl).
          rewrite (key_index2_printed txt j _ Hd Hj).
          simpl in Hden. destruct (crt_of l i) as [[crt ex]|]; [|discriminate].
          destruct (den_i r j x crt) as [l2|] eqn:D; [|discriminate].
          rewrite (IHi f crt j (S lvl) tail x tail' l2) by (auto; lia).
          unfold item_lbr_finish. now rewrite Hden.
  Qed.

  Lemma key2_empty : forall f d lvl, key2' (S f) d lvl EmptyString = KEof d.
  Proof. intros. rewrite key2_S. rewrite runes_until2_empty. reflexivity. Qed.

  Lemma show_after_len : forall r tail, List.length r < String.length (show_after ek r tail).
  Proof.
    induction r as [|[k|txt i] r IH]; intros tail; simpl.
    - lia.
    - rewrite len_app_s. specialize (IH tail). lia.
    - rewrite len_app_s. simpl. specialize (IH tail). lia.
  Qed.

  (* one printed pair whose value ends the input *)
  Theorem parse2_printed : forall k0 r tail x d d',
    kok k0 -> k0 <> EmptyString -> Forall pwf r -> Forall pne r -> List.length r <= 30 ->
    vae tail = V2Ok x EmptyString -> den_k r k0 x d = Some d' ->
    parse2 mode rdr jdec (show_path2 ek k0 r tail) d = POk d'.
  Proof.
    intros k0 r tail x d d' Hk Hne HF HN Hlen Hv Hden. unfold parse2, show_path2.
    pose proof (show_after_len r tail) as Hl.
    assert (Hs : List.length r < String.length (ek k0 ++ show_after ek r tail)) by (rewrite len_app_s; lia).
    rewrite parse_loop2_S.
    rewrite (proj1 (key2_printed_both r HF HN) k0 _ d 0 tail x EmptyString d') by (auto; lia).
    destruct (String.length (ek k0 ++ show_after ek r tail)) as [|n] eqn:E; [lia|].
    rewrite parse_loop2_S. simpl String.length. now rewrite key2_empty.
  Qed.

  Lemma keys_nonempty_steps : forall r, Forall pne r -> keys_nonempty (map step_of r) = true.
  Proof.
    induction r as [|[k|txt i] r IH]; intros H; [reflexivity| |]; inversion H; subst; simpl.
    - rewrite IH by assumption. simpl in H2. destruct k; [congruence | reflexivity].
    - now apply IH.
  Qed.

  (* what the meaning of a printed pair is worth: the named path holds the value; every path
     not related to it is as it was, up to the nil padding *)
  Theorem printed_pair_spec : forall k0 r tail x tail' d d',
    kok k0 -> k0 <> EmptyString -> Forall pwf r -> Forall pne r -> List.length r <= 30 ->
    vae tail = V2Ok x tail' -> den_k r k0 x d = Some d' ->
    key2' (S (List.length r)) d 0 (show_path2 ek k0 r tail) = KOk d' tail'
    /\ sc_path (scan_key' (S (List.length r)) (show_path2 ek k0 r tail)) = SKey k0 :: map step_of r
    /\ dget (SKey k0 :: map step_of r) (VMap d') = Some x
    /\ (forall q, drel false (SKey k0 :: map step_of r) q = false -> fop (SKey k0 :: map step_of r) q (VMap d) (VMap d')).
  Proof.
    intros k0 r tail x tail' d d' Hk Hne HF HN Hlen Hv Hden. unfold show_path2.
    pose proof (proj1 (key2_printed_both r HF HN) k0 (S (List.length r)) d 0 tail x tail' d' Hk Hne Hv Hden ltac:(lia) ltac:(lia)) as K.
    destruct (proj1 (scan_printed_both r HF) k0 (S (List.length r)) tail Hk ltac:(lia)) as [SP SV].
    assert (SV' : sc_val (scan_key' (S (List.length r)) (ek k0 ++ show_after ek r tail)) = Some x).
    { rewrite SV. unfold valof. now rewrite Hv. }
    split; [assumption|]. split; [assumption|]. split.
    - pose proof (proj1 (value_mutual mode rdr jdec (S (List.length r))) d 0 _ x SV') as V.
      rewrite SP, K in V. apply V. simpl. rewrite keys_nonempty_steps by assumption.
      destruct k0; [congruence | reflexivity].
    - pose proof (proj1 (frame_mutual mode rdr jdec (S (List.length r))) d 0 (ek k0 ++ show_after ek r tail)) as F.
      rewrite SP, K in F. intros q Hq. exact (F d' eq_refl q Hq).
  Qed.
End Printed.

(* ---------- over empty containers every in-range path has a meaning ---------- *)
Definition idx_in_range (p : pstep) : Prop := match p with PK _ => True | PI _ i => (0 <= i <= max_index)%Z end.

Lemma set_index_in_range : forall l i x, (0 <= i <= max_index)%Z -> exists l', set_index l i x = Some l'.
Proof.
  intros l i x [H1 H2]. unfold set_index.
  assert (A : (i <? 0)%Z = false) by (apply Z.ltb_ge; lia).
  assert (B : (max_index <? i)%Z = false) by (apply Z.ltb_ge; lia).
  rewrite A, B. eexists; reflexivity.
Qed.

Lemma den_empty_both : forall r x, Forall idx_in_range r ->
  (forall k0, exists d', den_k r k0 x [] = Some d')
  /\ (forall i, (0 <= i <= max_index)%Z -> exists l', den_i r i x [] = Some l').
Proof.
  induction r as [|p r IH]; intros x HF.
  - split; [intros; eexists; reflexivity | intros i Hi; now apply set_index_in_range].
  - inversion HF as [|? ? Hp HFr]; subst. destruct (IH x HFr) as [IHk IHi].
    destruct p as [k|txt j]; simpl in Hp.
    + split.
      * intros k0. simpl. destruct (IHk k) as [inner' ->]. eexists; reflexivity.
      * intros i Hi. simpl. unfold inner_of. rewrite in_range_nil. destruct (IHk k) as [inner' ->].
        now apply set_index_in_range.
    + split.
      * intros k0. simpl. destruct (IHi j Hp) as [l' ->]. eexists; reflexivity.
      * intros i Hi. simpl. unfold crt_of. rewrite in_range_nil. destruct (IHi j Hp) as [l2 ->].
        now apply set_index_in_range.
Qed.

(* ---------- the four escaping parsers ---------- *)
Lemma needs_esc_key_ascii : forall c, needs_esc_key c = true -> Nat.ltb (byte c) 128 = true.
Proof.
  intros c H. unfold needs_esc_key in H.
  repeat (apply orb_true_iff in H; destruct H as [H|H]); apply Ascii.eqb_eq in H; subst; reflexivity.
Qed.

Lemma needs_esc_val_ascii : forall c, needs_esc_val c = true -> Nat.ltb (byte c) 128 = true.
Proof.
  intros c H. unfold needs_esc_val in H.
  repeat (apply orb_true_iff in H; destruct H as [H|H]); apply Ascii.eqb_eq in H; subst; reflexivity.
Qed.

Lemma key_back_escaped : forall mode k c rest, lit mode = false -> utf8 k -> stopk mode c = true ->
  runes_until2 (esc mode) (stopk mode) (esc_key k ++ String c rest) = (k, Some c, rest).
Proof.
  intros mode k c rest Hl Hu Hc. unfold esc, stopk in *. rewrite Hl in *. simpl negb.
  apply runes_until2_esc_stop; auto using stop_key_ne, needs_esc_key_ascii.
Qed.

(* the value of --set / --set-string as the printer escapes it (',', '\' and '{') *)
Lemma value_printed2 : forall (st : bool) rdr jdec v, utf8 v -> v <> EmptyString ->
  value_after_eq2 (if st then MString else MTyped) rdr jdec (esc_val v) = V2Ok (typed_val2 st v) EmptyString.
Proof.
  intros st rdr jdec v Hu Hne.
  assert (VL : forall m, val_list2 m rdr (esc_val v) = VL2NotList).
  { intros m. destruct v as [|a v]; [congruence|]. unfold esc_val. simpl esc_with.
    destruct (needs_esc_val a) eqn:N; [reflexivity|].
    simpl. unfold needs_esc_val in N. destruct (ch_eq a c_lbrace) eqn:E; [|reflexivity].
    rewrite !orb_true_r in N. discriminate. }
  assert (RU : runes_until2 true stop_comma (esc_val v) = (v, None, EmptyString)).
  { apply runes_until2_esc_eof; auto using stop_comma_ne, needs_esc_val_ascii. }
  unfold value_after_eq2. destruct st; rewrite VL, RU; reflexivity.
Qed.

(* --set-file: the value is a path; the callback's result is stored *)
Lemma value_printed_file : forall rdr jdec v x, utf8 v -> v <> EmptyString -> rdr v = (x, true) ->
  value_after_eq2 MFile rdr jdec (esc_val v) = V2Ok x EmptyString.
Proof.
  intros rdr jdec v x Hu Hne Hr.
  assert (VL : val_list2 MFile rdr (esc_val v) = VL2NotList).
  { destruct v as [|a v]; [congruence|]. unfold esc_val. simpl esc_with.
    destruct (needs_esc_val a) eqn:N; [reflexivity|].
    simpl. unfold needs_esc_val in N. destruct (ch_eq a c_lbrace) eqn:E; [|reflexivity].
    rewrite !orb_true_r in N. discriminate. }
  assert (RU : runes_until2 true stop_comma (esc_val v) = (v, None, EmptyString)).
  { apply runes_until2_esc_eof; auto using stop_comma_ne, needs_esc_val_ascii. }
  unfold value_after_eq2. rewrite VL, RU. unfold reader2. now rewrite Hr.
Qed.

(* --set-json: whatever the decoder reads from the text after '=' (no leading blank, the
   decoder takes all of it) is stored *)
Lemma value_printed_json : forall rdr jdec js x,
  empty_val2 js = (false, js) -> jdec js = Some (x, String.length js) ->
  value_after_eq2 MJson rdr jdec js = V2Ok x EmptyString.
Proof.
  intros rdr jdec js x He Hj. unfold value_after_eq2. rewrite He, Hj.
  rewrite Nat.ltb_irrefl.
  assert (D : drop (String.length js) js = EmptyString) by (clear; induction js; simpl; auto).
  rewrite D. reflexivity.
Qed.

(* ---------- the literal parser ---------- *)
Definition lit_key (k : string) : Prop := utf8 k /\ all_plain false stop_key_lit k = true.

Lemma key_back_literal : forall k c rest, lit_key k -> stopk MLiteral c = true ->
  runes_until2 (esc MLiteral) (stopk MLiteral) (k ++ String c rest) = (k, Some c, rest).
Proof.
  intros k c rest [Hu Hp] Hc. change (esc MLiteral) with false. change (stopk MLiteral) with stop_key_lit in *.
  apply (runes_until2_ru (S (String.length k))). apply ru_plain_stop; auto.
  intros c0 H0. unfold stop_key_lit in H0.
  repeat (apply orb_true_iff in H0; destruct H0 as [H0|H0]); apply Ascii.eqb_eq in H0; subst; reflexivity.
Qed.

Lemma value_literal : forall rdr jdec v,
  value_after_eq2 MLiteral rdr jdec v = V2Ok (VStr (to_utf8 v)) EmptyString.
Proof. intros. unfold value_after_eq2. now rewrite literal_value_is_to_utf8. Qed.

Definition lit_pwf : pstep -> Prop := pwf lit_key.

(* --set-literal k=v: for every printable key path k and EVERY byte string v — commas,
   backslashes, '=', brackets, braces, blanks, anything — on an empty destination: the parse
   succeeds; the result is the tree that holds string([]rune(v)) at k (tables and nil-padded
   lists created on the way, [den_k]); every other path of the result is absent or a padding nil *)
Theorem literal_verbatim : forall k0 r v,
  lit_key k0 -> k0 <> EmptyString -> Forall lit_pwf r -> Forall pne r -> Forall idx_in_range r -> List.length r <= 30 ->
  exists d',
    parse_literal_into2 (show_path2 (fun k => k) k0 r v) [] = POk d'
    /\ den_k r k0 (VStr (to_utf8 v)) [] = Some d'
    /\ names_of MLiteral no_rdr no_jdec (show_path2 (fun k => k) k0 r v) = [SKey k0 :: map step_of r]
    /\ dget (SKey k0 :: map step_of r) (VMap d') = Some (VStr (to_utf8 v))
    /\ (forall q, drel false (SKey k0 :: map step_of r) q = false ->
          dget q (VMap d') = None \/ (dget q (VMap d') = Some VNull /\ pad_pos (SKey k0 :: map step_of r) q = true)).
Proof.
  intros k0 r v Hk Hne HF HN HR Hlen.
  destruct (proj1 (den_empty_both r (VStr (to_utf8 v)) HR) k0) as [d' Hden].
  exists d'.
  pose proof (parse2_printed MLiteral no_rdr no_jdec (fun k => k) lit_key key_back_literal
                k0 r v (VStr (to_utf8 v)) [] d' Hk Hne HF HN Hlen (value_literal _ _ v) Hden) as P.
  destruct (printed_pair_spec MLiteral no_rdr no_jdec (fun k => k) lit_key key_back_literal
                k0 r v (VStr (to_utf8 v)) EmptyString [] d' Hk Hne HF HN Hlen (value_literal _ _ v) Hden) as (K & SP & G & F).
  split; [exact P|]. split; [exact Hden|]. split; [|split; [exact G|]].
  - (* the string names exactly this one path *)
    unfold names_of.
    pose proof (show_after_len (fun k => k) r v) as Hl.
    assert (Hs : List.length r < String.length (show_path2 (fun k => k) k0 r v)) by (unfold show_path2; rewrite len_app_s; lia).
    destruct (proj1 (scan_printed_both MLiteral no_rdr no_jdec (fun k => k) lit_key key_back_literal r HF)
                    k0 (S (String.length (show_path2 (fun k => k) k0 r v))) v Hk ltac:(lia)) as [SP2 _].
    rewrite names_S. unfold show_path2 in *. rewrite SP2.
    pose proof (proj1 (rest_mutual MLiteral no_rdr no_jdec (S (String.length (k0 ++ show_after (fun k => k) r v)))) [] 0
                      (k0 ++ show_after (fun k => k) r v)) as Rst.
    rewrite (proj1 (key2_printed_both MLiteral no_rdr no_jdec (fun k => k) lit_key key_back_literal r HF HN)
                   k0 (S (String.length (k0 ++ show_after (fun k => k) r v))) [] 0 v (VStr (to_utf8 v)) EmptyString d' Hk Hne (value_literal _ _ v) Hden ltac:(lia) ltac:(lia)) in Rst.
    destruct Rst as [Rr _]. rewrite Rr.
    destruct (String.length (k0 ++ show_after (fun k => k) r v)) as [|n]; [reflexivity|].
    rewrite names_S. simpl String.length. rewrite scan_key_S, runes_until2_empty. reflexivity.
  - intros q Hq. destruct (F q Hq) as [E|(E1 & E2 & E3)].
    + left. rewrite E. apply dget_map_nil. intros ->. now rewrite drel_nil_r in Hq.
    + right. split; assumption.
Qed.

(* on well-formed UTF-8 the value is the bytes themselves *)
Corollary literal_verbatim_utf8 : forall k0 r v,
  lit_key k0 -> k0 <> EmptyString -> Forall lit_pwf r -> Forall pne r -> Forall idx_in_range r -> List.length r <= 30 ->
  utf8 v ->
  exists d', parse_literal_into2 (show_path2 (fun k => k) k0 r v) [] = POk d'
             /\ dget (SKey k0 :: map step_of r) (VMap d') = Some (VStr v).
Proof.
  intros k0 r v Hk Hne HF HN HR Hlen Hu.
  destruct (literal_verbatim k0 r v Hk Hne HF HN HR Hlen) as (d' & P & _ & _ & G & _).
  exists d'. rewrite (to_utf8_valid v Hu) in G. auto.
Qed.

(* "the value is taken verbatim for every byte string" is false: bytes that are not
   well-formed UTF-8 come out as U+FFFD *)
Theorem literal_verbatim_bytes_refuted :
  exists v d', parse_literal_into2 (show_path2 (fun k => k) "a" [] v) [] = POk d'
               /\ dget [SKey "a"] (VMap d') <> Some (VStr v).
Proof.
  exists (bs [255]), [("a", VStr (bs [239; 191; 189]))]. split; [reflexivity|]. simpl. discriminate.
Qed.

Example literal_verbatim_nonvacuous :
  lit_key "a" /\ lit_key "k-1" /\ Forall lit_pwf [PI "1" 1%Z; PI "0" 0%Z; PK "k-1"]
  /\ show_path2 (fun k => k) "a" [PI "1" 1%Z; PI "0" 0%Z; PK "k-1"] "x,y\z={1}, [2]=" = "a[1][0].k-1=x,y\z={1}, [2]="
  /\ parse_literal_into2 "a[1][0].k-1=x,y\z={1}, [2]=" []
     = POk [("a", VList [VNull; VList [VMap [("k-1", VStr "x,y\z={1}, [2]=")]]])].
Proof.
  assert (A : forall s, (forall t, read_rune (s ++ t) = Some (s, t)) -> s <> EmptyString -> rune s) by (intros; split; assumption).
  assert (Ka : lit_key "a").
  { split; [|reflexivity]. change "a" with ("a" ++ EmptyString). constructor; [apply rune_ascii; reflexivity | constructor]. }
  assert (Kk : lit_key "k-1").
  { split; [|reflexivity].
    change "k-1" with ("k" ++ ("-" ++ ("1" ++ EmptyString))).
    repeat (constructor; [apply rune_ascii; reflexivity|]). constructor. }
  split; [exact Ka|]. split; [exact Kk|]. split.
  - constructor; [split; reflexivity|]. constructor; [split; reflexivity|]. constructor; [exact Kk|]. constructor.
  - split; reflexivity.
Qed.

(* ---------- the four escaping parsers on a printed pair with nested indexes ---------- *)
Definition esc_pwf : pstep -> Prop := pwf utf8.

(* generic: any escaping parser, any value text whose reading is [V2Ok x ""] *)
Theorem escaped_printed : forall mode rdr jdec k0 r tail x d d',
  lit mode = false ->
  utf8 k0 -> k0 <> EmptyString -> Forall esc_pwf r -> Forall pne r -> List.length r <= 30 ->
  value_after_eq2 mode rdr jdec tail = V2Ok x EmptyString -> den_k r k0 x d = Some d' ->
  parse2 mode rdr jdec (show_path2 esc_key k0 r tail) d = POk d'
  /\ sc_path (scan_key mode rdr jdec (S (List.length r)) (show_path2 esc_key k0 r tail)) = SKey k0 :: map step_of r
  /\ dget (SKey k0 :: map step_of r) (VMap d') = Some x
  /\ (forall q, drel false (SKey k0 :: map step_of r) q = false -> fop (SKey k0 :: map step_of r) q (VMap d) (VMap d')).
Proof.
  intros mode rdr jdec k0 r tail x d d' Hl Hk Hne HF HN Hlen Hv Hden.
  assert (KB : forall k c rest, utf8 k -> stopk mode c = true ->
               runes_until2 (esc mode) (stopk mode) (esc_key k ++ String c rest) = (k, Some c, rest))
    by (intros; now apply key_back_escaped).
  split.
  - eapply (parse2_printed mode rdr jdec esc_key utf8 KB); eauto.
  - destruct (printed_pair_spec mode rdr jdec esc_key utf8 KB k0 r tail x EmptyString d d' Hk Hne HF HN Hlen Hv Hden) as (_ & SP & G & F).
    auto.
Qed.

(* --set / --set-string: a[0][1]=x, a[1][0].b=y, … with the documented escaping *)
Theorem set_printed_nested : forall (st : bool) k0 r v d d',
  utf8 k0 -> k0 <> EmptyString -> Forall esc_pwf r -> Forall pne r -> List.length r <= 30 ->
  utf8 v -> v <> EmptyString ->
  den_k r k0 (typed_val2 st v) d = Some d' ->
  (if st then parse_into_string2 else parse_into2) (show_path2 esc_key k0 r (esc_val v)) d = POk d'
  /\ dget (SKey k0 :: map step_of r) (VMap d') = Some (typed_val2 st v)
  /\ (forall q, drel false (SKey k0 :: map step_of r) q = false -> fop (SKey k0 :: map step_of r) q (VMap d) (VMap d')).
Proof.
  intros st k0 r v d d' Hk Hne HF HN Hlen Hu Hv Hden.
  destruct (escaped_printed (if st then MString else MTyped) no_rdr no_jdec k0 r (esc_val v) (typed_val2 st v) d d')
    as (P & _ & G & F); auto using value_printed2.
  - destruct st; reflexivity.
  - split; [|split; assumption]. destruct st; exact P.
Qed.

(* --set-file: the callback's result for the (escaped) path text is stored at the named path *)
Theorem file_printed_nested : forall rdr k0 r v x d d',
  utf8 k0 -> k0 <> EmptyString -> Forall esc_pwf r -> Forall pne r -> List.length r <= 30 ->
  utf8 v -> v <> EmptyString -> rdr v = (x, true) ->
  den_k r k0 x d = Some d' ->
  parse_into_file2 rdr (show_path2 esc_key k0 r (esc_val v)) d = POk d'
  /\ dget (SKey k0 :: map step_of r) (VMap d') = Some x
  /\ (forall q, drel false (SKey k0 :: map step_of r) q = false -> fop (SKey k0 :: map step_of r) q (VMap d) (VMap d')).
Proof.
  intros rdr k0 r v x d d' Hk Hne HF HN Hlen Hu Hv Hr Hden.
  destruct (escaped_printed MFile rdr no_jdec k0 r (esc_val v) x d d') as (P & _ & G & F); auto using value_printed_file.
Qed.

(* --set-json: what the decoder reads from the text after '=' is stored at the named path *)
Theorem json_printed_nested : forall jdec k0 r js x d d',
  utf8 k0 -> k0 <> EmptyString -> Forall esc_pwf r -> Forall pne r -> List.length r <= 30 ->
  empty_val2 js = (false, js) -> jdec js = Some (x, String.length js) ->
  den_k r k0 x d = Some d' ->
  parse_json2 jdec (show_path2 esc_key k0 r js) d = POk d'
  /\ dget (SKey k0 :: map step_of r) (VMap d') = Some x
  /\ (forall q, drel false (SKey k0 :: map step_of r) q = false -> fop (SKey k0 :: map step_of r) q (VMap d) (VMap d')).
Proof.
  intros jdec k0 r js x d d' Hk Hne HF HN Hlen He Hj Hden.
  destruct (escaped_printed MJson no_rdr jdec k0 r js x d d') as (P & _ & G & F); auto using value_printed_json.
Qed.

(* non-vacuity: nested indexes of depth 3 with an escaped key over a destination that has
   lists; the padding; the "indices out of order" replacement *)
Definition ex2_dest : vmap := [("a", VList [VList [VNum 7; VList [VStr "old"]]; VStr "s"]); ("keep", VBool true)].
Definition ex2_path : list pstep := [PI "0" 0%Z; PI "1" 1%Z; PI "2" 2%Z; PK "x.y"].

Example set_printed_nested_nonvacuous :
  show_path2 esc_key "a" ex2_path (esc_val "v,1") = "a[0][1][2].x\.y=v\,1"
  /\ Forall esc_pwf ex2_path /\ Forall pne ex2_path
  /\ den_k ex2_path "a" (typed_val2 false "v,1") ex2_dest
     = Some [("a", VList [VList [VNum 7; VList [VStr "old"; VNull; VMap [("x.y", VStr "v,1")]]]; VStr "s"]); ("keep", VBool true)]
  /\ parse_into2 "a[0][1][2].x\.y=v\,1" ex2_dest
     = POk [("a", VList [VList [VNum 7; VList [VStr "old"; VNull; VMap [("x.y", VStr "v,1")]]]; VStr "s"]); ("keep", VBool true)]
  /\ pad_pos (SKey "a" :: map step_of ex2_path) [SKey "a"; SIdx 0; SIdx 1; SIdx 1] = true
  /\ parse_into2 "a[1].k=1" ex2_dest
     = POk [("a", VList [VList [VNum 7; VList [VStr "old"]]; VMap [("k", VNum 1)]]); ("keep", VBool true)]
  /\ den_k [PI "65537" 65537%Z] "l" VNull [] = None
  /\ den_k [PI "0" 0%Z; PI "0" 0%Z] "keep" VNull ex2_dest = None.
Proof.
  assert (U : forall c, Nat.ltb (byte c) 128 = true -> utf8 (String c EmptyString)).
  { intros c H. change (String c EmptyString) with (String c EmptyString ++ EmptyString). constructor; [now apply rune_ascii | constructor]. }
  split; [reflexivity|]. split.
  - unfold ex2_path. repeat (constructor; [split; reflexivity|]). constructor; [|constructor].
    change "x.y" with ("x" ++ ("." ++ ("y" ++ EmptyString))). repeat (constructor; [apply rune_ascii; reflexivity|]). constructor.
  - split; [repeat constructor; discriminate|]. repeat split; reflexivity.
Qed.

(* non-vacuity of the --set-file / --set-json statements: a callback backed by a table with a
   multi-line content, a decoder backed by a table (what encoding/json reads from the text) *)
Definition ex_rdr : string -> val * bool := rdr_of_table [("/tmp/f", (VStr (bs [108; 49; 10; 108; 50; 10]), true))].
Definition ex_js : string := "{""x"":[1,null]}".
Definition ex_jdec : string -> option (val * nat) := jdec_of_table [(14, (VMap [("x", VList [VNum 1; VNull])], 14))].

Example file_json_nonvacuous :
  ex_rdr "/tmp/f" = (VStr (bs [108; 49; 10; 108; 50; 10]), true)
  /\ parse_into_file2 ex_rdr (show_path2 esc_key "a" [PI "1" 1%Z; PI "0" 0%Z] (esc_val "/tmp/f")) []
     = POk [("a", VList [VNull; VList [VStr (bs [108; 49; 10; 108; 50; 10])]])]
  /\ empty_val2 ex_js = (false, ex_js) /\ ex_jdec ex_js = Some (VMap [("x", VList [VNum 1; VNull])], String.length ex_js)
  /\ parse_json2 ex_jdec (show_path2 esc_key "a" [PI "0" 0%Z; PK "b"] ex_js) [("a", VList [VMap [("k", VNum 1)]])]
     = POk [("a", VList [VMap [("k", VNum 1); ("b", VMap [("x", VList [VNum 1; VNull])])]])].
Proof. repeat split; reflexivity. Qed.

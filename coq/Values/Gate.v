(* The schema gate: ValidateAgainstSchema over the processed chart tree, its place inside
   ToRenderValuesWithSchemaValidation, and the order of effects of install / upgrade / lint
   around it.

   Go code modelled:
     pkg/chart/v2/util/jsonschema.go  ValidateAgainstSchema (after a1cf667: a missing/null
                                      subchart section is skipped, a non-table one is reported)
     pkg/chart/v2/util/values.go      ToRenderValuesWithSchemaValidation
     pkg/action/install.go            RunWithContext / performInstall: ORDER of cluster and
                                      storage effects only (success path after the gate)
     pkg/action/upgrade.go            RunWithContext / prepareUpgrade / performUpgrade: same
     pkg/lint/rules/values.go, template.go   which schema checks lint runs
   [valid] (Values/Schema.v) stands for the jsonschema library. *)
From Coq Require Import List String Bool ZArith.
From Helm Require Import Values.Tree Values.Schema Values.Scope Values.Deps.
Import ListNotations.
Local Open Scope string_scope.

(* ---------- ValidateAgainstSchema: names of the charts reported, in message order ---------- *)

Fixpoint validate_tree (c : chart) (values : vmap) {struct c} : list string :=
  match c with
  | Chart name _ _ sch deps _ _ _ =>
      List.app
        match sch with
        | Some s => if valid s (VMap values) then [] else [name]
        | None => []
        end
        ((fix go (ds : list chart) : list string :=
            match ds with
            | [] => []
            | d :: t =>
                List.app
                  match mget (cname d) values with
                  | None => []
                  | Some VNull => []
                  | Some (VMap sv) => validate_tree d sv
                  | Some _ => [cname d]
                  end
                  (go t)
            end) deps)
  end.

(* the specification: some chart of the tree has a schema that rejects its slice of the values *)
Inductive Rejects : chart -> vmap -> string -> Prop :=
| RejHere : forall c v s,
    cschema c = Some s -> valid s (VMap v) = false -> Rejects c v (cname c)
| RejBelow : forall c v d sv n,
    In d (cdeps c) -> mget (cname d) v = Some (VMap sv) -> Rejects d sv n -> Rejects c v n
| RejSection : forall c v d x,
    In d (cdeps c) -> mget (cname d) v = Some x -> is_table x = false -> is_null x = false ->
    Rejects c v (cname d).

(* ---------- ToRenderValuesWithSchemaValidation ---------- *)

Inductive render_values :=
| RVOk (vals : vmap)
| RVCoalesceErr (e : err)
| RVSchemaErr (names : list string).

Definition to_render_values (c : chart) (vals : vmap) (skip : bool) : render_values :=
  match CoalesceValues c vals with
  | Err e => RVCoalesceErr e
  | Ok v =>
      if skip then RVOk v
      else match validate_tree c v with
           | [] => RVOk v
           | names => RVSchemaErr names
           end
  end.

(* ---------- effects of install / upgrade around the gate ---------- *)

Inductive eff :=
| KIsReachable | SRead | KGetCapabilities | KBuild | KGetExisting | KWait   (* read-only *)
| KCreateCRDs | KCreateNamespace | KCreate | KUpdate | KDelete              (* mutate the cluster *)
| SCreate | SUpdate.                                                        (* write the release store *)

Definition kube_mutating (e : eff) : bool :=
  match e with KCreateCRDs | KCreateNamespace | KCreate | KUpdate | KDelete => true | _ => false end.
Definition store_write (e : eff) : bool :=
  match e with SCreate | SUpdate => true | _ => false end.
Definition mutating (e : eff) : bool := kube_mutating e || store_write e.

Inductive outcome :=
| Done
| FailDeps (e : err)
| FailCoalesce (e : err)
| FailSchema (names : list string).

Record flags := mkFlags {
  client_only : bool;        (* helm template *)
  dry_run : bool;
  skip_crds : bool;
  skip_schema : bool;        (* SkipSchemaValidation *)
  create_namespace : bool;
  replace : bool;
  has_resources : bool }.    (* KubeClient.Build returned a non-empty list *)

(* chrt.CRDObjects(): the chart's crds/ and those of every kept subchart *)
Fixpoint has_crds (c : chart) : bool :=
  match c with
  | Chart _ _ _ _ deps _ _ crds =>
      negb (match crds with [] => true | _ => false end) || (fix go (ds : list chart) : bool :=
                 match ds with [] => false | d :: t => has_crds d || go t end) deps
  end.

Definition when (b : bool) (l : list eff) : list eff := if b then l else [].

Section WithCompat.
  Variable compat : string -> string -> bool.

  (* Install.RunWithContext *)
  Definition install_trace (fl : flags) (c : chart) (vals : vmap) : list eff * outcome :=
    let t0 := (when (negb (client_only fl)) [KIsReachable] ++ when (negb (dry_run fl)) [SRead])%list in
    match process_dependencies compat c vals with
    | Err e => (t0, FailDeps e)
    | Ok c' =>
        let t1 := (t0 ++ when (negb (client_only fl) && negb (skip_crds fl) && has_crds c' && negb (dry_run fl))
                              [KCreateCRDs]
                      ++ when (negb (client_only fl)) [KGetCapabilities])%list in
        match to_render_values c' vals (skip_schema fl) with
        | RVCoalesceErr e => (t1, FailCoalesce e)
        | RVSchemaErr names => (t1, FailSchema names)
        | RVOk _ =>
            let t2 := (t1 ++ [KBuild]
                          ++ when (negb (client_only fl) && has_resources fl) [KGetExisting])%list in
            if dry_run fl then (t2, Done)
            else ((t2 ++ when (create_namespace fl) [KBuild; KCreateNamespace]
                      ++ when (replace fl) [SRead; SUpdate]
                      ++ [SCreate]
                      ++ when (has_resources fl) [KCreate]
                      ++ [KWait; SUpdate])%list, Done)
        end
    end.

  (* Upgrade.RunWithContext (an existing deployed release is assumed) *)
  Definition upgrade_trace (fl : flags) (c : chart) (vals : vmap) : list eff * outcome :=
    let t0 := [KIsReachable; SRead] in
    match process_dependencies compat c vals with
    | Err e => (t0, FailDeps e)
    | Ok c' =>
        let t1 := (t0 ++ [KGetCapabilities])%list in
        match to_render_values c' vals (skip_schema fl) with
        | RVCoalesceErr e => (t1, FailCoalesce e)
        | RVSchemaErr names => (t1, FailSchema names)
        | RVOk _ =>
            let t2 := (t1 ++ [KBuild; KBuild; KBuild] ++ when (has_resources fl) [KGetExisting])%list in
            if dry_run fl then (t2, Done)
            else ((t2 ++ [SCreate; KUpdate; KWait; SUpdate; SUpdate])%list, Done)
        end
    end.

  (* lint.RunAll: rules.ValuesWithOverrides validates ONLY the top chart's schema on
     CoalesceTables(overrides, values.yaml) (always, whatever the skip option says);
     rules.Templates goes through ProcessDependencies + ToRenderValuesWithSchemaValidation *)
  Definition lint_values_rule (c : chart) (vals : vmap) : bool :=      (* true = error reported *)
    match cschema c with
    | Some s => negb (valid s (VMap (coalesce_tables (coalesce_tables [] vals) (cvalues c))))
    | None => false
    end.

  (* lint silently stops when ProcessDependencies or CoalesceValues fail; after fix F12 it hands
     the supplied values (not the already coalesced ones) to ToRenderValuesWithSchemaValidation *)
  Definition lint_templates_rule (c : chart) (vals : vmap) (skip : bool) : outcome :=
    match process_dependencies compat c vals with
    | Err e => Done
    | Ok c' =>
        match CoalesceValues c' vals with
        | Err e => Done
        | Ok _ =>
            match to_render_values c' vals skip with
            | RVCoalesceErr e => FailCoalesce e
            | RVSchemaErr names => FailSchema names
            | RVOk _ => Done
            end
        end
    end.

End WithCompat.

(* Proofs about Values/Scope.v: which part of the values a subchart's scope depends on. *)
From Coq Require Import List String Bool ZArith.
From Helm Require Import Values.Tree Values.Schema Values.Scope.
Import ListNotations.
Local Open Scope string_scope.

(* ---------- association lists ---------- *)

Lemma mget_mset_same : forall k v m, mget k (mset k v m) = Some v.
Proof.
  induction m as [|[k' v'] t IH]; simpl.
  - now rewrite String.eqb_refl.
  - destruct (String.eqb k k') eqn:E; simpl; [now rewrite String.eqb_refl|now rewrite E].
Qed.

Lemma mget_mset_other : forall k k' v m, k <> k' -> mget k' (mset k v m) = mget k' m.
Proof.
  intros k k' v m Hne. induction m as [|[k0 v0] t IH]; simpl.
  - destruct (String.eqb k' k) eqn:E; [apply String.eqb_eq in E; congruence|reflexivity].
  - destruct (String.eqb k k0) eqn:E; simpl.
    + apply String.eqb_eq in E. subst k0.
      destruct (String.eqb k' k) eqn:E2; [apply String.eqb_eq in E2; congruence|reflexivity].
    + destruct (String.eqb k' k0); [reflexivity|exact IH].
Qed.

Lemma mget_mdel_same : forall k m, mget k (mdel k m) = None.
Proof.
  induction m as [|[k' v'] t IH]; simpl; [reflexivity|].
  destruct (String.eqb k k') eqn:E; simpl; [exact IH|now rewrite E].
Qed.

Lemma mget_mdel_other : forall k k' m, k <> k' -> mget k' (mdel k m) = mget k' m.
Proof.
  intros k k' m Hne. induction m as [|[k0 v0] t IH]; simpl; [reflexivity|].
  destruct (String.eqb k k0) eqn:E; simpl.
  - apply String.eqb_eq in E. subst k0.
    destruct (String.eqb k' k) eqn:E2; [apply String.eqb_eq in E2; congruence|exact IH].
  - destruct (String.eqb k' k0); [reflexivity|exact IH].
Qed.

(* ---------- coalesceValues works key by key ---------- *)

Definition cv_step (merge : bool) (kids : list string) (v : vmap) (kv : string * val) : vmap :=
  let '(key, dval) := kv in
  match mget key v with
  | Some value =>
      if is_null value && negb merge then mdel key v
      else match value, dval with
           | VMap dest, VMap _ =>
               mset key (VMap (ctv (merge || existsb (String.eqb key) kids) dval dest)) v
           | _, _ => v
           end
  | None => mset key dval v
  end.

Lemma coalesce_values_fold : forall merge kids defaults v,
  coalesce_values merge kids defaults v = fold_left (cv_step merge kids) defaults v.
Proof. reflexivity. Qed.

Lemma cv_step_other : forall merge kids v key dval k,
  k <> key -> mget k (cv_step merge kids v (key, dval)) = mget k v.
Proof.
  intros merge kids v key dval k Hne. unfold cv_step.
  assert (Hne' : key <> k) by congruence.
  destruct (mget key v) as [value|]; [|now apply mget_mset_other].
  destruct (is_null value && negb merge); [now apply mget_mdel_other|].
  destruct value; try reflexivity. destruct dval; try reflexivity. now apply mget_mset_other.
Qed.

Lemma cv_step_local : forall merge kids v v' kv k,
  mget k v = mget k v' -> mget k (cv_step merge kids v kv) = mget k (cv_step merge kids v' kv).
Proof.
  intros merge kids v v' [key dval] k H.
  destruct (String.eqb k key) eqn:E.
  - apply String.eqb_eq in E. subst key. unfold cv_step. rewrite <- H.
    destruct (mget k v) as [value|] eqn:Ev; [|now rewrite !mget_mset_same].
    destruct (is_null value && negb merge); [now rewrite !mget_mdel_same|].
    destruct value; try congruence. destruct dval; try congruence. now rewrite !mget_mset_same.
  - apply String.eqb_neq in E. now rewrite !cv_step_other.
Qed.

Lemma coalesce_values_local : forall merge kids defaults v v' k,
  mget k v = mget k v' ->
  mget k (coalesce_values merge kids defaults v) = mget k (coalesce_values merge kids defaults v').
Proof.
  intros merge kids defaults. unfold coalesce_values. fold (cv_step merge kids).
  induction defaults as [|kv t IH]; intros v v' k H; simpl; [exact H|].
  apply IH. now apply cv_step_local.
Qed.

(* ---------- the loop over the subcharts, named ---------- *)

Definition section_of (n : string) (dest : vmap) : option vmap :=
  match mget n dest with
  | None => Some []
  | Some (VMap dv) => Some dv
  | Some _ => None
  end.

Fixpoint deps_loop (merge : bool) (ds : list chart) (dest : vmap) : res vmap :=
  match ds with
  | [] => Ok dest
  | d :: t =>
      match section_of (cname d) dest with
      | None => Err (ETypeMismatch (cname d))
      | Some dv =>
          match coalesce merge d (coalesce_globals dv dest) with
          | Ok r => deps_loop merge t (mset (cname d) (VMap r) dest)
          | Err e => Err e
          end
      end
  end.

Lemma coalesce_unfold : forall merge c dest,
  coalesce merge c dest =
  deps_loop merge (cdeps c) (coalesce_values merge (map cname (cdeps c)) (cvalues c) dest).
Proof.
  intros merge [n ver vals sch deps md tpls crds] dest. simpl.
  generalize (coalesce_values merge (map cname deps) vals dest) as d0.
  induction deps as [|d t IH]; intros d0; simpl; [reflexivity|].
  unfold section_of. destruct (mget (cname d) d0) as [[| | | | | |dv]|]; try reflexivity.
  - destruct (coalesce merge d (coalesce_globals dv d0)); [apply IH|reflexivity].
  - destruct (coalesce merge d (coalesce_globals [] d0)); [apply IH|reflexivity].
Qed.

Lemma deps_loop_other : forall merge ds dest r k,
  deps_loop merge ds dest = Ok r -> ~ In k (map cname ds) -> mget k r = mget k dest.
Proof.
  induction ds as [|d t IH]; simpl; intros dest r k H Hn.
  - now injection H as <-.
  - destruct (section_of (cname d) dest) as [dv|]; [|discriminate].
    destruct (coalesce merge d (coalesce_globals dv dest)) as [x|]; [|discriminate].
    rewrite (IH _ _ k H) by tauto. apply mget_mset_other. tauto.
Qed.

(* coalesceGlobals reads its source only through the "global" key *)
Lemma coalesce_globals_src : forall dv src src',
  mget global_key src = mget global_key src' -> coalesce_globals dv src = coalesce_globals dv src'.
Proof. intros dv src src' H. unfold coalesce_globals, glob_of. now rewrite H. Qed.

(* what a subchart receives: its own section and the parent's globals, nothing else *)
Lemma deps_loop_key : forall merge ds dest r d,
  deps_loop merge ds dest = Ok r -> In d ds -> NoDup (map cname ds) -> ~ In global_key (map cname ds) ->
  exists dv x, section_of (cname d) dest = Some dv
               /\ coalesce merge d (coalesce_globals dv dest) = Ok x
               /\ mget (cname d) r = Some (VMap x).
Proof.
  induction ds as [|d0 t IH]; simpl; intros dest r d H Hin Hnd Hg; [contradiction|].
  inversion Hnd as [|? ? Hn0 Hnd']; subst.
  destruct (section_of (cname d0) dest) as [dv0|] eqn:Es; [|discriminate].
  destruct (coalesce merge d0 (coalesce_globals dv0 dest)) as [x0|] eqn:Ec; [|discriminate].
  destruct Hin as [->|Hin].
  - exists dv0, x0. repeat split; try assumption.
    rewrite (deps_loop_other _ _ _ _ (cname d) H Hn0). apply mget_mset_same.
  - assert (Hne : cname d0 <> cname d) by (intros E; apply Hn0; rewrite E; now apply in_map).
    destruct (IH _ _ d H Hin Hnd') as (dv & x & Hs & Hc & Hr); [tauto|].
    exists dv, x. split; [|split]; [| |exact Hr].
    + unfold section_of in *. rewrite mget_mset_other in Hs by exact Hne. exact Hs.
    + rewrite <- Hc. f_equal. unfold section_of in Hs. apply coalesce_globals_src.
      symmetry. apply mget_mset_other. tauto.
Qed.

(* ---------- C11_scope (one level; it applies at every level) ---------- *)

Lemma scope_level : forall merge c dest dest' r r' d,
  In d (cdeps c) -> NoDup (map cname (cdeps c)) -> ~ In global_key (map cname (cdeps c)) ->
  mget (cname d) dest = mget (cname d) dest' ->
  mget global_key dest = mget global_key dest' ->
  coalesce merge c dest = Ok r -> coalesce merge c dest' = Ok r' ->
  mget (cname d) r = mget (cname d) r'.
Proof.
  intros merge c dest dest' r r' d Hin Hnd Hg Hs Hgl H H'.
  rewrite coalesce_unfold in H, H'.
  set (kids := map cname (cdeps c)) in *.
  pose proof (coalesce_values_local merge kids (cvalues c) dest dest' (cname d) Hs) as Hs1.
  pose proof (coalesce_values_local merge kids (cvalues c) dest dest' global_key Hgl) as Hg1.
  destruct (deps_loop_key _ _ _ _ d H Hin Hnd Hg) as (dv & x & Es & Ec & Er).
  destruct (deps_loop_key _ _ _ _ d H' Hin Hnd Hg) as (dv' & x' & Es' & Ec' & Er').
  unfold section_of in Es, Es'. rewrite <- Hs1 in Es'. rewrite Es in Es'. injection Es' as <-.
  rewrite (coalesce_globals_src dv _ _ Hg1) in Ec. rewrite Ec in Ec'. injection Ec' as <-.
  now rewrite Er, Er'.
Qed.

(* a subchart's section (its globals included) never reaches the parent's globals *)
Lemma global_not_upward : forall merge c dest dest' r r',
  ~ In global_key (map cname (cdeps c)) ->
  mget global_key dest = mget global_key dest' ->
  coalesce merge c dest = Ok r -> coalesce merge c dest' = Ok r' ->
  mget global_key r = mget global_key r'.
Proof.
  intros merge c dest dest' r r' Hg Hgl H H'. rewrite coalesce_unfold in H, H'.
  rewrite (deps_loop_other _ _ _ _ global_key H Hg), (deps_loop_other _ _ _ _ global_key H' Hg).
  now apply coalesce_values_local.
Qed.

(* ... nor anything in the parent outside that subchart's own key *)
Lemma section_confined : forall merge c dest dest' r r' k,
  ~ In k (map cname (cdeps c)) ->
  mget k dest = mget k dest' ->
  coalesce merge c dest = Ok r -> coalesce merge c dest' = Ok r' ->
  mget k r = mget k r'.
Proof.
  intros merge c dest dest' r r' k Hk Hs H H'. rewrite coalesce_unfold in H, H'.
  rewrite (deps_loop_other _ _ _ _ k H Hk), (deps_loop_other _ _ _ _ k H' Hk).
  now apply coalesce_values_local.
Qed.

Lemma scope_value : forall merge c dest r d,
  coalesce merge c dest = Ok r -> In d (cdeps c) ->
  NoDup (map cname (cdeps c)) -> ~ In global_key (map cname (cdeps c)) ->
  let dest1 := coalesce_values merge (map cname (cdeps c)) (cvalues c) dest in
  exists dv x, section_of (cname d) dest1 = Some dv
               /\ coalesce merge d (coalesce_globals dv dest1) = Ok x
               /\ mget (cname d) r = Some (VMap x).
Proof.
  intros merge c dest r d H Hin Hnd Hg dest1. rewrite coalesce_unfold in H.
  exact (deps_loop_key _ _ _ _ d H Hin Hnd Hg).
Qed.

(* ---------- C11_global_flow, downward: a parent's scalar global reaches the child and wins ---------- *)

Definition ct_step (merge : bool) (k : string) (sv : val) (dst : vmap) : vmap :=
  match mget k dst with
  | None => mset k sv dst
  | Some dv =>
      if negb merge && is_null dv then mdel k dst
      else match sv, dv with
           | VMap _, VMap dm => mset k (VMap (ctv merge sv dm)) dst
           | _, _ => dst
           end
  end.

Fixpoint ct_loop (merge : bool) (sm : list (string * val)) (dst : vmap) : vmap :=
  match sm with
  | [] => dst
  | (k, sv) :: t => ct_loop merge t (ct_step merge k sv dst)
  end.

Lemma ctv_unfold : forall merge sm dst, ctv merge (VMap sm) dst = ct_loop merge sm dst.
Proof.
  intros merge sm. induction sm as [|[k sv] t IH]; intros dst; [reflexivity|].
  simpl. rewrite <- IH. reflexivity.
Qed.

Definition plain (x : val) : Prop := is_table x = false /\ is_null x = false.

Lemma ct_step_keeps : forall merge k sv dst g x,
  mget g dst = Some x -> plain x -> mget g (ct_step merge k sv dst) = Some x.
Proof.
  intros merge k sv dst g x Hg [Ht Hn]. unfold ct_step.
  destruct (String.eqb k g) eqn:E.
  - apply String.eqb_eq in E. subst k. rewrite Hg. rewrite Hn, andb_false_r.
    destruct sv; try exact Hg. destruct x; try exact Hg. discriminate.
  - apply String.eqb_neq in E.
    destruct (mget k dst) as [dv|]; [|now rewrite mget_mset_other].
    destruct (negb merge && is_null dv); [now rewrite mget_mdel_other|].
    destruct sv; try exact Hg. destruct dv; try exact Hg. now rewrite mget_mset_other.
Qed.

Lemma ctv_keeps : forall merge src dst g x,
  mget g dst = Some x -> plain x -> mget g (ctv merge src dst) = Some x.
Proof.
  intros merge src dst g x Hg Hp. destruct src; try exact Hg.
  rewrite ctv_unfold. revert dst Hg. induction m as [|[k sv] t IH]; intros dst Hg; [exact Hg|].
  simpl. apply IH. now apply ct_step_keeps.
Qed.

(* "the values hold global.g = x" *)
Definition has_global (g : string) (x : val) (v : vmap) : Prop :=
  exists gm, mget global_key v = Some (VMap gm) /\ mget g gm = Some x.

Lemma cv_step_keeps_global : forall merge kids v kv g x,
  has_global g x v -> plain x -> has_global g x (cv_step merge kids v kv).
Proof.
  intros merge kids v [key dval] g x (gm & Hm & Hg) Hp. unfold cv_step.
  destruct (String.eqb key global_key) eqn:E.
  - apply String.eqb_eq in E. subst key. rewrite Hm. simpl.
    destruct dval; try (exists gm; now split).
    eexists. split; [apply mget_mset_same|]. now apply ctv_keeps.
  - apply String.eqb_neq in E.
    destruct (mget key v) as [value|].
    + destruct (is_null value && negb merge).
      * exists gm. split; [now rewrite mget_mdel_other|exact Hg].
      * destruct value; try (exists gm; now split). destruct dval; try (exists gm; now split).
        exists gm. split; [now rewrite mget_mset_other|exact Hg].
    + exists gm. split; [now rewrite mget_mset_other|exact Hg].
Qed.

Lemma coalesce_values_keeps_global : forall merge kids defaults v g x,
  has_global g x v -> plain x -> has_global g x (coalesce_values merge kids defaults v).
Proof.
  intros merge kids defaults. unfold coalesce_values. fold (cv_step merge kids).
  induction defaults as [|kv t IH]; intros v g x H Hp; simpl; [exact H|].
  apply IH; [|exact Hp]. now apply cv_step_keeps_global.
Qed.

(* one entry of the parent's global table pushed into the child's *)
Definition cg_step (dg : vmap) (kv : string * val) : vmap :=
  let '(key, sval) := kv in
  match sval with
  | VMap vv =>
      match mget key dg with
      | None => mset key sval dg
      | Some (VMap destvmap) => mset key (VMap (ctv true (VMap destvmap) vv)) dg
      | Some _ => dg
      end
  | _ =>
      match mget key dg with
      | Some (VMap _) => dg
      | _ => mset key sval dg
      end
  end.

Lemma cg_step_other : forall dg key sval g, g <> key -> mget g (cg_step dg (key, sval)) = mget g dg.
Proof.
  intros dg key sval g Hne. assert (key <> g) by congruence. unfold cg_step.
  destruct sval; destruct (mget key dg) as [[]|]; try reflexivity; now apply mget_mset_other.
Qed.

Lemma cg_fold_other : forall sg dg g,
  ~ In g (map fst sg) -> mget g (fold_left cg_step sg dg) = mget g dg.
Proof.
  induction sg as [|[k sv] t IH]; intros dg g Hn; [reflexivity|].
  change (fold_left cg_step ((k, sv) :: t) dg) with (fold_left cg_step t (cg_step dg (k, sv))).
  rewrite IH by (intros Hin; apply Hn; now right).
  apply cg_step_other. intros ->. apply Hn. now left.
Qed.

Lemma cg_fold_get : forall sg dg g x,
  NoDup (map fst sg) -> mget g sg = Some x -> plain x ->
  (forall t, mget g dg <> Some (VMap t)) ->
  mget g (fold_left cg_step sg dg) = Some x.
Proof.
  induction sg as [|[k sv] t IH]; intros dg g x Hnd Hg Hp Hd; [discriminate|].
  change (fold_left cg_step ((k, sv) :: t) dg) with (fold_left cg_step t (cg_step dg (k, sv))).
  inversion Hnd as [|? ? Hk Hnd']; subst. simpl in Hg.
  destruct (String.eqb g k) eqn:E.
  - apply String.eqb_eq in E. subst k. injection Hg as ->.
    rewrite cg_fold_other by exact Hk.
    unfold cg_step. destruct Hp as [Ht _]. destruct x; try discriminate;
      (destruct (mget g dg) as [[]|] eqn:Eg; try apply mget_mset_same; exfalso; eapply Hd; reflexivity).
  - apply String.eqb_neq in E. apply IH; try assumption.
    intros t0. rewrite cg_step_other by exact E. apply Hd.
Qed.

Lemma coalesce_globals_delivers : forall dv src g x sg,
  mget global_key src = Some (VMap sg) -> NoDup (map fst sg) -> mget g sg = Some x -> plain x ->
  (mget global_key dv = None
   \/ exists dg, mget global_key dv = Some (VMap dg) /\ forall t, mget g dg <> Some (VMap t)) ->
  has_global g x (coalesce_globals dv src).
Proof.
  intros dv src g x sg Hs Hnd Hg Hp Hd. unfold coalesce_globals, glob_of. rewrite Hs.
  fold cg_step.
  destruct Hd as [Hd|(dg & Hd & Hnt)]; rewrite Hd.
  - eexists. split; [apply mget_mset_same|]. apply cg_fold_get; try assumption. intros t. simpl. discriminate.
  - eexists. split; [apply mget_mset_same|]. now apply cg_fold_get.
Qed.

Lemma global_flow_down : forall merge c dest r d g x sg,
  coalesce merge c dest = Ok r -> In d (cdeps c) ->
  NoDup (map cname (cdeps c)) -> ~ In global_key (map cname (cdeps c)) ->
  ~ In global_key (map cname (cdeps d)) ->
  let dest1 := coalesce_values merge (map cname (cdeps c)) (cvalues c) dest in
  mget global_key dest1 = Some (VMap sg) -> NoDup (map fst sg) -> mget g sg = Some x -> plain x ->
  (forall dv, section_of (cname d) dest1 = Some dv ->
     mget global_key dv = None
     \/ exists dg, mget global_key dv = Some (VMap dg) /\ forall t, mget g dg <> Some (VMap t)) ->
  exists xv, mget (cname d) r = Some (VMap xv) /\ has_global g x xv.
Proof.
  intros merge c dest r d g x sg H Hin Hnd Hgc Hgd dest1 Hs Hsg Hg Hp Hsec.
  destruct (scope_value merge c dest r d H Hin Hnd Hgc) as (dv & xv & Es & Ec & Er).
  exists xv. split; [exact Er|].
  fold dest1 in Es, Ec. specialize (Hsec dv Es).
  pose proof (coalesce_globals_delivers dv dest1 g x sg Hs Hsg Hg Hp Hsec) as H0.
  rewrite coalesce_unfold in Ec.
  pose proof (coalesce_values_keeps_global merge (map cname (cdeps d)) (cvalues d) _ g x H0 Hp) as (gm & Hm & Hgm).
  exists gm. split; [|exact Hgm].
  rewrite (deps_loop_other _ _ _ _ global_key Ec Hgd). exact Hm.
Qed.

Lemma scope_example :
  let suba := Chart "suba" "1.0.0" [("global", VMap [("g", VNum 1)]); ("k", VNum 1)] None [] None [] [] in
  let subb := Chart "subb" "1.0.0" [("k", VNum 2)] None [] None [] [] in
  let top := Chart "top" "1.0.0" [] None [suba; subb] None [] [] in
  let v := [("global", VMap [("g", VNum 7)]); ("suba", VMap [("zz", VNum 1)])] in
  let v' := [("global", VMap [("g", VNum 7)]); ("suba", VMap [("zz", VNum 2); ("global", VMap [("h", VNum 3)])])] in
  NoDup (map cname (cdeps top)) /\ ~ In global_key (map cname (cdeps top)) /\
  match coalesce false top v, coalesce false top v' with
  | Ok r, Ok r' =>
      lookup_path ["suba"; "global"; "g"] (VMap r) = Some (VNum 7)
      /\ mget "subb" r = mget "subb" r' /\ mget "global" r = mget "global" r'
      /\ lookup_path ["suba"; "global"; "h"] (VMap r') = Some (VNum 3)
      /\ lookup_path ["subb"; "global"; "h"] (VMap r') = None
  | _, _ => False
  end.
Proof.
  split; [|split].
  - simpl. repeat constructor; simpl; intuition discriminate.
  - simpl. intuition discriminate.
  - vm_compute. repeat split; reflexivity.
Qed.

(* The --set grammar beyond plain key paths (continues StrvalsProofs.v): list indexes
   name[i], brace lists {a,b,c} and several name=value pairs in one expression.  For an
   expression built by the printer [show_expr], ParseInto / ParseIntoString return exactly the
   denotation [den_expr]: the pairs applied one after the other, each setting its path
   (creating tables, creating and nil-padding lists) to its typed value. *)
From Coq Require Import List String Ascii Bool Arith ZArith Lia.
From Helm Require Import Values.Tree Values.Merge Values.Strvals Values.TreeLemmas Values.StrvalsProofs.
Import ListNotations.
Local Open Scope string_scope.

(* ---------- syntax ---------- *)
Inductive pval := PScalar (v : string) | PList (first : string) (more : list string).   (* {first,more...} *)
Definition seg : Type := string * option (string * Z).       (* key, optional index: its text and its value *)
Definition pair : Type := list seg * pval.

Definition needs_esc_item (c : ascii) : bool := ch_eq c c_comma || ch_eq c c_bsl || ch_eq c c_rbrace.
Definition esc_item := esc_with needs_esc_item.

Fixpoint show_items (first : string) (more : list string) (tail : string) : string :=
  match more with
  | [] => esc_item first ++ String c_rbrace tail
  | m :: ms => esc_item first ++ String c_comma (show_items m ms tail)
  end.

Definition show_pval (pv : pval) (tail : string) : string :=
  match pv with
  | PScalar v => esc_val v ++ tail
  | PList first more => String c_lbrace (show_items first more tail)
  end.

Definition show_idx (ix : option (string * Z)) (tail : string) : string :=
  match ix with
  | None => tail
  | Some (txt, _) => String c_lbr (txt ++ String c_rbr tail)
  end.

Fixpoint show_segs (segs : list seg) (tail : string) : string :=
  match segs with
  | [] => tail
  | [(k, ix)] => esc_key k ++ show_idx ix tail
  | (k, ix) :: rest => esc_key k ++ show_idx ix (String c_dot (show_segs rest tail))
  end.

Definition show_pair (p : pair) (tail : string) : string :=
  show_segs (fst p) (String c_eq (show_pval (snd p) tail)).

Fixpoint show_expr (ps : list pair) : string :=
  match ps with
  | [] => EmptyString
  | [p] => show_pair p EmptyString
  | p :: rest => show_pair p (String c_comma (show_expr rest))
  end.

(* ---------- meaning ---------- *)
Definition den_val (st : bool) (pv : pval) : val :=
  match pv with
  | PScalar v => typed_val st v
  | PList first more => VList (map (typed_val st) (first :: more))
  end.

Definition item_table (l : list val) (i : Z) : vmap :=
  if in_range l i then match nth_val i l with VMap m => m | _ => [] end else [].

(* None = the path does not fit the destination (a key below a non-table, an index on a
   non-list) or an index is out of bounds: the parse is then an error *)
Fixpoint den_key (segs : list seg) (x : val) (d : vmap) : option vmap :=
  match segs with
  | [] => None
  | (k, None) :: rest =>
      match rest with
      | [] => Some (mset k x d)
      | _ =>
          match (match mget k d with None => Some [] | Some (VMap m) => Some m | Some _ => None end) with
          | None => None
          | Some inner =>
              match den_key rest x inner with
              | Some inner' => Some (mset k (VMap inner') d)
              | None => None
              end
          end
      end
  | (k, Some (_, i)) :: rest =>
      match (match mget k d with None => Some [] | Some (VList l) => Some l | Some _ => None end) with
      | None => None
      | Some l =>
          match rest with
          | [] => option_map (fun l' => mset k (VList l') d) (set_index l i x)
          | _ =>
              match den_key rest x (item_table l i) with
              | Some inner' => option_map (fun l' => mset k (VList l') d) (set_index l i (VMap inner'))
              | None => None
              end
          end
      end
  end.

Fixpoint den_expr (st : bool) (ps : list pair) (d : vmap) : option vmap :=
  match ps with
  | [] => Some d
  | p :: rest =>
      match den_key (fst p) (den_val st (snd p)) d with
      | Some d' => den_expr st rest d'
      | None => None
      end
  end.

(* ---------- what the printer needs of its inputs ---------- *)
Definition is_digit (c : ascii) : bool := match digit_of c with Some _ => true | None => false end.
Fixpoint all_digits (s : string) : bool :=
  match s with EmptyString => true | String c t => is_digit c && all_digits t end.

Definition seg_ok (s : seg) : Prop :=
  fst s <> EmptyString
  /\ match snd s with
     | None => True
     | Some (txt, i) => all_digits txt = true /\ parse_int txt = Some i
     end.

(* nesting levels the parser counts: one per '.' *)
Definition dots (segs : list seg) : nat := List.length segs - 1.

(* ---------- values ---------- *)
Lemma esc_with_app_loop : forall (c : pcfg) (it cur : string) (acc : list val) (rest : string),
  val_list_loop c cur acc (esc_item it ++ rest) = val_list_loop c (cur ++ it) acc rest.
Proof.
  intros c it. induction it as [|a it IH]; intros cur acc rest.
  - simpl. f_equal. clear. induction cur; simpl; [reflexivity | now rewrite <- IHcur].
  - unfold esc_item in *. simpl esc_with.
    assert (Happ : forall s, (cur ++ String a EmptyString) ++ s = cur ++ String a s).
    { clear. induction cur; intros; simpl; [reflexivity | now rewrite IHcur]. }
    destruct (needs_esc_item a) eqn:N.
    + simpl. rewrite IH. now rewrite Happ.
    + unfold needs_esc_item in N.
      apply orb_false_iff in N. destruct N as [N Nr]. apply orb_false_iff in N. destruct N as [Nc Nb].
      simpl. rewrite Nr, Nc, Nb. rewrite IH. now rewrite Happ.
Qed.

Definition tail_rest (tail : string) : string :=
  match tail with String c t => if ch_eq c c_comma then t else tail | EmptyString => tail end.

Lemma val_list_loop_items : forall (st : bool) (first : string) (more : list string) (tail : string) (acc : list val),
  let c := mkCfg (if st then MString else MTyped) [] [] in
  val_list_loop c EmptyString acc (show_items first more tail)
  = VLOk (acc ++ map (typed_val st) (first :: more))%list (tail_rest tail).
Proof.
  intros st first more. revert first. induction more as [|m ms IH]; intros first tail acc c.
  - simpl show_items. rewrite esc_with_app_loop. simpl.
    unfold reader, c. destruct st; simpl; reflexivity.
  - simpl show_items. rewrite esc_with_app_loop. simpl.
    assert (R : reader c first = Some (typed_val st first)) by (unfold reader, c; destruct st; reflexivity).
    rewrite R. unfold c in IH. rewrite IH. simpl map. now rewrite <- app_assoc.
Qed.

(* the text after "name=": a printed value followed by the end or by ",more" *)
Definition tail_ok (tail : string) : Prop := tail = EmptyString \/ exists more, tail = String c_comma more.

Lemma value_printed : forall (st : bool) (pv : pval) (tail : string),
  tail_ok tail ->
  value_after_eq (mkCfg (if st then MString else MTyped) [] []) (show_pval pv tail) =
  match pv, tail with
  | PScalar EmptyString, EmptyString => VEof
  | _, _ => VOk (den_val st pv) (tail_rest tail)
  end.
Proof.
  intros st pv tail Ht. destruct pv as [v|first more].
  - simpl show_pval. destruct Ht as [->|[more ->]].
    + replace (esc_val v ++ EmptyString) with (esc_val v) by (clear; induction (esc_val v); simpl; congruence).
      rewrite value_after_eq_typed. destruct v; reflexivity.
    + unfold value_after_eq.
      assert (VL : forall c, val_list c (esc_val v ++ String c_comma more) = VLNotList).
      { intros c. destruct v as [|a v]; [reflexivity|].
        unfold esc_val. simpl esc_with. destruct (needs_esc_val a) eqn:N; [reflexivity|].
        simpl. unfold needs_esc_val in N. destruct (ch_eq a c_lbrace) eqn:E; [|reflexivity].
        rewrite !orb_true_r in N. discriminate. }
      assert (RU : runes_until true stop_comma (esc_val v ++ String c_comma more) = (v, Some c_comma, more)).
      { apply runes_until_esc_stop; auto using stop_comma_ne. }
      destruct st; simpl pmode_of; rewrite VL, RU; simpl; destruct v; reflexivity.
  - simpl show_pval. unfold value_after_eq.
    assert (VL : val_list (mkCfg (if st then MString else MTyped) [] []) (String c_lbrace (show_items first more tail))
                 = VLOk (map (typed_val st) (first :: more)) (tail_rest tail)).
    { unfold val_list. simpl. apply (val_list_loop_items st first more tail []). }
    destruct st; simpl pmode_of; rewrite VL; destruct tail; reflexivity.
Qed.

(* ---------- indexes ---------- *)
Lemma digit_plain : forall c, is_digit c = true -> stop_rbr c = false /\ ch_eq c c_bsl = false.
Proof.
  intros c H. split.
  - destruct (stop_rbr c) eqn:E; [|reflexivity]. apply ch_eq_true in E. subst c. discriminate.
  - destruct (ch_eq c c_bsl) eqn:E; [|reflexivity]. apply ch_eq_true in E. subst c. discriminate.
Qed.

Lemma runes_until_digits : forall txt rest,
  all_digits txt = true ->
  runes_until true stop_rbr (txt ++ String c_rbr rest) = (txt, Some c_rbr, rest).
Proof.
  induction txt as [|a t IH]; intros rest H; [reflexivity|].
  simpl in H. apply andb_true_iff in H. destruct H as [Ha Ht].
  destruct (digit_plain a Ha) as [S B]. simpl. rewrite S, B. simpl. now rewrite IH.
Qed.

Lemma key_index_printed : forall txt i rest,
  all_digits txt = true -> parse_int txt = Some i ->
  key_index true (txt ++ String c_rbr rest) = Some (i, rest).
Proof. intros. unfold key_index. rewrite runes_until_digits by assumption. now rewrite H0. Qed.

Lemma set_nth_twice : forall n v w l, set_nth n v (set_nth n w l) = set_nth n v l.
Proof. induction n; intros v w [|x t]; simpl; try reflexivity; now rewrite IHn. Qed.

Lemma set_nth_length : forall n v l, n < List.length l -> List.length (set_nth n v l) = List.length l.
Proof. induction n; intros v [|x t] H; simpl in *; try lia. now rewrite IHn by lia. Qed.

Lemma set_index_some_nonneg : forall l i v l', set_index l i v = Some l' -> (0 <= i)%Z.
Proof. intros l i v l' H. unfold set_index in H. destruct (i <? 0)%Z eqn:E; [discriminate|]. apply Z.ltb_ge in E. lia. Qed.

Lemma set_index_inplace : forall l i v w,
  in_range l i = true ->
  set_index (set_nth (Z.to_nat i) w l) i v = set_index l i v.
Proof. intros. unfold set_index. destruct (i <? 0)%Z; [reflexivity|]. destruct (max_index <? i)%Z; [reflexivity|]. now rewrite set_nth_twice. Qed.

(* ---------- steps ---------- *)
Section Steps.
  Variable st : bool.
  Let cfg := mkCfg (if st then MString else MTyped) [] [].

  Lemma key_step_lbr : forall f d lvl s k rest,
    runes_until true stop_key s = (k, Some c_lbr, rest) ->
    key (S f) cfg d lvl s =
    match key_index true rest with
    | None => KErr d
    | Some (i, rest1) =>
        match (match mget k d with None => Some [] | Some (VList l) => Some l | Some _ => None end) with
        | None => KErr d
        | Some l =>
            match list_item f cfg l i lvl rest1 with
            | LOk l' rest2 => KOk (set k (VList l') d) rest2
            | LEof l' => KEof (set k (VList l') d)
            | LErr l' => KErr (set k (VList l') d)
            | LFuel => KFuel
            end
        end
    end.
  Proof.
    intros f d lvl s k rest H. unfold cfg. destruct st; simpl key; rewrite H;
      change (ch_eq c_lbr c_lbr) with true; cbv iota; reflexivity.
  Qed.

  Lemma item_step_eq : forall f l i lvl rest,
    (0 <= i)%Z ->
    list_item (S f) cfg l i lvl (String c_eq rest) =
    match value_after_eq cfg rest with
    | VOk v rest1 => match set_index l i v with Some l' => LOk l' rest1 | None => LErr l end
    | VEof => match set_index l i (VStr EmptyString) with Some l' => LOk l' EmptyString | None => LErr l end
    | VErr | VErrNil => LErr l
    end.
  Proof.
    intros f l i lvl rest Hi. assert (E : (i <? 0)%Z = false) by (apply Z.ltb_ge; lia).
    unfold cfg. destruct st; simpl list_item; rewrite E; reflexivity.
  Qed.

  Lemma item_step_dot : forall f l i lvl rest,
    (0 <= i)%Z -> Nat.ltb max_nested_name_level (S lvl) = false ->
    list_item (S f) cfg l i lvl (String c_dot rest) =
    let '(l1, inner, inplace) :=
      if in_range l i
      then match nth_val i l with
           | VMap m => (l, m, true)
           | _ => (set_nth (Z.to_nat i) (VMap []) l, [], true)
           end
      else (l, [], false) in
    match key f cfg inner (S lvl) rest with
    | KOk inner' rest1 => match set_index l1 i (VMap inner') with Some l' => LOk l' rest1 | None => LErr l1 end
    | KEof inner' =>
        match inner' with
        | _ :: _ => match set_index l1 i (VMap inner') with Some l' => LEof l' | None => LErr l1 end
        | [] => if inplace then LEof (set_nth (Z.to_nat i) (VMap inner') l1) else LEof l1
        end
    | KErr _ => LErr l1
    | KFuel => LFuel
    end.
  Proof.
    intros f l i lvl rest Hi L. assert (E : (i <? 0)%Z = false) by (apply Z.ltb_ge; lia).
    unfold cfg. destruct st; simpl list_item; rewrite E; rewrite L; reflexivity.
  Qed.
End Steps.

(* ---------- one name=value pair ---------- *)
Definition kdone (r : kres) (d : vmap) (tail : string) : Prop :=
  r = KOk d (tail_rest tail) \/ (tail = EmptyString /\ r = KEof d).

Lemma den_key_nonempty : forall segs x d d', den_key segs x d = Some d' -> d' <> [].
Proof.
  intros [|[k [[txt i]|]] rest] x d d' H; simpl in H; try discriminate.
  - destruct (match mget k d with None => Some [] | Some (VList l) => Some l | Some _ => None end) as [l|]; [|discriminate].
    destruct rest.
    + destruct (set_index l i x); simpl in H; [|discriminate]. inversion H. apply mset_nonempty.
    + destruct (den_key (s :: rest) x (item_table l i)) as [inn|]; [|discriminate].
      destruct (set_index l i (VMap inn)); simpl in H; [|discriminate]. inversion H. apply mset_nonempty.
  - destruct rest.
    + inversion H. apply mset_nonempty.
    + destruct (match mget k d with None => Some [] | Some (VMap m) => Some m | Some _ => None end) as [inn0|]; [|discriminate].
      destruct (den_key (s :: rest) x inn0); [|discriminate]. inversion H. apply mset_nonempty.
Qed.

Lemma tail_rest_empty : tail_rest EmptyString = EmptyString.
Proof. reflexivity. Qed.

Section Pair.
  Variable st : bool.
  Let cfg := mkCfg (if st then MString else MTyped) [] [].

  Lemma key_segs : forall segs f d lvl pv tail d',
    tail_ok tail -> segs <> [] -> Forall seg_ok segs ->
    den_key segs (den_val st pv) d = Some d' ->
    2 * List.length segs <= f -> lvl + dots segs <= 30 ->
    kdone (key f cfg d lvl (show_segs segs (String c_eq (show_pval pv tail)))) d' tail.
  Proof.
    induction segs as [|[k ix] rest IH]; intros f d lvl pv tail d' Ht Hne HF Hden Hf Hl; [congruence|].
    inversion HF as [|? ? Hok HFr]; subst. destruct Hok as [Hk Hix]. simpl fst in Hk. simpl snd in Hix.
    destruct f as [|f]; [simpl in Hf; lia|].
    pose proof (value_printed st pv tail Ht) as VP. fold cfg in VP.
    destruct ix as [[txt i]|].
    - (* name[i] *)
      destruct Hix as [Hdig Hint].
      simpl den_key in Hden.
      destruct (match mget k d with None => Some [] | Some (VList l) => Some l | Some _ => None end) as [l|] eqn:Gl; [|discriminate].
      destruct f as [|f]; [simpl in Hf; lia|].
      destruct rest as [|s2 rest'].
      + (* name[i]=value *)
        simpl show_segs. simpl show_idx.
        rewrite (key_step_lbr st (S f) d lvl _ k (txt ++ String c_rbr (String c_eq (show_pval pv tail))))
          by (apply key_reads_back; reflexivity).
        rewrite (key_index_printed txt i _ Hdig Hint). rewrite Gl.
        destruct (set_index l i (den_val st pv)) as [l'|] eqn:SI; simpl in Hden; [|discriminate].
        inversion Hden; subst d'. clear Hden.
        pose proof (set_index_some_nonneg _ _ _ _ SI) as Hi.
        rewrite (item_step_eq st f l i lvl _ Hi). fold cfg. rewrite VP.
        destruct pv as [[|a v]|first more]; destruct tail as [|c t]; simpl den_val in *;
          rewrite ?typed_val_empty in *; rewrite SI; rewrite set_nonempty_key by assumption; left; reflexivity.
      + (* name[i].more…=value *)
        destruct (den_key (s2 :: rest') (den_val st pv) (item_table l i)) as [inner'|] eqn:DK; [|discriminate].
        destruct (set_index l i (VMap inner')) as [l'|] eqn:SI; simpl in Hden; [|discriminate].
        inversion Hden; subst d'. clear Hden.
        pose proof (set_index_some_nonneg _ _ _ _ SI) as Hi.
        change (show_segs ((k, Some (txt, i)) :: s2 :: rest') (String c_eq (show_pval pv tail)))
          with (esc_key k ++ String c_lbr (txt ++ String c_rbr (String c_dot (show_segs (s2 :: rest') (String c_eq (show_pval pv tail)))))).
        rewrite (key_step_lbr st (S f) d lvl _ k (txt ++ String c_rbr (String c_dot (show_segs (s2 :: rest') (String c_eq (show_pval pv tail))))))
          by (apply key_reads_back; reflexivity).
        rewrite (key_index_printed txt i _ Hdig Hint). rewrite Gl.
        assert (L : Nat.ltb max_nested_name_level (S lvl) = false).
        { apply Nat.ltb_ge. unfold max_nested_name_level, dots in *. simpl List.length in Hl. lia. }
        rewrite (item_step_dot st f l i lvl _ Hi L). fold cfg.
        assert (IH' : kdone (key f cfg (item_table l i) (S lvl) (show_segs (s2 :: rest') (String c_eq (show_pval pv tail)))) inner' tail).
        { apply IH; try assumption; try discriminate; unfold dots in *; simpl List.length in *; lia. }
        assert (NE : inner' <> []) by (eapply den_key_nonempty; eauto).
        unfold item_table in IH'.
        destruct inner' as [|e0 inner0]; [congruence|].
        destruct (in_range l i) eqn:IR.
        * destruct (nth_val i l) eqn:NV; cbv beta iota;
            destruct IH' as [->|[E ->]];
            rewrite ?(set_index_inplace l i (VMap (e0 :: inner0)) (VMap []) IR); rewrite SI;
            rewrite set_nonempty_key by assumption;
            solve [left; reflexivity | right; split; [assumption|reflexivity]].
        * cbv beta iota. destruct IH' as [->|[E ->]]; rewrite SI; rewrite set_nonempty_key by assumption;
            solve [left; reflexivity | right; split; [assumption|reflexivity]].
    - (* name *)
      simpl den_key in Hden.
      destruct rest as [|s2 rest'].
      + inversion Hden; subst d'. clear Hden.
        simpl show_segs. simpl show_idx.
        rewrite (key_step_eq st f d lvl _ k (show_pval pv tail)) by (apply key_reads_back; reflexivity).
        fold cfg. rewrite VP.
        destruct pv as [[|a v]|first more]; destruct tail as [|c t]; simpl den_val;
          rewrite set_nonempty_key by assumption;
          try (left; reflexivity).
        right. rewrite typed_val_empty. split; reflexivity.
      + destruct (match mget k d with None => Some [] | Some (VMap m) => Some m | Some _ => None end) as [inner|] eqn:Gi; [|discriminate].
        destruct (den_key (s2 :: rest') (den_val st pv) inner) as [inner'|] eqn:DK; [|discriminate].
        inversion Hden; subst d'. clear Hden.
        change (show_segs ((k, None) :: s2 :: rest') (String c_eq (show_pval pv tail)))
          with (esc_key k ++ String c_dot (show_segs (s2 :: rest') (String c_eq (show_pval pv tail)))).
        assert (L : Nat.ltb max_nested_name_level (S lvl) = false).
        { apply Nat.ltb_ge. unfold max_nested_name_level, dots in *. simpl List.length in Hl. lia. }
        rewrite (key_step_dot st f d lvl _ k (show_segs (s2 :: rest') (String c_eq (show_pval pv tail))))
          by (try apply key_reads_back; try reflexivity; assumption).
        fold cfg.
        assert (IH' : kdone (key f cfg inner (S lvl) (show_segs (s2 :: rest') (String c_eq (show_pval pv tail)))) inner' tail).
        { apply IH; try assumption; try discriminate; unfold dots in *; simpl List.length in *; lia. }
        assert (NE : inner' <> []) by (eapply den_key_nonempty; eauto).
        destruct (mget k d) as [y|] eqn:G.
        * destruct y; try discriminate. inversion Gi; subst inner.
          destruct IH' as [->|[E ->]].
          -- destruct inner'; [congruence|]. left. reflexivity.
          -- right. split; [assumption|reflexivity].
        * inversion Gi; subst inner.
          destruct IH' as [->|[E ->]].
          -- destruct inner'; [congruence|]. rewrite set_nonempty_key by assumption. left. reflexivity.
          -- destruct inner'; [congruence|]. rewrite set_nonempty_key by assumption. right. split; [assumption|reflexivity].
  Qed.
End Pair.

(* ---------- several pairs ---------- *)
Definition pair_ok (p : pair) : Prop := fst p <> [] /\ Forall seg_ok (fst p) /\ dots (fst p) <= 30.

Lemma app_len : forall a b, String.length (a ++ b) = String.length a + String.length b.
Proof. exact str_len_app. Qed.

Lemma show_segs_len : forall segs tail,
  Forall seg_ok segs -> 2 * List.length segs <= String.length (show_segs segs (String c_eq tail)) + 1 - 1.
Proof.
  induction segs as [|[k ix] rest IH]; intros tail HF; [simpl; lia|].
  inversion HF as [|? ? [Hk _] HFr]; subst. simpl fst in Hk.
  pose proof (esc_key_len k Hk) as Lk.
  assert (Lix : forall t, String.length t <= String.length (show_idx ix t)).
  { intros t. destruct ix as [[txt i]|]; simpl; [rewrite app_len; simpl; lia | lia]. }
  destruct rest as [|s2 rest'].
  - simpl show_segs. rewrite app_len. specialize (Lix (String c_eq tail)). simpl String.length in *. simpl List.length. lia.
  - change (show_segs ((k, ix) :: s2 :: rest') (String c_eq tail))
      with (esc_key k ++ show_idx ix (String c_dot (show_segs (s2 :: rest') (String c_eq tail)))).
    rewrite app_len. specialize (Lix (String c_dot (show_segs (s2 :: rest') (String c_eq tail)))).
    specialize (IH tail HFr). cbn [String.length] in Lix. simpl List.length in *. lia.
Qed.

Lemma show_items_len : forall more first t, String.length t <= String.length (show_items first more t).
Proof.
  induction more as [|m ms IH]; intros first t; simpl show_items; rewrite app_len; cbn [String.length].
  - lia.
  - specialize (IH m t). lia.
Qed.

Lemma show_pval_len : forall pv t, String.length t <= String.length (show_pval pv t).
Proof.
  intros [v|first more] t; simpl show_pval.
  - rewrite app_len. lia.
  - cbn [String.length]. pose proof (show_items_len more first t). lia.
Qed.

Lemma show_segs_tail_len : forall segs t, String.length t <= String.length (show_segs segs t).
Proof.
  induction segs as [|[k ix] r IHr]; intros t; [simpl; lia|].
  assert (Lix : forall u, String.length u <= String.length (show_idx ix u)).
  { intros u. destruct ix as [[txt i]|]; simpl; [rewrite app_len; simpl; lia | lia]. }
  destruct r as [|s2 r'].
  - simpl show_segs. rewrite app_len. specialize (Lix t). lia.
  - change (show_segs ((k, ix) :: s2 :: r') t) with (esc_key k ++ show_idx ix (String c_dot (show_segs (s2 :: r') t))).
    rewrite app_len. specialize (Lix (String c_dot (show_segs (s2 :: r') t))). specialize (IHr t).
    cbn [String.length] in Lix. lia.
Qed.

Section Expr.
  Variable st : bool.
  Let cfg := mkCfg (if st then MString else MTyped) [] [].

  Lemma parse_loop_expr : forall ps f d d',
    ps <> [] -> Forall pair_ok ps -> den_expr st ps d = Some d' ->
    List.length ps < f ->
    parse_loop f cfg d (show_expr ps) = POk d'.
  Proof.
    induction ps as [|p rest IH]; intros f d d' Hne HF Hden Hf; [congruence|].
    inversion HF as [|? ? [Hsne [Hsok Hdots]] HFr]; subst.
    simpl den_expr in Hden.
    destruct (den_key (fst p) (den_val st (snd p)) d) as [d1|] eqn:DK; [|discriminate].
    destruct f as [|f]; [simpl in Hf; lia|].
    rewrite parse_loop_S.
    destruct rest as [|p2 rest'].
    - simpl in Hden. inversion Hden; subst d1.
      simpl show_expr. unfold show_pair.
      assert (KD : kdone (key (S (String.length (show_segs (fst p) (String c_eq (show_pval (snd p) EmptyString))))) cfg d 0
                              (show_segs (fst p) (String c_eq (show_pval (snd p) EmptyString)))) d' EmptyString).
      { apply (key_segs st); try assumption; [left; reflexivity | ].
        pose proof (show_segs_len (fst p) (show_pval (snd p) EmptyString) Hsok). lia. }
      destruct KD as [->|[_ ->]]; [|reflexivity].
      simpl tail_rest. destruct f as [|f]; [simpl in Hf; lia|].
      rewrite parse_loop_S. simpl String.length. fold cfg. rewrite (key_empty st). reflexivity.
    - change (show_expr (p :: p2 :: rest')) with (show_pair p (String c_comma (show_expr (p2 :: rest')))).
      unfold show_pair at 1 2.
      set (tl := String c_comma (show_expr (p2 :: rest'))).
      assert (KD : kdone (key (S (String.length (show_segs (fst p) (String c_eq (show_pval (snd p) tl))))) cfg d 0
                              (show_segs (fst p) (String c_eq (show_pval (snd p) tl)))) d1 tl).
      { apply (key_segs st); try assumption; [right; eexists; reflexivity | ].
        pose proof (show_segs_len (fst p) (show_pval (snd p) tl) Hsok). lia. }
      destruct KD as [->|[E _]]; [|discriminate].
      unfold tl. simpl tail_rest.
      apply IH; try assumption; try discriminate. simpl List.length in *. lia.
  Qed.

  Lemma show_expr_len : forall ps, Forall pair_ok ps -> List.length ps <= String.length (show_expr ps).
  Proof.
    induction ps as [|p rest IH]; intros HF; [simpl; lia|].
    inversion HF as [|? ? [Hsne [Hsok _]] HFr]; subst.
    assert (L : forall tail, 1 <= String.length (show_pair p tail)).
    { intros tail. unfold show_pair. pose proof (show_segs_len (fst p) (show_pval (snd p) tail) Hsok).
      destruct (fst p); [congruence|]. simpl List.length in *. lia. }
    destruct rest as [|p2 rest'].
    - simpl show_expr. specialize (L EmptyString). simpl List.length. lia.
    - change (show_expr (p :: p2 :: rest')) with (show_pair p (String c_comma (show_expr (p2 :: rest')))).
      specialize (IH HFr).
      unfold show_pair.
      set (tl := String c_comma (show_expr (p2 :: rest'))).
      pose proof (show_pval_len (snd p) tl) as L3.
      pose proof (show_segs_tail_len (fst p) (String c_eq (show_pval (snd p) tl))) as L4.
      assert (Ltl : String.length tl = S (String.length (show_expr (p2 :: rest')))) by reflexivity.
      cbn [String.length] in L4. simpl List.length in *. lia.
  Qed.

  Theorem parse_expr : forall ps d d',
    ps <> [] -> Forall pair_ok ps -> den_expr st ps d = Some d' ->
    parse_with cfg (show_expr ps) d = POk d'.
  Proof.
    intros ps d d' Hne HF Hden. unfold parse_with.
    apply parse_loop_expr; try assumption.
    pose proof (show_expr_len ps HF). lia.
  Qed.
End Expr.

(* ---------- what a pair names, and the frame ---------- *)
(* the table keys of a path up to and including the first indexed segment *)
Fixpoint key_prefix (segs : list seg) : list string :=
  match segs with
  | [] => []
  | (k, None) :: rest => k :: key_prefix rest
  | (k, Some _) :: _ => [k]
  end.

(* following keys and indexes *)
Fixpoint walk (segs : list seg) (v : val) : option val :=
  match segs with
  | [] => Some v
  | (k, ix) :: rest =>
      match v with
      | VMap m =>
          match mget k m with
          | None => None
          | Some y =>
              match ix with
              | None => walk rest y
              | Some (_, i) =>
                  match y with
                  | VList l => if in_range l i then walk rest (nth_val i l) else None
                  | _ => None
                  end
              end
          end
      | _ => None
      end
  end.

Lemma set_nth_nth : forall n v l, nth n (set_nth n v l) VNull = v.
Proof. induction n; intros v [|x t]; simpl; try reflexivity; apply IHn. Qed.

Lemma set_nth_len : forall n v l, n < List.length (set_nth n v l).
Proof.
  induction n; intros v [|x t]; simpl.
  - lia.
  - lia.
  - specialize (IHn v []). lia.
  - specialize (IHn v t). lia.
Qed.

Lemma set_nth_other : forall n m v l, n <> m -> m < List.length l -> nth m (set_nth n v l) VNull = nth m l VNull.
Proof.
  induction n; intros m v [|x t] Hn Hm; simpl in *; try lia.
  - destruct m; [congruence | reflexivity].
  - destruct m; [reflexivity|]. apply IHn; lia.
Qed.

Lemma set_nth_pad : forall n m v l, List.length l <= m -> m < n -> nth m (set_nth n v l) VNull = VNull.
Proof.
  induction n; intros m v [|x t] Hl Hm; simpl in *; try lia.
  - destruct m; [reflexivity|]. apply IHn; simpl; lia.
  - destruct m; [lia|]. apply IHn; lia.
Qed.

(* setIndex: bounds, the element set, the others kept, the gap padded with nil *)
Theorem set_index_spec : forall l i v,
  (set_index l i v = None <-> (i < 0 \/ max_index < i)%Z)
  /\ (forall l', set_index l i v = Some l' ->
        in_range l' i = true /\ nth_val i l' = v
        /\ (forall j, j <> Z.to_nat i -> j < List.length l -> nth j l' VNull = nth j l VNull)
        /\ (forall j, List.length l <= j -> j < Z.to_nat i -> nth j l' VNull = VNull)).
Proof.
  intros l i v. unfold set_index. split.
  - destruct (i <? 0)%Z eqn:E1.
    + apply Z.ltb_lt in E1. split; [intros; left; lia | reflexivity].
    + apply Z.ltb_ge in E1. destruct (max_index <? i)%Z eqn:E2.
      * apply Z.ltb_lt in E2. split; [intros; right; lia | reflexivity].
      * apply Z.ltb_ge in E2. split; [discriminate | lia].
  - intros l' H. destruct (i <? 0)%Z eqn:E1; [discriminate|]. destruct (max_index <? i)%Z; [discriminate|].
    inversion H; subst l'. apply Z.ltb_ge in E1.
    split; [|split; [|split]].
    + unfold in_range. pose proof (set_nth_len (Z.to_nat i) v l).
      apply andb_true_iff. split; [apply Z.ltb_lt; lia | apply Z.leb_le; lia].
    + unfold nth_val. apply set_nth_nth.
    + intros j Hj Hl. apply set_nth_other; [congruence | assumption].
    + intros j Hl Hj. now apply set_nth_pad.
Qed.

Lemma den_key_walk : forall segs x d d',
  den_key segs x d = Some d' -> walk segs (VMap d') = Some x.
Proof.
  induction segs as [|[k ix] rest IH]; intros x d d' H; [discriminate|].
  simpl den_key in H. simpl walk.
  destruct ix as [[txt i]|].
  - destruct (match mget k d with None => Some [] | Some (VList l) => Some l | Some _ => None end) as [l|]; [|discriminate].
    destruct rest as [|s2 rest'].
    + destruct (set_index l i x) as [l'|] eqn:SI; simpl in H; [|discriminate]. inversion H; subst d'.
      rewrite mget_mset_eq. destruct (proj2 (set_index_spec l i x) l' SI) as (IR & NV & _). rewrite IR, NV. reflexivity.
    + destruct (den_key (s2 :: rest') x (item_table l i)) as [inner'|] eqn:DK; [|discriminate].
      destruct (set_index l i (VMap inner')) as [l'|] eqn:SI; simpl in H; [|discriminate]. inversion H; subst d'.
      rewrite mget_mset_eq. destruct (proj2 (set_index_spec l i (VMap inner')) l' SI) as (IR & NV & _). rewrite IR, NV.
      eapply IH; eauto.
  - destruct rest as [|s2 rest'].
    + inversion H; subst d'. rewrite mget_mset_eq. reflexivity.
    + destruct (match mget k d with None => Some [] | Some (VMap m) => Some m | Some _ => None end) as [inner|]; [|discriminate].
      destruct (den_key (s2 :: rest') x inner) as [inner'|] eqn:DK; [|discriminate]. inversion H; subst d'.
      rewrite mget_mset_eq. eapply IH; eauto.
Qed.

Lemma den_key_frame : forall segs x d d' q,
  den_key segs x d = Some d' -> related_b (key_prefix segs) q = false ->
  lookup_path q (VMap d') = lookup_path q (VMap d).
Proof.
  induction segs as [|[k ix] rest IH]; intros x d d' q H R; [discriminate|].
  destruct q as [|b q']; [destruct ix as [[? ?]|]; discriminate|].
  simpl den_key in H.
  assert (Hother : String.eqb k b = false -> forall y, lookup_path (b :: q') (VMap (mset k y d)) = lookup_path (b :: q') (VMap d)).
  { intros E y. apply String.eqb_neq in E. rewrite !lookup_cons_map. now rewrite mget_mset_neq. }
  destruct ix as [[txt i]|].
  - simpl in R. destruct (String.eqb k b) eqn:E; [simpl in R; discriminate|].
    destruct (match mget k d with None => Some [] | Some (VList l) => Some l | Some _ => None end) as [l|]; [|discriminate].
    destruct rest as [|s2 rest'].
    + destruct (set_index l i x); simpl in H; [|discriminate]. inversion H; subst. now apply Hother.
    + destruct (den_key (s2 :: rest') x (item_table l i)); [|discriminate].
      destruct (set_index l i (VMap v)); simpl in H; [|discriminate]. inversion H; subst. now apply Hother.
  - simpl in R. destruct (String.eqb k b) eqn:E.
    + apply String.eqb_eq in E; subst b. simpl in R.
      destruct rest as [|s2 rest']; [simpl in R; discriminate|].
      destruct (mget k d) as [y|] eqn:G.
      * destruct y; try discriminate.
        destruct (den_key (s2 :: rest') x m) as [inner'|] eqn:DK; [|discriminate]. inversion H; subst.
        rewrite !lookup_cons_map, mget_mset_eq, G. eapply IH; eauto.
      * destruct (den_key (s2 :: rest') x []) as [inner'|] eqn:DK; [|discriminate]. inversion H; subst.
        rewrite !lookup_cons_map, mget_mset_eq, G. rewrite (IH _ _ _ _ DK R).
        destruct q'; [destruct s2 as [? [[? ?]|]]; simpl in R; discriminate | reflexivity].
    + destruct rest as [|s2 rest'].
      * inversion H; subst. now apply Hother.
      * destruct (match mget k d with None => Some [] | Some (VMap m) => Some m | Some _ => None end) as [inner|]; [|discriminate].
        destruct (den_key (s2 :: rest') x inner); [|discriminate]. inversion H; subst. now apply Hother.
Qed.

(* the frame of the composition *)
Lemma den_expr_frame : forall st ps d d' q,
  den_expr st ps d = Some d' ->
  forallb (fun p => negb (related_b (key_prefix (fst p)) q)) ps = true ->
  lookup_path q (VMap d') = lookup_path q (VMap d).
Proof.
  induction ps as [|p rest IH]; intros d d' q H R; simpl in *.
  - inversion H; subst. reflexivity.
  - destruct (den_key (fst p) (den_val st (snd p)) d) as [d1|] eqn:DK; [|discriminate].
    apply andb_true_iff in R. destruct R as [R1 R2]. apply negb_true_iff in R1.
    rewrite (IH _ _ _ H R2). eapply den_key_frame; eauto.
Qed.

(* the statement *)
Theorem set_frame_grammar : forall (st : bool) (ps : list pair) (dest d' : vmap),
  ps <> [] -> Forall pair_ok ps -> den_expr st ps dest = Some d' ->
  (if st then parse_into_string else parse_into) (show_expr ps) dest = POk d'
  /\ (forall q, forallb (fun p => negb (related_b (key_prefix (fst p)) q)) ps = true ->
                lookup_path q (VMap d') = lookup_path q (VMap dest)).
Proof.
  intros st ps dest d' Hne HF Hden. split.
  - destruct st; [apply (parse_expr true) | apply (parse_expr false)]; assumption.
  - intros q R. eapply den_expr_frame; eauto.
Qed.

Theorem pair_sets_its_path : forall (segs : list seg) (x : val) (d d' : vmap),
  den_key segs x d = Some d' ->
  walk segs (VMap d') = Some x
  /\ (forall q, related_b (key_prefix segs) q = false -> lookup_path q (VMap d') = lookup_path q (VMap d)).
Proof. intros. split; [eapply den_key_walk; eauto | intros; eapply den_key_frame; eauto]. Qed.

(* non-vacuity: indexes with padding, a brace list, several pairs, an escaped key *)
Definition ex_ps : list pair :=
  [ ([("srv", Some ("2", 2%Z)); ("host", None)], PScalar "h");
    ([("tags", None)], PList "a" ["true"; "7"]);
    ([("a", None); ("x.y", None)], PScalar "null");
    ([("srv", Some ("0", 0%Z)); ("port", None)], PScalar "80") ].

Example ex_grammar :
  show_expr ex_ps = "srv[2].host=h,tags={a,true,7},a.x\.y=null,srv[0].port=80"
  /\ Forall pair_ok ex_ps
  /\ den_expr false ex_ps [("keep", VBool true)]
     = Some [("keep", VBool true);
             ("srv", VList [VMap [("port", VNum 80%Z)]; VNull; VMap [("host", VStr "h")]]);
             ("tags", VList [VStr "a"; VBool true; VNum 7%Z]);
             ("a", VMap [("x.y", VNull)])]
  /\ parse_into (show_expr ex_ps) [("keep", VBool true)]
     = POk [("keep", VBool true);
            ("srv", VList [VMap [("port", VNum 80%Z)]; VNull; VMap [("host", VStr "h")]]);
            ("tags", VList [VStr "a"; VBool true; VNum 7%Z]);
            ("a", VMap [("x.y", VNull)])]
  /\ den_key [("l", Some ("65537", 65537%Z))] (VStr "x") [] = None.
Proof.
  split; [reflexivity|]. split.
  - repeat constructor; simpl; try discriminate; try lia; auto.
  - repeat split; reflexivity.
Qed.

(* The instantiation of the pipeline's Section variables used when the model is RUN against
   observations of the real code: text/template is replaced by the table of rendered files the
   real engine produced, the splitter and the YAML head decoder by tables of what the real
   SplitManifests / yaml.Unmarshal returned.  The pipeline term itself is the proved one. *)
From Coq Require Import List String Bool.
From Helm Require Import Common.Assoc Render.Pipeline.
Import ListNotations.

Section Inst.
  Variable render_failed : bool.                        (* the real engine.Render returned an error *)
  Variable rendered : list (string * string).           (* the real engine.Render output *)
  Variable splits : list (string * list string).        (* file content -> documents in order *)
  Variable heads : list (string * option head).         (* document -> decoded head / error *)

  Definition i_parse (t : list string) (name : string) (_ : unit) : option (list string) :=
    if render_failed then None else Some (name :: t).
  Definition i_exec (_ : list string) (_ : unit) (name : string) (_ : unit) : option (string * unit) :=
    match aget name rendered with Some s => Some (s, tt) | None => None end.
  Definition i_split (c : string) : list string := match aget c splits with Some d => d | None => [] end.
  Definition i_head (d : string) : option head := match aget d heads with Some h => h | None => None end.

  Definition run_pipeline (o : opts) (chart_name : string) (crds : list (string * string))
             (sh1 sh2 : list (string * string) -> list (string * string)) (keys : list string) : result :=
    pipeline (list string) [] unit i_parse unit tt i_exec i_split i_head o chart_name crds sh1 sh2
             (map (fun k => (k, tt)) keys).
End Inst.

(* C05 (round 4) — a reference executor for a FRAGMENT of text/template, used only to instantiate
   the Section variables [parse] / [exec] of Render/Engine.v when the model is RUN against the real
   engine (Run/RunC05.v) and in non-vacuity examples.  No theorem of Props/C05.v depends on it: there
   text/template stays an arbitrary function.

   The fragment (the harness generates templates in it and prints them both as Go template text
   and as the AST below):
     text, {{ .A.B }}, {{ toJson .A.B }}, {{ include "n" . }}, {{ tpl "<src>" . }}, {{ tpl "<src>" . | toJson }},
     {{ required "msg" .A.B }}, {{ fail "msg" }}, {{ lookup "v1" "Pod" "ns" "x" | toJson }},
     {{ .Files.Get "name" }}, {{ define "n" }}...{{ end }} at the top level of a source,
     and a construct that does not parse.
   Modelled text/template behaviour: a missing map key is "<no value>" when printed, nil as an
   argument (missingkey=zero), an error under missingkey=error; a field of a non-map or of a missing
   key is an error; Template.AddParseTree keeps an existing non-empty definition when the new
   body is empty; definitions are looked up in the set as it is when the call executes; tpl parses
   into a CLONE of the set, so its definitions are gone when it returns.
   Helm's own functions are the transcriptions of Render/Funcs.v (required, fail, lookup, include
   and tpl with C20's depth counters), JSON is printed as encoding/json prints a
   map[string]interface{} (keys sorted, HTML-safe escapes). *)
From Coq Require Import List String Ascii Bool Arith ZArith.
From Helm Require Import Common.Assoc Common.Strs Values.Tree Render.Pipeline Render.Files Render.Engine Render.Funcs Misc.PanicsRec.
Import ListNotations.
Local Open Scope string_scope.

Inductive node :=
| NText (s : string)
| NField (path : list string)
| NToJson (path : list string)
| NInclude (name : string)
| NTpl (src : list node)
| NTplJson (src : list node)                    (* {{ tpl "<src>" . | toJson }}: what tpl returns, before the outer replacement *)
| NRequired (msg : string) (path : list string)
| NFail (msg : string)
| NLookup
| NFilesGet (name : string)
| NDefine (name : string) (body : list node)
| NBad.                                         (* something that does not parse *)

(* ------------------------------------------------------------------ encoding/json of a value tree *)

Definition z_to_string (z : Z) : string :=
  match z with
  | Z0 => "0"
  | Zpos p => show_nat (Pos.to_nat p)
  | Zneg p => "-" ++ show_nat (Pos.to_nat p)
  end.

Definition hex_digit (n : nat) : ascii :=
  ascii_of_nat (if Nat.ltb n 10 then 48 + n else 87 + n).

Definition u00 (n : nat) : string :=
  "\u00" ++ String (hex_digit (n / 16)) (String (hex_digit (n mod 16)) EmptyString).

Fixpoint json_escape (s : string) : string :=
  match s with
  | EmptyString => EmptyString
  | String c t =>
      let n := nat_of_ascii c in
      (if Nat.eqb n 34 then "\"""
       else if Nat.eqb n 92 then "\\"
       else if Nat.eqb n 10 then "\n"
       else if Nat.eqb n 13 then "\r"
       else if Nat.eqb n 9 then "\t"
       else if (Nat.ltb n 32 || Nat.eqb n 60 || Nat.eqb n 62 || Nat.eqb n 38)%bool then u00 n
       else String c EmptyString) ++ json_escape t
  end.

Definition json_string (s : string) : string := """" ++ json_escape s ++ """".

Fixpoint join_comma (l : list string) : string :=
  match l with
  | [] => EmptyString
  | [x] => x
  | x :: t => x ++ "," ++ join_comma t
  end.

Fixpoint json_of (v : val) : string :=
  match v with
  | VNull => "null"
  | VBool true => "true"
  | VBool false => "false"
  | VNum z => z_to_string z
  | VFlt s => s
  | VStr s => json_string s
  | VList l => "[" ++ join_comma (map json_of l) ++ "]"
  | VMap m => "{" ++ join_comma ((fix go (m : list (string * val)) : list string :=
                                    match m with
                                    | [] => []
                                    | (k, x) :: t => (json_string k ++ ":" ++ json_of x) :: go t
                                    end) m) ++ "}"
  end.

(* ------------------------------------------------------------------ fields *)

Inductive fieldres := FVal (v : val) | FNoValue | FError.

Fixpoint field (strict : bool) (v : val) (path : list string) : fieldres :=
  match path with
  | [] => FVal v
  | k :: rest =>
      match v with
      | VMap m =>
          match mget k m with
          | Some x => field strict x rest
          | None => if strict then FError                              (* map has no entry for key *)
                    else match rest with [] => FNoValue | _ => FError end    (* nil pointer evaluating *)
          end
      | _ => FError                                                    (* can't evaluate field *)
      end
  end.

(* printing a value with {{ }}: only what the generator prints *)
Definition print_val (v : val) : option string :=
  match v with
  | VStr s => Some s
  | VBool true => Some "true"
  | VBool false => Some "false"
  | VNum z => Some (z_to_string z)
  | VNull => Some no_value
  | _ => None
  end.

(* ------------------------------------------------------------------ the template set *)

Record mset_t := mkSet { defs : list (string * list node); main : list node }.

Definition is_define (n : node) : bool := match n with NDefine _ _ => true | _ => false end.
Definition has_bad (src : list node) : bool := existsb (fun n => match n with NBad => true | _ => false end) src.

(* parse.IsEmptyTree: only white space *)
Definition empty_body (b : list node) : bool :=
  forallb (fun n => match n with NText s => is_blank s | _ => false end) b.

(* Template.associate *)
Definition add_tmpl (n : string) (b : list node) (d : list (string * list node)) : list (string * list node) :=
  match aget n d with
  | Some _ => if empty_body b then d else aset n b d
  | None => aset n b d
  end.

(* t.New(name).Parse(src) *)
Definition parse_src (t : mset_t) (name : string) (src : list node) : option mset_t :=
  if has_bad src then None
  else
    let body := filter (fun n => negb (is_define n)) src in
    let d1 := fold_left (fun d n => match n with NDefine dn b => add_tmpl dn b d | _ => d end) src (defs t) in
    Some (mkSet (add_tmpl name body d1) body).

(* ------------------------------------------------------------------ execution *)

Definition no_cluster_client (_ _ : string) : bool + string := inr "no cluster".
Definition no_get (_ _ _ _ : string) : cluster_res := CNotFound.
Definition no_list (_ _ _ : string) : cluster_res := CNotFound.

Section Exec.
  Variable o : engine_opts.

  Definition files_of_scope (scope : val) : val :=
    match scope with VMap m => vindex "Files" m | _ => VNull end.

  (* [fuel] bounds the nesting of include / tpl bodies (the engine's own counters stop at 1000) *)
  Fixpoint eval (fuel : nat) (d : list (string * list node)) (cnt : rst) (scope : val) (ns : list node) {struct fuel}
    : option (string * rst) :=
    match fuel with
    | O => None
    | S f =>
        (fix go (ns : list node) (cnt : rst) (acc : string) {struct ns} : option (string * rst) :=
           match ns with
           | [] => Some (acc, cnt)
           | n :: rest =>
               let r : option (string * rst) :=
                 match n with
                 | NText s => Some (s, cnt)
                 | NField p =>
                     match field (e_strict o) scope p with
                     | FVal v => match print_val v with Some s => Some (s, cnt) | None => None end
                     | FNoValue => Some (no_value, cnt)
                     | FError => None
                     end
                 | NToJson p =>
                     match field (e_strict o) scope p with
                     | FVal v => Some (json_of (norm v), cnt)
                     | FNoValue => Some ("null", cnt)
                     | FError => None
                     end
                 | NInclude name =>
                     match include_fn (fun s1 => match aget name d with
                                                 | None => (("", Some "no template"), s1)
                                                 | Some b => match eval f d s1 scope b with
                                                             | Some (out, s2) => ((out, None), s2)
                                                             | None => (("", Some "execution"), s1)
                                                             end
                                                 end) "" cnt name with
                     | ((out, None), cnt') => Some (out, cnt')
                     | ((_, Some _), _) => None
                     end
                 | NTpl src =>
                     match tpl_fn mset_t (list node) (fun _ => "") (fun t => Some t) (fun _ t => t) (fun t => t)
                                  (fun t s => parse_src t "gotpl" s)
                                  (fun t s1 vals => match eval f (defs t) s1 vals (main t) with
                                                    | Some (out, s2) => ((out, None), s2)
                                                    | None => (("", Some "execution"), s1)
                                                    end)
                                  (e_strict o) (mkSet d []) cnt src scope with
                     | ((out, None), cnt') => Some (out, cnt')
                     | ((_, Some _), _) => None
                     end
                 | NTplJson src =>
                     match tpl_fn mset_t (list node) (fun _ => "") (fun t => Some t) (fun _ t => t) (fun t => t)
                                  (fun t s => parse_src t "gotpl" s)
                                  (fun t s1 vals => match eval f (defs t) s1 vals (main t) with
                                                    | Some (out, s2) => ((out, None), s2)
                                                    | None => (("", Some "execution"), s1)
                                                    end)
                                  (e_strict o) (mkSet d []) cnt src scope with
                     | ((out, None), cnt') => Some (json_string out, cnt')
                     | ((_, Some _), _) => None
                     end
                 | NRequired msg p =>
                     let arg := match field (e_strict o) scope p with
                                | FVal v => Some v | FNoValue => Some VNull | FError => None end in
                     match arg with
                     | None => None
                     | Some v => match required_fn (e_lint o) msg v with
                                 | FOk x => match print_val x with Some s => Some (s, cnt) | None => None end
                                 | _ => None
                                 end
                     end
                 | NFail msg => match fail_fn (e_lint o) msg with FOk s => Some (s, cnt) | _ => None end
                 | NLookup =>
                     match lookup_fn no_cluster_client no_get no_list o "v1" "Pod" "ns" "x" with
                     | (v, None) => Some (json_of (norm v), cnt)
                     | (_, Some _) => None
                     end
                 | NFilesGet name =>
                     match files_of_scope scope with
                     | VMap fm => match mget name fm with
                                  | Some (VStr s) => Some (s, cnt)
                                  | Some _ => None
                                  | None => Some ("", cnt)
                                  end
                     | _ => None
                     end
                 | NDefine _ _ => Some ("", cnt)
                 | NBad => None
                 end in
               match r with
               | Some (s, cnt') => go rest cnt' (acc ++ s)
               | None => None
               end
           end) ns cnt ""
    end.

  Definition fuel0 : nat := 1100.

  (* the instances of Engine.v's Section variables *)
  (* the template texts of a case come with their ASTs: [srcs] maps a text to its AST *)
  Variable srcs : list (string * list node).
  Definition m_parse (t : mset_t) (name : string) (text : string) : option mset_t :=
    match aget text srcs with
    | Some ast => parse_src t name ast
    | None => None
    end.
  Definition m_exec (t : mset_t) (cnt : rst) (name : string) (scope : val) : option (string * rst) :=
    match aget name (defs t) with
    | None => None
    | Some body => eval fuel0 (defs t) cnt scope body
    end.
End Exec.

Definition m_t0 : mset_t := mkSet [] [].

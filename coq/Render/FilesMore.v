(* C05 (round 4) — more about pkg/engine/files.go (model: Render/Files.v): what a template can reach
   through .Files is the chart's own file list and nothing else; Glob returns a sub-map; the result
   does not depend on the order of the chart's file list (when its names are distinct: with a
   repeated name the LATER entry wins, as newFiles overwrites); AsConfig / AsSecrets with colliding
   base names keep the entry of the greatest full name (fix 8d6e67f). *)
From Coq Require Import List String Ascii Bool Arith Permutation Sorted.
From Helm Require Import Common.Assoc Render.SortLemmas Render.Pipeline Render.PipelineProofs Render.Files Render.FilesProofs.
Import ListNotations.
Local Open Scope string_scope.

(* ------------------------------------------------------------------ newFiles *)

Lemma aget_aset {V} k k' (v : V) l : aget k' (aset k v l) = if String.eqb k' k then Some v else aget k' l.
Proof.
  destruct (String.eqb k' k) eqn:E.
  - apply String.eqb_eq in E. subst. apply aget_aset_eq.
  - apply aget_aset_neq. intros ->. now rewrite String.eqb_refl in E.
Qed.

Lemma new_files_fold (from : list (string * string)) : forall (m : files) n,
  aget n (fold_left (fun (m : files) (kv : string * string) => aset (fst kv) (snd kv) m) from m) =
  match aget n (rev from) with Some d => Some d | None => aget n m end.
Proof.
  induction from as [|[k d] t IH]; intros m n; simpl; auto.
  rewrite IH. clear IH.
  induction (rev t) as [|[k' d'] r IHr]; simpl.
  - rewrite aget_aset. now destruct (String.eqb n k).
  - destruct (String.eqb n k'); auto.
Qed.

(* newFiles: the entry of a name is the LAST entry of the chart's file list with that name *)
Lemma new_files_get from n : aget n (new_files from) = aget n (rev from).
Proof. unfold new_files. rewrite new_files_fold. simpl. now destruct (aget n (rev from)). Qed.

Lemma new_files_nodup from : NoDup (map fst (new_files from)).
Proof.
  unfold new_files. assert (H : forall m : files, NoDup (map fst m) ->
    NoDup (map fst (fold_left (fun m kv => aset (fst kv) (snd kv) m) from m))).
  { induction from as [|kv t IH]; simpl; auto. intros m Hm. apply IH. now apply NoDup_akeys_aset. }
  apply H. constructor.
Qed.

(* hermeticity: content only comes out of the chart's own file list *)
Theorem files_only_own_content from n d :
  aget n (new_files from) = Some d -> In (n, d) from.
Proof. rewrite new_files_get. intros H. apply aget_In in H. now apply in_rev. Qed.

Theorem files_get_unknown_is_empty from n :
  ~ In n (map fst from) -> files_get n (new_files from) = EmptyString /\ files_lines n (new_files from) = Some [].
Proof.
  intros Hn. assert (H : aget n (new_files from) = None).
  { rewrite new_files_get. apply aget_notin. rewrite map_rev. now rewrite <- in_rev. }
  unfold files_get, files_lines. now rewrite H.
Qed.

(* the order of the chart's file list is irrelevant when its names are distinct *)
Theorem new_files_list_order from from' :
  NoDup (map fst from) -> Permutation from from' -> forall n, aget n (new_files from) = aget n (new_files from').
Proof.
  intros Hnd Hp n. rewrite !new_files_get. apply aget_perm.
  - rewrite map_rev. apply (Permutation_NoDup (Permutation_rev _)). exact Hnd.
  - eapply perm_trans; [apply Permutation_sym, Permutation_rev|].
    eapply perm_trans; [exact Hp|apply Permutation_rev].
Qed.

(* with a repeated name it is not: the later entry wins *)
Lemma new_files_repeated_name_refuted :
  exists from from', Permutation from from' /\ files_get "a" (new_files from) <> files_get "a" (new_files from').
Proof.
  exists [("a", "1"); ("a", "2")], [("a", "2"); ("a", "1")]. split; [apply perm_swap|vm_compute; discriminate].
Qed.

(* ------------------------------------------------------------------ Glob *)

Section Glob.
  Variable gmatch : string -> string -> bool.

  Theorem glob_is_submap p (f : files) kv : In kv (files_glob gmatch p f) -> In kv f /\ gmatch p (fst kv) = true.
  Proof. unfold files_glob. apply filter_In. Qed.

  Lemma aget_filter_keys {V} (g : string -> bool) (l : list (string * V)) n :
    aget n (filter (fun kv => g (fst kv)) l) = if g n then aget n l else None.
  Proof.
    induction l as [|[k v] t IH]; simpl; [now destruct (g n)|].
    destruct (g k) eqn:Eg; simpl.
    - destruct (String.eqb n k) eqn:E; auto. apply String.eqb_eq in E. subst. now rewrite Eg.
    - destruct (String.eqb n k) eqn:E; auto. apply String.eqb_eq in E. subst. rewrite Eg in *. exact IH.
  Qed.

  Theorem glob_get p (f : files) n :
    files_get n (files_glob gmatch p f) = if gmatch p n then files_get n f else EmptyString.
  Proof. unfold files_get, files_glob. rewrite aget_filter_keys. now destruct (gmatch p n). Qed.

  Theorem glob_glob_narrows p q (f : files) kv :
    In kv (files_glob gmatch q (files_glob gmatch p f)) -> In kv (files_glob gmatch p f).
  Proof. intros H. now apply glob_is_submap in H. Qed.
End Glob.

(* ------------------------------------------------------------------ AsConfig / AsSecrets *)

Lemma find_app_first {A} (p : A -> bool) l1 l2 :
  find p (l1 ++ l2) = match find p l1 with Some x => Some x | None => find p l2 end.
Proof. induction l1 as [|a t IH]; simpl; auto. now destruct (p a). Qed.

(* in a strictly sorted list, searching from the end finds the greatest element with the property *)
Lemma find_rev_sorted (P : string -> bool) (S : list string) k :
  StronglySorted (fun a c => str_ltb a c = true) S -> In k S -> P k = true ->
  (forall k', In k' S -> P k' = true -> k' = k \/ str_ltb k' k = true) ->
  find P (rev S) = Some k.
Proof.
  induction S as [|a S' IH]; intros Hs Hin HP Hmax; [destruct Hin|].
  inversion Hs as [|? ? Hs' Hall]; subst. simpl. rewrite find_app_first.
  destruct Hin as [->|Hin].
  - assert (Hnone : find P (rev S') = None).
    { destruct (find P (rev S')) as [x|] eqn:E; auto. apply find_some in E. destruct E as [Hx HPx].
      apply in_rev in Hx. rewrite Forall_forall in Hall. specialize (Hall x Hx).
      destruct (Hmax x (or_intror Hx) HPx) as [->|Hlt].
      - exfalso. eapply str_ltb_asym; eauto.
      - exfalso. eapply str_ltb_asym; eauto. }
    rewrite Hnone. simpl. now rewrite HP.
  - rewrite IH; auto. intros k' Hk'. apply Hmax. now right.
Qed.

Section BaseMap.
  Variable enc : string -> string.

  Definition fill (f : files) (ks : list string) (m : list (string * string)) : list (string * string) :=
    fold_left (fun m k => aset (path_base k) (enc (files_get k f)) m) ks m.

  (* after the loop, a base name holds the entry of the LAST name of the list with that base *)
  Lemma fill_get f ks : forall m b,
    aget b (fill f ks m) =
    match find (fun k => String.eqb b (path_base k)) (rev ks) with
    | Some k => Some (enc (files_get k f))
    | None => aget b m
    end.
  Proof.
    unfold fill. induction ks as [|k t IH]; intros m b; simpl; auto.
    rewrite IH. clear IH. rewrite find_app_first.
    destruct (find (fun k0 => String.eqb b (path_base k0)) (rev t)); auto.
    simpl. rewrite aget_aset. now destruct (String.eqb b (path_base k)).
  Qed.

  Lemma aget_map_keys (g : string -> string) l b :
    aget b (map (fun k => (k, g k)) l) = if existsb (String.eqb b) l then Some (g b) else None.
  Proof.
    induction l as [|k t IH]; simpl; auto.
    destruct (String.eqb b k) eqn:E; simpl; auto. apply String.eqb_eq in E. now subst.
  Qed.

  (* AsConfig / AsSecrets: the data map holds, under a base name, the (encoded) content of the
     GREATEST full name with that base name - whatever order the files map is iterated in *)
  Theorem base_map_winner (f : files) k b :
    NoDup (map fst f) -> In k (map fst f) -> path_base k = b ->
    (forall k', In k' (map fst f) -> path_base k' = b -> k' = k \/ str_ltb k' k = true) ->
    aget b (base_map enc f) = Some (enc (files_get k f)).
  Proof.
    intros Hnd Hin Hb Hmax. unfold base_map.
    change (fold_left (fun m k0 => aset (path_base k0) (enc (files_get k0 f)) m) (sort_strings (map fst f)) [])
      with (fill f (sort_strings (map fst f)) []).
    set (S := sort_strings (map fst f)). set (m := fill f S []).
    assert (HS : StronglySorted (fun a c => str_ltb a c = true) S).
    { apply isort_sorted; auto using str_ltb_trans, str_total. }
    assert (HinS : forall x, In x S <-> In x (map fst f)).
    { intros x. split; apply Permutation_in; [apply isort_perm|apply Permutation_sym, isort_perm]. }
    assert (Hm : aget b m = Some (enc (files_get k f))).
    { unfold m. rewrite fill_get.
      rewrite (find_rev_sorted (fun k0 => String.eqb b (path_base k0)) S k); auto.
      - now apply HinS.
      - rewrite Hb. apply String.eqb_refl.
      - intros k' Hk' HP. apply String.eqb_eq in HP. apply Hmax; [now apply HinS|auto]. }
    rewrite (aget_map_keys (fun k0 => match aget k0 m with Some v => v | None => EmptyString end)).
    rewrite Hm.
    assert (Hex : existsb (String.eqb b) (sort_strings (map fst m)) = true).
    { apply existsb_exists. exists b. split; [|apply String.eqb_refl].
      eapply Permutation_in; [apply Permutation_sym, isort_perm|].
      destruct (in_dec string_dec b (map fst m)) as [Hi|Hn]; auto.
      apply aget_notin in Hn. congruence. }
    now rewrite Hex.
  Qed.
End BaseMap.

(* the corpus witness F11 read through the theorem: conf/b/x.txt is the greatest name with base x.txt *)
Example base_map_winner_example :
  aget "x.txt" (base_map (fun s => s) [("conf/b/x.txt", "B"); ("conf/a/x.txt", "A"); ("conf/y.txt", "Y")]) = Some "B".
Proof.
  rewrite (base_map_winner (fun s => s) _ "conf/b/x.txt" "x.txt"); [reflexivity| | | |].
  - repeat constructor; simpl; intuition discriminate.
  - simpl. auto.
  - reflexivity.
  - intros k' Hk' Hb. simpl in Hk'.
    destruct Hk' as [<-|[<-|[<-|[]]]]; [left; reflexivity|right; reflexivity|vm_compute in Hb; discriminate].
Qed.

(* Sorting facts used by the rendering pipeline (C05).

   Go code sorts map keys with sort.Sort / sort.Strings / sort.Slice, none of which
   promises a particular algorithm.  Everything below is therefore phrased through
   "any two sorted permutations of the same list under an asymmetric relation are equal"
   ([sorted_perm_unique]); the executable insertion sort [isort] is just one function that
   returns a sorted permutation ([isort_perm], [isort_sorted]). *)
From Coq Require Import List String Ascii Bool Arith NArith Lia Permutation Sorted.
Import ListNotations.

Section Generic.
  Context {A : Type}.
  Variable ltb : A -> A -> bool.

  Definition lt (a b : A) : Prop := ltb a b = true.

  Definition asym := forall a b, lt a b -> lt b a -> False.
  Definition trans := forall a b c, lt a b -> lt b c -> lt a c.
  Definition total_on (l : list A) := forall a b, In a l -> In b l -> a <> b -> lt a b \/ lt b a.

  (* the uniqueness principle: it mentions no algorithm *)
  Lemma sorted_perm_unique :
    asym -> forall s1 s2, Permutation s1 s2 -> StronglySorted lt s1 -> StronglySorted lt s2 -> s1 = s2.
  Proof.
    intros Has s1. induction s1 as [|a t1 IH]; intros s2 Hp H1 H2.
    - apply Permutation_nil in Hp. now subst.
    - destruct s2 as [|b t2].
      + apply Permutation_sym, Permutation_nil in Hp. discriminate.
      + inversion H1 as [|? ? Hs1 Hf1]; subst. inversion H2 as [|? ? Hs2 Hf2]; subst.
        assert (Hab : a = b).
        { assert (Ha : In a (b :: t2)) by (eapply Permutation_in; [exact Hp|now left]).
          assert (Hb : In b (a :: t1)) by (eapply Permutation_in; [apply Permutation_sym; exact Hp|now left]).
          destruct Ha as [Ha|Ha]; [now subst|].
          destruct Hb as [Hb|Hb]; [now subst|].
          rewrite Forall_forall in Hf1, Hf2.
          exfalso. apply (Has a b); auto. }
        subst b. f_equal. apply IH; auto. eapply Permutation_cons_inv; eauto.
  Qed.

  Fixpoint insert (x : A) (l : list A) : list A :=
    match l with
    | [] => [x]
    | y :: t => if ltb x y then x :: y :: t else y :: insert x t
    end.

  Fixpoint isort (l : list A) : list A :=
    match l with
    | [] => []
    | x :: t => insert x (isort t)
    end.

  Lemma insert_perm x l : Permutation (insert x l) (x :: l).
  Proof.
    induction l as [|y t IH]; simpl; auto.
    destruct (ltb x y); auto.
    eapply perm_trans; [apply perm_skip; exact IH|apply perm_swap].
  Qed.

  Lemma isort_perm l : Permutation (isort l) l.
  Proof.
    induction l as [|x t IH]; simpl; auto.
    eapply perm_trans; [apply insert_perm|now apply perm_skip].
  Qed.

  Lemma insert_sorted x l :
    trans -> (forall y, In y l -> x <> y -> lt x y \/ lt y x) -> ~ In x l ->
    StronglySorted lt l -> StronglySorted lt (insert x l).
  Proof.
    intros Htr. induction l as [|y t IH]; intros Htot Hni Hs; simpl.
    - constructor; [constructor|constructor].
    - inversion Hs as [|? ? Hst Hf]; subst.
      destruct (ltb x y) eqn:E.
      + constructor; auto. constructor; auto.
        rewrite Forall_forall in *. intros z Hz. eapply Htr; [exact E|auto].
      + constructor.
        * apply IH; auto.
          -- intros z Hz. apply Htot. now right.
          -- intros H. apply Hni. now right.
        * assert (Hyx : lt y x).
          { destruct (Htot y) as [H|H]; auto; [now left| |].
            - intros ->. apply Hni. now left.
            - unfold lt in H. congruence. }
          rewrite Forall_forall in *. intros z Hz.
          eapply Permutation_in in Hz; [|apply insert_perm].
          destruct Hz as [Hz|Hz]; [now subst|auto].
  Qed.

  Lemma isort_sorted l : trans -> total_on l -> NoDup l -> StronglySorted lt (isort l).
  Proof.
    intros Htr. induction l as [|x t IH]; intros Htot Hnd; simpl; [constructor|].
    inversion Hnd; subst.
    apply insert_sorted; auto.
    - intros y Hy Hne. apply Htot; auto.
      + now left.
      + right. eapply Permutation_in; [apply isort_perm|exact Hy].
    - intros H. eapply Permutation_in in H; [|apply isort_perm]. contradiction.
    - apply IH; auto. intros a b Ha Hb. apply Htot; now right.
  Qed.

  (* the consequence used everywhere: sorting forgets the order the keys came in *)
  Lemma isort_perm_eq l l' :
    asym -> trans -> total_on l -> NoDup l -> Permutation l l' -> isort l = isort l'.
  Proof.
    intros Has Htr Htot Hnd Hp.
    assert (Htot' : total_on l').
    { intros a b Ha Hb. apply Htot.
      - eapply Permutation_in; [apply Permutation_sym; exact Hp|exact Ha].
      - eapply Permutation_in; [apply Permutation_sym; exact Hp|exact Hb]. }
    assert (Hnd' : NoDup l') by (eapply Permutation_NoDup; eauto).
    apply sorted_perm_unique; auto using isort_sorted.
    eapply perm_trans; [apply isort_perm|]. eapply perm_trans; [exact Hp|]. apply Permutation_sym, isort_perm.
  Qed.

  (* whatever Go's sort returns, if it is a sorted permutation it is what the model computes *)
  Lemma any_sort_is_isort l s :
    asym -> trans -> total_on l -> NoDup l -> Permutation s l -> StronglySorted lt s -> s = isort l.
  Proof.
    intros Has Htr Htot Hnd Hp Hs.
    apply sorted_perm_unique; auto using isort_sorted.
    eapply perm_trans; [exact Hp|]. apply Permutation_sym, isort_perm.
  Qed.
End Generic.

(* ---- the concrete orders: Go's < on strings, and (slash count, string) ---- *)

Definition str_ltb (a b : string) : bool :=
  match String.compare a b with Lt => true | _ => false end.

Lemma ascii_compare_lt_trans a b c :
  Ascii.compare a b = Lt -> Ascii.compare b c = Lt -> Ascii.compare a c = Lt.
Proof. unfold Ascii.compare. rewrite !N.compare_lt_iff. lia. Qed.

Lemma ascii_compare_refl a : Ascii.compare a a = Eq.
Proof. unfold Ascii.compare. apply N.compare_refl. Qed.

Lemma str_compare_refl s : String.compare s s = Eq.
Proof. induction s; simpl; auto. now rewrite ascii_compare_refl. Qed.

Lemma str_compare_lt_trans : forall a b c,
  String.compare a b = Lt -> String.compare b c = Lt -> String.compare a c = Lt.
Proof.
  induction a as [|x a IH]; intros [|y b] [|z c]; simpl; try discriminate; auto.
  destruct (Ascii.compare x y) eqn:E1; try discriminate;
  destruct (Ascii.compare y z) eqn:E2; try discriminate; intros H1 H2.
  - apply Ascii.compare_eq_iff in E1, E2. subst. rewrite ascii_compare_refl. eauto.
  - apply Ascii.compare_eq_iff in E1. subst. now rewrite E2.
  - apply Ascii.compare_eq_iff in E2. subst. now rewrite E1.
  - now rewrite (ascii_compare_lt_trans _ _ _ E1 E2).
Qed.

Lemma str_ltb_trans : trans str_ltb.
Proof.
  unfold trans, lt, str_ltb. intros a b c H1 H2.
  destruct (String.compare a b) eqn:E1; try discriminate.
  destruct (String.compare b c) eqn:E2; try discriminate.
  now rewrite (str_compare_lt_trans _ _ _ E1 E2).
Qed.

Lemma str_ltb_asym : asym str_ltb.
Proof.
  unfold asym, lt, str_ltb. intros a b H1 H2.
  rewrite String.compare_antisym in H2.
  destruct (String.compare a b); simpl in *; discriminate.
Qed.

Lemma str_ltb_total a b : a <> b -> str_ltb a b = true \/ str_ltb b a = true.
Proof.
  unfold str_ltb. intros Hne. rewrite (String.compare_antisym b a).
  destruct (String.compare a b) eqn:E; simpl; auto.
  apply String.compare_eq_iff in E. contradiction.
Qed.

Section Lex.
  Variable f : string -> nat.

  (* byPathLen.Less with f = strings.Count(., "/") *)
  Definition lex_ltb (a b : string) : bool :=
    if Nat.eqb (f a) (f b) then str_ltb a b else Nat.ltb (f a) (f b).

  Lemma lex_ltb_trans : trans lex_ltb.
  Proof.
    unfold trans, lt, lex_ltb. intros a b c.
    destruct (Nat.eqb (f a) (f b)) eqn:E1; destruct (Nat.eqb (f b) (f c)) eqn:E2;
      destruct (Nat.eqb (f a) (f c)) eqn:E3;
      rewrite ?Nat.eqb_eq, ?Nat.eqb_neq, ?Nat.ltb_lt in *; intros H1 H2;
      rewrite ?Nat.ltb_lt in *; try lia.
    eapply str_ltb_trans; eauto.
  Qed.

  Lemma lex_ltb_asym : asym lex_ltb.
  Proof.
    unfold asym, lt, lex_ltb. intros a b.
    rewrite (Nat.eqb_sym (f b) (f a)).
    destruct (Nat.eqb (f a) (f b)) eqn:E1; intros H1 H2.
    - eapply str_ltb_asym; eauto.
    - rewrite Nat.ltb_lt in *. lia.
  Qed.

  Lemma lex_ltb_total a b : a <> b -> lex_ltb a b = true \/ lex_ltb b a = true.
  Proof.
    unfold lex_ltb. intros Hne. rewrite (Nat.eqb_sym (f b) (f a)).
    destruct (Nat.eqb (f a) (f b)) eqn:E1.
    - now apply str_ltb_total.
    - rewrite Nat.eqb_neq in E1. rewrite !Nat.ltb_lt. lia.
  Qed.
End Lex.

(* sort.Reverse: Less(i, j) := inner.Less(j, i) *)
Definition flip_ltb {A} (ltb : A -> A -> bool) (a b : A) : bool := ltb b a.

Lemma flip_trans {A} (ltb : A -> A -> bool) : trans ltb -> trans (flip_ltb ltb).
Proof. unfold trans, lt, flip_ltb. eauto. Qed.
Lemma flip_asym {A} (ltb : A -> A -> bool) : asym ltb -> asym (flip_ltb ltb).
Proof. unfold asym, lt, flip_ltb. eauto. Qed.
Lemma flip_total {A} (ltb : A -> A -> bool) (l : list A) : total_on ltb l -> total_on (flip_ltb ltb) l.
Proof. unfold total_on, lt, flip_ltb. intros H a b Ha Hb Hne. destruct (H a b Ha Hb Hne); auto. Qed.

Lemma total_on_all {A} (ltb : A -> A -> bool) :
  (forall a b, a <> b -> ltb a b = true \/ ltb b a = true) -> forall l, total_on ltb l.
Proof. unfold total_on, lt. auto. Qed.

(* C05 (round 4) — a concrete chart tree, well-formed, with a library chart, a nested dependency
   and a partial, rendered by the model with the reference executor (non-vacuity of the theorems
   of EngineNames / EngineProofs). *)
From Coq Require Import List String Ascii Bool Arith ZArith.
From Helm Require Import Common.Assoc Values.Tree Render.SortLemmas Render.Pipeline Render.Files Render.Engine Render.EngineProofs
     Render.EngineNames Render.EngineEquiv Render.EngineDeps Render.Funcs Render.Mini Misc.PanicsRec.
From Helm Require Chart.Paths.
Import ListNotations.
Local Open Scope string_scope.

Definition ex_srcs : list (string * list node) :=
  [("src:l", [NDefine "lib.x" [NText "[lib]"]]);
   ("src:libcm", [NText "never rendered"]);
   ("src:d", [NText "deep sees "; NInclude "h"]);
   ("src:a", [NText "app in "; NField ["Release"; "Name"]; NText ": "; NField ["Values"; "k"]]);
   ("src:h", [NDefine "h" [NText "parent-h"]]);
   ("src:cm", [NField ["Template"; "Name"]; NText " root="; NField ["Chart"; "IsRoot"]; NText " lib="; NInclude "lib.x"; NText " "])].

Definition ex_deep : chart := Chart "deep" "" [] [Some ("templates/d.yaml", "src:d")] [] [].
Definition ex_app : chart := Chart "app" "application" [] [Some ("templates/a.yaml", "src:a")] [("conf/a.txt", "A")] [ex_deep].
Definition ex_lib : chart := Chart "lib" "Library" [] [Some ("templates/_l.tpl", "src:l"); Some ("templates/cm.yaml", "src:libcm")] [] [].
Definition ex_chart : chart :=
  Chart "p" "" [] [Some ("templates/_h.tpl", "src:h"); None; Some ("templates/cm.yaml", "src:cm")] [] [ex_lib; ex_app].

Definition ex_top : vmap :=
  [("Values", VMap [("app", VMap [("k", VStr "from-app")])]); ("Release", VMap [("Name", VStr "rel")]); ("Capabilities", VMap [])].

Definition ex_opts : engine_opts := mkEngine false false false false.

Definition ex_render :=
  engine_render_tree VStr mset_t (m_parse ex_srcs) rst (m_exec ex_opts) m_t0 rinit ex_chart ex_top.

Ltac tname r := exists r; split; [reflexivity|unfold path_ok; simpl; repeat constructor; discriminate].
Ltac elem := split; [repeat split; discriminate|reflexivity].

Ltac nodup := repeat constructor; simpl; intuition discriminate.

Lemma ex_wf : wf_chart ex_chart.
Proof.
  assert (Hdeep : wf_chart ex_deep).
  { apply wf_intro; [elem| | nodup | nodup | constructor]. simpl. repeat constructor. tname "d.yaml". }
  assert (Happ : wf_chart ex_app).
  { apply wf_intro; [elem| | nodup | nodup | constructor; [exact Hdeep|constructor]]. simpl. repeat constructor. tname "a.yaml". }
  assert (Hlib : wf_chart ex_lib).
  { apply wf_intro; [elem| | nodup | nodup | constructor]. simpl. constructor; [tname "_l.tpl"|]. constructor; [tname "cm.yaml"|constructor]. }
  apply wf_intro; [elem| | nodup | nodup | constructor; [exact Hlib|constructor; [exact Happ|constructor]]].
  simpl. constructor; [tname "_h.tpl"|]. constructor; [tname "cm.yaml"|constructor].
Qed.

Example ex_tree_witness :
  wf_chart ex_chart /\
  map fst (fst (all_templates ex_chart ex_top)) =
    ["p/charts/lib/templates/_l.tpl"; "p/charts/app/charts/deep/templates/d.yaml"; "p/charts/app/templates/a.yaml";
     "p/templates/_h.tpl"; "p/templates/cm.yaml"] /\
  exists fin, ex_render = inl ([("p/charts/app/charts/deep/templates/d.yaml", "deep sees parent-h");
                                ("p/charts/app/templates/a.yaml", "app in rel: from-app");
                                ("p/templates/cm.yaml", "p/templates/cm.yaml root=true lib=[lib] ")], fin).
Proof.
  split; [exact ex_wf|]. split; [vm_compute; reflexivity|].
  eexists. vm_compute. reflexivity.
Qed.

(* the same tree with the two dependencies of the root in the other order *)
Definition ex_chart_swapped : chart :=
  Chart "p" "" [] [Some ("templates/_h.tpl", "src:h"); None; Some ("templates/cm.yaml", "src:cm")] [] [ex_app; ex_lib].

Example ex_dependency_order_witness :
  wf_chart ex_chart /\ dperm ex_chart ex_chart_swapped /\
  engine_render_tree VStr mset_t (m_parse ex_srcs) rst (m_exec ex_opts) m_t0 rinit ex_chart ex_top
  = engine_render_tree VStr mset_t (m_parse ex_srcs) rst (m_exec ex_opts) m_t0 rinit ex_chart_swapped ex_top.
Proof. split; [exact ex_wf|]. split; [apply dperm_swap|vm_compute; reflexivity]. Qed.

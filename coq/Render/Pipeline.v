(* C05 — the Helm-owned glue of the rendering pipeline, as executable Gallina.

   Modelled Go code (after the fix: commits 43ed85f, 9782149):
     pkg/engine/engine.go        render (parse all in sortTemplates order, execute all non-partials
                                 in the same order), sortTemplates / byPathLen
     pkg/action/action.go        renderResources: NOTES.txt extraction (sorted keys), SortManifests,
                                 error blob, CRD block, manifest assembly, HideSecret
     pkg/release/util/manifest_sorter.go  SortManifests, manifestFile.sort (hook classification)
     pkg/release/util/kind_sorter.go      sortManifestsByKind / sortHooksByKind / lessByKind

   A Go map is an association list with unique keys given in an ARBITRARY order; every place
   where the Go code ranges over a map takes its argument through an explicit re-ordering
   ([sh1], [sh2] below), so that the order-independence theorem quantifies over what the Go
   runtime may do at each of those places.

   Not modelled here (Section variables): text/template parsing and execution, YAML decoding
   of a document head, the document splitter (SplitManifests + BySplitManifestsOrder; that is
   C08's model). *)
From Coq Require Import List String Ascii Bool Arith ZArith NArith Lia.
From Helm Require Import Common.Assoc Render.SortLemmas Gen.C05Tables.
Import ListNotations.
Local Open Scope string_scope.

(* ------------------------------------------------------------------ strings *)

Definition slash : ascii := "/"%char.

(* strings.Count(s, "/") *)
Fixpoint count_slash (s : string) : nat :=
  match s with
  | EmptyString => 0
  | String c t => if Ascii.eqb c slash then S (count_slash t) else count_slash t
  end.

Fixpoint str_rev_acc (s acc : string) : string :=
  match s with
  | EmptyString => acc
  | String c t => str_rev_acc t (String c acc)
  end.
Definition str_rev (s : string) : string := str_rev_acc s EmptyString.

(* strings.HasSuffix *)
Definition has_suffix (suf s : string) : bool := String.prefix (str_rev suf) (str_rev s).

Fixpoint drop_leading (c : ascii) (s : string) : string :=
  match s with
  | String d t => if Ascii.eqb c d then drop_leading c t else s
  | EmptyString => EmptyString
  end.

(* the part of s before the first c *)
Fixpoint take_until (c : ascii) (s : string) : string :=
  match s with
  | EmptyString => EmptyString
  | String d t => if Ascii.eqb c d then EmptyString else String d (take_until c t)
  end.

(* path.Base *)
Definition path_base (s : string) : string :=
  match s with
  | EmptyString => "."
  | _ =>
      let r := drop_leading slash (str_rev s) in      (* strip trailing slashes *)
      match r with
      | EmptyString => "/"
      | _ => str_rev (take_until slash r)
      end
  end.

(* strings.HasPrefix(path.Base(filename), "_") *)
Definition is_partial (k : string) : bool := String.prefix "_" (path_base k).

(* unicode.IsSpace on the UTF-8 encoded prefix of s: the number of bytes of a leading white
   space rune (0 = the string does not start with white space). *)
Definition b (n : nat) : ascii := ascii_of_nat n.
Definition ws_prefix_len (s : string) : nat :=
  match s with
  | EmptyString => 0
  | String c t =>
      let n := nat_of_ascii c in
      if (Nat.eqb n 9 || Nat.eqb n 10 || Nat.eqb n 11 || Nat.eqb n 12 || Nat.eqb n 13 || Nat.eqb n 32)%bool then 1
      else match t with
           | String c2 t2 =>
               let n2 := nat_of_ascii c2 in
               if (Nat.eqb n 194 && (Nat.eqb n2 133 || Nat.eqb n2 160))%bool then 2      (* U+0085, U+00A0 *)
               else match t2 with
                    | String c3 _ =>
                        let n3 := nat_of_ascii c3 in
                        if (Nat.eqb n 225 && Nat.eqb n2 154 && Nat.eqb n3 128)%bool then 3          (* U+1680 *)
                        else if (Nat.eqb n 226 && Nat.eqb n2 128 &&
                                 ((Nat.leb 128 n3 && Nat.leb n3 138) || Nat.eqb n3 168 || Nat.eqb n3 169 || Nat.eqb n3 175))%bool
                             then 3                                                              (* U+2000-200A, 2028, 2029, 202F *)
                        else if (Nat.eqb n 226 && Nat.eqb n2 129 && Nat.eqb n3 159)%bool then 3     (* U+205F *)
                        else if (Nat.eqb n 227 && Nat.eqb n2 128 && Nat.eqb n3 128)%bool then 3     (* U+3000 *)
                        else 0
                    | EmptyString => 0
                    end
           | EmptyString => 0
           end
  end.

Fixpoint str_drop (n : nat) (s : string) : string :=
  match n, s with
  | S n', String _ t => str_drop n' t
  | _, _ => s
  end.

(* strings.TrimLeftFunc(s, unicode.IsSpace); fuel = length s *)
Fixpoint trim_left_fuel (fuel : nat) (s : string) : string :=
  match fuel with
  | O => s
  | S f => match ws_prefix_len s with
           | O => s
           | n => trim_left_fuel f (str_drop n s)
           end
  end.
Definition trim_left (s : string) : string := trim_left_fuel (String.length s) s.

(* strings.TrimSpace(s) == "" *)
Definition is_blank (s : string) : bool :=
  match trim_left s with EmptyString => true | _ => false end.

(* white space seen from the right end: the reversed encodings *)
Definition ws_suffix_len_rev (r : string) : nat :=
  match r with
  | EmptyString => 0
  | String c t =>
      let n := nat_of_ascii c in
      if (Nat.eqb n 9 || Nat.eqb n 10 || Nat.eqb n 11 || Nat.eqb n 12 || Nat.eqb n 13 || Nat.eqb n 32)%bool then 1
      else match t with
           | String c2 t2 =>
               if Nat.eqb (ws_prefix_len (String c2 (String c EmptyString))) 2 then 2
               else match t2 with
                    | String c3 _ =>
                        if Nat.eqb (ws_prefix_len (String c3 (String c2 (String c EmptyString)))) 3 then 3 else 0
                    | EmptyString => 0
                    end
           | EmptyString => 0
           end
  end.
Fixpoint trim_right_rev_fuel (fuel : nat) (r : string) : string :=
  match fuel with
  | O => r
  | S f => match ws_suffix_len_rev r with
           | O => r
           | n => trim_right_rev_fuel f (str_drop n r)
           end
  end.
(* strings.TrimSpace *)
Definition trim_space (s : string) : string :=
  let l := trim_left s in
  str_rev (trim_right_rev_fuel (String.length l) (str_rev l)).

(* strings.ToLower on ASCII letters; bytes >= 0x80 are kept (the harness never feeds
   non-ASCII letters to the places where this is used: hook annotations) *)
Definition lower_ascii (c : ascii) : ascii :=
  let n := nat_of_ascii c in
  if (Nat.leb 65 n && Nat.leb n 90)%bool then ascii_of_nat (n + 32) else c.
Fixpoint to_lower (s : string) : string :=
  match s with
  | EmptyString => EmptyString
  | String c t => String (lower_ascii c) (to_lower t)
  end.

(* strings.Split(s, ",") *)
Fixpoint split_comma_acc (s cur : string) : list string :=
  match s with
  | EmptyString => [str_rev cur]
  | String c t => if Ascii.eqb c ","%char then str_rev cur :: split_comma_acc t EmptyString
                  else split_comma_acc t (String c cur)
  end.
Definition split_comma (s : string) : list string := split_comma_acc s EmptyString.

(* strconv.Atoi: optional sign, at least one digit, digits only, int64 range; None = error *)
Fixpoint digits_val (s : string) (acc : Z) : option Z :=
  match s with
  | EmptyString => Some acc
  | String c t =>
      let n := nat_of_ascii c in
      if (Nat.leb 48 n && Nat.leb n 57)%bool then digits_val t (acc * 10 + Z.of_nat (n - 48))%Z else None
  end.
Definition go_atoi (s : string) : option Z :=
  let body (neg : bool) (d : string) :=
    match d with
    | EmptyString => None
    | _ => match digits_val d 0%Z with
           | Some v => let v' := if neg then (- v)%Z else v in
                       if ((-9223372036854775808 <=? v') && (v' <=? 9223372036854775807))%Z then Some v' else None
           | None => None
           end
    end in
  match s with
  | String "+"%char d => body false d
  | String "-"%char d => body true d
  | _ => body false s
  end.

Definition concat_str (l : list string) : string := fold_right String.append EmptyString l.

Definition nl : string := String (ascii_of_nat 10) EmptyString.

(* ------------------------------------------------------------------ orders *)

(* sort.Sort(sort.Reverse(byPathLen(keys))) *)
Definition tpl_before : string -> string -> bool := flip_ltb (lex_ltb count_slash).
Definition sort_templates (keys : list string) : list string := isort tpl_before keys.

(* the sort.Slice comparison of renderResources' notesKeys (commit 43ed85f) *)
Definition notes_before : string -> string -> bool := lex_ltb count_slash.
Definition sort_notes_keys (keys : list string) : list string := isort notes_before keys.

(* sort.Strings *)
Definition sort_strings (keys : list string) : list string := isort str_ltb keys.

(* ------------------------------------------------------------------ kinds *)

Fixpoint index_of (k : string) (l : list string) (i : nat) : option nat :=
  match l with
  | [] => None
  | x :: t => if String.eqb k x then Some i else index_of k t (S i)
  end.

(* lessByKind; the map built from the ordering keeps the LAST index of a repeated kind *)
Fixpoint last_index_of (k : string) (l : list string) (i : nat) : option nat :=
  match l with
  | [] => None
  | x :: t => match last_index_of k t (S i) with
              | Some j => Some j
              | None => if String.eqb k x then Some i else None
              end
  end.

Definition less_by_kind (order : list string) (ka kb : string) : bool :=
  match last_index_of ka order 0, last_index_of kb order 0 with
  | None, None => if String.eqb ka kb then false else str_ltb ka kb
  | None, Some _ => false
  | Some _, None => true
  | Some i, Some j => Nat.ltb i j
  end.

(* a stable sort (sort.SliceStable): elements are inserted from the right end of the list, each
   in front of the first element that is not strictly less than it, so equal elements keep
   their input order *)
Section Stable.
  Context {A : Type}.
  Variable less : A -> A -> bool.
  Fixpoint sinsert (x : A) (l : list A) : list A :=
    match l with
    | [] => [x]
    | y :: t => if less y x then y :: sinsert x t else x :: y :: t
    end.
  Definition stable_sort (l : list A) : list A := fold_right sinsert [] l.
End Stable.

(* ------------------------------------------------------------------ documents *)

(* releaseutil.SimpleHead after yaml.Unmarshal *)
Record head := mkHead {
  h_version : string;
  h_kind : string;
  h_has_meta : bool;                       (* Metadata != nil *)
  h_name : string;
  h_ann : list (string * string)           (* Metadata.Annotations, keys unique *)
}.

Record manifest := mkManifest { m_name : string; m_content : string; m_head : head }.

Record hook := mkHook {
  hk_name : string; hk_kind : string; hk_path : string; hk_manifest : string;
  hk_events : list string; hk_weight : Z; hk_delete : list string; hk_outlog : list string
}.

(* hasAnyAnnotation *)
Definition has_any_annotation (h : head) : bool :=
  h_has_meta h && negb (match h_ann h with [] => true | _ => false end).

(* calculateHookWeight *)
Definition hook_weight (h : head) : Z :=
  match aget hook_weight_annotation (h_ann h) with
  | Some s => match go_atoi s with Some v => v | None => 0%Z end
  | None => match go_atoi "" with Some v => v | None => 0%Z end
  end.

(* operateAnnotationValues *)
Definition annotation_values (h : head) (a : string) : list string :=
  match aget a (h_ann h) with
  | Some s => map (fun w => to_lower (trim_space w)) (split_comma s)
  | None => []
  end.

(* the loop over strings.Split(hookTypes, ","): None = an unknown word was met *)
Fixpoint hook_event_list (words : list string) : option (list string) :=
  match words with
  | [] => Some []
  | w :: t =>
      match aget (to_lower (trim_space w)) hook_events with
      | None => None
      | Some e => match hook_event_list t with Some r => Some (e :: r) | None => None end
      end
  end.

Inductive classified := CGeneric (m : manifest) | CHook (h : hook) | CSkipped.

Definition classify (path doc : string) (h : head) : classified :=
  if negb (has_any_annotation h) then CGeneric (mkManifest path doc h)
  else match aget hook_annotation (h_ann h) with
       | None => CGeneric (mkManifest path doc h)
       | Some types =>
           match hook_event_list (split_comma types) with
           | None => CSkipped                                        (* "skipping unknown hooks" *)
           | Some evs =>
               CHook (mkHook (h_name h) (h_kind h) path doc evs (hook_weight h)
                             (annotation_values h hook_delete_annotation)
                             (annotation_values h hook_output_log_annotation))
           end
       end.

(* ------------------------------------------------------------------ the pipeline *)

Inductive stage := SParse | SExec.

Inductive result :=
  | RRenderErr (st : stage) (file : string)                    (* engine.Render failed: nothing attached *)
  | RSortErr (file : string) (hooks : list hook) (blob : string) (* YAML error in SortManifests *)
  | ROk (manifest_text : string) (hooks : list hook) (notes : string).

Record opts := mkOpts { o_sub_notes : bool; o_include_crds : bool; o_hide_secret : bool }.

Section Pipeline.
  (* text/template *)
  Variable tset : Type.                                   (* a *template.Template with its associated set *)
  Variable t0 : tset.                                     (* template.New("gotpl") + options + funcs *)
  Variable tsrc : Type.                                   (* renderable: source, scoped values, base path *)
  Variable parse : tset -> string -> tsrc -> option tset. (* t.New(name).Parse(src); None = error *)
  Variable vstate : Type.                                 (* the values every template of the render shares: templates *)
  Variable v0 : vstate.                                   (* can WRITE to them (sprig set/unset/merge on .Values) *)
  Variable exec : tset -> vstate -> string -> tsrc -> option (string * vstate).
      (* ExecuteTemplate with vals["Template"] set, then the "<no value>" replacement, and the shared
         values as the execution leaves them; None = error.  Because of the shared values the
         ORDER in which the files are executed is observable. *)
  (* document level *)
  Variable split : string -> list string.                 (* SplitManifests in BySplitManifestsOrder *)
  Variable head_of : string -> option head.               (* yaml.Unmarshal into SimpleHead; None = error *)

  Definition fmap := list (string * string).              (* map[string]string *)

  (* ---- engine.render ---- *)

  Fixpoint parse_all (t : tset) (keys : list string) (tpls : list (string * tsrc)) : tset + string :=
    match keys with
    | [] => inl t
    | k :: rest =>
        match aget k tpls with
        | None => inr k            (* cannot happen: keys are the keys of tpls *)
        | Some r => match parse t k r with
                    | None => inr k
                    | Some t' => parse_all t' rest tpls
                    end
        end
    end.

  Fixpoint exec_all (t : tset) (st : vstate) (keys : list string) (tpls : list (string * tsrc)) : fmap + string :=
    match keys with
    | [] => inl []
    | k :: rest =>
        if is_partial k then exec_all t st rest tpls
        else match aget k tpls with
             | None => inr k
             | Some r => match exec t st k r with
                         | None => inr k
                         | Some (s, st') => match exec_all t st' rest tpls with
                                            | inl m => inl ((k, s) :: m)
                                            | inr e => inr e
                                            end
                         end
             end
    end.

  Definition engine_render (tpls : list (string * tsrc)) : fmap + (stage * string) :=
    let keys := sort_templates (map fst tpls) in
    match parse_all t0 keys tpls with
    | inr f => inr (SParse, f)
    | inl t => match exec_all t v0 keys tpls with
               | inr f => inr (SExec, f)
               | inl m => inl m
               end
    end.

  (* a variant that is NOT the code: files parsed in sorted order but executed while ranging over
     the template map (kept for the refutation lemma [exec_map_order_refuted]) *)
  Definition engine_render_exec_in_map_order (tpls : list (string * tsrc)) : fmap + (stage * string) :=
    match parse_all t0 (sort_templates (map fst tpls)) tpls with
    | inr f => inr (SParse, f)
    | inl t => match exec_all t v0 (map fst tpls) tpls with
               | inr f => inr (SExec, f)
               | inl m => inl m
               end
    end.

  (* ---- renderResources: notes ---- *)

  (* path.Join(ch.Name(), "templates", notesFileSuffix) for a chart name that is a clean path element *)
  Definition notes_path (chart_name : string) : string :=
    match chart_name with
    | EmptyString => "templates/" ++ notes_file_suffix
    | _ => chart_name ++ "/templates/" ++ notes_file_suffix
    end.

  (* the loop over the sorted keys: returns the notes buffer *)
  Fixpoint notes_loop (sub_notes : bool) (chart_name : string) (keys : list string) (files : fmap) (buf : string) : string :=
    match keys with
    | [] => buf
    | k :: rest =>
        let buf' :=
          if has_suffix notes_file_suffix k then
            if (sub_notes || String.eqb k (notes_path chart_name))%bool then
              match aget k files with
              | Some v => (match buf with EmptyString => buf | _ => buf ++ nl end) ++ v
              | None => buf
              end
            else buf
          else buf in
        notes_loop sub_notes chart_name rest files buf'
    end.

  Definition extract_notes (sub_notes : bool) (chart_name : string) (files : fmap) : string * fmap :=
    let keys := sort_notes_keys (map fst files) in
    (notes_loop sub_notes chart_name keys files EmptyString,
     filter (fun kv => negb (has_suffix notes_file_suffix (fst kv))) files).   (* delete(files, k) *)

  (* ---- SortManifests ---- *)

  (* manifestFile.sort: inl (hooks, generic) appended to the accumulators; inr = YAML error *)
  Fixpoint sort_file (path : string) (docs : list string) (hs : list hook) (gs : list manifest)
    : (list hook * list manifest) + (list hook * list manifest) :=
    match docs with
    | [] => inl (hs, gs)
    | d :: rest =>
        match head_of d with
        | None => inr (hs, gs)
        | Some h =>
            match classify path d h with
            | CGeneric m => sort_file path rest hs (gs ++ [m])
            | CHook x => sort_file path rest (hs ++ [x]) gs
            | CSkipped => sort_file path rest hs gs
            end
        end
    end.

  Fixpoint sort_files (paths : list string) (files : fmap) (hs : list hook) (gs : list manifest)
    : (list hook * list manifest) + (string * list hook * list manifest) :=
    match paths with
    | [] => inl (hs, gs)
    | p :: rest =>
        match aget p files with
        | None => sort_files rest files hs gs
        | Some content =>
            if is_partial p then sort_files rest files hs gs
            else if is_blank content then sort_files rest files hs gs
            else match sort_file p (split content) hs gs with
                 | inr (hs', gs') => inr (p, hs', gs')
                 | inl (hs', gs') => sort_files rest files hs' gs'
                 end
        end
    end.

  Definition sort_manifests (files : fmap) : (list hook * list manifest) + (string * list hook * list manifest) :=
    match sort_files (sort_strings (map fst files)) files [] [] with
    | inr e => inr e
    | inl (hs, gs) =>
        inl (stable_sort (fun a c => less_by_kind install_order (hk_kind a) (hk_kind c)) hs,
             stable_sort (fun a c => less_by_kind install_order (h_kind (m_head a)) (h_kind (m_head c))) gs)
    end.

  (* ---- assembly ---- *)

  Definition source_block (name content : string) : string :=
    "---" ++ nl ++ "# Source: " ++ name ++ nl ++ content ++ nl.

  (* the error blob (after fix 9782149: sorted names) *)
  Definition error_blob (files : fmap) : string :=
    concat_str (map (fun p => match aget p files with
                              | Some c => if is_blank c then EmptyString else source_block p c
                              | None => EmptyString
                              end) (sort_strings (map fst files))).

  Definition manifest_block (hide : bool) (m : manifest) : string :=
    if (hide && String.eqb (h_kind (m_head m)) "Secret" && String.eqb (h_version (m_head m)) "v1")%bool
    then "---" ++ nl ++ "# Source: " ++ m_name m ++ nl ++ "# HIDDEN: The Secret output has been suppressed" ++ nl
    else source_block (m_name m) (m_content m).

  (* sh1: the order in which Go ranges over the rendered-files map when it collects notesKeys;
     sh2: the order in which SortManifests (and the error blob) range over the remaining files *)
  Definition render_resources (o : opts) (chart_name : string) (crds : list (string * string))
             (sh2 : fmap -> fmap) (files : fmap) : result :=
    let '(notes, rest0) := extract_notes (o_sub_notes o) chart_name files in
    let rest := sh2 rest0 in
    match sort_manifests rest with
    | inr (p, hs, _) => RSortErr p hs (error_blob rest)
    | inl (hs, gs) =>
        let crd_text := if o_include_crds o
                        then concat_str (map (fun c => source_block (fst c) (snd c)) crds) else EmptyString in
        ROk (crd_text ++ concat_str (map (manifest_block (o_hide_secret o)) gs)) hs notes
    end.

  Definition pipeline (o : opts) (chart_name : string) (crds : list (string * string))
             (sh1 sh2 : fmap -> fmap) (tpls : list (string * tsrc)) : result :=
    match engine_render tpls with
    | inr (st, f) => RRenderErr st f
    | inl files => render_resources o chart_name crds sh2 (sh1 files)
    end.

  (* ---- the code before commit 43ed85f (F7): notes collected while ranging over the map ---- *)
  Definition extract_notes_prefix (sub_notes : bool) (chart_name : string) (files : fmap) : string * fmap :=
    (notes_loop sub_notes chart_name (map fst files) files EmptyString,
     filter (fun kv => negb (has_suffix notes_file_suffix (fst kv))) files).

  (* ---- the code before commit 9782149 (F12): error blob written while ranging over the map ---- *)
  Definition error_blob_prefix (files : fmap) : string :=
    concat_str (map (fun kv => if is_blank (snd kv) then EmptyString else source_block (fst kv) (snd kv)) files).
End Pipeline.

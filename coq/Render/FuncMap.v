(* C05 — the template function table is hermetic.
   Gen/FuncMap.v is regenerated on every run from engine.funcMap() (reflection through the
   verif hook engine.VerifFuncMapNames); the obligations below are re-proved by computation
   over that finite table. *)
From Coq Require Import List String Bool.
From Helm Require Import Gen.FuncMap.
Import ListNotations.
Local Open Scope string_scope.

(* sprig functions that read the process environment: funcMap() must have deleted them *)
Definition forbidden_names : list string := ["env"; "expandenv"].

(* functions the engine late-binds or overrides in initFunMap: they must be in the table,
   otherwise the override (in particular the DNS stub) would not replace anything a chart
   can call under that name *)
Definition required_names : list string :=
  ["include"; "tpl"; "required"; "fail"; "lookup"; "getHostByName"; "toYaml"; "fromYaml"; "toJson"].

Definition mem_str (x : string) (l : list string) : bool := existsb (String.eqb x) l.

Definition hermetic_b (names : list string) : bool :=
  forallb (fun f => negb (mem_str f names)) forbidden_names.

Definition present_b (names : list string) : bool :=
  forallb (fun f => mem_str f names) required_names.

Lemma mem_str_In x l : mem_str x l = true <-> In x l.
Proof.
  unfold mem_str. rewrite existsb_exists. split.
  - intros [y [Hy E]]. apply String.eqb_eq in E. now subst.
  - intros H. exists x. split; auto. apply String.eqb_refl.
Qed.

Lemma funcmap_hermetic : forall f, In f forbidden_names -> ~ In f func_names.
Proof.
  assert (H : hermetic_b func_names = true) by (vm_compute; reflexivity).
  unfold hermetic_b in H. rewrite forallb_forall in H.
  intros f Hf Hin. specialize (H f Hf). apply mem_str_In in Hin. rewrite Hin in H. discriminate.
Qed.

Lemma funcmap_overrides_present : forall f, In f required_names -> In f func_names.
Proof.
  assert (H : present_b func_names = true) by (vm_compute; reflexivity).
  unfold present_b in H. rewrite forallb_forall in H.
  intros f Hf. apply mem_str_In. auto.
Qed.

(* the table is a set (it is the key set of a Go map, printed sorted) *)
Fixpoint nodup_b (l : list string) : bool :=
  match l with
  | [] => true
  | x :: t => negb (mem_str x t) && nodup_b t
  end.

Lemma nodup_b_NoDup l : nodup_b l = true -> NoDup l.
Proof.
  induction l as [|x t IH]; simpl; [constructor|].
  intros H. apply andb_prop in H. destruct H as [H1 H2]. constructor; auto.
  intros Hin. apply mem_str_In in Hin. rewrite Hin in H1. discriminate.
Qed.

Lemma funcmap_nodup : NoDup func_names.
Proof. apply nodup_b_NoDup. vm_compute. reflexivity. Qed.

Lemma funcmap_nonempty : Nat.leb 100 (List.length func_names) = true.
Proof. vm_compute. reflexivity. Qed.

Lemma funcmap_hermetic_all :
  (forall f, In f forbidden_names -> ~ In f func_names) /\
  (forall f, In f required_names -> In f func_names) /\
  NoDup func_names /\ Nat.leb 100 (List.length func_names) = true.
Proof. exact (conj funcmap_hermetic (conj funcmap_overrides_present (conj funcmap_nodup funcmap_nonempty))). Qed.

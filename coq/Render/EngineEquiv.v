(* C05 (round 4) — the values maps are Go maps too: allTemplates and Engine.render are invariant
   under any re-ordering of any map inside the render values (at every depth), and of the
   "Subcharts" maps the engine builds, provided the executor cannot tell two orders of one map apart.

   [veq] is equality of value trees up to the order of map entries, stated through lookups
   (two maps are equal when every key has equal bindings), so it does not mention lists at all. *)
From Coq Require Import List String Ascii Bool Arith ZArith Permutation Lia.
From Helm Require Import Common.Assoc Values.Tree Values.TreeLemmas Values.Scope Render.SortLemmas Render.Pipeline Render.PipelineProofs
     Render.Files Render.Engine Render.EngineProofs.
Import ListNotations.
Local Open Scope string_scope.

Inductive orel {A B : Type} (R : A -> B -> Prop) : option A -> option B -> Prop :=
| orel_none : orel R None None
| orel_some a b : R a b -> orel R (Some a) (Some b).

Inductive veq : val -> val -> Prop :=
| veq_null : veq VNull VNull
| veq_bool b : veq (VBool b) (VBool b)
| veq_num n : veq (VNum n) (VNum n)
| veq_flt s : veq (VFlt s) (VFlt s)
| veq_str s : veq (VStr s) (VStr s)
| veq_list l l' : Forall2 veq l l' -> veq (VList l) (VList l')
| veq_map m m' : (forall k, orel veq (mget k m) (mget k m')) -> veq (VMap m) (VMap m').

Definition vmeq (m m' : vmap) : Prop := forall k, orel veq (mget k m) (mget k m').

Lemma mget_In k x m : mget k m = Some x -> In (k, x) m.
Proof.
  induction m as [|[k' v] t IH]; simpl; [discriminate|].
  destruct (String.eqb k k') eqn:E; intros H.
  - apply String.eqb_eq in E. inversion H. subst. now left.
  - right. auto.
Qed.

Lemma veq_refl v : veq v v.
Proof.
  induction v using val_ind'; try constructor.
  - induction H; constructor; auto.
  - intros k. destruct (mget k m) as [x|] eqn:E; constructor.
    apply mget_In in E. rewrite Forall_forall in H. apply (H (k, x) E).
Qed.

Lemma vmeq_refl m : vmeq m m.
Proof. pose proof (veq_refl (VMap m)) as H. now inversion H. Qed.

(* a Go map iterated in another order is the same value *)
Lemma mget_perm (m m' : vmap) : NoDup (map fst m) -> Permutation m m' -> forall k, mget k m = mget k m'.
Proof.
  intros Hnd Hp. induction Hp as [|[k1 v1] l l' Hp IH|[k1 v1] [k2 v2] l|l l' l'' Hp1 IH1 Hp2 IH2]; intros k; simpl; auto.
  - inversion Hnd; subst. now rewrite IH.
  - destruct (String.eqb k k1) eqn:E1; destruct (String.eqb k k2) eqn:E2; auto.
    apply String.eqb_eq in E1, E2. subst. inversion Hnd as [|? ? Hni _]; subst. exfalso. apply Hni. now left.
  - rewrite IH1 by auto. apply IH2. eapply Permutation_NoDup; [|exact Hnd]. now apply Permutation_map.
Qed.

Theorem veq_of_permutation m m' : NoDup (map fst m) -> Permutation m m' -> veq (VMap m) (VMap m').
Proof.
  intros Hnd Hp. constructor. intros k. rewrite <- (mget_perm m m' Hnd Hp k).
  destruct (mget k m); constructor. apply veq_refl.
Qed.

(* ------------------------------------------------------------------ the glue respects veq *)

Lemma vindex_veq k m m' : vmeq m m' -> veq (vindex k m) (vindex k m').
Proof. intros H. unfold vindex. destruct (H k); auto. constructor. Qed.

Lemma table_at_veq p : forall m m', vmeq m m' ->
  match table_at p m, table_at p m' with
  | Some t, Some t' => vmeq t t'
  | None, None => True
  | _, _ => False
  end.
Proof.
  induction p as [|k p IH]; intros m m' H; simpl; auto.
  destruct (H k) as [|a b Hab]; auto.
  inversion Hab; subst; auto. apply IH. assumption.
Qed.

Lemma scoped_values_veq name m m' : vmeq m m' -> vmeq (scoped_values false name m) (scoped_values false name m').
Proof.
  intros H. unfold scoped_values. pose proof (table_at_veq (split_dot name) m m' H) as Ht.
  destruct (table_at (split_dot name) m), (table_at (split_dot name) m'); try contradiction; auto.
  apply vmeq_refl.
Qed.

Lemma child_values_veq name v v' : veq v v' -> veq (child_values v name) (child_values v' name).
Proof.
  intros H. inversion H; subst; simpl; try apply veq_refl.
  constructor. now apply scoped_values_veq.
Qed.

(* ------------------------------------------------------------------ scope maps up to map order *)

Section StreeInd.
  Variable P : stree -> Prop.
  Hypothesis H : forall id ch fs rel caps values subs, Forall (fun ns => P (snd ns)) subs -> P (SNode id ch fs rel caps values subs).
  Fixpoint stree_ind' (t : stree) : P t :=
    match t with
    | SNode id ch fs rel caps values subs =>
        H id ch fs rel caps values subs
          ((fix go (l : list (string * stree)) : Forall (fun ns => P (snd ns)) l :=
              match l with
              | [] => Forall_nil _
              | (n, s) :: r => Forall_cons (n, s) (stree_ind' s) (go r)
              end) subs)
    end.
End StreeInd.

Inductive seq : stree -> stree -> Prop :=
| seq_node id ch fs rel rel' caps caps' values values' subs subs' :
    veq rel rel' -> veq caps caps' -> veq values values' ->
    (forall n, orel seq (aget n subs) (aget n subs')) ->
    seq (SNode id ch fs rel caps values subs) (SNode id ch fs rel' caps' values' subs').

Lemma aget_In' {V} k (x : V) l : aget k l = Some x -> In (k, x) l.
Proof. apply aget_In. Qed.

Lemma seq_refl t : seq t t.
Proof.
  induction t as [id ch fs rel caps values subs IH] using stree_ind'.
  constructor; try apply veq_refl.
  intros n. destruct (aget n subs) as [x|] eqn:E; constructor.
  apply aget_In in E. rewrite Forall_forall in IH. apply (IH (n, x) E).
Qed.

Section ViewEquiv.
  Variable file_val : string -> val.

  Section SubsView.
    Variable ts : tstate.
    Fixpoint subs_view (l : list (string * stree)) : vmap :=
      match l with
      | [] => []
      | (n, s) :: r => (n, view file_val ts s) :: subs_view r
      end.
  End SubsView.

  Lemma view_unfold ts id ch fs rel caps values subs :
    view file_val ts (SNode id ch fs rel caps values subs) =
    VMap ([("Capabilities", caps); ("Chart", ch); ("Files", files_val file_val fs); ("Release", rel);
           ("Subcharts", VMap (subs_view ts subs))]
          ++ match sget id ts with Some nb => [("Template", template_entry nb)] | None => [] end
          ++ [("Values", values)])%list.
  Proof. reflexivity. Qed.

  Lemma mget_subs_view ts l n :
    mget n (subs_view ts l) = match aget n l with Some s => Some (view file_val ts s) | None => None end.
  Proof. induction l as [|[k s] r IH]; simpl; auto. destruct (String.eqb n k); auto. Qed.

  Lemma view_seq ts t : forall t', seq t t' -> veq (view file_val ts t) (view file_val ts t').
  Proof.
    induction t as [id ch fs rel caps values subs IH] using stree_ind'. intros t' Hs.
    inversion Hs as [? ? ? ? rel' ? caps' ? values' ? subs' Hr Hc Hv Hsub]; subst.
    rewrite !view_unfold. constructor. intros k.
    assert (Hsubs : veq (VMap (subs_view ts subs)) (VMap (subs_view ts subs'))).
    { constructor. intros n. rewrite !mget_subs_view. specialize (Hsub n).
      destruct (aget n subs) as [s|] eqn:E1; inversion Hsub; subst; constructor.
      apply aget_In in E1. rewrite Forall_forall in IH. apply (IH (n, s) E1). assumption. }
    simpl.
    repeat match goal with
           | |- context [String.eqb k ?s] => destruct (String.eqb k s); [constructor; auto; try apply veq_refl|]
           end.
    destruct (sget id ts); simpl.
    - repeat match goal with
             | |- context [String.eqb k ?s] => destruct (String.eqb k s); [constructor; auto; try apply veq_refl|]
             end. constructor.
    - repeat match goal with
             | |- context [String.eqb k ?s] => destruct (String.eqb k s); [constructor; auto; try apply veq_refl|]
             end. constructor.
  Qed.
End ViewEquiv.

(* ------------------------------------------------------------------ the render *)

Definition store_rel (s s' : smap) : Prop := forall id, orel seq (sget id s) (sget id s').

Section RenderEquiv.
  Variable file_val : string -> val.
  Variable tset : Type.
  Variable parse : tset -> string -> string -> option tset.
  Variable ustate : Type.
  Variable exec : tset -> ustate -> string -> val -> option (string * ustate).
  (* the executor cannot tell two orders of one map apart *)
  Hypothesis exec_veq : forall t u k v v', veq v v' -> exec t u k v = exec t u k v'.

  Lemma exec_files_store_rel t store store' tpls : store_rel store store' ->
    forall keys ts us,
      exec_files file_val tset ustate exec t store ts us keys tpls = exec_files file_val tset ustate exec t store' ts us keys tpls.
  Proof.
    intros Hs. induction keys as [|k rest IH]; intros ts us; simpl; auto.
    destruct (is_partial k); auto. destruct (aget k tpls) as [r|]; auto.
    destruct (Hs (r_scope r)) as [|a b Hab]; auto.
    rewrite (exec_veq t us k _ _ (view_seq file_val (sset (r_scope r) (k, r_base r) ts) a b Hab)).
    destruct (exec t us k _) as [[out us']|]; auto. now rewrite IH.
  Qed.

  Theorem render_store_rel t0 u0 tpls store store' :
    store_rel store store' ->
    render file_val tset parse ustate exec t0 u0 tpls store = render file_val tset parse ustate exec t0 u0 tpls store'.
  Proof.
    intros Hs. unfold render. destruct (parse_files tset parse t0 _ tpls); auto.
    now rewrite (exec_files_store_rel t store store' tpls Hs).
  Qed.
End RenderEquiv.

(* ------------------------------------------------------------------ allTemplates respects veq *)

Definition store_pw (s s' : smap) : Prop := Forall2 (fun a b => fst a = fst b /\ seq (snd a) (snd b)) s s'.
Definition subs_rel (l l' : list (string * stree)) : Prop := forall n, orel seq (aget n l) (aget n l').

Lemma store_pw_rel s s' : store_pw s s' -> store_rel s s'.
Proof.
  intros H. induction H as [|[k a] [k' b] l l' [Hk Hs] _ IH]; intros id; simpl; [constructor|].
  simpl in Hk. subst k'. destruct (sid_eqb id k); [now constructor|apply IH].
Qed.

Lemma aget_aset_any {V} k k' (v : V) l : aget k' (aset k v l) = if String.eqb k' k then Some v else aget k' l.
Proof.
  destruct (String.eqb k' k) eqn:E.
  - apply String.eqb_eq in E. subst. apply aget_aset_eq.
  - apply aget_aset_neq. intros ->. now rewrite String.eqb_refl in E.
Qed.

Lemma subs_rel_aset n a b l l' : seq a b -> subs_rel l l' -> subs_rel (aset n a l) (aset n b l').
Proof. intros Hab H k. rewrite !aget_aset_any. destruct (String.eqb k n); [now constructor|apply H]. Qed.

Definition veq_spec (c : chart) : Prop :=
  forall root id pfull pv pv' rel rel' caps caps' tpls store store',
    veq pv pv' -> veq rel rel' -> veq caps caps' -> store_pw store store' ->
    fst (fst (rec_all_tpls c root id pfull pv rel caps tpls store)) = fst (fst (rec_all_tpls c root id pfull pv' rel' caps' tpls store')) /\
    store_pw (snd (fst (rec_all_tpls c root id pfull pv rel caps tpls store))) (snd (fst (rec_all_tpls c root id pfull pv' rel' caps' tpls store'))) /\
    seq (snd (rec_all_tpls c root id pfull pv rel caps tpls store)) (snd (rec_all_tpls c root id pfull pv' rel' caps' tpls store')).

Lemma rec_all_tpls_veq c : veq_spec c.
Proof.
  induction c as [n ty me ts fs ds IH] using chart_ind'.
  intros root id pfull pv pv' rel rel' caps caps' tpls store store' Hpv Hrel Hcaps Hst.
  rewrite !rec_all_tpls_unfold. cbv zeta.
  set (full := chart_full root pfull n).
  set (values := if root then pv else child_values pv n). set (values' := if root then pv' else child_values pv' n).
  assert (Hval : veq values values').
  { unfold values, values'. destruct root; auto. now apply child_values_veq. }
  assert (Hgo : forall l seen tpls store store' subs subs', Forall veq_spec l -> store_pw store store' -> subs_rel subs subs' ->
            fst (fst (deps_go id full values rel caps l seen tpls store subs)) = fst (fst (deps_go id full values' rel' caps' l seen tpls store' subs')) /\
            store_pw (snd (fst (deps_go id full values rel caps l seen tpls store subs))) (snd (fst (deps_go id full values' rel' caps' l seen tpls store' subs'))) /\
            subs_rel (snd (deps_go id full values rel caps l seen tpls store subs)) (snd (deps_go id full values' rel' caps' l seen tpls store' subs'))).
  { clear - Hval Hrel Hcaps. induction l as [|d r IHl]; intros seen tpls store store' subs subs' Hf Hst Hsub; simpl; auto.
    inversion Hf as [|? ? Hd Hr]; subst.
    destruct (Hd false (id ++ [(ch_name d, count_name (ch_name d) seen)])%list full values values' rel rel' caps caps' tpls store store' Hval Hrel Hcaps Hst)
      as [H1 [H2 H3]].
    destruct (rec_all_tpls d false (id ++ [(ch_name d, count_name (ch_name d) seen)])%list full values rel caps tpls store) as [[tp sto] nd].
    destruct (rec_all_tpls d false (id ++ [(ch_name d, count_name (ch_name d) seen)])%list full values' rel' caps' tpls store') as [[tp' sto'] nd'].
    simpl in H1, H2, H3. subst tp'. apply IHl; auto. now apply subs_rel_aset. }
  destruct (Hgo ds [] tpls store store' [] [] IH Hst (fun _ => orel_none _)) as [H1 [H2 H3]].
  destruct (deps_go id full values rel caps ds [] tpls store []) as [[tpls1 store1] subs].
  destruct (deps_go id full values' rel' caps' ds [] tpls store' []) as [[tpls1' store1'] subs'].
  simpl in H1, H2, H3. subst tpls1'. simpl. split; auto.
  assert (Hn : seq (SNode id (chart_entry me root) (new_files fs) rel caps values subs)
                   (SNode id (chart_entry me root) (new_files fs) rel' caps' values' subs')) by (constructor; auto).
  split; auto. constructor; auto.
Qed.

(* the template set and the scope maps for two render values that differ only in the order of map
   entries (anywhere inside): the same templates, scope maps equal up to map order *)
Theorem all_templates_veq c top top' :
  vmeq top top' ->
  fst (all_templates c top) = fst (all_templates c top') /\ store_rel (snd (all_templates c top)) (snd (all_templates c top')).
Proof.
  intros H. unfold all_templates.
  destruct (rec_all_tpls_veq c true [] "" (vindex "Values" top) (vindex "Values" top') (vindex "Release" top) (vindex "Release" top')
                             (vindex "Capabilities" top) (vindex "Capabilities" top') [] [] [])
    as [H1 [H2 _]]; try (now apply vindex_veq); [constructor|].
  destruct (rec_all_tpls c true [] "" (vindex "Values" top) _ _ [] []) as [[tp sto] nd].
  destruct (rec_all_tpls c true [] "" (vindex "Values" top') _ _ [] []) as [[tp' sto'] nd'].
  simpl in *. split; auto. now apply store_pw_rel.
Qed.

Section TreeRenderEquiv.
  Variable file_val : string -> val.
  Variable tset : Type.
  Variable parse : tset -> string -> string -> option tset.
  Variable ustate : Type.
  Variable exec : tset -> ustate -> string -> val -> option (string * ustate).
  Hypothesis exec_veq : forall t u k v v', veq v v' -> exec t u k v = exec t u k v'.

  (* (a) Engine.Render does not depend on the iteration / insertion order of any map of the values *)
  Theorem engine_render_values_order t0 u0 c top top' :
    vmeq top top' ->
    engine_render_tree file_val tset parse ustate exec t0 u0 c top = engine_render_tree file_val tset parse ustate exec t0 u0 c top'.
  Proof.
    intros H. unfold engine_render_tree. destruct (all_templates_veq c top top' H) as [H1 H2].
    destruct (all_templates c top) as [tpls store]. destruct (all_templates c top') as [tpls' store']. simpl in *. subst tpls'.
    now apply render_store_rel.
  Qed.

  Corollary engine_render_values_permuted t0 u0 c top top' :
    NoDup (map fst top) -> Permutation top top' ->
    engine_render_tree file_val tset parse ustate exec t0 u0 c top = engine_render_tree file_val tset parse ustate exec t0 u0 c top'.
  Proof.
    intros Hnd Hp. apply engine_render_values_order.
    pose proof (veq_of_permutation top top' Hnd Hp) as H. now inversion H.
  Qed.
End TreeRenderEquiv.

(* ------------------------------------------------------------------ the hypothesis is satisfiable *)

(* an executor that prints the string found under a path of the scope value (what {{ .A.B.C }} does
   for a string leaf): it cannot tell two orders of a map apart *)
Fixpoint path_str (v : val) (p : list string) : string :=
  match p with
  | [] => match v with VStr s => s | _ => EmptyString end
  | k :: r => match v with
              | VMap m => match mget k m with Some x => path_str x r | None => no_value end
              | _ => EmptyString
              end
  end.

Lemma path_str_veq p : forall v v', veq v v' -> path_str v p = path_str v' p.
Proof.
  induction p as [|k r IH]; intros v v' H; inversion H; subst; simpl; auto.
  match goal with Hm : forall k, orel veq _ _ |- _ => destruct (Hm k) as [|a b Hab]; auto end.
Qed.

Definition probe_exec (p : list string) (_ : unit) (_ : unit) (k : string) (v : val) : option (string * unit) :=
  Some (k ++ "=" ++ path_str v p, tt).

Lemma probe_exec_veq p : forall t u k v v', veq v v' -> probe_exec p t u k v = probe_exec p t u k v'.
Proof. intros t u k v v' H. unfold probe_exec. now rewrite (path_str_veq p v v' H). Qed.

(* so for this executor the render of ANY chart tree is the same for the values and for the values
   with the top-level map reversed *)
Example render_values_order_witness (c : chart) (top : vmap) :
  NoDup (map fst top) ->
  engine_render_tree VStr unit (fun t _ _ => Some t) unit (probe_exec ["Values"; "k"]) tt tt c top
  = engine_render_tree VStr unit (fun t _ _ => Some t) unit (probe_exec ["Values"; "k"]) tt tt c (rev top).
Proof.
  intros Hnd. apply engine_render_values_permuted; [apply probe_exec_veq|exact Hnd|apply Permutation_rev].
Qed.

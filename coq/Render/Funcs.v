(* C05 (round 4) — Helm's own template functions, as executable Gallina:

     pkg/engine/funcs.go    toYAML, toYAMLPretty, fromYAML, fromYAMLArray, toTOML, fromTOML, toJSON,
                            fromJSON, fromJSONArray; the function table funcMap() (names by origin)
     pkg/engine/engine.go   initFunMap: required, fail (LintMode), which names are re-bound for
                            which engine; includeFun / tplFun (depth counters: Misc/PanicsRec.v of
                            C20 is Required, not redone); warnWrap
     pkg/engine/lookup_func.go  newLookupFunction
     pkg/action/action.go:113-127, install.go:262-265  which engine a render gets (with or without
                            a cluster client)

   The codecs (sigs.k8s.io/yaml, goyaml.v3, BurntSushi/toml, encoding/json), the cluster client and
   text/template are Section variables; the wrappers are transcribed.  Values are Values.Tree.val;
   a nil map / nil slice result is [VNull] (toJson prints null for it).  Definitions only; proofs in
   Render/FuncsProofs.v. *)
From Coq Require Import List String Ascii Bool Arith ZArith.
From Helm Require Import Common.Assoc Values.Tree Render.Pipeline Render.Engine Misc.PanicsRec.
Import ListNotations.
Local Open Scope string_scope.

(* strings.TrimSuffix(s, "\n") *)
Definition trim_suffix_nl (s : string) : string :=
  match str_rev s with
  | String c r => if Ascii.eqb c (ascii_of_nat 10) then str_rev r else s
  | EmptyString => s
  end.

Definition warn_start : string := "HELM_ERR_START".
Definition warn_end : string := "HELM_ERR_END".
Definition warn_wrap (w : string) : string := warn_start ++ w ++ warn_end.

(* the result of calling a template function *)
Inductive fres (A : Type) :=
| FOk (a : A)
| FErr (msg : string)                 (* the function returned a non-nil error: the execution stops *)
| FPanic.                             (* the function panics (text/template recovers: an execution error) *)
Arguments FOk {A} a.
Arguments FErr {A} msg.
Arguments FPanic {A}.

Section Codecs.
  (* marshal: the bytes, or the error *)
  Variable yaml_marshal : val -> string + string.
  Variable yaml_pretty : val -> string + string.              (* goyaml.v3 encoder, indent 2 *)
  Variable json_marshal : val -> string + string.
  Variable toml_encode : val -> string * option string.       (* what reached the buffer, the error *)
  (* unmarshal into &m (m a fresh empty map / empty slice): the variable afterwards
     (None = it was set to nil), and the error *)
  Variable yaml_unmarshal_map : string -> option vmap * option string.
  Variable yaml_unmarshal_list : string -> option (list val) * option string.
  Variable json_unmarshal_map : string -> option vmap * option string.
  Variable json_unmarshal_list : string -> option (list val) * option string.
  Variable toml_unmarshal_map : string -> option vmap * option string.

  (* toYAML: marshal error -> "", else one trailing newline cut *)
  Definition to_yaml (v : val) : string :=
    match yaml_marshal v with inl data => trim_suffix_nl data | inr _ => "" end.

  Definition to_yaml_pretty (v : val) : string :=
    match yaml_pretty v with inl data => trim_suffix_nl data | inr _ => "" end.

  (* toJSON: marshal error -> "" *)
  Definition to_json (v : val) : string :=
    match json_marshal v with inl data => data | inr _ => "" end.

  (* toTOML: the ERROR TEXT is returned on error (not ""), the buffer otherwise *)
  Definition to_toml (v : val) : string :=
    match toml_encode v with (_, Some e) => e | (buf, None) => buf end.

  (* fromYAML / fromJSON / fromTOML: m["Error"] = err.Error() on error; writing into a nil map panics *)
  Definition from_map (r : option vmap * option string) : fres val :=
    match r with
    | (Some m, None) => FOk (VMap m)
    | (None, None) => FOk VNull
    | (Some m, Some e) => FOk (VMap (mset "Error" (VStr e) m))
    | (None, Some _) => FPanic
    end.

  (* fromYAMLArray / fromJSONArray: the error text becomes the only element *)
  Definition from_list (r : option (list val) * option string) : val :=
    match r with
    | (Some l, None) => VList l
    | (None, None) => VNull
    | (_, Some e) => VList [VStr e]
    end.

  Definition from_yaml (s : string) : fres val := from_map (yaml_unmarshal_map s).
  Definition from_json (s : string) : fres val := from_map (json_unmarshal_map s).
  Definition from_toml (s : string) : fres val := from_map (toml_unmarshal_map s).
  Definition from_yaml_array (s : string) : val := from_list (yaml_unmarshal_list s).
  Definition from_json_array (s : string) : val := from_list (json_unmarshal_list s).
End Codecs.

(* ------------------------------------------------------------------ the engine's own bindings *)

Record engine_opts := mkEngine {
  e_strict : bool;
  e_lint : bool;
  e_client : bool;                   (* clientProvider != nil *)
  e_dns : bool                       (* EnableDNS *)
}.

(* required: nil or "" is missing; in LintMode a missing value is "" without error *)
Definition required_fn (lint : bool) (warn : string) (v : val) : fres val :=
  match v with
  | VNull => if lint then FOk (VStr "") else FErr (warn_wrap warn)
  | VStr EmptyString => if lint then FOk (VStr "") else FErr (warn_wrap warn)
  | _ => FOk v
  end.

Definition fail_fn (lint : bool) (msg : string) : fres string :=
  if lint then FOk "" else FErr (warn_wrap msg).

(* getHostByName: the stub unless EnableDNS *)
Definition get_host_by_name (dns : bool) (resolver : string -> string) (name : string) : string :=
  if dns then resolver name else "".

(* ---- lookup ---- *)

Inductive cluster_res := CObj (o : val) | CNotFound | CErr (msg : string).

Section Lookup.
  Variable client_for : string -> string -> (bool + string).    (* GetClientFor(apiVersion, kind): namespaced | error *)
  Variable cluster_get : string -> string -> string -> string -> cluster_res.   (* apiVersion kind namespace name *)
  Variable cluster_list : string -> string -> string -> cluster_res.            (* apiVersion kind namespace *)

  Definition empty_map : val := VMap [].

  (* newLookupFunction: (result, error) *)
  Definition lookup_live (apiv kind ns name : string) : val * option string :=
    match client_for apiv kind with
    | inr e => (empty_map, Some e)
    | inl namespaced =>
        let ns' := if (namespaced && negb (String.eqb ns ""))%bool then ns else "" in
        let r := if negb (String.eqb name "") then cluster_get apiv kind ns' name else cluster_list apiv kind ns' in
        match r with
        | CObj o => (o, None)
        | CNotFound => (empty_map, None)
        | CErr e => (empty_map, Some e)
        end
    end.

  (* initFunMap: the cluster-backed lookup only when not linting and a client provider exists;
     otherwise the placeholder of funcMap(), which answers {} to everything *)
  Definition lookup_bound (e : engine_opts) : bool := negb (e_lint e) && e_client e.

  Definition lookup_fn (e : engine_opts) (apiv kind ns name : string) : val * option string :=
    if lookup_bound e then lookup_live apiv kind ns name else (empty_map, None).
End Lookup.

(* ---- which engine a render gets (install.go:262-265, upgrade.go:275-278, action.go:113-127) ---- *)

Definition is_dry_run_flags (dry_run : bool) (opt : string) : bool :=
  dry_run || String.eqb opt "client" || String.eqb opt "server" || String.eqb opt "true".

Definition interact_with_remote (dry_run : bool) (opt : string) : bool :=
  negb (is_dry_run_flags dry_run opt) || String.eqb opt "server" || String.eqb opt "none" || String.eqb opt "false".

(* renderResources: engine.New(restConfig) iff interactWithRemote && cfg.RESTClientGetter != nil *)
Definition render_engine (dry_run : bool) (opt : string) (has_getter enable_dns : bool) : engine_opts :=
  mkEngine false false (interact_with_remote dry_run opt && has_getter) enable_dns.

(* ------------------------------------------------------------------ the function table *)

Inductive origin := OSprig | OHelm.

Definition origin_eqb (a b : origin) : bool :=
  match a, b with OSprig, OSprig | OHelm, OHelm => true | _, _ => false end.

(* funcMap(): deleted from sprig's table *)
Definition sprig_deleted : list string := ["env"; "expandenv"].
(* funcMap(): Helm's own entries (they replace a sprig entry of the same name) *)
Definition helm_extra : list string :=
  ["toToml"; "fromToml"; "toYaml"; "toYamlPretty"; "fromYaml"; "fromYamlArray"; "toJson"; "fromJson"; "fromJsonArray";
   "include"; "tpl"; "required"; "lookup"].

Definition mem (x : string) (l : list string) : bool := existsb (String.eqb x) l.

(* the table funcMap() returns, from sprig's key set *)
Definition func_table (sprig : list string) : list (string * origin) :=
  (map (fun n => (n, OSprig)) (filter (fun n => negb (mem n sprig_deleted) && negb (mem n helm_extra)) sprig)
   ++ map (fun n => (n, OHelm)) helm_extra)%list.

(* initFunMap: the names re-bound on top of funcMap() for a given engine *)
Definition rebound (e : engine_opts) : list string :=
  (["include"; "tpl"; "required"; "fail"]
   ++ (if lookup_bound e then ["lookup"] else [])
   ++ (if e_dns e then [] else ["getHostByName"]))%list.

Definition bound_table (e : engine_opts) (sprig : list string) : list (string * origin) :=
  map (fun kv => if mem (fst kv) (rebound e) then (fst kv, OHelm) else kv) (func_table sprig).

(* ------------------------------------------------------------------ include / tpl *)

(* includeFun: the depth counters are C20's [enter] / [leave] on the shared counter map; [body] is
   t.ExecuteTemplate(&buf, name, data) with whatever nested calls it makes: it returns the buffer,
   an optional error, and the counters as it leaves them *)
Definition nested_error (name : string) : string :=
  "rendering template has a nested reference name: " ++ name ++ ": unable to execute template".

Definition include_fn {A} (body : rst -> (A * option string) * rst) (dflt : A) (s : rst) (name : string)
  : (A * option string) * rst :=
  match enter PanicsRec.engine_cfg s KInclude name with
  | None => ((dflt, Some (nested_error name)), s)
  | Some s1 => let '(r, s2) := body s1 in (r, leave s2)      (* the buffer is returned WITH the error *)
  end.

Section Tpl.
  (* text/template; [src] is the template text in whatever form the instance parses *)
  Variable tset : Type.
  Variable src : Type.
  Variable src_text : src -> string.
  Variable t_clone : tset -> option tset.                    (* parent.Clone() *)
  Variable t_option : bool -> tset -> tset.                  (* t.Option("missingkey=error" | "missingkey=zero") *)
  Variable t_rebind : tset -> tset.                          (* t.Funcs{include, tpl} closing over the clone *)
  Variable t_parse_new : tset -> src -> option tset.         (* t.New(parent.Name()).Parse(tpl) *)
  Variable t_execute : tset -> rst -> val -> (string * option string) * rst.   (* t.Execute(&buf, vals) *)

  Definition tpl_depth_error : string := "tpl is nested more than 1000 levels deep: unable to execute template".

  (* tplFun: (result, error) and the counters *)
  Definition tpl_fn (strict : bool) (parent : tset) (s : rst) (text : src) (vals : val)
    : (string * option string) * rst :=
    match enter PanicsRec.engine_cfg s KTpl (src_text text) with
    | None => (("", Some tpl_depth_error), s)
    | Some s1 =>
        match t_clone parent with
        | None => (("", Some "cannot clone template"), leave s1)
        | Some t =>
            let t := t_rebind (t_option strict t) in
            match t_parse_new t text with
            | None => (("", Some ("cannot parse template " ++ src_text text)), leave s1)
            | Some t' =>
                let '((out, err), s2) := t_execute t' s1 vals in
                match err with
                | Some e => (("", Some ("error during tpl function execution for " ++ src_text text ++ ": " ++ e)), leave s2)
                | None => ((replace_all no_value "" out, None), leave s2)     (* the <no value> hack *)
                end
            end
        end
    end.
End Tpl.

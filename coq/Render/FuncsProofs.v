(* Proofs about Render/Funcs.v (C05, round 4): the function wrappers, lookup without a cluster
   client, the depth counters of include / tpl leave no trace, the bound function table. *)
From Coq Require Import List String Ascii Bool Arith ZArith Lia.
From Helm Require Import Common.Assoc Values.Tree Values.TreeLemmas Render.Pipeline Render.Engine Render.Funcs
     Misc.PanicsRec Misc.PanicsRecProofs.
From Helm Require Text.Full.
Import ListNotations.
Local Open Scope string_scope.

(* ------------------------------------------------------------------ strings *)

Lemma sapp_assoc (a b c : string) : (a ++ b) ++ c = a ++ (b ++ c).
Proof. induction a; simpl; congruence. Qed.

Lemma sapp_nil_r (a : string) : a ++ "" = a.
Proof. induction a; simpl; congruence. Qed.

Lemma str_rev_acc_app s : forall acc, str_rev_acc s acc = str_rev_acc s EmptyString ++ acc.
Proof.
  induction s as [|c t IH]; intros acc; simpl; auto.
  rewrite IH, (IH (String c EmptyString)), sapp_assoc. reflexivity.
Qed.

Lemma str_rev_acc_append a : forall b acc, str_rev_acc (a ++ b) acc = str_rev_acc b (str_rev_acc a acc).
Proof. induction a as [|c t IH]; intros b acc; simpl; auto. Qed.

Lemma str_rev_app a b : str_rev (a ++ b) = str_rev b ++ str_rev a.
Proof. unfold str_rev. rewrite str_rev_acc_append. apply str_rev_acc_app. Qed.

Lemma str_rev_involutive s : str_rev (str_rev s) = s.
Proof.
  induction s as [|c t IH]; auto.
  change (String c t) with (String c EmptyString ++ t) at 1. rewrite str_rev_app, str_rev_app, IH. reflexivity.
Qed.

Definition nl1 : string := String (ascii_of_nat 10) EmptyString.

(* strings.TrimSuffix(s, "\n"): at most one newline goes *)
Lemma trim_suffix_nl_app d : trim_suffix_nl (d ++ nl1) = d.
Proof.
  unfold trim_suffix_nl. rewrite str_rev_app. simpl. apply str_rev_involutive.
Qed.

Lemma trim_suffix_nl_spec s : trim_suffix_nl s = s \/ s = trim_suffix_nl s ++ nl1.
Proof.
  unfold trim_suffix_nl. destruct (str_rev s) as [|c r] eqn:E; auto.
  destruct (Ascii.eqb c (ascii_of_nat 10)) eqn:Ec; auto. right.
  apply Ascii.eqb_eq in Ec. subst c.
  rewrite <- (str_rev_involutive s), E.
  change (String (ascii_of_nat 10) r) with (nl1 ++ r). rewrite str_rev_app. reflexivity.
Qed.

(* ------------------------------------------------------------------ the wrappers *)

Section Wrappers.
  Variable yaml_marshal yaml_pretty json_marshal : val -> string + string.
  Variable toml_encode : val -> string * option string.

  (* toYaml swallows a marshal error (empty string); otherwise exactly one trailing newline is cut *)
  Theorem to_yaml_spec v :
    match yaml_marshal v with
    | inr _ => to_yaml yaml_marshal v = EmptyString
    | inl d => to_yaml yaml_marshal v = d \/ d = to_yaml yaml_marshal v ++ nl1
    end.
  Proof. unfold to_yaml. destruct (yaml_marshal v); auto. apply trim_suffix_nl_spec. Qed.

  Theorem to_yaml_cuts_one_newline v d : yaml_marshal v = inl (d ++ nl1) -> to_yaml yaml_marshal v = d.
  Proof. unfold to_yaml. intros ->. apply trim_suffix_nl_app. Qed.

  Theorem to_json_spec v :
    to_json json_marshal v = match json_marshal v with inl d => d | inr _ => EmptyString end.
  Proof. reflexivity. Qed.

  (* toToml returns the error TEXT on error, the buffer otherwise *)
  Theorem to_toml_spec v :
    to_toml toml_encode v = match snd (toml_encode v) with Some e => e | None => fst (toml_encode v) end.
  Proof. unfold to_toml. now destruct (toml_encode v) as [buf [e|]]. Qed.
End Wrappers.

(* fromYaml / fromJson / fromToml: on error the map the codec left behind gets the key "Error"
   holding the error text; every other key stays; without error nothing is added *)
Theorem from_map_error m e :
  exists m', from_map (Some m, Some e) = FOk (VMap m') /\ mget "Error" m' = Some (VStr e) /\
             forall k, k <> "Error" -> mget k m' = mget k m.
Proof.
  exists (mset "Error" (VStr e) m). split; [reflexivity|]. split.
  - apply mget_mset_eq.
  - intros k Hk. apply mget_mset_neq. congruence.
Qed.

Theorem from_map_ok m : from_map (Some m, None) = FOk (VMap m).
Proof. reflexivity. Qed.

Theorem from_list_error l e : from_list (l, Some e) = VList [VStr e].
Proof. now destruct l. Qed.

(* ------------------------------------------------------------------ required / fail *)

Theorem required_lint_never_fails warn v : exists x, required_fn true warn v = FOk x.
Proof. destruct v as [| | | |s| |]; simpl; eauto. destruct s; eauto. Qed.

Theorem required_fails_iff warn v :
  (exists e, required_fn false warn v = FErr e) <-> (v = VNull \/ v = VStr EmptyString).
Proof.
  split.
  - intros [e H]. destruct v as [| | | |s| |]; simpl in H; try discriminate; auto. destruct s; [auto|discriminate].
  - intros [->| ->]; simpl; eauto.
Qed.

Theorem required_passes_value warn lint v :
  v <> VNull -> v <> VStr EmptyString -> required_fn lint warn v = FOk v.
Proof. intros H1 H2. destruct v as [| | | |s| |]; simpl; try congruence. destruct s; congruence. Qed.

Theorem fail_spec lint msg : fail_fn lint msg = if lint then FOk EmptyString else FErr (warn_wrap msg).
Proof. reflexivity. Qed.

(* ------------------------------------------------------------------ lookup and the cluster *)

Section LookupProofs.
  Variable client_for : string -> string -> (bool + string).
  Variable cluster_get : string -> string -> string -> string -> cluster_res.
  Variable cluster_list : string -> string -> string -> cluster_res.

  (* without a client provider, or in lint mode, lookup answers {} without error, whatever the
     cluster holds: the cluster functions are not consulted *)
  Theorem lookup_without_client e apiv kind ns name :
    lookup_bound e = false -> lookup_fn client_for cluster_get cluster_list e apiv kind ns name = (VMap [], None).
  Proof. unfold lookup_fn. now intros ->. Qed.


  (* the engine renderResources builds has a cluster client only if interactWithRemote was set and a
     RESTClientGetter exists; for a dry run that is not "server" (and not the odd spellings "none" /
     "false" next to DryRun = true) it has none, so every lookup of the render answers {} *)
  Theorem dry_run_engine_has_no_client dry_run opt has_getter dns :
    is_dry_run_flags dry_run opt = true -> opt <> "server" -> opt <> "none" -> opt <> "false" ->
    lookup_bound (render_engine dry_run opt has_getter dns) = false.
  Proof.
    intros Hd H1 H2 H3. unfold lookup_bound, render_engine, interact_with_remote. simpl. rewrite Hd. simpl.
    apply String.eqb_neq in H1, H2, H3. now rewrite H1, H2, H3.
  Qed.

  Theorem no_getter_engine_has_no_client dry_run opt dns :
    lookup_bound (render_engine dry_run opt false dns) = false.
  Proof. unfold lookup_bound, render_engine. simpl. apply andb_false_r. Qed.

  Theorem dry_run_lookup_is_empty dry_run opt has_getter dns apiv kind ns name :
    is_dry_run_flags dry_run opt = true -> opt <> "server" -> opt <> "none" -> opt <> "false" ->
    lookup_fn client_for cluster_get cluster_list (render_engine dry_run opt has_getter dns) apiv kind ns name = (VMap [], None).
  Proof. intros. apply lookup_without_client. now apply dry_run_engine_has_no_client. Qed.

  (* with a client: a missing object is {} without error *)
  Theorem lookup_live_not_found apiv kind ns name namespaced :
    client_for apiv kind = inl namespaced ->
    (if negb (String.eqb name "") then cluster_get apiv kind (if (namespaced && negb (String.eqb ns ""))%bool then ns else "") name
     else cluster_list apiv kind (if (namespaced && negb (String.eqb ns ""))%bool then ns else "")) = CNotFound ->
    lookup_live client_for cluster_get cluster_list apiv kind ns name = (VMap [], None).
  Proof. unfold lookup_live. intros -> H. now rewrite H. Qed.
End LookupProofs.

(* the quirk the hypotheses above exclude: DryRun = true with DryRunOption "none" or "false" is a dry
   run that talks to the cluster *)
Example dry_run_none_interacts :
  is_dry_run_flags true "none" = true /\ interact_with_remote true "none" = true /\ interact_with_remote true "false" = true /\
  interact_with_remote true "client" = false /\ interact_with_remote true "" = false /\ interact_with_remote false "" = true.
Proof. repeat split. Qed.

(* tie with C08's transcription of Install.isDryRun *)
Lemma is_dry_run_flags_is_C08 f :
  is_dry_run_flags (Full.rf_dry_run f) (Full.rf_dry_run_option f) = Full.is_dry_run f.
Proof. reflexivity. Qed.

(* ------------------------------------------------------------------ include / tpl leave no trace *)

(* two states of the depth accounting that no template can tell apart *)
Definition same_counters (s s' : rst) : Prop :=
  s_stack s = s_stack s' /\ s_tdepth s = s_tdepth s' /\ forall k, cget k (s_cnt s) = cget k (s_cnt s').

Lemma same_counters_refl s : same_counters s s.
Proof. repeat split. Qed.

Lemma cget_aset_any k k' v m : cget k' (aset k v m) = if string_dec k k' then v else cget k' m.
Proof.
  destruct (string_dec k k') as [->|Hne]; [apply cget_aset_eq|now apply cget_aset_neq].
Qed.

Lemma occ_one k k' : occ k' [k] = if string_dec k k' then 1%Z else 0%Z.
Proof. unfold occ. simpl. now destruct (string_dec k k'). Qed.

Lemma occ_two k' a b : occ k' [a; b] = (occ k' [a] + occ k' [b])%Z.
Proof. change [a; b] with ([a] ++ [b])%list. apply occ_app. Qed.

Ltac cnt :=
  rewrite ?cget_aset_any, ?cget_cinc, ?occ_one, ?occ_nil in *;
  repeat match goal with
         | |- context [string_dec ?a ?b] => destruct (string_dec a b)
         | H : context [string_dec ?a ?b] |- _ => destruct (string_dec a b)
         end; subst; try congruence; try lia.

(* a call that was let in and whose body left the accounting as it found it, leaves it as it was
   before the call once it returns: counters, call stack and `template` depth *)
Lemma enter_leave_restores c s k arg s1 s2 :
  enter c s k arg = Some s1 -> same_counters s2 s1 -> same_counters (leave s2) s.
Proof.
  intros He [Hst [Htd Hc]].
  assert (Hpush : exists keys m td, s1 = push s k arg keys m td /\ forall k', cget k' m = (cget k' (s_cnt s) + occ k' keys)%Z).
  { unfold enter in He. destruct k.
    - destruct (rc_total c) as [tk|].
      + destruct (cget tk (s_cnt s) >? rc_max c)%Z; [discriminate|].
        destruct (aget (rc_inc_key c arg) (cinc tk (s_cnt s))) as [v|] eqn:Ea.
        * destruct (v >? rc_max c)%Z; [discriminate|]. inversion He; subst. do 3 eexists. split; [reflexivity|].
          intros k'. apply aget_cget in Ea. simpl app. rewrite occ_two. cnt.
        * inversion He; subst. do 3 eexists. split; [reflexivity|].
          intros k'. apply aget_none_cget in Ea. simpl app. rewrite occ_two. cnt.
      + destruct (aget (rc_inc_key c arg) (s_cnt s)) as [v|] eqn:Ea.
        * destruct (v >? rc_max c)%Z; [discriminate|]. inversion He; subst. do 3 eexists. split; [reflexivity|].
          intros k'. apply aget_cget in Ea. simpl app. cnt.
        * inversion He; subst. do 3 eexists. split; [reflexivity|].
          intros k'. apply aget_none_cget in Ea. simpl app. cnt.
    - destruct (rc_tpl_on c).
      + destruct (cget (rc_tpl_key c arg) (s_cnt s) >? rc_max c)%Z; [discriminate|]. inversion He; subst.
        do 3 eexists. split; [reflexivity|]. intros k'. apply cget_cinc.
      + inversion He; subst. do 3 eexists. split; [reflexivity|]. intros k'. rewrite occ_nil. lia.
    - destruct (s_tdepth s =? rc_tmax c)%Z; [discriminate|]. inversion He; subst.
      do 3 eexists. split; [reflexivity|]. intros k'. rewrite occ_nil. lia. }
  destruct Hpush as [keys [m [td [-> Hm]]]]. unfold push in *. simpl in *.
  unfold leave. rewrite Hst. simpl. repeat split.
  intros k'. cbn [s_cnt]. rewrite cget_fold_cdec, Hc, Hm. lia.
Qed.

(* so Helm's include, around any body that keeps the accounting balanced, keeps it balanced - also
   when the body fails, and when the call is refused *)
Theorem include_fn_balanced {A} (body : rst -> (A * option string) * rst) (dflt : A) s name :
  (forall s1, same_counters (snd (body s1)) s1) ->
  same_counters (snd (include_fn body dflt s name)) s.
Proof.
  intros Hb. unfold include_fn. destruct (enter PanicsRec.engine_cfg s KInclude name) as [s1|] eqn:He; simpl.
  - specialize (Hb s1). destruct (body s1) as [r s2]. cbn [snd] in *. eapply enter_leave_restores; eauto.
  - apply same_counters_refl.
Qed.

Section TplProofs.
  Variable tset : Type.
  Variable src : Type.
  Variable src_text : src -> string.
  Variable t_clone : tset -> option tset.
  Variable t_option : bool -> tset -> tset.
  Variable t_rebind : tset -> tset.
  Variable t_parse_new : tset -> src -> option tset.
  Variable t_execute : tset -> rst -> val -> (string * option string) * rst.

  Theorem tpl_fn_balanced strict parent s text vals :
    (forall t s1 v, same_counters (snd (t_execute t s1 v)) s1) ->
    same_counters (snd (tpl_fn tset src src_text t_clone t_option t_rebind t_parse_new t_execute strict parent s text vals)) s.
  Proof.
    intros Hb. unfold tpl_fn. destruct (enter PanicsRec.engine_cfg s KTpl (src_text text)) as [s1|] eqn:He; simpl.
    - destruct (t_clone parent) as [t|]; simpl.
      + destruct (t_parse_new _ text) as [t'|]; simpl.
        * specialize (Hb t' s1 vals). destruct (t_execute t' s1 vals) as [[out err] s2]. cbn [snd] in *.
          destruct err; cbn [snd]; eapply enter_leave_restores; eauto.
        * eapply enter_leave_restores; eauto. apply same_counters_refl.
      + eapply enter_leave_restores; eauto. apply same_counters_refl.
    - apply same_counters_refl.
  Qed.

  (* success only through clone, parse and execute, with the <no value> replacement applied to
     the executed text *)
  Theorem tpl_fn_success strict parent s text vals out s' :
    tpl_fn tset src src_text t_clone t_option t_rebind t_parse_new t_execute strict parent s text vals = ((out, None), s') ->
    exists s1 t t' raw s2,
      enter PanicsRec.engine_cfg s KTpl (src_text text) = Some s1 /\ t_clone parent = Some t /\
      t_parse_new (t_rebind (t_option strict t)) text = Some t' /\
      t_execute t' s1 vals = ((raw, None), s2) /\ out = replace_all no_value "" raw /\ s' = leave s2.
  Proof.
    unfold tpl_fn. destruct (enter PanicsRec.engine_cfg s KTpl (src_text text)) as [s1|]; [|discriminate].
    destruct (t_clone parent) as [t|]; [|discriminate].
    destruct (t_parse_new _ text) as [t'|] eqn:Ep; [|discriminate].
    destruct (t_execute t' s1 vals) as [[raw err] s2] eqn:Ee. destruct err; [discriminate|].
    intros H. inversion H; subst. exists s1, t, t', raw, s2. repeat split; auto.
  Qed.
End TplProofs.

(* ------------------------------------------------------------------ the function table *)

Lemma mem_In x l : mem x l = true <-> In x l.
Proof.
  unfold mem. rewrite existsb_exists. split.
  - intros [y [Hy E]]. apply String.eqb_eq in E. now subst.
  - intros H. exists x. split; auto. apply String.eqb_refl.
Qed.

(* whatever sprig's table holds: env and expandenv are not in funcMap() *)
Theorem func_table_no_env sprig n : In n sprig_deleted -> ~ In n (map fst (func_table sprig)).
Proof.
  intros Hd Hin. unfold func_table in Hin. rewrite map_app in Hin. apply in_app_or in Hin. destruct Hin as [Hin|Hin].
  - apply in_map_iff in Hin. destruct Hin as [[x o] [E Hx]]. apply in_map_iff in Hx. destruct Hx as [y [Ey Hy]].
    inversion Ey; subst. cbn [fst] in Hd. apply filter_In in Hy. destruct Hy as [_ Hf].
    apply andb_prop in Hf. destruct Hf as [Hf _]. apply mem_In in Hd. rewrite Hd in Hf. discriminate.
  - apply in_map_iff in Hin. destruct Hin as [[x o] [E Hx]]. apply in_map_iff in Hx. destruct Hx as [y [Ey Hy]].
    inversion Ey; subst. simpl in Hd, Hy.
    destruct Hd as [<-|[<-|[]]]; repeat (destruct Hy as [Hy|Hy]; [discriminate|]); destruct Hy.
Qed.

(* re-binding changes no name *)
Theorem bound_table_names e sprig : map fst (bound_table e sprig) = map fst (func_table sprig).
Proof.
  unfold bound_table. rewrite map_map. apply map_ext. intros [n o]. cbn [fst]. destruct (mem n (rebound e)); reflexivity.
Qed.

Theorem bound_table_no_env e sprig n : In n sprig_deleted -> ~ In n (map fst (bound_table e sprig)).
Proof. rewrite bound_table_names. apply func_table_no_env. Qed.

(* getHostByName is sprig's resolver only when EnableDNS is set *)
Theorem bound_table_dns e sprig o :
  In ("getHostByName", o) (bound_table e sprig) -> e_dns e = false -> o = OHelm.
Proof.
  unfold bound_table. intros Hin Hd. apply in_map_iff in Hin. destruct Hin as [[n o'] [E _]]. cbn [fst] in E.
  destruct (mem n (rebound e)) eqn:Em; inversion E; subst; auto.
  exfalso. assert (H : mem "getHostByName" (rebound e) = true).
  { apply mem_In. unfold rebound. rewrite Hd. apply in_or_app. right. apply in_or_app. right. now left. }
  congruence.
Qed.

(* lookup is the cluster-backed function exactly when a client exists and the engine is not linting;
   include, tpl, required and fail are always the engine's own closures *)
Theorem rebound_lookup e : mem "lookup" (rebound e) = lookup_bound e.
Proof. unfold rebound. destruct (lookup_bound e), (e_dns e); reflexivity. Qed.

Theorem rebound_dns e : mem "getHostByName" (rebound e) = negb (e_dns e).
Proof. unfold rebound. destruct (lookup_bound e), (e_dns e); reflexivity. Qed.

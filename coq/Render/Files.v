(* C05 — model of pkg/engine/files.go (after fix 8d6e67f): the .Files object of a template.
   A [files] value is the Go map name -> bytes as an association list with unique keys in an
   arbitrary order.  Every function below takes nothing but that list (and its explicit
   arguments): there is no path by which host files could enter.  Third-party pieces are
   Section variables: glob matching (gobwas/glob), YAML encoding of a string map, base64. *)
From Coq Require Import List String Ascii Bool Arith.
From Helm Require Import Common.Assoc Render.SortLemmas Render.Pipeline.
Import ListNotations.
Local Open Scope string_scope.

Definition files := list (string * string).

(* newFiles(from []*chart.File): a later file with the same name overwrites an earlier one *)
Definition new_files (from : list (string * string)) : files :=
  fold_left (fun m kv => aset (fst kv) (snd kv) m) from [].

(* GetBytes / Get: a missing name is the empty string *)
Definition files_get (name : string) (f : files) : string :=
  match aget name f with Some v => v | None => EmptyString end.

(* strings.Split(s, "\n") *)
Fixpoint split_nl_acc (s cur : string) : list string :=
  match s with
  | EmptyString => [str_rev cur]
  | String c t => if Ascii.eqb c (ascii_of_nat 10) then str_rev cur :: split_nl_acc t EmptyString
                  else split_nl_acc t (String c cur)
  end.

(* Lines: nothing for a missing file; a file that is present but empty makes the Go code index
   s[len(s)-1] and panic (text/template turns that into an execution error): None; else one
   trailing newline removed and split *)
Definition files_lines (name : string) (f : files) : option (list string) :=
  match aget name f with
  | None => Some []
  | Some EmptyString => None
  | Some s =>
      let r := str_rev s in
      let s' := match r with
                | String c t => if Ascii.eqb c (ascii_of_nat 10) then str_rev t else s
                | EmptyString => s
                end in
      Some (split_nl_acc s' EmptyString)
  end.

Section Files.
  Variable gmatch : string -> string -> bool.
      (* glob.Compile(pattern, '/') (falling back to "**" when the pattern is invalid), then Match(name) *)
  Variable to_yaml : list (string * string) -> string.
      (* toYAML of a map[string]string, given as its key-sorted entry list *)
  Variable b64 : string -> string.

  (* Glob *)
  Definition files_glob (pattern : string) (f : files) : files :=
    filter (fun kv => gmatch pattern (fst kv)) f.

  (* the map AsConfig/AsSecrets build: base name -> content, names visited in sorted order so
     that with colliding base names the last name in sorted order wins; returned key-sorted *)
  Definition base_map (enc : string -> string) (f : files) : list (string * string) :=
    let m := fold_left (fun m k => aset (path_base k) (enc (files_get k f)) m) (sort_strings (map fst f)) [] in
    map (fun k => (k, match aget k m with Some v => v | None => EmptyString end)) (sort_strings (map fst m)).

  Definition as_config (f : files) : string := to_yaml (base_map (fun s => s) f).
  Definition as_secrets (f : files) : string := to_yaml (base_map b64 f).

  (* the code before fix 8d6e67f: the map was filled while ranging over the files map *)
  Definition base_map_prefix (enc : string -> string) (f : files) : list (string * string) :=
    let m := fold_left (fun m k => aset (path_base k) (enc (files_get k f)) m) (map fst f) [] in
    map (fun k => (k, match aget k m with Some v => v | None => EmptyString end)) (sort_strings (map fst m)).
End Files.

(* C05 (round 4) — template names: for a chart tree whose names are clean path elements, whose
   sibling dependencies have distinct names and whose template names are distinct clean paths
   below templates/, the keys of allTemplates are unique BEFORE the map collapses anything (no
   template is overwritten), every template of a chart lives under <ChartFullPath>/templates/ and
   every template of a dependency under <parent's ChartFullPath>/charts/<name>/. *)
From Coq Require Import List String Ascii Bool Arith ZArith Permutation Lia.
From Helm Require Import Common.Assoc Values.Tree Values.Scope Render.SortLemmas Render.Pipeline Render.PipelineProofs
     Render.Files Render.Engine Render.EngineProofs.
From Helm Require Import Chart.Paths Chart.PathsProofs.
Import ListNotations.
Local Open Scope string_scope.

Local Notation split := (Paths.split_on Paths.slash).

(* ------------------------------------------------------------------ well-formed trees *)

(* a single clean path element *)
Definition elem_ok (n : string) : Prop := Paths.good_comp n /\ Paths.contains_char Paths.slash n = false.
(* a clean relative path *)
Definition path_ok (p : string) : Prop := Forall Paths.good_comp (split p).
(* a template name as the loaders produce it: a clean path below templates/ *)
Definition tname_ok (t : string) : Prop := exists r, t = "templates/" ++ r /\ path_ok r.

Definition some_names (ts : list (option (string * string))) : list string :=
  flat_map (fun t => match t with Some (n, _) => [n] | None => [] end) ts.

Inductive wf_chart : chart -> Prop :=
| wf_intro n ty me ts fs ds :
    elem_ok n -> Forall tname_ok (some_names ts) -> NoDup (some_names ts) ->
    NoDup (map ch_name ds) -> Forall wf_chart ds ->
    wf_chart (Chart n ty me ts fs ds).

(* ------------------------------------------------------------------ strings and components *)

Lemma split_inj a b : split a = split b -> a = b.
Proof. intros H. rewrite <- (join_split Paths.slash a), <- (join_split Paths.slash b). now rewrite H. Qed.

Lemma split_slash_app a b : split (a ++ "/" ++ b) = (split a ++ split b)%list.
Proof. apply (split_on_concat Paths.slash a b). Qed.

Lemma elem_split n : elem_ok n -> split n = [n].
Proof. intros [_ H]. now apply split_on_nosep. Qed.

Lemma path_ok_join a b : path_ok a -> path_ok b -> Paths.path_join a b = a ++ "/" ++ b /\ path_ok (a ++ "/" ++ b).
Proof.
  intros Ha Hb.
  assert (Hab : path_ok (a ++ "/" ++ b)).
  { unfold path_ok. rewrite split_slash_app. apply Forall_app. auto. }
  split; auto.
  assert (Hne : forall x, path_ok x -> x <> "").
  { intros x Hx ->. unfold path_ok in Hx. simpl in Hx. inversion Hx as [|? ? [H _] _]. congruence. }
  unfold Paths.path_join. destruct a as [|ca a'] eqn:Ea; [exfalso; now apply (Hne "" Ha)|].
  destruct b as [|cb b'] eqn:Eb; [exfalso; now apply (Hne "" Hb)|].
  rewrite <- Ea, <- Eb in *. subst. now apply path_clean_good.
Qed.

Lemma good_templates : Paths.good_comp "templates".
Proof. repeat split; discriminate. Qed.
Lemma good_charts : Paths.good_comp "charts".
Proof. repeat split; discriminate. Qed.

Lemma tname_ok_path t : tname_ok t -> path_ok t /\ exists tl, split t = "templates" :: tl.
Proof.
  intros [r [-> Hr]]. change ("templates/" ++ r) with ("templates" ++ "/" ++ r).
  unfold path_ok. rewrite split_slash_app. split.
  - apply Forall_app. split; auto. simpl. repeat constructor; discriminate.
  - now exists (split r).
Qed.

(* ------------------------------------------------------------------ keys as component lists *)

Definition valid_names (lib : bool) (ts : list (option (string * string))) : list string :=
  filter (fun n => negb (lib && negb (is_partial n))) (some_names ts).

Lemma own_entries_keys lib full id ts :
  map fst (own_entries lib full id ts) = map (Paths.path_join full) (valid_names lib ts).
Proof.
  unfold own_entries, valid_names, some_names. induction ts as [|[[n d]|] t IH]; simpl; auto.
  destruct (lib && negb (is_partial n))%bool; simpl; now rewrite IH.
Qed.

Fixpoint tree_ckeys (c : chart) (fc : list string) {struct c} : list (list string) :=
  match c with
  | Chart _ ty _ ts _ ds =>
      ((fix go (l : list chart) : list (list string) :=
          match l with
          | [] => []
          | d :: r => tree_ckeys d (fc ++ ["charts"; ch_name d]) ++ go r
          end) ds
       ++ map (fun t => fc ++ split t) (valid_names (is_library ty) ts))%list
  end.

Section CkeysGo.
  Variable fc : list string.
  Fixpoint ckeys_go (l : list chart) : list (list string) :=
    match l with
    | [] => []
    | d :: r => (tree_ckeys d (fc ++ ["charts"; ch_name d]) ++ ckeys_go r)%list
    end.
End CkeysGo.

Lemma NoDup_app_intro {A} (l1 l2 : list A) :
  NoDup l1 -> NoDup l2 -> (forall x, In x l1 -> In x l2 -> False) -> NoDup (l1 ++ l2).
Proof.
  induction l1 as [|a l1 IH]; simpl; intros H1 H2 Hd; auto.
  inversion H1; subst. constructor.
  - rewrite in_app_iff. intros [H|H]; [contradiction|]. apply (Hd a); auto.
  - apply IH; auto. intros x Hx1 Hx2. apply (Hd x); auto.
Qed.

Lemma tree_ckeys_unfold n ty me ts fs ds fc :
  tree_ckeys (Chart n ty me ts fs ds) fc =
  (ckeys_go fc ds ++ map (fun t => fc ++ split t) (valid_names (is_library ty) ts))%list.
Proof. reflexivity. Qed.

Lemma valid_names_ok lib ts : Forall tname_ok (some_names ts) -> Forall tname_ok (valid_names lib ts).
Proof.
  unfold valid_names. intros H. rewrite Forall_forall in *. intros x Hx. apply filter_In in Hx. now apply H.
Qed.

Lemma valid_names_nodup lib ts : NoDup (some_names ts) -> NoDup (valid_names lib ts).
Proof. apply NoDup_filter. Qed.

(* the string keys, split, are the component keys *)
Definition own_ok (c : chart) (full : string) (id : sid) : Prop :=
  Forall (fun kv => exists t, In t (some_names (ch_templates c)) /\ fst kv = full ++ "/" ++ t /\
                              r_scope (snd kv) = id /\ r_base (snd kv) = full ++ "/templates")
         (own_entries (is_library (ch_type c)) full id (ch_templates c)).

Definition entries_spec (c : chart) : Prop :=
  forall root id pfull full,
    wf_chart c -> full = chart_full root pfull (ch_name c) -> path_ok full ->
    map (fun kv => split (fst kv)) (tree_entries c root id pfull) = tree_ckeys c (split full) /\ own_ok c full id.

Lemma tree_entries_ckeys c : entries_spec c.
Proof.
  induction c as [n ty me ts fs ds IH] using chart_ind'. intros root id pfull full Hwf Hfull Hok. unfold own_ok.
  inversion Hwf as [? ? ? ? ? ? Hn Hts Hnd Hdn Hds]; subst. simpl ch_name in *. simpl ch_templates. simpl ch_type.
  rewrite tree_entries_unfold, tree_ckeys_unfold. set (full := chart_full root pfull n) in *.
  assert (Hown : forall t, tname_ok t -> Paths.path_join full t = full ++ "/" ++ t).
  { intros t Ht. apply path_ok_join; auto. now apply tname_ok_path. }
  split.
  - rewrite map_app. f_equal.
    + (* children *)
      assert (Hgo : forall l i, Forall wf_chart l -> Forall entries_spec l ->
                map (fun kv => split (fst kv)) (entries_go id full l i) = ckeys_go (split full) l).
      { clear - Hok. induction l as [|d r IHl]; intros i Hw Hf; simpl; auto.
        inversion Hw as [|? ? Hwd Hwr]; subst. inversion Hf as [|? ? Hd Hr]; subst.
        rewrite map_app. f_equal; [|now apply IHl].
        assert (Hdn : elem_ok (ch_name d)) by (inversion Hwd; auto).
        assert (Hcf : chart_full false full (ch_name d) = full ++ "/" ++ ("charts" ++ "/" ++ ch_name d)).
        { unfold chart_full. reflexivity. }
        assert (Hpo : path_ok (chart_full false full (ch_name d))).
        { rewrite Hcf. unfold path_ok. rewrite !split_slash_app. apply Forall_app. split; auto.
          apply Forall_app. split.
          - simpl. repeat constructor; discriminate.
          - rewrite elem_split by auto. constructor; auto. apply Hdn. }
        destruct (Hd false (id ++ [(ch_name d, count_name (ch_name d) i)])%list full _ Hwd eq_refl Hpo) as [Hd1 _].
        rewrite Hd1. f_equal. rewrite Hcf, !split_slash_app. rewrite (elem_split _ Hdn). reflexivity. }
      apply Hgo; auto.
    + (* own *)
      rewrite <- (map_map (@fst string renderable) split). rewrite own_entries_keys, map_map.
      apply map_ext_in. intros t Ht.
      assert (Htn : tname_ok t).
      { pose proof (valid_names_ok (is_library ty) ts Hts) as H. rewrite Forall_forall in H. auto. }
      rewrite (Hown t Htn). apply split_slash_app.
  - unfold own_entries. rewrite Forall_forall. intros [k r] Hin. apply in_flat_map in Hin.
    destruct Hin as [[[t d]|] [Hin1 Hin2]]; [|destruct Hin2].
    destruct (is_library ty && negb (is_partial t))%bool; [destruct Hin2|].
    destruct Hin2 as [E|[]]. inversion E; subst. simpl.
    assert (Hin : In t (some_names ts)).
    { unfold some_names. apply in_flat_map. exists (Some (t, d)). split; auto. now left. }
    exists t. split; auto. rewrite Forall_forall in Hts. rewrite (Hown t (Hts t Hin)). split; auto. split; auto.
    destruct (path_ok_join full "templates"); auto. unfold path_ok. simpl. repeat constructor; discriminate.
Qed.

(* ------------------------------------------------------------------ uniqueness on component lists *)

Lemma app_inv_head_iff {A} (l a b : list A) : (l ++ a = l ++ b)%list <-> a = b.
Proof. split; [apply app_inv_head|now intros ->]. Qed.

(* every component key of the subtree of c starts with fc, then "templates" (own) or "charts", name (a dependency) *)
Definition shape_spec (c : chart) : Prop := forall fc k,
  wf_chart c -> In k (tree_ckeys c fc) ->
  (exists tl, k = (fc ++ "templates" :: tl)%list) \/
  (exists d tl, In d (ch_deps c) /\ k = (fc ++ "charts" :: ch_name d :: tl)%list).

Lemma tree_ckeys_shape c : shape_spec c.
Proof.
  induction c as [n ty me ts fs ds IH] using chart_ind'. intros fc k Hwf Hin.
  inversion Hwf as [? ? ? ? ? ? Hn Hts Hnd Hdn Hds]; subst.
  rewrite tree_ckeys_unfold in Hin. apply in_app_or in Hin. destruct Hin as [Hin|Hin].
  - right. simpl ch_deps.
    assert (Hgo : forall l, Forall wf_chart l -> Forall shape_spec l ->
              In k (ckeys_go fc l) -> exists d tl, In d l /\ k = (fc ++ "charts" :: ch_name d :: tl)%list).
    { clear. induction l as [|d r IHl]; intros Hw Hf Hin; simpl in Hin; [destruct Hin|].
      inversion Hw; subst. inversion Hf as [|? ? Hd Hr]; subst.
      apply in_app_or in Hin. destruct Hin as [Hin|Hin].
      - destruct (Hd _ _ H1 Hin) as [[tl E]|[d' [tl [_ E]]]]; exists d; eexists; (split; [now left|]);
          rewrite E, <- app_assoc; reflexivity.
      - destruct (IHl H2 Hr Hin) as [d' [tl [Hd' E]]]. exists d', tl. split; auto. now right. }
    apply Hgo; auto.
  - left. apply in_map_iff in Hin. destruct Hin as [t [E Ht]]. subst k.
    pose proof (valid_names_ok (is_library ty) ts Hts) as Hv. rewrite Forall_forall in Hv.
    destruct (tname_ok_path t (Hv t Ht)) as [_ [tl Etl]]. rewrite Etl. now exists tl.
Qed.

Lemma tree_ckeys_nodup c : forall fc, wf_chart c -> NoDup (tree_ckeys c fc).
Proof.
  induction c as [n ty me ts fs ds IH] using chart_ind'. intros fc Hwf.
  inversion Hwf as [? ? ? ? ? ? Hn Hts Hnd Hdn Hds]; subst.
  rewrite tree_ckeys_unfold.
  (* the children part *)
  assert (Hgo : forall l, Forall wf_chart l -> NoDup (map ch_name l) ->
            Forall (fun c => forall fc, wf_chart c -> NoDup (tree_ckeys c fc)) l ->
            NoDup (ckeys_go fc l) /\
            forall k, In k (ckeys_go fc l) -> exists d tl, In d l /\ k = (fc ++ "charts" :: ch_name d :: tl)%list).
  { clear. induction l as [|d r IHl]; intros Hw Hn Hf; simpl.
    - split; [constructor|intros k []].
    - inversion Hw as [|? ? Hwd Hwr]; subst. inversion Hn as [|? ? Hni Hnr]; subst. inversion Hf as [|? ? Hd Hr]; subst.
      destruct (IHl Hwr Hnr Hr) as [IH1 IH2].
      assert (Hsh : forall k, In k (tree_ckeys d (fc ++ ["charts"; ch_name d])) -> exists tl, k = (fc ++ "charts" :: ch_name d :: tl)%list).
      { intros k Hk. destruct (tree_ckeys_shape d _ k Hwd Hk) as [[tl E]|[d' [tl [_ E]]]]; eexists; rewrite E, <- app_assoc; reflexivity. }
      split.
      + apply NoDup_app_intro; auto.
        intros k Hk1 Hk2. destruct (Hsh k Hk1) as [tl1 E1]. destruct (IH2 k Hk2) as [d' [tl2 [Hd' E2]]].
        rewrite E1 in E2. apply app_inv_head in E2. injection E2 as En _.
        apply Hni. rewrite En. now apply in_map.
      + intros k Hk. apply in_app_or in Hk. destruct Hk as [Hk|Hk].
        * destruct (Hsh k Hk) as [tl E]. exists d, tl. split; [now left|auto].
        * destruct (IH2 k Hk) as [d' [tl [Hd' E]]]. exists d', tl. split; [now right|auto]. }
  destruct (Hgo ds Hds Hdn IH) as [Hc1 Hc2].
  apply NoDup_app_intro; auto.
  - (* own keys *)
    apply FinFun.Injective_map_NoDup; [|now apply valid_names_nodup].
    intros a b E. apply app_inv_head in E. now apply split_inj.
  - (* own vs children: "templates" vs "charts" *)
    intros k Hk1 Hk2. destruct (Hc2 k Hk1) as [d [tl [_ E1]]].
    apply in_map_iff in Hk2. destruct Hk2 as [t [E2 Ht]].
    pose proof (valid_names_ok (is_library ty) ts Hts) as Hv. rewrite Forall_forall in Hv.
    destruct (tname_ok_path t (Hv t Ht)) as [_ [tl' Etl]]. rewrite Etl in E2. rewrite E1 in E2.
    apply app_inv_head in E2. discriminate.
Qed.

(* ------------------------------------------------------------------ the theorems *)

Lemma root_path_ok n : elem_ok n -> path_ok n.
Proof. intros H. unfold path_ok. rewrite (elem_split n H). constructor; auto. apply H. Qed.

(* (b) template names are unique: no key is written twice while allTemplates fills the map *)
Theorem tree_entries_keys_nodup c : wf_chart c -> NoDup (map fst (tree_entries c true [] "")).
Proof.
  intros Hwf.
  assert (Hn : elem_ok (ch_name c)) by (inversion Hwf; auto).
  destruct (tree_entries_ckeys c true [] "" (ch_name c) Hwf eq_refl (root_path_ok _ Hn)) as [Hk _].
  pose proof (tree_ckeys_nodup c (split (ch_name c)) Hwf) as Hnd. rewrite <- Hk in Hnd.
  rewrite <- (map_map (@fst string renderable) split) in Hnd. now apply NoDup_map_inv in Hnd.
Qed.

Lemma NoDup_app_l {A} (l1 l2 : list A) : NoDup (l1 ++ l2) -> NoDup l1.
Proof.
  induction l1 as [|a l1 IH]; simpl; intros H; [constructor|].
  inversion H; subst. constructor; auto. intros Hi. apply H2. apply in_or_app. now left.
Qed.

Lemma aset_absent {V} k (v : V) l : ~ In k (map fst l) -> aset k v l = (l ++ [(k, v)])%list.
Proof.
  induction l as [|[k' v'] t IH]; simpl; auto. intros Hn.
  destruct (String.eqb k k') eqn:E.
  - apply String.eqb_eq in E. subst. exfalso. apply Hn. now left.
  - f_equal. apply IH. intros H. apply Hn. now right.
Qed.

Lemma add_templates_append lib full id ts tpls :
  NoDup (map fst (tpls ++ own_entries lib full id ts)) ->
  add_templates lib full id ts tpls = (tpls ++ own_entries lib full id ts)%list.
Proof.
  unfold add_templates, own_entries. revert tpls. induction ts as [|[[n d]|] t IH]; simpl; intros tpls Hnd.
  - now rewrite app_nil_r.
  - destruct (lib && negb (is_partial n))%bool; simpl in *; [now apply IH|].
    rewrite map_app in Hnd. simpl in Hnd.
    assert (Hni : ~ In (path_join full n) (map fst tpls)).
    { intros Hi. apply NoDup_remove_2 in Hnd. apply Hnd. apply in_or_app. now left. }
    rewrite (aset_absent _ _ _ Hni). rewrite IH.
    + now rewrite <- app_assoc.
    + rewrite <- app_assoc. simpl. now rewrite map_app.
  - now apply IH.
Qed.

Definition tpls_spec (c : chart) : Prop := forall root id pfull pv rel caps tpls store,
  NoDup (map fst (tpls ++ tree_entries c root id pfull)) ->
  fst (fst (rec_all_tpls c root id pfull pv rel caps tpls store)) = (tpls ++ tree_entries c root id pfull)%list.

Lemma rec_all_tpls_entries c : tpls_spec c.
Proof.
  induction c as [n ty me ts fs ds IH] using chart_ind'. intros root id pfull pv rel caps tpls store Hnd.
  rewrite rec_all_tpls_unfold. cbv zeta. rewrite tree_entries_unfold in *.
  set (full := chart_full root pfull n) in *. set (values := if root then pv else child_values pv n).
  assert (Hgo : forall l i tpls store subs, Forall tpls_spec l ->
            NoDup (map fst (tpls ++ entries_go id full l i)) ->
            fst (fst (deps_go id full values rel caps l i tpls store subs)) = (tpls ++ entries_go id full l i)%list).
  { clear. induction l as [|d r IHl]; intros i tpls store subs Hf Hnd; simpl.
    - now rewrite app_nil_r.
    - inversion Hf as [|? ? Hd Hr]; subst. simpl in Hnd. rewrite app_assoc in Hnd.
      assert (Hnd1 : NoDup (map fst (tpls ++ tree_entries d false (id ++ [(ch_name d, count_name (ch_name d) i)])%list full))).
      { rewrite map_app in Hnd. now apply NoDup_app_l in Hnd. }
      specialize (Hd false (id ++ [(ch_name d, count_name (ch_name d) i)])%list full values rel caps tpls store Hnd1).
      destruct (rec_all_tpls d false (id ++ [(ch_name d, count_name (ch_name d) i)])%list full values rel caps tpls store) as [[tp sto] nd]. simpl in Hd. subst tp.
      rewrite IHl; auto. now rewrite <- app_assoc. }
  rewrite app_assoc in Hnd.
  assert (Hnd1 : NoDup (map fst (tpls ++ entries_go id full ds []))).
  { rewrite map_app in Hnd. now apply NoDup_app_l in Hnd. }
  specialize (Hgo ds [] tpls store [] IH Hnd1).
  destruct (deps_go id full values rel caps ds [] tpls store []) as [[tpls1 store1] subs]. simpl in Hgo. subst tpls1. simpl.
  rewrite add_templates_append; auto. now rewrite <- app_assoc.
Qed.

(* so the map is the plain enumeration of the tree: children (in Dependencies() order) before the
   chart's own templates, nothing dropped, nothing overwritten *)
Theorem all_templates_is_tree_entries c top :
  wf_chart c -> fst (all_templates c top) = tree_entries c true [] "".
Proof.
  intros Hwf. unfold all_templates.
  pose proof (rec_all_tpls_entries c true [] "" (vindex "Values" top) (vindex "Release" top) (vindex "Capabilities" top) [] []
                                   (tree_entries_keys_nodup c Hwf)) as H.
  destruct (rec_all_tpls c true [] "" _ _ _ [] []) as [[tp sto] nd]. exact H.
Qed.

(* scoping by path: a chart's own templates are <ChartFullPath>/<name> with base path
   <ChartFullPath>/templates and the chart's own scope; everything a dependency contributes lies
   under <ChartFullPath>/charts/<dependency name>/ *)
Theorem own_templates_scoped c root id pfull :
  wf_chart c -> path_ok (chart_full root pfull (ch_name c)) ->
  let full := chart_full root pfull (ch_name c) in
  Forall (fun kv => exists t, In t (some_names (ch_templates c)) /\ fst kv = full ++ "/" ++ t /\
                              r_scope (snd kv) = id /\ r_base (snd kv) = full ++ "/templates")
         (own_entries (is_library (ch_type c)) full id (ch_templates c)).
Proof. intros Hwf Hok. exact (proj2 (tree_entries_ckeys c root id pfull _ Hwf eq_refl Hok)). Qed.

Lemma comps_prefix_string full k tl :
  path_ok full -> split k = (split full ++ tl)%list -> tl <> [] -> exists rest, k = full ++ "/" ++ rest.
Proof.
  intros Hok E Hne. exists (join "/" tl).
  rewrite <- (join_split Paths.slash k), E.
  change (sep1 Paths.slash) with "/". rewrite join_app; auto.
  - change "/" with (sep1 Paths.slash) at 1. now rewrite join_split.
  - intros H. pose proof (split_on_nonempty Paths.slash full). contradiction.
Qed.

Lemma ckeys_go_shape fc l k :
  Forall wf_chart l -> In k (ckeys_go fc l) ->
  exists d x tl, In d l /\ k = (fc ++ "charts" :: ch_name d :: x :: tl)%list.
Proof.
  induction l as [|d r IH]; simpl; intros Hw Hin; [destruct Hin|].
  inversion Hw; subst. apply in_app_or in Hin. destruct Hin as [Hin|Hin].
  - destruct (tree_ckeys_shape d _ _ H1 Hin) as [[tl E]|[d' [tl [_ E]]]]; exists d; do 2 eexists; (split; [now left|]);
      rewrite E, <- app_assoc; reflexivity.
  - destruct (IH H2 Hin) as [d' [x [tl [Hd' E]]]]. exists d', x, tl. split; [now right|auto].
Qed.

Lemma own_ckeys_shape fc lib ts k :
  Forall tname_ok (some_names ts) -> In k (map (fun t => fc ++ split t)%list (valid_names lib ts)) ->
  exists x tl, k = (fc ++ "templates" :: x :: tl)%list.
Proof.
  intros Hts Hin. apply in_map_iff in Hin. destruct Hin as [t [E Ht]]. subst k.
  pose proof (valid_names_ok lib ts Hts) as Hv. rewrite Forall_forall in Hv.
  destruct (Hv t Ht) as [rr [-> Hr]].
  change ("templates/" ++ rr) with ("templates" ++ "/" ++ rr). rewrite split_slash_app. simpl.
  destruct (split_on_cons Paths.slash rr) as [h [r E]]. rewrite E. now exists h, r.
Qed.

Lemma tree_ckeys_shape2 c fc k :
  wf_chart c -> In k (tree_ckeys c fc) ->
  (exists x tl, k = (fc ++ "templates" :: x :: tl)%list) \/
  (exists d x tl, In d (ch_deps c) /\ k = (fc ++ "charts" :: ch_name d :: x :: tl)%list).
Proof.
  intros Hwf Hin. destruct c as [n ty me ts fs ds]. inversion Hwf as [? ? ? ? ? ? Hn Hts Hnd Hdn Hds]; subst.
  rewrite tree_ckeys_unfold in Hin. apply in_app_or in Hin. destruct Hin as [Hin|Hin].
  - right. now apply ckeys_go_shape.
  - left. eapply own_ckeys_shape; eauto.
Qed.

Theorem dependency_templates_scoped c root id pfull k r :
  wf_chart c -> path_ok (chart_full root pfull (ch_name c)) ->
  In (k, r) (tree_entries c root id pfull) ->
  let full := chart_full root pfull (ch_name c) in
  (exists rest, k = full ++ "/templates/" ++ rest) \/
  (exists d rest, In d (ch_deps c) /\ k = full ++ "/charts/" ++ ch_name d ++ "/" ++ rest).
Proof.
  intros Hwf Hok Hin full.
  destruct (tree_entries_ckeys c root id pfull full Hwf eq_refl Hok) as [Hk _].
  assert (Hck : In (split k) (tree_ckeys c (split full))).
  { rewrite <- Hk. apply in_map_iff. exists (k, r). auto. }
  destruct (tree_ckeys_shape2 c _ _ Hwf Hck) as [[x [tl E]]|[d [x [tl [Hd E]]]]].
  - left.
    destruct (comps_prefix_string (full ++ "/" ++ "templates") k (x :: tl)) as [rest Er].
    + unfold path_ok. rewrite split_slash_app. apply Forall_app. split; auto. simpl. repeat constructor; discriminate.
    + rewrite split_slash_app, E, <- app_assoc. reflexivity.
    + discriminate.
    + exists rest. rewrite Er. now rewrite !PathsProofs.append_assoc.
  - right. exists d.
    assert (Hdn : elem_ok (ch_name d)).
    { destruct c as [n ty me ts fs ds]. inversion Hwf as [? ? ? ? ? ? _ _ _ _ Hds]; subst. simpl in Hd.
      rewrite Forall_forall in Hds. specialize (Hds d Hd). inversion Hds; auto. }
    destruct (comps_prefix_string (full ++ "/" ++ ("charts" ++ "/" ++ ch_name d)) k (x :: tl)) as [rest Er].
    + unfold path_ok. rewrite !split_slash_app. apply Forall_app. split; auto.
      apply Forall_app. split; [simpl; repeat constructor; discriminate|].
      rewrite elem_split by auto. constructor; auto. apply Hdn.
    + rewrite !split_slash_app, E, (elem_split _ Hdn), <- !app_assoc. reflexivity.
    + discriminate.
    + exists rest. split; auto. rewrite Er. rewrite !PathsProofs.append_assoc. reflexivity.
Qed.

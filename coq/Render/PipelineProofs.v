(* Proofs about Render/Pipeline.v: the result of the pipeline does not depend on the order
   in which any of the Go maps involved is iterated. *)
From Coq Require Import List String Ascii Bool Arith ZArith Lia Permutation Sorted.
From Helm Require Import Common.Assoc Render.SortLemmas Render.Pipeline Gen.C05Tables.
Import ListNotations.
Local Open Scope string_scope.

(* ---- association lists under permutation ---- *)

Lemma aget_notin {V} k (l : list (string * V)) : ~ In k (map fst l) -> aget k l = None.
Proof.
  induction l as [|[k' v] t IH]; simpl; auto.
  intros H. destruct (String.eqb k k') eqn:E.
  - apply String.eqb_eq in E. subst. exfalso. apply H. now left.
  - apply IH. intros Hin. apply H. now right.
Qed.

Lemma aget_perm {V} (l l' : list (string * V)) :
  NoDup (map fst l) -> Permutation l l' -> forall k, aget k l = aget k l'.
Proof.
  intros Hnd Hp k.
  assert (Hnd' : NoDup (map fst l')) by (eapply Permutation_NoDup; [apply Permutation_map; exact Hp|exact Hnd]).
  destruct (aget k l) as [v|] eqn:E.
  - apply aget_In in E. symmetry. apply In_aget; auto. eapply Permutation_in; eauto.
  - symmetry. apply aget_notin. intros Hin. apply aget_None_notin in E. apply E.
    eapply Permutation_in; [apply Permutation_sym, Permutation_map; exact Hp|exact Hin].
Qed.

Lemma NoDup_keys_filter {V} (f : string * V -> bool) (l : list (string * V)) :
  NoDup (map fst l) -> NoDup (map fst (filter f l)).
Proof.
  induction l as [|a t IH]; simpl; auto. intros H. inversion H; subst.
  destruct (f a); simpl; auto. constructor; auto.
  intros Hin. apply in_map_iff in Hin. destruct Hin as [x [Hx Hin]]. apply filter_In in Hin.
  match goal with H : ~ In _ _ |- _ => apply H end. rewrite <- Hx. apply in_map. tauto.
Qed.

Lemma filter_perm {A} (f : A -> bool) (l l' : list A) : Permutation l l' -> Permutation (filter f l) (filter f l').
Proof.
  induction 1; simpl; auto.
  - destruct (f x); auto.
  - destruct (f x), (f y); auto. apply perm_swap.
  - eapply perm_trans; eauto.
Qed.

(* ---- the three key orders are strict total orders ---- *)

Lemma tpl_before_asym : asym tpl_before.
Proof. apply flip_asym, lex_ltb_asym. Qed.
Lemma tpl_before_trans : trans tpl_before.
Proof. apply flip_trans, lex_ltb_trans. Qed.
Lemma tpl_before_total l : total_on tpl_before l.
Proof. apply flip_total, total_on_all, lex_ltb_total. Qed.

Lemma notes_before_total l : total_on notes_before l.
Proof. apply total_on_all, lex_ltb_total. Qed.
Lemma str_total l : total_on str_ltb l.
Proof. apply total_on_all. intros a b0. apply str_ltb_total. Qed.

Lemma sort_templates_perm l l' : NoDup l -> Permutation l l' -> sort_templates l = sort_templates l'.
Proof.
  intros. apply isort_perm_eq; auto using tpl_before_asym, tpl_before_trans, tpl_before_total.
Qed.

Lemma sort_notes_keys_perm l l' : NoDup l -> Permutation l l' -> sort_notes_keys l = sort_notes_keys l'.
Proof.
  intros. apply isort_perm_eq; auto using notes_before_total.
  - apply lex_ltb_asym.
  - apply lex_ltb_trans.
Qed.

Lemma sort_strings_perm l l' : NoDup l -> Permutation l l' -> sort_strings l = sort_strings l'.
Proof.
  intros. apply isort_perm_eq; auto using str_ltb_asym, str_ltb_trans, str_total.
Qed.

(* whatever sort.Sort(sort.Reverse(byPathLen)) returns, if it is a sorted permutation of the
   keys it is the list the model computes *)
Lemma sort_templates_any_algorithm l s :
  NoDup l -> Permutation s l -> StronglySorted (fun a c => tpl_before a c = true) s -> s = sort_templates l.
Proof.
  intros. apply any_sort_is_isort; auto using tpl_before_asym, tpl_before_trans, tpl_before_total.
Qed.

Lemma sort_notes_any_algorithm l s :
  NoDup l -> Permutation s l -> StronglySorted (fun a c => notes_before a c = true) s -> s = sort_notes_keys l.
Proof.
  intros. apply any_sort_is_isort; auto using notes_before_total.
  - apply lex_ltb_asym.
  - apply lex_ltb_trans.
Qed.

Lemma sort_strings_any_algorithm l s :
  NoDup l -> Permutation s l -> StronglySorted (fun a c => str_ltb a c = true) s -> s = sort_strings l.
Proof.
  intros. apply any_sort_is_isort; auto using str_ltb_asym, str_ltb_trans, str_total.
Qed.

Lemma sort_algorithm_irrelevant :
  forall (keys s : list string), NoDup keys -> Permutation s keys ->
    (StronglySorted (fun a c => tpl_before a c = true) s -> s = sort_templates keys) /\
    (StronglySorted (fun a c => notes_before a c = true) s -> s = sort_notes_keys keys) /\
    (StronglySorted (fun a c => str_ltb a c = true) s -> s = sort_strings keys).
Proof.
  intros keys s Hnd Hp. repeat split.
  - now apply sort_templates_any_algorithm.
  - now apply sort_notes_any_algorithm.
  - now apply sort_strings_any_algorithm.
Qed.

Section Proofs.
  Variable tset : Type.
  Variable t0 : tset.
  Variable tsrc : Type.
  Variable parse : tset -> string -> tsrc -> option tset.
  Variable vstate : Type.
  Variable v0 : vstate.
  Variable exec : tset -> vstate -> string -> tsrc -> option (string * vstate).
  Variable split : string -> list string.
  Variable head_of : string -> option head.

  Notation engine_render := (engine_render tset t0 tsrc parse vstate v0 exec).
  Notation render_resources := (render_resources split head_of).
  Notation pipeline := (pipeline tset t0 tsrc parse vstate v0 exec split head_of).

  (* ---- engine.render ---- *)

  Lemma parse_all_ext t keys (l l' : list (string * tsrc)) :
    (forall k, aget k l = aget k l') -> parse_all tset tsrc parse t keys l = parse_all tset tsrc parse t keys l'.
  Proof.
    intros H. revert t. induction keys as [|k rest IH]; intros t; simpl; auto.
    rewrite <- H. destruct (aget k l); auto. destruct (parse t k t1); auto.
  Qed.

  Lemma exec_all_ext t st keys (l l' : list (string * tsrc)) :
    (forall k, aget k l = aget k l') ->
    exec_all tset tsrc vstate exec t st keys l = exec_all tset tsrc vstate exec t st keys l'.
  Proof.
    intros H. revert st. induction keys as [|k rest IH]; intros st; simpl; auto.
    rewrite <- H. destruct (is_partial k); auto.
    destruct (aget k l); auto. destruct (exec t st k t1) as [[s st']|]; auto. now rewrite IH.
  Qed.

  Lemma engine_render_perm (l l' : list (string * tsrc)) :
    NoDup (map fst l) -> Permutation l l' -> engine_render l = engine_render l'.
  Proof.
    intros Hnd Hp. unfold Pipeline.engine_render.
    rewrite (sort_templates_perm (map fst l) (map fst l')) by auto using Permutation_map.
    pose proof (aget_perm l l' Hnd Hp) as Hg.
    rewrite (parse_all_ext _ _ l l' Hg).
    destruct (parse_all tset tsrc parse t0 (sort_templates (map fst l')) l'); auto.
    now rewrite (exec_all_ext _ _ _ l l' Hg).
  Qed.

  (* the rendered map has unique keys: they are a subsequence of the sorted template keys *)
  Lemma exec_all_keys t st keys (l : list (string * tsrc)) m :
    exec_all tset tsrc vstate exec t st keys l = inl m -> NoDup keys -> NoDup (map fst m) /\ incl (map fst m) keys.
  Proof.
    revert st m. induction keys as [|k rest IH]; simpl; intros st m H Hnd.
    - inversion H. subst. split; [constructor|apply incl_refl].
    - inversion Hnd as [|? ? Hni Hnd']; subst.
      destruct (is_partial k).
      + destruct (IH st m H Hnd') as [H1 H2]. split; auto. now apply incl_tl.
      + destruct (aget k l); [|discriminate]. destruct (exec t st k t1) as [[s st']|]; [|discriminate].
        destruct (exec_all tset tsrc vstate exec t st' rest l) as [m'|] eqn:E; [|discriminate].
        inversion H; subst. destruct (IH st' m' E Hnd') as [H1 H2]. simpl. split.
        * constructor; auto.
        * apply incl_cons; [now left|now apply incl_tl].
  Qed.

  Lemma engine_render_keys (l : list (string * tsrc)) m :
    NoDup (map fst l) -> engine_render l = inl m -> NoDup (map fst m).
  Proof.
    unfold Pipeline.engine_render. intros Hnd H.
    destruct (parse_all tset tsrc parse t0 (sort_templates (map fst l)) l); [|discriminate].
    destruct (exec_all tset tsrc vstate exec t v0 (sort_templates (map fst l)) l) eqn:E; [|discriminate].
    inversion H; subst. eapply exec_all_keys; eauto.
    eapply Permutation_NoDup; [apply Permutation_sym, isort_perm|exact Hnd].
  Qed.

  (* ---- renderResources ---- *)

  Lemma notes_loop_ext sn cn keys (f f' : fmap) buf :
    (forall k, aget k f = aget k f') -> notes_loop sn cn keys f buf = notes_loop sn cn keys f' buf.
  Proof.
    intros H. revert buf. induction keys as [|k rest IH]; intros buf; simpl; auto.
    now rewrite <- H, IH.
  Qed.

  Lemma sort_files_ext paths (f f' : fmap) hs gs :
    (forall k, aget k f = aget k f') ->
    sort_files split head_of paths f hs gs = sort_files split head_of paths f' hs gs.
  Proof.
    intros H. revert hs gs. induction paths as [|p rest IH]; intros hs gs; simpl; auto.
    rewrite <- H. destruct (aget p f); auto. destruct (is_partial p); auto.
    destruct (is_blank s); auto.
    destruct (sort_file head_of p (split s) hs gs) as [[? ?]|[? ?]]; auto.
  Qed.

  Lemma sort_manifests_perm (f f' : fmap) :
    NoDup (map fst f) -> Permutation f f' -> sort_manifests split head_of f = sort_manifests split head_of f'.
  Proof.
    intros Hnd Hp. unfold sort_manifests.
    rewrite (sort_strings_perm (map fst f) (map fst f')) by auto using Permutation_map.
    now rewrite (sort_files_ext _ f f' [] [] (aget_perm f f' Hnd Hp)).
  Qed.

  Lemma error_blob_perm (f f' : fmap) :
    NoDup (map fst f) -> Permutation f f' -> error_blob f = error_blob f'.
  Proof.
    intros Hnd Hp. unfold error_blob.
    rewrite (sort_strings_perm (map fst f) (map fst f')) by auto using Permutation_map.
    f_equal. apply map_ext. intros p. now rewrite (aget_perm f f' Hnd Hp).
  Qed.

  Lemma render_resources_perm o cn crds (sh2 sh2' : fmap -> fmap) (f f' : fmap) :
    (forall x, Permutation (sh2 x) x) -> (forall x, Permutation (sh2' x) x) ->
    NoDup (map fst f) -> Permutation f f' ->
    render_resources o cn crds sh2 f = render_resources o cn crds sh2' f'.
  Proof.
    intros Hs Hs' Hnd Hp. unfold Pipeline.render_resources, extract_notes.
    rewrite (sort_notes_keys_perm (map fst f) (map fst f')) by auto using Permutation_map.
    rewrite (notes_loop_ext _ _ _ f f' _ (aget_perm f f' Hnd Hp)).
    set (flt := fun kv : string * string => negb (has_suffix notes_file_suffix (fst kv))).
    assert (Hnd1 : NoDup (map fst (sh2 (filter flt f)))).
    { eapply Permutation_NoDup; [apply Permutation_map, Permutation_sym, Hs|]. now apply NoDup_keys_filter. }
    assert (Hp1 : Permutation (sh2 (filter flt f)) (sh2' (filter flt f'))).
    { eapply perm_trans; [apply Hs|]. eapply perm_trans; [apply filter_perm; exact Hp|]. apply Permutation_sym, Hs'. }
    rewrite (sort_manifests_perm _ _ Hnd1 Hp1), (error_blob_perm _ _ Hnd1 Hp1). reflexivity.
  Qed.

  (* ---- the whole pipeline ---- *)

  Theorem pipeline_order_independent o cn crds (sh1 sh1' sh2 sh2' : fmap -> fmap) (l l' : list (string * tsrc)) :
    (forall x, Permutation (sh1 x) x) -> (forall x, Permutation (sh1' x) x) ->
    (forall x, Permutation (sh2 x) x) -> (forall x, Permutation (sh2' x) x) ->
    NoDup (map fst l) -> Permutation l l' ->
    pipeline o cn crds sh1 sh2 l = pipeline o cn crds sh1' sh2' l'.
  Proof.
    intros H1 H1' H2 H2' Hnd Hp. unfold Pipeline.pipeline.
    rewrite <- (engine_render_perm l l' Hnd Hp).
    destruct (engine_render l) as [m|[st f]] eqn:E; auto.
    pose proof (engine_render_keys l m Hnd E) as Hk.
    apply render_resources_perm; auto.
    - eapply Permutation_NoDup; [apply Permutation_map, Permutation_sym, H1|exact Hk].
    - eapply perm_trans; [apply H1|apply Permutation_sym, H1'].
  Qed.
End Proofs.

(* ------------------------------------------------------------------ witnesses *)
From Helm Require Import Render.PipelineInst.

(* a parent chart with a subchart, both with NOTES.txt, one hook, one partial *)
Definition w_head_cm (n : string) := Some (mkHead "v1" "ConfigMap" true n []).
Definition w_rendered : list (string * string) :=
  [("p/templates/cm.yaml", "cm-p"); ("p/templates/NOTES.txt", "parent notes");
   ("p/charts/a/templates/NOTES.txt", "notes of a"); ("p/charts/b/templates/NOTES.txt", "notes of b");
   ("p/charts/a/templates/job.yaml", "job-a"); ("p/charts/b/templates/svc.yaml", "svc-b")].
Definition w_heads : list (string * option head) :=
  [("cm-p", w_head_cm "p"); ("svc-b", Some (mkHead "v1" "Service" true "b" []));
   ("job-a", Some (mkHead "batch/v1" "Job" true "a" [("helm.sh/hook", "pre-install, post-install"); ("helm.sh/hook-weight", "-5")]))].
Definition w_splits : list (string * list string) := [("cm-p", ["cm-p"]); ("svc-b", ["svc-b"]); ("job-a", ["job-a"])].
Definition w_keys : list string :=
  ["p/templates/cm.yaml"; "p/templates/NOTES.txt"; "p/templates/_helpers.tpl"; "p/charts/a/templates/NOTES.txt";
   "p/charts/b/templates/NOTES.txt"; "p/charts/a/templates/job.yaml"; "p/charts/b/templates/svc.yaml"].
Definition w_opts := mkOpts true false false.
Definition w_run sh1 sh2 keys := run_pipeline false w_rendered w_splits w_heads w_opts "p" [] sh1 sh2 keys.

(* non-vacuity: the hypotheses of [pipeline_order_independent] are met by a non-trivial input
   and the common result is a successful render with a hook, two manifests and three notes *)
Example pipeline_witness :
  NoDup w_keys /\
  w_run (fun x => x) (fun x => x) w_keys = w_run (@rev _) (@rev _) (rev w_keys) /\
  exists m hs, w_run (fun x => x) (fun x => x) w_keys
               = ROk m hs ("parent notes" ++ nl ++ "notes of a" ++ nl ++ "notes of b") /\ List.length hs = 1.
Proof.
  split; [|split].
  - repeat constructor; simpl; intuition discriminate.
  - vm_compute. reflexivity.
  - eexists. eexists. split; vm_compute; reflexivity.
Qed.

(* F7 (repaired by 43ed85f): with the notes collected in map iteration order two orders of
   the same rendered files give different notes *)
Lemma notes_order_prefix_refuted :
  exists f f' : fmap, NoDup (map fst f) /\ Permutation f f' /\
    fst (extract_notes_prefix true "p" f) <> fst (extract_notes_prefix true "p" f').
Proof.
  exists [("p/charts/a/templates/NOTES.txt", "A"); ("p/charts/b/templates/NOTES.txt", "B")],
         [("p/charts/b/templates/NOTES.txt", "B"); ("p/charts/a/templates/NOTES.txt", "A")].
  split; [|split].
  - repeat constructor; simpl; intuition discriminate.
  - apply perm_swap.
  - vm_compute. discriminate.
Qed.

(* F12 (repaired by 9782149): the same for the debug blob of a failed render *)
Lemma error_blob_prefix_refuted :
  exists f f' : fmap, NoDup (map fst f) /\ Permutation f f' /\ error_blob_prefix f <> error_blob_prefix f'.
Proof.
  exists [("p/templates/a.yaml", "A"); ("p/templates/b.yaml", "B")],
         [("p/templates/b.yaml", "B"); ("p/templates/a.yaml", "A")].
  split; [|split].
  - repeat constructor; simpl; intuition discriminate.
  - apply perm_swap.
  - vm_compute. discriminate.
Qed.

(* Why the execution order is part of the model: with templates that write to the shared
   values (here every file appends its name to a trace and prints the trace), executing the
   files while ranging over the map gives different rendered files for two iteration orders,
   even after sorting the result by key.  The real code executes in sortTemplates order. *)
Definition trace_exec (_ : unit) (st : string) (name : string) (_ : unit) : option (string * string) :=
  let st' := (st ++ name ++ ";")%string in Some (st', st').

Lemma exec_map_order_refuted :
  exists l l' : list (string * unit), NoDup (map fst l) /\ Permutation l l' /\
    forall m m',
      engine_render_exec_in_map_order unit tt unit (fun t _ _ => Some t) string EmptyString trace_exec l = inl m ->
      engine_render_exec_in_map_order unit tt unit (fun t _ _ => Some t) string EmptyString trace_exec l' = inl m' ->
      aget "c/templates/a.yaml" m <> aget "c/templates/a.yaml" m'.
Proof.
  exists [("c/templates/a.yaml", tt); ("c/templates/b.yaml", tt)], [("c/templates/b.yaml", tt); ("c/templates/a.yaml", tt)].
  split; [|split].
  - repeat constructor; simpl; intuition discriminate.
  - apply perm_swap.
  - intros m m' H H'. vm_compute in H, H'. inversion H; inversion H'; subst. vm_compute. discriminate.
Qed.

(* the same stateful engine under the real order: both iteration orders agree *)
Example exec_sorted_order_witness :
  engine_render unit tt unit (fun t _ _ => Some t) string EmptyString trace_exec
                [("c/templates/a.yaml", tt); ("c/templates/b.yaml", tt)]
  = engine_render unit tt unit (fun t _ _ => Some t) string EmptyString trace_exec
                [("c/templates/b.yaml", tt); ("c/templates/a.yaml", tt)].
Proof. vm_compute. reflexivity. Qed.

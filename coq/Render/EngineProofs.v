(* Proofs about Render/Engine.v (C05, round 4): the template set of a chart tree and Engine.render. *)
From Coq Require Import List String Ascii Bool Arith ZArith Permutation Lia.
From Helm Require Import Common.Assoc Values.Tree Values.Scope Render.SortLemmas Render.Pipeline Render.PipelineProofs
     Render.Files Render.Engine.
From Helm Require Chart.Paths.
Import ListNotations.
Local Open Scope string_scope.

(* ------------------------------------------------------------------ induction over chart trees *)

Section ChartInd.
  Variable P : chart -> Prop.
  Hypothesis H : forall n ty me ts fs ds, Forall P ds -> P (Chart n ty me ts fs ds).
  Fixpoint chart_ind' (c : chart) : P c :=
    match c with
    | Chart n ty me ts fs ds =>
        H n ty me ts fs ds ((fix go (l : list chart) : Forall P l :=
                               match l with
                               | [] => Forall_nil _
                               | x :: t => Forall_cons _ (chart_ind' x) (go t)
                               end) ds)
    end.
End ChartInd.

(* ------------------------------------------------------------------ sid maps *)

Lemma step_eqb_eq a b : step_eqb a b = true <-> a = b.
Proof.
  destruct a as [n i], b as [m j]. unfold step_eqb. simpl. rewrite andb_true_iff, String.eqb_eq, Nat.eqb_eq.
  split; [intros [-> ->]; auto|intros E; inversion E; auto].
Qed.

Lemma sid_eqb_eq a b : sid_eqb a b = true <-> a = b.
Proof.
  revert b. induction a as [|x a IH]; intros [|y b]; simpl; split; try discriminate; auto.
  - intros E. apply andb_prop in E. destruct E as [E1 E2]. apply step_eqb_eq in E1. apply IH in E2. now subst.
  - intros E. inversion E; subst. rewrite (proj2 (step_eqb_eq y y) eq_refl). simpl. now apply IH.
Qed.

Lemma sid_eqb_refl a : sid_eqb a a = true.
Proof. now apply sid_eqb_eq. Qed.

Lemma sid_eqb_neq a b : a <> b -> sid_eqb a b = false.
Proof. intros Hne. destruct (sid_eqb a b) eqn:E; auto. apply sid_eqb_eq in E. contradiction. Qed.

Lemma sget_notin {V} k (l : list (sid * V)) : ~ In k (map fst l) -> sget k l = None.
Proof.
  induction l as [|[k' v] t IH]; simpl; auto. intros Hn.
  rewrite sid_eqb_neq by (intros ->; apply Hn; now left). apply IH. intros Hi. apply Hn. now right.
Qed.

Lemma sget_perm {V} (l l' : list (sid * V)) :
  NoDup (map fst l) -> Permutation l l' -> forall k, sget k l = sget k l'.
Proof.
  intros Hnd Hp. induction Hp as [|[k1 v1] l l' Hp IH|[k1 v1] [k2 v2] l|l l' l'' Hp1 IH1 Hp2 IH2]; intros k; simpl; auto.
  - inversion Hnd; subst. now rewrite IH.
  - destruct (sid_eqb k k1) eqn:E1; destruct (sid_eqb k k2) eqn:E2; auto.
    apply sid_eqb_eq in E1, E2. subst. inversion Hnd as [|? ? Hni _]; subst. exfalso. apply Hni. now left.
  - rewrite IH1 by auto. apply IH2. eapply Permutation_NoDup; [|exact Hnd]. now apply Permutation_map.
Qed.

Lemma sget_sset_eq {V} k (v : V) l : sget k (sset k v l) = Some v.
Proof.
  induction l as [|[k' v'] t IH]; simpl.
  - now rewrite sid_eqb_refl.
  - destruct (sid_eqb k k') eqn:E; simpl; rewrite ?sid_eqb_refl, ?E; auto.
Qed.

Lemma sget_sset_neq {V} k k' (v : V) l : k <> k' -> sget k' (sset k v l) = sget k' l.
Proof.
  intros Hne. induction l as [|[k2 v2] t IH]; simpl.
  - rewrite sid_eqb_neq; auto.
  - destruct (sid_eqb k k2) eqn:E; simpl.
    + apply sid_eqb_eq in E. subst k2. rewrite (sid_eqb_neq k' k); auto.
    + destruct (sid_eqb k' k2); auto.
Qed.

(* ------------------------------------------------------------------ the recursion, unfolded *)

Section DepsGo.
  Variables (id : sid) (full : string) (values rel caps : val).
  Fixpoint deps_go (ds : list chart) (seen : list string) (tpls : tmap) (store : smap) (subs : list (string * stree))
           {struct ds} : tmap * smap * list (string * stree) :=
    match ds with
    | [] => (tpls, store, subs)
    | d :: rest =>
        let id' := (id ++ [(ch_name d, count_name (ch_name d) seen)])%list in
        let '(tp, sto, nd) := rec_all_tpls d false id' full values rel caps tpls store in
        deps_go rest (ch_name d :: seen) tp sto (aset (ch_name d) nd subs)
    end.
End DepsGo.

Definition chart_full (root : bool) (pfull name : string) : string :=
  if root then name else pfull ++ "/charts/" ++ name.

Lemma rec_all_tpls_unfold n ty me ts fs ds root id pfull pv rel caps tpls store :
  rec_all_tpls (Chart n ty me ts fs ds) root id pfull pv rel caps tpls store =
  let full := chart_full root pfull n in
  let values := if root then pv else child_values pv n in
  let '(tpls1, store1, subs) := deps_go id full values rel caps ds [] tpls store [] in
  let node := SNode id (chart_entry me root) (new_files fs) rel caps values subs in
  (add_templates (is_library ty) full id ts tpls1, (id, node) :: store1, node).
Proof. reflexivity. Qed.

Section EntriesGo.
  Variables (id : sid) (full : string).
  Fixpoint entries_go (ds : list chart) (seen : list string) {struct ds} : list (string * renderable) :=
    match ds with
    | [] => []
    | d :: rest => (tree_entries d false (id ++ [(ch_name d, count_name (ch_name d) seen)])%list full
                    ++ entries_go rest (ch_name d :: seen))%list
    end.
End EntriesGo.

Lemma tree_entries_unfold n ty me ts fs ds root id pfull :
  tree_entries (Chart n ty me ts fs ds) root id pfull =
  (entries_go id (chart_full root pfull n) ds [] ++ own_entries (is_library ty) (chart_full root pfull n) id ts)%list.
Proof. reflexivity. Qed.

(* ------------------------------------------------------------------ (b) template names are unique *)

Lemma add_templates_nodup lib full id ts tpls :
  NoDup (map fst tpls) -> NoDup (map fst (add_templates lib full id ts tpls)).
Proof.
  unfold add_templates. revert tpls. induction ts as [|[[n d]|] t IH]; simpl; intros tpls Hnd; auto.
  destruct (lib && negb (is_partial n))%bool; auto. apply IH. now apply NoDup_akeys_aset.
Qed.

Lemma rec_all_tpls_nodup c : forall root id pfull pv rel caps tpls store,
  NoDup (map fst tpls) -> NoDup (map fst (fst (fst (rec_all_tpls c root id pfull pv rel caps tpls store)))).
Proof.
  induction c as [n ty me ts fs ds IH] using chart_ind'. intros root id pfull pv rel caps tpls store Hnd.
  rewrite rec_all_tpls_unfold. cbv zeta.
  set (full := chart_full root pfull n). set (values := if root then pv else child_values pv n).
  assert (Hgo : forall ds i tpls store subs, Forall (fun c => forall root id pfull pv rel caps tpls store,
              NoDup (map fst tpls) -> NoDup (map fst (fst (fst (rec_all_tpls c root id pfull pv rel caps tpls store))))) ds ->
            NoDup (map fst tpls) ->
            NoDup (map fst (fst (fst (deps_go id full values rel caps ds i tpls store subs))))).
  { clear. induction ds as [|d rest IHd]; intros i tpls store subs Hf Hnd; simpl; auto.
    inversion Hf as [|? ? Hd Hrest]; subst.
    specialize (Hd false (id ++ [(ch_name d, count_name (ch_name d) i)])%list full values rel caps tpls store Hnd).
    destruct (rec_all_tpls d false (id ++ [(ch_name d, count_name (ch_name d) i)])%list full values rel caps tpls store) as [[tp sto] nd]. simpl in Hd.
    apply IHd; auto. }
  specialize (Hgo ds [] tpls store [] IH Hnd).
  destruct (deps_go id full values rel caps ds [] tpls store []) as [[tpls1 store1] subs]. simpl in *.
  now apply add_templates_nodup.
Qed.

Theorem all_templates_keys_nodup c top : NoDup (map fst (fst (all_templates c top))).
Proof.
  unfold all_templates.
  pose proof (rec_all_tpls_nodup c true [] "" (vindex "Values" top) (vindex "Release" top) (vindex "Capabilities" top) [] []
                                 (NoDup_nil _)) as H.
  destruct (rec_all_tpls c true [] "" _ _ _ [] []) as [[tp sto] nd]. exact H.
Qed.

(* ------------------------------------------------------------------ (a) Engine.render and map iteration order *)

Section RenderProofs.
  Variable file_val : string -> val.
  Variable tset : Type.
  Variable parse : tset -> string -> string -> option tset.
  Variable ustate : Type.
  Variable exec : tset -> ustate -> string -> val -> option (string * ustate).

  Lemma parse_files_ext t keys tpls tpls' :
    (forall k, aget k tpls = aget k tpls') -> parse_files tset parse t keys tpls = parse_files tset parse t keys tpls'.
  Proof.
    intros H. revert t. induction keys as [|k rest IH]; intros t; simpl; auto.
    rewrite <- H. destruct (aget k tpls); auto. destruct (parse t k (r_tpl r)); auto.
  Qed.

  Lemma exec_files_ext t store store' ts us keys tpls tpls' :
    (forall k, aget k tpls = aget k tpls') -> (forall k, sget k store = sget k store') ->
    exec_files file_val tset ustate exec t store ts us keys tpls = exec_files file_val tset ustate exec t store' ts us keys tpls'.
  Proof.
    intros H Hs. revert ts us. induction keys as [|k rest IH]; intros ts us; simpl; auto.
    destruct (is_partial k); auto. rewrite <- H. destruct (aget k tpls); auto. rewrite <- Hs.
    destruct (sget (r_scope r) store); auto.
    destruct (exec t us k _) as [[out us']|]; auto. now rewrite IH.
  Qed.

  (* the rendered map, the state the render leaves behind, or the error: the same for every
     iteration order of the templates map and of the store of scope maps *)
  Theorem render_order_independent t0 u0 tpls tpls' store store' :
    NoDup (map fst tpls) -> Permutation tpls tpls' -> NoDup (map fst store) -> Permutation store store' ->
    render file_val tset parse ustate exec t0 u0 tpls store = render file_val tset parse ustate exec t0 u0 tpls' store'.
  Proof.
    intros Hnd Hp Hns Hps. unfold render.
    rewrite <- (sort_templates_perm (map fst tpls) (map fst tpls')) by auto using Permutation_map.
    rewrite (parse_files_ext t0 _ tpls tpls') by (now apply aget_perm).
    destruct (parse_files tset parse t0 _ tpls'); auto.
    now rewrite (exec_files_ext t store store' [] u0 _ tpls tpls') by (try apply aget_perm; try apply sget_perm; auto).
  Qed.

  (* the same for any sorted permutation Go's sort.Sort may return: by C05_sort_algorithm_irrelevant
     it IS sort_templates *)

  (* ---- the execution order ---- *)

  (* an executor that additionally records the names it is called with *)
  Definition logged (t : tset) (ul : ustate * list string) (k : string) (v : val) : option (string * (ustate * list string)) :=
    match exec t (fst ul) k v with
    | Some (out, u') => Some (out, (u', (snd ul ++ [k])%list))
    | None => None
    end.

  Definition executed (keys : list string) : list string := filter (fun k => negb (is_partial k)) keys.

  Lemma logged_eq t u log k v :
    logged t (u, log) k v = match exec t u k v with
                            | Some (out, u') => Some (out, (u', (log ++ [k])%list))
                            | None => None
                            end.
  Proof. reflexivity. Qed.

  Lemma exec_files_cons_logged t store ts ul k rest tpls :
    exec_files file_val tset (ustate * list string) logged t store ts ul (k :: rest) tpls =
    if is_partial k then exec_files file_val tset (ustate * list string) logged t store ts ul rest tpls
    else match aget k tpls with
         | None => inr k
         | Some r =>
             match sget (r_scope r) store with
             | None => inr k
             | Some node =>
                 match logged t ul k (view file_val (sset (r_scope r) (k, r_base r) ts) node) with
                 | None => inr k
                 | Some (out, ul') =>
                     match exec_files file_val tset (ustate * list string) logged t store
                                      (sset (r_scope r) (k, r_base r) ts) ul' rest tpls with
                     | inl (m, fin) => inl ((k, replace_all no_value "" out) :: m, fin)
                     | inr e => inr e
                     end
                 end
             end
         end.
  Proof. reflexivity. Qed.

  Lemma exec_files_logged t store tpls : forall keys ts u log,
    match exec_files file_val tset ustate exec t store ts u keys tpls with
    | inl (m, (ts', u')) =>
        exec_files file_val tset (ustate * list string) logged t store ts (u, log) keys tpls
        = inl (m, (ts', (u', (log ++ executed keys)%list))) /\ map fst m = executed keys
    | inr f =>
        exec_files file_val tset (ustate * list string) logged t store ts (u, log) keys tpls = inr f
    end.
  Proof.
    induction keys as [|k rest IH]; intros ts u log.
    - simpl. now rewrite app_nil_r.
    - rewrite exec_files_cons_logged. unfold executed. cbn [exec_files filter].
      destruct (is_partial k) eqn:Ep; cbn [negb]; [apply IH|].
      destruct (aget k tpls) as [r|]; auto. destruct (sget (r_scope r) store) as [node|]; auto.
      rewrite logged_eq.
      destruct (exec t u k _) as [[out u']|]; auto.
      specialize (IH (sset (r_scope r) (k, r_base r) ts) u' (log ++ [k])%list).
      destruct (exec_files file_val tset ustate exec t store _ u' rest tpls) as [[m [ts' u'']]|f].
      + destruct IH as [IH1 IH2]. rewrite IH1. rewrite <- app_assoc. simpl. split; auto. now rewrite IH2.
      + now rewrite IH.
  Qed.

  (* For EVERY template map, executor and engine state: the templates that are executed, in the
     order in which they are executed, are the non-partial keys in sortTemplates order; the
     rendered names are exactly these; recording the calls does not change the outcome. *)
  Theorem render_execution_order t0 u0 tpls store :
    match render file_val tset parse ustate exec t0 u0 tpls store with
    | inl (m, (ts, u)) =>
        render file_val tset parse (ustate * list string) logged t0 (u0, []) tpls store
        = inl (m, (ts, (u, executed (sort_templates (map fst tpls))))) /\
        map fst m = executed (sort_templates (map fst tpls))
    | inr e => render file_val tset parse (ustate * list string) logged t0 (u0, []) tpls store = inr e
    end.
  Proof.
    unfold render. destruct (parse_files tset parse t0 _ tpls) as [t|f]; auto.
    pose proof (exec_files_logged t store tpls (sort_templates (map fst tpls)) [] u0 []) as H.
    destruct (exec_files file_val tset ustate exec t store [] u0 _ tpls) as [[m [ts u]]|f]; simpl in *.
    - destruct H as [H1 H2]. now rewrite H1.
    - now rewrite H.
  Qed.

  (* the parse order: the first key in sortTemplates order that does not parse is the one reported,
     and every key before it was parsed (in that order) *)
  Lemma parse_files_first_failure t keys tpls f :
    (forall k, In k keys -> aget k tpls <> None) ->
    parse_files tset parse t keys tpls = inr f ->
    exists pre post t', keys = (pre ++ f :: post)%list /\ parse_files tset parse t pre tpls = inl t' /\
                        exists r, aget f tpls = Some r /\ parse t' f (r_tpl r) = None.
  Proof.
    revert t. induction keys as [|k rest IH]; intros t Hin; simpl; [discriminate|].
    destruct (aget k tpls) as [r|] eqn:Ek; [|exfalso; apply (Hin k); [now left|exact Ek]].
    destruct (parse t k (r_tpl r)) as [t1|] eqn:Ep.
    - intros Hf. destruct (IH t1) as [pre [post [t' [E1 [E2 E3]]]]]; auto.
      { intros k' Hk'. apply Hin. now right. }
      exists (k :: pre), post, t'. subst rest. simpl. rewrite Ek, Ep. auto.
    - intros Hf. inversion Hf; subst f. exists [], rest, t. simpl. split; auto. split; auto. exists r. auto.
  Qed.
End RenderProofs.

(* ---- the execution order is observable: executing while ranging over the map is refuted ---- *)

(* an executor whose output is the trace of the names executed so far *)
Definition trace_exec2 (_ : unit) (st : string) (name : string) (_ : val) : option (string * string) :=
  let st' := st ++ ">" ++ name in Some (st', st').

Definition w2_store : smap := [([], SNode [] VNull [] VNull VNull VNull [])].
Definition w2_tpls : tmap := [("c/templates/a.yaml", mkR "" [] "c/templates"); ("c/templates/b.yaml", mkR "" [] "c/templates")].

Lemma render_exec_map_order_refuted :
  exists tpls tpls' : tmap, NoDup (map fst tpls) /\ Permutation tpls tpls' /\
    forall m m' fin fin',
      render_exec_in_map_order (fun _ => VNull) unit (fun t _ _ => Some t) string trace_exec2 tt "" tpls w2_store = inl (m, fin) ->
      render_exec_in_map_order (fun _ => VNull) unit (fun t _ _ => Some t) string trace_exec2 tt "" tpls' w2_store = inl (m', fin') ->
      aget "c/templates/a.yaml" m <> aget "c/templates/a.yaml" m'.
Proof.
  exists w2_tpls, (rev w2_tpls). split; [|split].
  - repeat constructor; simpl; intuition discriminate.
  - apply Permutation_rev.
  - intros m m' fin fin'. vm_compute. intros H1 H2. inversion H1; inversion H2; subst. discriminate.
Qed.

Example render_sorted_order_witness :
  render (fun _ => VNull) unit (fun t _ _ => Some t) string trace_exec2 tt "" w2_tpls w2_store
  = render (fun _ => VNull) unit (fun t _ _ => Some t) string trace_exec2 tt "" (rev w2_tpls) w2_store /\
  exists m fin, render (fun _ => VNull) unit (fun t _ _ => Some t) string trace_exec2 tt "" w2_tpls w2_store = inl (m, fin) /\
                aget "c/templates/a.yaml" m = Some ">c/templates/b.yaml>c/templates/a.yaml".
Proof. vm_compute. split; auto. eexists. eexists. split; reflexivity. Qed.

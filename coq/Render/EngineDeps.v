(* C05 (round 4) — the order of a chart's dependency list.  Engine code ranges over
   Dependencies() (a slice), but where that slice comes from a Go map (the loader before fix
   14399c3, F10) its order is arbitrary.  For a well-formed tree (EngineNames.wf_chart) the render
   does not depend on it: [dperm c c'] re-orders the dependency lists at every level; the template
   set is the same set, every chart's scope map is the same up to the order of "Subcharts", and so
   Engine.Render gives the same result - if the executor cannot tell two orders of a map apart. *)
From Coq Require Import List String Ascii Bool Arith ZArith Permutation Lia.
From Helm Require Import Common.Assoc Values.Tree Values.TreeLemmas Values.Scope Render.SortLemmas Render.Pipeline Render.PipelineProofs
     Render.Files Render.Engine Render.EngineProofs Render.EngineNames Render.EngineEquiv.
Import ListNotations.
Local Open Scope string_scope.

(* ------------------------------------------------------------------ the scope maps read plainly *)

Section NodeGo.
  Variables (node_of : chart -> bool -> sid -> val -> val -> val -> stree).
  Variables (id : sid) (values rel caps : val).
  Fixpoint subs_go (ds : list chart) (seen : list string) (subs : list (string * stree)) : list (string * stree) :=
    match ds with
    | [] => subs
    | d :: rest =>
        subs_go rest (ch_name d :: seen)
                (aset (ch_name d) (node_of d false (id ++ [(ch_name d, count_name (ch_name d) seen)])%list values rel caps) subs)
    end.
End NodeGo.

Fixpoint node_of (c : chart) (root : bool) (id : sid) (pvalues rel caps : val) {struct c} : stree :=
  match c with
  | Chart name typ meta _ cfiles deps =>
      let values := if root then pvalues else child_values pvalues name in
      SNode id (chart_entry meta root) (new_files cfiles) rel caps values
            ((fix go (ds : list chart) (seen : list string) (subs : list (string * stree)) {struct ds} : list (string * stree) :=
                match ds with
                | [] => subs
                | d :: rest =>
                    go rest (ch_name d :: seen)
                       (aset (ch_name d) (node_of d false (id ++ [(ch_name d, count_name (ch_name d) seen)])%list values rel caps) subs)
                end) deps [] [])
  end.

Lemma node_of_unfold n ty me ts fs ds root id pv rel caps :
  node_of (Chart n ty me ts fs ds) root id pv rel caps =
  let values := if root then pv else child_values pv n in
  SNode id (chart_entry me root) (new_files fs) rel caps values (subs_go node_of id values rel caps ds [] []).
Proof. reflexivity. Qed.

Section NodesGo.
  Variables (tree_nodes : chart -> bool -> sid -> val -> val -> val -> smap).
  Variables (id : sid) (values rel caps : val).
  (* the store after the loop over the dependencies: the later ones in front *)
  Fixpoint nodes_go (ds : list chart) (seen : list string) : smap :=
    match ds with
    | [] => []
    | d :: rest =>
        (nodes_go rest (ch_name d :: seen)
         ++ tree_nodes d false (id ++ [(ch_name d, count_name (ch_name d) seen)])%list values rel caps)%list
    end.
End NodesGo.

Fixpoint tree_nodes (c : chart) (root : bool) (id : sid) (pvalues rel caps : val) {struct c} : smap :=
  match c with
  | Chart name typ meta _ cfiles deps =>
      let values := if root then pvalues else child_values pvalues name in
      (id, node_of c root id pvalues rel caps)
        :: (fix go (ds : list chart) (seen : list string) {struct ds} : smap :=
              match ds with
              | [] => []
              | d :: rest =>
                  (go rest (ch_name d :: seen)
                   ++ tree_nodes d false (id ++ [(ch_name d, count_name (ch_name d) seen)])%list values rel caps)%list
              end) deps []
  end.

Lemma tree_nodes_unfold n ty me ts fs ds root id pv rel caps :
  tree_nodes (Chart n ty me ts fs ds) root id pv rel caps =
  let values := if root then pv else child_values pv n in
  (id, node_of (Chart n ty me ts fs ds) root id pv rel caps) :: nodes_go tree_nodes id values rel caps ds [].
Proof. reflexivity. Qed.

(* recAllTpls builds exactly these *)
Definition store_spec (c : chart) : Prop := forall root id pfull pv rel caps tpls store,
  snd (fst (rec_all_tpls c root id pfull pv rel caps tpls store)) = (tree_nodes c root id pv rel caps ++ store)%list /\
  snd (rec_all_tpls c root id pfull pv rel caps tpls store) = node_of c root id pv rel caps.

Lemma rec_all_tpls_store c : store_spec c.
Proof.
  induction c as [n ty me ts fs ds IH] using chart_ind'. intros root id pfull pv rel caps tpls store.
  rewrite rec_all_tpls_unfold, tree_nodes_unfold, node_of_unfold. cbv zeta.
  set (full := chart_full root pfull n). set (values := if root then pv else child_values pv n).
  assert (Hgo : forall l seen tpls store subs, Forall store_spec l ->
            snd (fst (deps_go id full values rel caps l seen tpls store subs)) = (nodes_go tree_nodes id values rel caps l seen ++ store)%list /\
            snd (deps_go id full values rel caps l seen tpls store subs) = subs_go node_of id values rel caps l seen subs).
  { clear. induction l as [|d r IHl]; intros seen tpls store subs Hf; simpl; auto.
    inversion Hf as [|? ? Hd Hr]; subst.
    destruct (Hd false (id ++ [(ch_name d, count_name (ch_name d) seen)])%list full values rel caps tpls store) as [H1 H2].
    destruct (rec_all_tpls d false (id ++ [(ch_name d, count_name (ch_name d) seen)])%list full values rel caps tpls store) as [[tp sto] nd].
    simpl in H1, H2. subst sto nd.
    destruct (IHl (ch_name d :: seen) tp (tree_nodes d false (id ++ [(ch_name d, count_name (ch_name d) seen)]) values rel caps ++ store)%list
                  (aset (ch_name d) (node_of d false (id ++ [(ch_name d, count_name (ch_name d) seen)])%list values rel caps) subs) Hr) as [H3 H4].
    rewrite H3, H4. split; auto. now rewrite app_assoc. }
  destruct (Hgo ds [] tpls store [] IH) as [H1 H2].
  destruct (deps_go id full values rel caps ds [] tpls store []) as [[tpls1 store1] subs]. simpl in H1, H2. subst store1 subs. simpl.
  split; reflexivity.
Qed.

Lemma all_templates_store c top :
  snd (all_templates c top) = tree_nodes c true [] (vindex "Values" top) (vindex "Release" top) (vindex "Capabilities" top).
Proof.
  unfold all_templates.
  destruct (rec_all_tpls_store c true [] "" (vindex "Values" top) (vindex "Release" top) (vindex "Capabilities" top) [] []) as [H _].
  destruct (rec_all_tpls c true [] "" _ _ _ [] []) as [[tp sto] nd]. simpl in *. now rewrite app_nil_r in H.
Qed.

(* ------------------------------------------------------------------ looking a scope map up by its path *)

Definition find_dep (n : string) (ds : list chart) : option chart := find (fun d => String.eqb (ch_name d) n) ds.

Definition values_of (c : chart) (root : bool) (pv : val) : val := if root then pv else child_values pv (ch_name c).

Fixpoint node_at (c : chart) (root : bool) (id : sid) (pv rel caps : val) (p : sid) {struct p} : option stree :=
  match p with
  | [] => Some (node_of c root id pv rel caps)
  | (n, O) :: p' =>
      match find_dep n (ch_deps c) with
      | Some d => node_at d false (id ++ [(n, 0)])%list (values_of c root pv) rel caps p'
      | None => None
      end
  | (_, S _) :: _ => None
  end.

Lemma sget_app {V} k (l1 l2 : list (sid * V)) :
  sget k (l1 ++ l2) = match sget k l1 with Some v => Some v | None => sget k l2 end.
Proof. induction l1 as [|[k' v] t IH]; simpl; auto. destruct (sid_eqb k k'); auto. Qed.

Definition under (pre : sid) (l : smap) : Prop := Forall (fun kv => exists q, fst kv = (pre ++ q)%list) l.

Lemma under_app pre l1 l2 : under pre l1 -> under pre l2 -> under pre (l1 ++ l2)%list.
Proof. intros H1 H2. apply Forall_app. split; auto. Qed.

Lemma under_weaken pre x l : under (pre ++ [x])%list l -> under pre l.
Proof.
  unfold under. intros H. rewrite Forall_forall in *. intros kv Hkv. destruct (H kv Hkv) as [q E].
  exists (x :: q). rewrite E, <- app_assoc. reflexivity.
Qed.

(* every scope map of the subtree of c has an identity that extends c's *)
Lemma tree_nodes_under c : forall root id pv rel caps, under id (tree_nodes c root id pv rel caps).
Proof.
  induction c as [n ty me ts fs ds IH] using chart_ind'. intros root id pv rel caps.
  rewrite tree_nodes_unfold. cbv zeta. constructor.
  - exists []. simpl. now rewrite app_nil_r.
  - set (values := if root then pv else child_values pv n).
    assert (Hgo : forall l seen, Forall (fun c => forall root id pv rel caps, under id (tree_nodes c root id pv rel caps)) l ->
              under id (nodes_go tree_nodes id values rel caps l seen)).
    { clear. induction l as [|d r IHl]; intros seen Hf; simpl; [constructor|].
      inversion Hf; subst. apply under_app; [now apply IHl|]. eapply under_weaken. apply H1. }
    now apply Hgo.
Qed.

Lemma sget_not_under pre k (l : smap) : under pre l -> (forall q, k <> (pre ++ q)%list) -> sget k l = None.
Proof.
  intros Hu Hk. apply sget_notin. intros Hin. apply in_map_iff in Hin. destruct Hin as [kv [E Hkv]].
  unfold under in Hu. rewrite Forall_forall in Hu. destruct (Hu kv Hkv) as [q Eq]. apply (Hk q). rewrite <- E. exact Eq.
Qed.

Lemma count_name_notin n seen : ~ In n seen -> count_name n seen = 0.
Proof.
  induction seen as [|x t IH]; simpl; auto. intros H.
  destruct (String.eqb n x) eqn:E.
  - apply String.eqb_eq in E. subst. exfalso. apply H. now left.
  - apply IH. intros Hi. apply H. now right.
Qed.

Lemma find_dep_cons n d ds : find_dep n (d :: ds) = if String.eqb (ch_name d) n then Some d else find_dep n ds.
Proof. reflexivity. Qed.

Lemma find_dep_none n ds : ~ In n (map ch_name ds) -> find_dep n ds = None.
Proof.
  induction ds as [|d r IH]; [reflexivity|]. intros H. rewrite find_dep_cons. simpl in H.
  destruct (String.eqb (ch_name d) n) eqn:E.
  - apply String.eqb_eq in E. exfalso. apply H. now left.
  - apply IH. intros Hi. apply H. now right.
Qed.

Lemma sid_suffix_neq (id : sid) x q : (id ++ x :: q)%list <> id.
Proof.
  intros H. assert (L : List.length (id ++ x :: q) = List.length id) by now rewrite H.
  rewrite app_length in L. simpl in L. lia.
Qed.

Definition at_spec (c : chart) : Prop := forall root id pv rel caps p,
  wf_chart c -> sget (id ++ p)%list (tree_nodes c root id pv rel caps) = node_at c root id pv rel caps p.

Lemma tree_nodes_at c : at_spec c.
Proof.
  induction c as [n ty me ts fs ds IH] using chart_ind'. intros root id pv rel caps p Hwf.
  inversion Hwf as [? ? ? ? ? ? Hn Hts Hnd Hdn Hds]; subst.
  rewrite tree_nodes_unfold. cbv zeta. set (values := if root then pv else child_values pv n).
  destruct p as [|[m k] p'].
  - rewrite app_nil_r. simpl. now rewrite sid_eqb_refl.
  - simpl sget. rewrite sid_eqb_neq by apply sid_suffix_neq.
    change (values_of (Chart n ty me ts fs ds) root pv) with values. simpl ch_deps.
    assert (Hgo : forall l seen, Forall at_spec l -> Forall wf_chart l -> NoDup (map ch_name l) ->
              (forall d, In d l -> ~ In (ch_name d) seen) ->
              sget (id ++ (m, k) :: p')%list (nodes_go tree_nodes id values rel caps l seen) =
              match k with
              | O => match find_dep m l with
                     | Some d => node_at d false (id ++ [(m, 0)])%list values rel caps p'
                     | None => None
                     end
              | S _ => None
              end).
    { clear - id. induction l as [|d r IHl]; intros seen Hf Hw Hnd Hseen.
      - simpl. now destruct k.
      - inversion Hf as [|? ? Hd Hr]; subst. inversion Hw as [|? ? Hwd Hwr]; subst. inversion Hnd as [|? ? Hni Hnr]; subst.
        simpl nodes_go. rewrite sget_app.
        rewrite (count_name_notin (ch_name d) seen) by (apply Hseen; now left).
        rewrite IHl; auto.
        2:{ intros d' Hd' [E|Hi]; [|apply (Hseen d'); [now right|exact Hi]].
            apply Hni. rewrite E. now apply in_map. }
        rewrite find_dep_cons.
        destruct (String.eqb (ch_name d) m) eqn:E.
        + apply String.eqb_eq in E. subst m. rewrite (find_dep_none (ch_name d) r Hni).
          destruct k as [|k'].
          * change (id ++ (ch_name d, 0) :: p')%list with (id ++ [(ch_name d, 0)] ++ p')%list. rewrite app_assoc.
            apply Hd. exact Hwd.
          * apply sget_not_under with (pre := (id ++ [(ch_name d, 0)])%list); [apply tree_nodes_under|].
            intros q H. rewrite <- app_assoc in H. apply app_inv_head in H. simpl in H. discriminate.
        + assert (Hnone : sget (id ++ (m, k) :: p')%list
                               (tree_nodes d false (id ++ [(ch_name d, 0)])%list values rel caps) = None).
          { apply sget_not_under with (pre := (id ++ [(ch_name d, 0)])%list); [apply tree_nodes_under|].
            intros q H. rewrite <- app_assoc in H. apply app_inv_head in H. simpl in H. inversion H; subst.
            now rewrite String.eqb_refl in E. }
          rewrite Hnone. destruct k as [|k']; [|reflexivity].
          destruct (find_dep m r) as [d2|]; [|reflexivity].
          now destruct (node_at d2 false (id ++ [(m, 0)])%list values rel caps p'). }
    rewrite (Hgo ds [] IH Hds Hdn (fun d _ H => H)). destruct k; reflexivity.
Qed.

(* ------------------------------------------------------------------ re-ordered dependency lists *)

Inductive dperm : chart -> chart -> Prop :=
| dperm_intro n ty me ts fs ds ds' l :
    Permutation ds l -> Forall2 dperm l ds' -> dperm (Chart n ty me ts fs ds) (Chart n ty me ts fs ds').

Lemma dperm_name c c' : dperm c c' -> ch_name c' = ch_name c.
Proof. intros H. now inversion H. Qed.

Lemma Forall2_dperm_names l l' : Forall2 dperm l l' -> map ch_name l' = map ch_name l.
Proof. induction 1; simpl; auto. f_equal; auto. now apply dperm_name. Qed.

Lemma find_dep_in n ds d : find_dep n ds = Some d -> In d ds /\ ch_name d = n.
Proof. unfold find_dep. intros H. apply find_some in H. destruct H as [H1 H2]. apply String.eqb_eq in H2. auto. Qed.

Lemma find_dep_unique n ds d : NoDup (map ch_name ds) -> In d ds -> ch_name d = n -> find_dep n ds = Some d.
Proof.
  induction ds as [|x r IH]; intros Hnd Hin Hn; [destruct Hin|]. inversion Hnd as [|? ? Hni Hnr]; subst.
  rewrite find_dep_cons. destruct Hin as [->|Hin].
  - now rewrite String.eqb_refl.
  - destruct (String.eqb (ch_name x) (ch_name d)) eqn:E; auto.
    apply String.eqb_eq in E. exfalso. apply Hni. rewrite E. now apply in_map.
Qed.

Lemma find_dep_perm n ds l : NoDup (map ch_name ds) -> Permutation ds l -> find_dep n ds = find_dep n l.
Proof.
  intros Hnd Hp.
  assert (Hndl : NoDup (map ch_name l)) by (eapply Permutation_NoDup; [apply Permutation_map; exact Hp|exact Hnd]).
  destruct (find_dep n ds) as [d|] eqn:E.
  - apply find_dep_in in E. destruct E as [Hin Hn]. symmetry. apply find_dep_unique; auto.
    eapply Permutation_in; eauto.
  - destruct (find_dep n l) as [d|] eqn:E2; auto.
    apply find_dep_in in E2. destruct E2 as [Hin Hn].
    assert (find_dep n ds = Some d).
    { apply find_dep_unique; auto. eapply Permutation_in; [apply Permutation_sym; exact Hp|exact Hin]. }
    congruence.
Qed.

Lemma find_dep_forall2 n l l' : Forall2 dperm l l' ->
  match find_dep n l, find_dep n l' with
  | Some d, Some d' => dperm d d'
  | None, None => True
  | _, _ => False
  end.
Proof.
  induction 1 as [|a b l l' Hab _ IH]; [exact I|].
  rewrite !find_dep_cons, (dperm_name a b Hab). destruct (String.eqb (ch_name a) n); auto.
Qed.

Lemma find_dep_dperm n ds l ds' : NoDup (map ch_name ds) -> Permutation ds l -> Forall2 dperm l ds' ->
  match find_dep n ds, find_dep n ds' with
  | Some d, Some d' => dperm d d'
  | None, None => True
  | _, _ => False
  end.
Proof. intros Hnd Hp Hf. rewrite (find_dep_perm n ds l Hnd Hp). now apply find_dep_forall2. Qed.

(* well-formedness survives the re-ordering *)
Lemma Forall_perm {A} (P : A -> Prop) l l' : Permutation l l' -> Forall P l -> Forall P l'.
Proof. intros Hp H. rewrite Forall_forall in *. intros x Hx. apply H. eapply Permutation_in; [apply Permutation_sym; exact Hp|exact Hx]. Qed.

Lemma dperm_wf c : forall c', wf_chart c -> dperm c c' -> wf_chart c'.
Proof.
  induction c as [n ty me ts fs ds IH] using chart_ind'. intros c' Hwf Hd.
  inversion Hwf as [? ? ? ? ? ? Hn Hts Hnd Hdn Hds]; subst.
  inversion Hd as [? ? ? ? ? ? ds' l Hp Hf]; subst.
  constructor; auto.
  - rewrite (Forall2_dperm_names l ds' Hf). eapply Permutation_NoDup; [apply Permutation_map; exact Hp|exact Hdn].
  - assert (Hl : Forall (fun d => wf_chart d /\ forall c', wf_chart d -> dperm d c' -> wf_chart c') l).
    { apply (Forall_perm _ ds l Hp). rewrite Forall_forall in *. intros d Hdin. split; [apply Hds; exact Hdin|apply IH; exact Hdin]. }
    clear - Hf Hl. induction Hf as [|a b l l' Hab _ IHf]; constructor.
    + inversion Hl as [|? ? [Hw Hi] _]; subst. now apply Hi.
    + apply IHf. now inversion Hl.
Qed.

(* ---- the scope maps: equal up to the order of "Subcharts" ---- *)

Lemma subs_go_aget id values rel caps m : forall ds seen subs0,
  NoDup (map ch_name ds) -> (forall d, In d ds -> ~ In (ch_name d) seen) ->
  aget m (subs_go node_of id values rel caps ds seen subs0) =
  match find_dep m ds with
  | Some d => Some (node_of d false (id ++ [(m, 0)])%list values rel caps)
  | None => aget m subs0
  end.
Proof.
  induction ds as [|d r IH]; intros seen subs0 Hnd Hseen; [reflexivity|].
  inversion Hnd as [|? ? Hni Hnr]; subst. simpl subs_go. rewrite IH; auto.
  2:{ intros d' Hd' [E|Hi]; [|apply (Hseen d'); [now right|exact Hi]]. apply Hni. rewrite E. now apply in_map. }
  rewrite find_dep_cons. rewrite (count_name_notin (ch_name d) seen) by (apply Hseen; now left).
  destruct (String.eqb (ch_name d) m) eqn:E.
  - apply String.eqb_eq in E. subst m. rewrite (find_dep_none (ch_name d) r Hni). apply aget_aset_eq.
  - destruct (find_dep m r); auto. apply aget_aset_neq. intros H. rewrite H in E. now rewrite String.eqb_refl in E.
Qed.

Definition node_dperm_spec (c : chart) : Prop := forall c' root id pv rel caps,
  wf_chart c -> dperm c c' -> seq (node_of c root id pv rel caps) (node_of c' root id pv rel caps).

Lemma node_of_dperm c : node_dperm_spec c.
Proof.
  induction c as [n ty me ts fs ds IH] using chart_ind'. intros c' root id pv rel caps Hwf Hd.
  inversion Hwf as [? ? ? ? ? ? Hn Hts Hnd Hdn Hds]; subst.
  inversion Hd as [? ? ? ? ? ? ds' l Hp Hf]; subst.
  rewrite !node_of_unfold. cbv zeta. constructor; try apply veq_refl.
  intros m.
  assert (Hdn' : NoDup (map ch_name ds')).
  { rewrite (Forall2_dperm_names l ds' Hf). eapply Permutation_NoDup; [apply Permutation_map; exact Hp|exact Hdn]. }
  rewrite !subs_go_aget; auto.
  pose proof (find_dep_dperm m ds l ds' Hdn Hp Hf) as Hfd.
  destruct (find_dep m ds) as [d|] eqn:E1; destruct (find_dep m ds') as [d'|] eqn:E2; try contradiction.
  - constructor. apply find_dep_in in E1. destruct E1 as [Hin _].
    rewrite Forall_forall in IH, Hds. apply IH; auto.
  - constructor.
Qed.

Lemma node_at_dperm p : forall c c' root id pv rel caps,
  wf_chart c -> dperm c c' -> orel seq (node_at c root id pv rel caps p) (node_at c' root id pv rel caps p).
Proof.
  induction p as [|[m k] p' IH]; intros c c' root id pv rel caps Hwf Hd.
  - simpl. constructor. now apply node_of_dperm.
  - destruct k as [|k']; [|constructor]. simpl.
    inversion Hwf as [? ? ? ? ? ? Hn Hts Hnd Hdn Hds]; subst.
    inversion Hd as [? ? ? ? ? ? ds' l Hp Hf]; subst. simpl ch_deps. unfold values_of. simpl ch_name.
    pose proof (find_dep_dperm m ds l ds' Hdn Hp Hf) as Hfd.
    destruct (find_dep m ds) as [d|] eqn:E1; destruct (find_dep m ds') as [d'|] eqn:E2; try contradiction; [|constructor].
    apply IH; auto. apply find_dep_in in E1. destruct E1 as [Hin _]. rewrite Forall_forall in Hds. auto.
Qed.

Theorem tree_nodes_dperm c c' pv rel caps :
  wf_chart c -> dperm c c' -> store_rel (tree_nodes c true [] pv rel caps) (tree_nodes c' true [] pv rel caps).
Proof.
  intros Hwf Hd sid.
  pose proof (tree_nodes_at c true [] pv rel caps sid Hwf) as H1.
  pose proof (tree_nodes_at c' true [] pv rel caps sid (dperm_wf c c' Hwf Hd)) as H2.
  simpl in H1, H2. rewrite H1, H2. now apply node_at_dperm.
Qed.

(* ---- the template set: the same set ---- *)

Lemma entries_go_flat id full : forall ds seen,
  NoDup (map ch_name ds) -> (forall d, In d ds -> ~ In (ch_name d) seen) ->
  entries_go id full ds seen = flat_map (fun d => tree_entries d false (id ++ [(ch_name d, 0)])%list full) ds.
Proof.
  induction ds as [|d r IH]; intros seen Hnd Hseen; [reflexivity|].
  inversion Hnd as [|? ? Hni Hnr]; subst. simpl.
  rewrite (count_name_notin (ch_name d) seen) by (apply Hseen; now left). f_equal. apply IH; auto.
  intros d' Hd' [E|Hi]; [|apply (Hseen d'); [now right|exact Hi]]. apply Hni. rewrite E. now apply in_map.
Qed.

Lemma flat_map_forall2 {A B} (f g : A -> list B) l l' :
  Forall2 (fun a b => Permutation (f a) (g b)) l l' -> Permutation (flat_map f l) (flat_map g l').
Proof. induction 1; simpl; auto. now apply Permutation_app. Qed.

Definition entries_dperm_spec (c : chart) : Prop := forall c' root id pfull,
  wf_chart c -> dperm c c' -> Permutation (tree_entries c root id pfull) (tree_entries c' root id pfull).

Lemma tree_entries_dperm c : entries_dperm_spec c.
Proof.
  induction c as [n ty me ts fs ds IH] using chart_ind'. intros c' root id pfull Hwf Hd.
  inversion Hwf as [? ? ? ? ? ? Hn Hts Hnd Hdn Hds]; subst.
  inversion Hd as [? ? ? ? ? ? ds' l Hp Hf]; subst.
  assert (Hdn' : NoDup (map ch_name ds')).
  { rewrite (Forall2_dperm_names l ds' Hf). eapply Permutation_NoDup; [apply Permutation_map; exact Hp|exact Hdn]. }
  rewrite !tree_entries_unfold. apply Permutation_app_tail.
  rewrite !entries_go_flat; auto.
  set (full := chart_full root pfull n).
  eapply perm_trans; [apply Permutation_flat_map; exact Hp|].
  apply flat_map_forall2.
  assert (Hl : Forall (fun d => wf_chart d /\ entries_dperm_spec d) l).
  { apply (Forall_perm _ ds l Hp). rewrite Forall_forall in *. intros d Hdin. split; [apply Hds; exact Hdin|apply IH; exact Hdin]. }
  clear - Hf Hl. induction Hf as [|a b l l' Hab _ IHf]; constructor.
  - inversion Hl as [|? ? [Hw Hi] _]; subst. rewrite (dperm_name a b Hab). now apply Hi.
  - apply IHf. now inversion Hl.
Qed.

(* ---- the render ---- *)

Section DepsRender.
  Variable file_val : string -> val.
  Variable tset : Type.
  Variable parse : tset -> string -> string -> option tset.
  Variable ustate : Type.
  Variable exec : tset -> ustate -> string -> val -> option (string * ustate).
  Hypothesis exec_veq : forall t u k v v', veq v v' -> exec t u k v = exec t u k v'.

  Lemma render_tpls_perm t0 u0 tpls tpls' store :
    NoDup (map fst tpls) -> Permutation tpls tpls' ->
    render file_val tset parse ustate exec t0 u0 tpls store = render file_val tset parse ustate exec t0 u0 tpls' store.
  Proof.
    intros Hnd Hp. unfold render.
    rewrite <- (sort_templates_perm (map fst tpls) (map fst tpls')) by auto using Permutation_map.
    rewrite (parse_files_ext tset parse t0 _ tpls tpls') by (now apply aget_perm).
    destruct (parse_files tset parse t0 _ tpls'); auto.
    now rewrite (exec_files_ext file_val tset ustate exec t store store [] u0 _ tpls tpls') by (try apply aget_perm; auto).
  Qed.

  (* (a) the order of the dependency lists (at every level of a well-formed tree) does not reach the
     rendered map, the final state or the error *)
  Theorem engine_render_dependency_order t0 u0 c c' top :
    wf_chart c -> dperm c c' ->
    engine_render_tree file_val tset parse ustate exec t0 u0 c top = engine_render_tree file_val tset parse ustate exec t0 u0 c' top.
  Proof.
    intros Hwf Hd. pose proof (dperm_wf c c' Hwf Hd) as Hwf'. unfold engine_render_tree.
    pose proof (all_templates_is_tree_entries c top Hwf) as H1. pose proof (all_templates_is_tree_entries c' top Hwf') as H1'.
    pose proof (all_templates_store c top) as H2. pose proof (all_templates_store c' top) as H2'.
    destruct (all_templates c top) as [tpls store]. destruct (all_templates c' top) as [tpls' store']. simpl in *. subst.
    rewrite (render_tpls_perm t0 u0 _ (tree_entries c' true [] "") _).
    - apply render_store_rel; auto. now apply tree_nodes_dperm.
    - now apply tree_entries_keys_nodup.
    - now apply tree_entries_dperm.
  Qed.
End DepsRender.

Lemma dperm_refl c : dperm c c.
Proof.
  induction c as [n ty me ts fs ds IH] using chart_ind'. apply (dperm_intro n ty me ts fs ds ds ds); auto.
  induction IH; constructor; auto.
Qed.

Lemma dperm_swap n ty me ts fs a b : dperm (Chart n ty me ts fs [a; b]) (Chart n ty me ts fs [b; a]).
Proof.
  apply (dperm_intro n ty me ts fs [a; b] [b; a] [b; a]); [apply perm_swap|].
  repeat constructor; apply dperm_refl.
Qed.

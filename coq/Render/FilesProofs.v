(* Proofs about Render/Files.v: the .Files object is a function of the chart's file map and
   does not depend on the order in which that Go map is iterated. *)
From Coq Require Import List String Ascii Bool Arith Permutation.
From Helm Require Import Common.Assoc Render.SortLemmas Render.Pipeline Render.PipelineProofs Render.Files.
Import ListNotations.
Local Open Scope string_scope.

Lemma files_get_perm (f f' : files) :
  NoDup (map fst f) -> Permutation f f' -> forall n, files_get n f = files_get n f'.
Proof. intros Hnd Hp n. unfold files_get. now rewrite (aget_perm f f' Hnd Hp). Qed.

Lemma files_lines_perm (f f' : files) :
  NoDup (map fst f) -> Permutation f f' -> forall n, files_lines n f = files_lines n f'.
Proof. intros Hnd Hp n. unfold files_lines. now rewrite (aget_perm f f' Hnd Hp). Qed.

Lemma fold_left_ext {A B} (g g' : A -> B -> A) l a :
  (forall x y, g x y = g' x y) -> fold_left g l a = fold_left g' l a.
Proof. intros H. revert a. induction l; simpl; auto. intros. now rewrite H. Qed.

Section FP.
  Variable gmatch : string -> string -> bool.
  Variable to_yaml : list (string * string) -> string.
  Variable b64 : string -> string.

  Lemma base_map_perm enc (f f' : files) :
    NoDup (map fst f) -> Permutation f f' -> base_map enc f = base_map enc f'.
  Proof.
    intros Hnd Hp. unfold base_map.
    rewrite (sort_strings_perm (map fst f) (map fst f')) by auto using Permutation_map.
    rewrite (fold_left_ext _ (fun m k => aset (path_base k) (enc (files_get k f')) m)); auto.
    intros. now rewrite (files_get_perm f f' Hnd Hp).
  Qed.

  Lemma files_glob_perm p (f f' : files) : Permutation f f' -> Permutation (files_glob gmatch p f) (files_glob gmatch p f').
  Proof. apply filter_perm. Qed.

  Lemma files_glob_nodup p (f : files) : NoDup (map fst f) -> NoDup (map fst (files_glob gmatch p f)).
  Proof. apply NoDup_keys_filter. Qed.

  Theorem files_closed (f f' : files) :
    NoDup (map fst f) -> Permutation f f' ->
    (forall n, files_get n f = files_get n f') /\
    (forall n, files_lines n f = files_lines n f') /\
    (forall p, Permutation (files_glob gmatch p f) (files_glob gmatch p f')) /\
    (forall p, as_config to_yaml (files_glob gmatch p f) = as_config to_yaml (files_glob gmatch p f')) /\
    (forall p, as_secrets to_yaml b64 (files_glob gmatch p f) = as_secrets to_yaml b64 (files_glob gmatch p f')) /\
    (forall p n, files_get n (files_glob gmatch p f) = files_get n (files_glob gmatch p f')).
  Proof.
    intros Hnd Hp. repeat split.
    - now apply files_get_perm.
    - now apply files_lines_perm.
    - intros. now apply files_glob_perm.
    - intros p. unfold as_config. f_equal. apply base_map_perm; [now apply files_glob_nodup|now apply files_glob_perm].
    - intros p. unfold as_secrets. f_equal. apply base_map_perm; [now apply files_glob_nodup|now apply files_glob_perm].
    - intros p n. apply files_get_perm; [now apply files_glob_nodup|now apply files_glob_perm].
  Qed.
End FP.

(* F11 (repaired by 8d6e67f): with the map filled in iteration order, two orders of the same
   two files with one base name give different ConfigMap data *)
Lemma base_map_prefix_refuted :
  exists f f' : files, NoDup (map fst f) /\ Permutation f f' /\
    base_map_prefix (fun s => s) f <> base_map_prefix (fun s => s) f'.
Proof.
  exists [("conf/a/x.txt", "A"); ("conf/b/x.txt", "B")], [("conf/b/x.txt", "B"); ("conf/a/x.txt", "A")].
  split; [|split].
  - repeat constructor; simpl; intuition discriminate.
  - apply perm_swap.
  - vm_compute. discriminate.
Qed.

(* non-vacuity of [files_closed] on the same witness: the repaired code agrees on both orders *)
Example base_map_fixed_witness :
  base_map (fun s => s) [("conf/a/x.txt", "A"); ("conf/b/x.txt", "B")] = [("x.txt", "B")] /\
  base_map (fun s => s) [("conf/b/x.txt", "B"); ("conf/a/x.txt", "A")] = [("x.txt", "B")].
Proof. vm_compute. auto. Qed.

(* C05 (round 4) — Helm's own glue in pkg/engine/engine.go, as executable Gallina:

     allTemplates / recAllTpls (:400-454)   the template set of a chart TREE: per chart the scope map
                                            {Chart, Files, Release, Capabilities, Values, Subcharts},
                                            the recursion into Dependencies() with the subCharts map,
                                            isTemplateValid / isLibraryChart (:457-467), the keys
                                            path.Join(ChartFullPath, t.Name), the base path
     Engine.render (:277-334)               parse every template in sortTemplates order, execute the
                                            non-partial ones in the same order, vals["Template"] set
                                            on the chart's scope map before each execution,
                                            strings.ReplaceAll(out, "<no value>", "")

   Go maps are association lists (Common.Assoc: [aset] replaces in place / appends, so the keys of a
   map built by the model are unique by construction).  A scope map is ONE Go object per chart,
   shared by all templates of that chart and reachable from the parent's "Subcharts" entry: it is
   identified by the path of its chart below the root ([sid]); what [render] itself writes into it (the
   "Template" entry) is the threaded state [tstate].  What the templates write (sprig set/unset on
   the values they share) is the executor's own state [ustate].

   text/template is a Section variable: [parse] is t.New(name).Parse(src), [exec] is
   t.ExecuteTemplate(name, vals) on the scope value as Helm built it.  Definitions only; proofs in
   Render/EngineProofs.v. *)
From Coq Require Import List String Ascii Bool Arith ZArith.
From Helm Require Import Common.Assoc Values.Tree Values.Scope Render.SortLemmas Render.Pipeline Render.Files.
From Helm Require Chart.Paths.
Import ListNotations.
Local Open Scope string_scope.

(* ------------------------------------------------------------------ strings *)

(* strings.ReplaceAll(s, old, new) for a non-empty [old]: leftmost non-overlapping matches.
   [skip] = bytes of a match still to be dropped. *)
Fixpoint replace_all_go (old new : string) (skip : nat) (s : string) : string :=
  match s with
  | EmptyString => EmptyString
  | String c t =>
      match skip with
      | S k => replace_all_go old new k t
      | O => if String.prefix old s
             then new ++ replace_all_go old new (String.length old - 1) t
             else String c (replace_all_go old new 0 t)
      end
  end.
Definition replace_all (old new s : string) : string := replace_all_go old new 0 s.

Definition no_value : string := "<no value>".

(* strings.EqualFold(t, "library"): no letter of "library" has a non-ASCII simple-fold partner
   (those are k/K/U+212A and s/S/U+017F), so folding is ASCII case folding here *)
Definition is_library (typ : string) : bool := String.eqb (to_lower typ) "library".

(* ------------------------------------------------------------------ charts *)

Inductive chart := Chart {
  ch_name : string;                                  (* Metadata.Name *)
  ch_type : string;                                  (* Metadata.Type *)
  ch_meta : vmap;                                    (* *Metadata as a template sees it (opaque to the glue) *)
  ch_templates : list (option (string * string));    (* c.Templates: (Name, Data); None = a nil entry *)
  ch_files : list (string * string);                 (* c.Files: (Name, Data) in slice order *)
  ch_deps : list chart                               (* c.Dependencies() in slice order *)
}.

(* the identity of a chart's scope map: the path of the chart below the root; a step is the
   dependency's name and the number of EARLIER siblings with the same name (0 everywhere when
   sibling names are distinct), so that two dependencies with one name are still two objects *)
Definition sid := list (string * nat).

Definition step_eqb (a b : string * nat) : bool := String.eqb (fst a) (fst b) && Nat.eqb (snd a) (snd b).

Fixpoint sid_eqb (a b : sid) : bool :=
  match a, b with
  | [], [] => true
  | x :: a', y :: b' => step_eqb x y && sid_eqb a' b'
  | _, _ => false
  end.

Fixpoint count_name (n : string) (seen : list string) : nat :=
  match seen with
  | [] => 0
  | x :: t => if String.eqb n x then S (count_name n t) else count_name n t
  end.

Section SidMap.
  Context {V : Type}.
  Fixpoint sget (k : sid) (l : list (sid * V)) : option V :=
    match l with
    | [] => None
    | (k', v) :: t => if sid_eqb k k' then Some v else sget k t
    end.
  Fixpoint sset (k : sid) (v : V) (l : list (sid * V)) : list (sid * V) :=
    match l with
    | [] => [(k, v)]
    | (k', v') :: t => if sid_eqb k k' then (k, v) :: t else (k', v') :: sset k v t
    end.
End SidMap.

(* renderable *)
Record renderable := mkR { r_tpl : string; r_scope : sid; r_base : string }.

(* the scope map `next` of one chart, without the "Template" entry; its Subcharts entry refers
   to the scope maps of the children (the same objects their templates use) *)
Inductive stree := SNode {
  st_id : sid;
  st_chart : val;                                    (* struct{Metadata; IsRoot} *)
  st_files : files;                                  (* newFiles(c.Files) *)
  st_release : val;                                  (* vals["Release"] *)
  st_caps : val;                                     (* vals["Capabilities"] *)
  st_values : val;
  st_subs : list (string * stree)                    (* subCharts *)
}.

Definition tmap := list (string * renderable).       (* map[string]renderable *)
Definition smap := list (sid * stree).               (* every scope map that exists, by identity *)

(* v[k] of a Go map holding interface{} values: nil when absent *)
Definition vindex (k : string) (m : vmap) : val :=
  match mget k m with Some v => v | None => VNull end.

(* vals.Table("Values." + c.Name()) on the parent's scope map: parsePath splits the whole string
   at dots, "Values" must hold a table, every further segment too; otherwise the child keeps the
   empty make(chartutil.Values) *)
Definition child_values (parent_values : val) (name : string) : val :=
  match parent_values with
  | VMap m => VMap (scoped_values false name m)
  | _ => VMap []
  end.

(* struct{chart.Metadata; IsRoot bool}{*c.Metadata, c.IsRoot()} *)
Definition chart_entry (meta : vmap) (root : bool) : val := VMap (mset "IsRoot" (VBool root) meta).

(* the loop over c.Templates *)
Definition add_templates (lib : bool) (full : string) (id : sid)
           (templates : list (option (string * string))) (tpls : tmap) : tmap :=
  fold_left
    (fun m t =>
       match t with
       | None => m                                                     (* t == nil *)
       | Some (n, data) =>
           if (lib && negb (is_partial n))%bool then m                 (* !isTemplateValid(c, t.Name) *)
           else aset (Paths.path_join full n) (mkR data id (Paths.path_join full "templates")) m
       end)
    templates tpls.

(* recAllTpls.  [root] = c.IsRoot(); [pfull] = the parent's ChartFullPath(); [pvalues] = the
   parent's next["Values"] (for the root: vals["Values"]); [rel], [caps] are handed down unchanged.
   Returns the templates map, the store of scope maps, and this chart's scope map. *)
Fixpoint rec_all_tpls (c : chart) (root : bool) (id : sid) (pfull : string) (pvalues rel caps : val)
         (tpls : tmap) (store : smap) {struct c} : tmap * smap * stree :=
  match c with
  | Chart name typ meta templates cfiles deps =>
      let full := if root then name else pfull ++ "/charts/" ++ name in
      let values := if root then pvalues else child_values pvalues name in
      let '(tpls1, store1, subs) :=
        (fix go (ds : list chart) (seen : list string) (tpls : tmap) (store : smap) (subs : list (string * stree))
           {struct ds} : tmap * smap * list (string * stree) :=
           match ds with
           | [] => (tpls, store, subs)
           | d :: rest =>
               let id' := (id ++ [(ch_name d, count_name (ch_name d) seen)])%list in
               let '(tp, sto, nd) := rec_all_tpls d false id' full values rel caps tpls store in
               go rest (ch_name d :: seen) tp sto (aset (ch_name d) nd subs)   (* subCharts[child.Name()] = ... *)
           end) deps [] tpls store [] in
      let node := SNode id (chart_entry meta root) (new_files cfiles) rel caps values subs in
      (add_templates (is_library typ) full id templates tpls1, (id, node) :: store1, node)
  end.

(* allTemplates(c, vals) for a root chart *)
Definition all_templates (c : chart) (top : vmap) : tmap * smap :=
  let '(tpls, store, _) :=
    rec_all_tpls c true [] "" (vindex "Values" top) (vindex "Release" top) (vindex "Capabilities" top) [] [] in
  (tpls, store).

(* ------------------------------------------------------------------ the scope value *)

(* vals["Template"] = chartutil.Values{"Name": filename, "BasePath": basePath}, per scope map *)
Definition tstate := list (sid * (string * string)).

Definition template_entry (nb : string * string) : val :=
  VMap [("BasePath", VStr (snd nb)); ("Name", VStr (fst nb))].

Section View.
  Variable file_val : string -> val.       (* how a template sees a []byte (toJson: base64 text) *)

  Definition files_val (f : files) : val := VMap (map (fun kv => (fst kv, file_val (snd kv))) f).

  (* the scope map as a value, the "Template" entries of this map and of every map reachable
     through "Subcharts" as [render] has left them so far *)
  Fixpoint view (ts : tstate) (t : stree) {struct t} : val :=
    match t with
    | SNode id ch fs rel caps values subs =>
        VMap ([("Capabilities", caps); ("Chart", ch); ("Files", files_val fs); ("Release", rel);
               ("Subcharts", VMap ((fix go (l : list (string * stree)) : vmap :=
                                      match l with
                                      | [] => []
                                      | (n, s) :: r => (n, view ts s) :: go r
                                      end) subs))]
              ++ match sget id ts with
                 | Some nb => [("Template", template_entry nb)]
                 | None => []
                 end
              ++ [("Values", values)])%list
    end.
End View.

(* ------------------------------------------------------------------ Engine.render *)

Section Render.
  Variable file_val : string -> val.
  Variable tset : Type.                                      (* *template.Template with its set *)
  Variable parse : tset -> string -> string -> option tset.  (* t.New(filename).Parse(r.tpl) *)
  Variable ustate : Type.                                    (* what executed templates wrote to shared values *)
  Variable exec : tset -> ustate -> string -> val -> option (string * ustate).
      (* t.ExecuteTemplate(&buf, filename, vals): the parsed set, the name, the scope value *)

  Fixpoint parse_files (t : tset) (keys : list string) (tpls : tmap) : tset + string :=
    match keys with
    | [] => inl t
    | k :: rest =>
        match aget k tpls with
        | None => inr k                                      (* unreachable: keys are the keys of tpls *)
        | Some r => match parse t k (r_tpl r) with
                    | None => inr k                          (* cleanupParseError *)
                    | Some t' => parse_files t' rest tpls
                    end
        end
    end.

  Fixpoint exec_files (t : tset) (store : smap) (ts : tstate) (us : ustate) (keys : list string) (tpls : tmap)
    : (list (string * string) * (tstate * ustate)) + string :=
    match keys with
    | [] => inl ([], (ts, us))
    | k :: rest =>
        if is_partial k then exec_files t store ts us rest tpls
        else match aget k tpls with
             | None => inr k
             | Some r =>
                 match sget (r_scope r) store with
                 | None => inr k                             (* unreachable: every renderable's scope exists *)
                 | Some node =>
                     let ts' := sset (r_scope r) (k, r_base r) ts in        (* vals["Template"] = ... *)
                     match exec t us k (view file_val ts' node) with
                     | None => inr k                         (* cleanupExecError *)
                     | Some (out, us') =>
                         match exec_files t store ts' us' rest tpls with
                         | inl (m, fin) => inl ((k, replace_all no_value "" out) :: m, fin)
                         | inr e => inr e
                         end
                     end
                 end
             end
    end.

  (* [t0] = template.New("gotpl") with the missingkey option and the function map of the engine *)
  Definition render (t0 : tset) (u0 : ustate) (tpls : tmap) (store : smap)
    : (list (string * string) * (tstate * ustate)) + (stage * string) :=
    let keys := sort_templates (map fst tpls) in
    match parse_files t0 keys tpls with
    | inr f => inr (SParse, f)
    | inl t => match exec_files t store [] u0 keys tpls with
               | inr f => inr (SExec, f)
               | inl r => inl r
               end
    end.

  (* Engine.Render(chrt, values) *)
  Definition engine_render_tree (t0 : tset) (u0 : ustate) (c : chart) (top : vmap) :=
    let '(tpls, store) := all_templates c top in render t0 u0 tpls store.

  (* NOT the code (seeded C05-1 / C05-8): parsed in sorted order, executed while ranging over the map *)
  Definition render_exec_in_map_order (t0 : tset) (u0 : ustate) (tpls : tmap) (store : smap)
    : (list (string * string) * (tstate * ustate)) + (stage * string) :=
    match parse_files t0 (sort_templates (map fst tpls)) tpls with
    | inr f => inr (SParse, f)
    | inl t => match exec_files t store [] u0 (map fst tpls) tpls with
               | inr f => inr (SExec, f)
               | inl r => inl r
               end
    end.
End Render.

(* ------------------------------------------------------------------ the tree read plainly *)

(* what the map holds when no key is written twice: one entry per template that is not nil and is
   valid for its chart's type, children first (in Dependencies() order), then the chart's own *)
Definition own_entries (lib : bool) (full : string) (id : sid) (templates : list (option (string * string)))
  : list (string * renderable) :=
  flat_map (fun t => match t with
                     | None => []
                     | Some (n, data) =>
                         if (lib && negb (is_partial n))%bool then []
                         else [(Paths.path_join full n, mkR data id (Paths.path_join full "templates"))]
                     end) templates.

Fixpoint tree_entries (c : chart) (root : bool) (id : sid) (pfull : string) {struct c} : list (string * renderable) :=
  match c with
  | Chart name typ _ templates _ deps =>
      let full := if root then name else pfull ++ "/charts/" ++ name in
      ((fix go (ds : list chart) (seen : list string) {struct ds} : list (string * renderable) :=
          match ds with
          | [] => []
          | d :: rest => tree_entries d false (id ++ [(ch_name d, count_name (ch_name d) seen)])%list full
                         ++ go rest (ch_name d :: seen)
          end) deps []
       ++ own_entries (is_library typ) full id templates)%list
  end.

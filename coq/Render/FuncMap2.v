(* C05 (round 4) — the function table, semantically.  Gen/C05Funcs.v is regenerated on every run by
   reflection: sprig's key set, funcMap() with the origin of every entry (is it sprig's function of
   that name?), and for each of the 8 engines (LintMode x client provider x EnableDNS) the table
   initFunMap binds on a fresh template.  The obligations: these ARE the model's [func_table] /
   [bound_table] / [rebound] computed from sprig's key set - as sets with origins, no source text. *)
From Coq Require Import List String Bool Permutation.
From Helm Require Import Render.SortLemmas Render.Pipeline Render.Funcs Render.FuncsProofs Gen.FuncMap Gen.C05Funcs.
Import ListNotations.
Local Open Scope string_scope.

Definition pair_ltb (a b : string * origin) : bool := str_ltb (fst a) (fst b).
Definition sort_pairs (l : list (string * origin)) : list (string * origin) := isort pair_ltb l.

(* funcMap() = sprig's table minus env / expandenv, with Helm's own entries put in (replacing
   sprig's of the same name) *)
Lemma funcmap_is_model : funcmap_origins = sort_pairs (func_table sprig_names).
Proof. vm_compute. reflexivity. Qed.

Theorem funcmap_semantic :
  Permutation funcmap_origins (func_table sprig_names) /\
  func_names = map fst funcmap_origins /\
  (forall n, In n ["env"; "expandenv"] -> ~ In n (map fst funcmap_origins)).
Proof.
  split; [|split].
  - rewrite funcmap_is_model. apply isort_perm.
  - vm_compute. reflexivity.
  - intros n Hn Hin. apply (func_table_no_env sprig_names n Hn).
    refine (Permutation_in n (Permutation_map fst _) Hin). rewrite funcmap_is_model. apply isort_perm.
Qed.

Definition all_engines : list engine_opts :=
  [mkEngine false false false false; mkEngine false false false true; mkEngine false false true false; mkEngine false false true true;
   mkEngine false true false false; mkEngine false true false true; mkEngine false true true false; mkEngine false true true true].

(* for every engine: what initFunMap binds is the model's bound table, and the names it re-binds on
   top of funcMap() are the model's [rebound] *)
Lemma bound_is_model :
  map fst bound_origins = all_engines /\
  Forall (fun ce => snd ce = sort_pairs (bound_table (fst ce) sprig_names)) bound_origins.
Proof.
  split; [vm_compute; reflexivity|].
  unfold bound_origins. repeat (apply Forall_cons; [vm_compute; reflexivity|]). apply Forall_nil.
Qed.

Lemma rebound_is_model :
  map fst bound_rebound = all_engines /\
  Forall (fun ce => snd ce = sort_strings (rebound (fst ce))) bound_rebound.
Proof.
  split; [vm_compute; reflexivity|].
  unfold bound_rebound. repeat (apply Forall_cons; [vm_compute; reflexivity|]). apply Forall_nil.
Qed.

Lemma bound_has_dns_name e ot : In (e, ot) bound_origins -> exists o, In ("getHostByName", o) ot.
Proof.
  intros Hin.
  assert (Hall : forallb (fun ce => existsb (fun kv => String.eqb (fst kv) "getHostByName") (snd ce)) bound_origins = true)
    by (vm_compute; reflexivity).
  rewrite forallb_forall in Hall. specialize (Hall _ Hin). cbn [fst snd] in Hall. apply existsb_exists in Hall.
  destruct Hall as [[n o] [Hi E]]. cbn [fst] in E. apply String.eqb_eq in E. subst. eauto.
Qed.

Lemma bound_perm e ot : In (e, ot) bound_origins -> Permutation ot (bound_table e sprig_names).
Proof.
  intros Hin. destruct bound_is_model as [_ Hf]. rewrite Forall_forall in Hf. specialize (Hf _ Hin). cbn [fst snd] in Hf.
  rewrite Hf. apply isort_perm.
Qed.

Theorem bound_semantic e ot :
  In (e, ot) bound_origins ->
  Permutation ot (bound_table e sprig_names) /\
  (forall n, In n ["env"; "expandenv"] -> ~ In n (map fst ot)) /\
  (e_dns e = false -> In ("getHostByName", OHelm) ot) /\
  (lookup_bound e = false -> ~ In "lookup" (rebound e)).
Proof.
  intros Hin. pose proof (bound_perm e ot Hin) as Hp.
  split; [exact Hp|]. split; [|split].
  - intros n Hn Hi. apply (bound_table_no_env e sprig_names n Hn).
    exact (Permutation_in n (Permutation_map fst Hp) Hi).
  - intros Hd. destruct (bound_has_dns_name e ot Hin) as [o Ho].
    assert (Eo : o = OHelm).
    { apply (bound_table_dns e sprig_names o); [|exact Hd]. exact (Permutation_in _ Hp Ho). }
    rewrite <- Eo. exact Ho.
  - intros Hl Hi. apply mem_In in Hi. rewrite rebound_lookup in Hi. congruence.
Qed.

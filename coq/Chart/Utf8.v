(* unicode/utf8.DecodeRuneInString, as it is (first-byte table, accept ranges, RuneError for
   every malformed or truncated sequence).  Used by the model of filepath.Match (Chart/Match.v):
   '?' and character classes consume one rune, classes compare rune values.  Definitions only. *)
From Coq Require Import String Ascii NArith Bool Arith.
Local Open Scope N_scope.

Definition byte_of (a : ascii) : N := N_of_ascii a.

(* utf8.RuneError *)
Definition rune_error : N := 65533.

(* drop the first n bytes: s[n:] *)
Fixpoint sdrop (n : nat) (s : string) : string :=
  match n, s with
  | O, _ => s
  | S n', String _ t => sdrop n' t
  | S _, EmptyString => EmptyString
  end.

(* the entry of utf8.first for a leading byte: None = xx (invalid) or as (ASCII, handled apart);
   Some (size, lo, hi) = sequence length and the accept range of the second byte *)
Definition first_info (b : N) : option (nat * N * N) :=
  if b <? 194 then None                                  (* 00-7F ASCII, 80-C1 invalid *)
  else if b <=? 223 then Some (2%nat, 128, 191)          (* C2-DF: s1 *)
  else if b =? 224 then Some (3%nat, 160, 191)           (* E0: s2 *)
  else if b <=? 236 then Some (3%nat, 128, 191)          (* E1-EC: s3 *)
  else if b =? 237 then Some (3%nat, 128, 159)           (* ED: s4 *)
  else if b <=? 239 then Some (3%nat, 128, 191)          (* EE-EF: s3 *)
  else if b =? 240 then Some (4%nat, 144, 191)           (* F0: s5 *)
  else if b <=? 243 then Some (4%nat, 128, 191)          (* F1-F3: s6 *)
  else if b =? 244 then Some (4%nat, 128, 143)           (* F4: s7 *)
  else None.                                             (* F5-FF invalid *)

Definition cont_ok (b : N) : bool := (128 <=? b) && (b <=? 191).   (* locb <= b <= hicb *)

(* (rune, number of bytes consumed); the empty string gives (RuneError, 0) *)
Definition decode_rune (s : string) : N * nat :=
  match s with
  | EmptyString => (rune_error, 0%nat)
  | String a0 t0 =>
      let s0 := byte_of a0 in
      if s0 <? 128 then (s0, 1%nat) else
      match first_info s0 with
      | None => (rune_error, 1%nat)
      | Some (sz, lo, hi) =>
          match t0 with
          | EmptyString => (rune_error, 1%nat)                       (* n < sz *)
          | String a1 t1 =>
              let s1 := byte_of a1 in
              if (s1 <? lo) || (hi <? s1) then (rune_error, 1%nat) else
              match sz with
              | 2%nat => (N.lor (N.shiftl (N.land s0 31) 6) (N.land s1 63), 2%nat)
              | _ =>
                  match t1 with
                  | EmptyString => (rune_error, 1%nat)
                  | String a2 t2 =>
                      let s2 := byte_of a2 in
                      if negb (cont_ok s2) then (rune_error, 1%nat) else
                      match sz with
                      | 3%nat => (N.lor (N.lor (N.shiftl (N.land s0 15) 12) (N.shiftl (N.land s1 63) 6)) (N.land s2 63), 3%nat)
                      | _ =>
                          match t2 with
                          | EmptyString => (rune_error, 1%nat)
                          | String a3 _ =>
                              let s3 := byte_of a3 in
                              if negb (cont_ok s3) then (rune_error, 1%nat) else
                              (N.lor (N.lor (N.lor (N.shiftl (N.land s0 7) 18) (N.shiftl (N.land s1 63) 12))
                                            (N.shiftl (N.land s2 63) 6)) (N.land s3 63), 4%nat)
                          end
                      end
                  end
              end
          end
      end
  end.

(* The byte-level transcription of Go's path.Clean (PathFns.clean_bytes: the lazybuf loop with
   r, w and dotdot) equals the component-level model (Paths.path_clean) for EVERY byte string. *)
From Coq Require Import List String Ascii Bool Arith Lia.
From Helm Require Import Chart.Paths Chart.PathsProofs Chart.PathFns Chart.PathFnsProofs.
Import ListNotations.
Local Open Scope string_scope.

Lemma good_comp_eqbs' c : good_comp c ->
  (String.eqb c "" || String.eqb c ".") = false /\ String.eqb c ".." = false.
Proof.
  intros (H1 & H2 & H3). apply String.eqb_neq in H1, H2, H3. now rewrite H1, H2, H3.
Qed.

Lemma clean_go_push r acc c l : good_comp c -> clean_go r acc (c :: l) = clean_go r (c :: acc) l.
Proof.
  intros Hg. destruct (good_comp_eqbs' _ Hg) as [E1 E2]. cbn [clean_go]. now rewrite E1, E2.
Qed.

(* ---------- strings and byte lists ---------- *)
Fixpoint string_of_list (l : list ascii) : string :=
  match l with [] => EmptyString | a :: t => String a (string_of_list t) end.

Lemma sol_los s : string_of_list (list_of_string s) = s.
Proof. induction s; simpl; congruence. Qed.

Lemma los_sol l : list_of_string (string_of_list l) = l.
Proof. induction l; simpl; congruence. Qed.

Lemma sol_app a b : string_of_list (a ++ b) = string_of_list a ++ string_of_list b.
Proof. induction a; simpl; congruence. Qed.

Lemma los_app a b : list_of_string (a ++ b) = (list_of_string a ++ list_of_string b)%list.
Proof. induction a; simpl; congruence. Qed.

Lemma string_of_rev_spec l : forall acc, string_of_rev l acc = string_of_list (rev l) ++ acc.
Proof.
  induction l as [|a l IH]; intros acc; simpl; auto.
  rewrite IH, sol_app. simpl. now rewrite append_assoc.
Qed.

Lemma length_los s : List.length (list_of_string s) = String.length s.
Proof. induction s; simpl; auto. Qed.

Definition bnoslash (l : list ascii) : Prop := Forall (fun a => Ascii.eqb a slash = false) l.

Lemma noslash_bytes c : noslash c -> bnoslash (list_of_string c).
Proof.
  unfold noslash, bnoslash. induction c as [|a c IH]; simpl; intros H; constructor.
  - now apply orb_false_iff in H as [H _].
  - apply IH. now apply orb_false_iff in H as [_ H].
Qed.

(* ---------- one path element at the byte level ---------- *)
Fixpoint span (l : list ascii) : list ascii * list ascii :=
  match l with
  | [] => ([], [])
  | a :: t => if Ascii.eqb a slash then ([], l) else let (e, r) := span t in (a :: e, r)
  end.

Lemma copy_elem_span inp : forall out, copy_elem inp out = (snd (span inp), (rev (fst (span inp)) ++ out)%list).
Proof.
  induction inp as [|a t IH]; intros out; simpl; auto.
  destruct (Ascii.eqb a slash); simpl; auto.
  rewrite IH. destruct (span t) as [e r]. simpl. now rewrite <- app_assoc.
Qed.

Lemma span_noslash l : bnoslash (fst (span l)).
Proof.
  induction l as [|a t IH]; simpl; [constructor|].
  destruct (Ascii.eqb a slash) eqn:E; simpl; [constructor|].
  destruct (span t) as [e r]. simpl in *. constructor; auto.
Qed.

Lemma span_rest l : snd (span l) = [] \/ exists t, snd (span l) = slash :: t.
Proof.
  induction l as [|a t IH]; simpl; auto.
  destruct (Ascii.eqb a slash) eqn:E; simpl.
  - right. apply Ascii.eqb_eq in E. subst. eauto.
  - destruct (span t) as [e r]. exact IH.
Qed.

Lemma span_length l : (List.length (snd (span l)) <= List.length l)%nat.
Proof.
  induction l as [|a t IH]; simpl; auto.
  destruct (Ascii.eqb a slash); simpl; auto. destruct (span t) as [e r]. simpl in *. lia.
Qed.

(* what remains after an element, as components *)
Definition tailcomps (rest : list ascii) : list string :=
  match rest with [] => [] | _ :: t => split_on slash (string_of_list t) end.

Lemma split_span l :
  split_on slash (string_of_list l) = string_of_list (fst (span l)) :: tailcomps (snd (span l)).
Proof.
  induction l as [|a t IH]; simpl; auto.
  destruct (Ascii.eqb a slash) eqn:E; simpl; auto.
  rewrite IH. destruct (span t) as [e r]. reflexivity.
Qed.

Lemma clean_go_tail r acc rest :
  rest = [] \/ (exists t, rest = slash :: t) ->
  clean_go r acc (split_on slash (string_of_list rest)) = clean_go r acc (tailcomps rest).
Proof. intros [->|(t & ->)]; reflexivity. Qed.

(* ---------- the output buffer as an encoding of the component stack ---------- *)
(* [acc] is the component stack of clean_go (last component first); enc is the lazybuf content,
   last byte first *)
Fixpoint enc (rooted : bool) (acc : list string) : list ascii :=
  match acc with
  | [] => if rooted then [slash] else []
  | c :: acc' =>
      (rev (list_of_string c) ++ (match acc' with [] => [] | _ => [slash] end) ++ enc rooted acc')%list
  end.

Definition nonempty_all (acc : list string) : Prop := Forall (fun c => c <> "") acc.

Lemma enc_length_rooted acc : nonempty_all acc -> (List.length (enc true acc) = 1 <-> acc = []).
Proof.
  destruct acc as [|c acc']; simpl; [intuition|]. intros H. inversion H; subst.
  split; [|discriminate]. rewrite !app_length, rev_length, length_los.
  destruct c; [congruence|]. simpl. destruct acc'; simpl; lia.
Qed.

Lemma enc_length_rel acc : nonempty_all acc -> (List.length (enc false acc) = 0 <-> acc = [])%nat.
Proof.
  destruct acc as [|c acc']; simpl; [intuition|]. intros H. inversion H; subst.
  split; [|discriminate]. rewrite !app_length, rev_length, length_los.
  destruct c; [congruence|]. simpl. lia.
Qed.

Lemma enc_true_pos acc : (1 <= List.length (enc true acc))%nat.
Proof.
  induction acc as [|c acc IH]; simpl; [lia|]. rewrite !app_length. lia.
Qed.

Lemma enc_length_mono r x y : nonempty_all x -> x <> [] ->
  (List.length (enc r y) < List.length (enc r (x ++ y)))%nat.
Proof.
  induction x as [|c x IH]; intros Hne Hx; [congruence|]. inversion Hne; subst.
  simpl. rewrite !app_length, rev_length, length_los.
  destruct c as [|a c']; [congruence|]. simpl.
  destruct x as [|c2 x'].
  - simpl. lia.
  - assert (c2 :: x' <> []) as Hx2 by discriminate. specialize (IH H2 Hx2). lia.
Qed.

(* decoding the buffer gives back the rendered path *)
Definition render' (rooted : bool) (cs : list string) : string :=
  if rooted then "/" ++ join "/" cs else join "/" cs.

Lemma enc_snoc_decode r acc : nonempty_all acc ->
  string_of_list (rev (enc r acc)) = render' r (rev acc).
Proof.
  induction acc as [|c acc' IH]; intros Hne.
  - destruct r; reflexivity.
  - inversion Hne; subst. specialize (IH H2). simpl enc. simpl rev.
    rewrite !rev_app_distr, rev_involutive, !sol_app, sol_los, IH.
    destruct acc' as [|c2 acc''].
    + simpl. destruct r; simpl; now rewrite ?append_nil_r.
    + assert (rev (c2 :: acc'') <> []) as Hr by (simpl; destruct (rev acc''); discriminate).
      unfold render'. rewrite join_app by (auto; discriminate). simpl rev at 2. simpl string_of_list.
      destruct r; simpl; rewrite ?append_assoc; reflexivity.
Qed.

(* ---------- backing up over the last element ---------- *)
Lemma pop_go_unfold dd kept top :
  pop_go dd kept top =
  if Nat.leb (List.length kept) dd then kept
  else if Ascii.eqb top slash then kept
  else match kept with [] => [] | b :: k' => pop_go dd k' b end.
Proof. destruct kept; reflexivity. Qed.

(* the element's bytes are dropped up to and including the slash in front of it ... *)
Lemma pop_go_to_slash dd out' xs : forall top,
  bnoslash xs -> Ascii.eqb top slash = false -> (dd <= List.length out')%nat ->
  pop_go dd (xs ++ slash :: out') top = out'.
Proof.
  induction xs as [|x xs IH]; intros top Hxs Htop Hle; rewrite pop_go_unfold.
  - simpl app. assert (Nat.leb (List.length (slash :: out')) dd = false) as -> by (apply Nat.leb_gt; simpl; lia).
    rewrite Htop. rewrite pop_go_unfold. destruct (Nat.leb (List.length out') dd); auto.
  - inversion Hxs; subst.
    assert (Nat.leb (List.length ((x :: xs) ++ slash :: out')) dd = false) as ->
      by (apply Nat.leb_gt; simpl; rewrite app_length; simpl; lia).
    rewrite Htop. simpl app. apply IH; auto.
Qed.

(* ... or down to the mark that must not be backed over *)
Lemma pop_go_to_mark dd rest xs : forall top,
  bnoslash xs -> Ascii.eqb top slash = false -> List.length rest = dd ->
  pop_go dd (xs ++ rest) top = rest.
Proof.
  induction xs as [|x xs IH]; intros top Hxs Htop Hlen; rewrite pop_go_unfold.
  - simpl app. subst dd. now rewrite Nat.leb_refl.
  - inversion Hxs; subst.
    assert (Nat.leb (List.length ((x :: xs) ++ rest)) (List.length rest) = false) as ->
      by (apply Nat.leb_gt; simpl; rewrite app_length; lia).
    rewrite Htop. simpl app. apply IH; auto.
Qed.

Lemma pop_elem_enc r c acc' dd :
  c <> "" -> noslash c ->
  (dd <= List.length (enc r acc'))%nat -> (acc' = [] -> List.length (enc r acc') = dd) ->
  pop_elem (enc r (c :: acc')) dd = enc r acc'.
Proof.
  intros Hc Hns Hle Hnil. simpl enc.
  pose proof (noslash_bytes c Hns) as Hb.
  assert (bnoslash (rev (list_of_string c))) as Hrb by (apply Forall_rev; exact Hb).
  destruct (rev (list_of_string c)) as [|x xs] eqn:Er.
  { apply (f_equal (@List.length _)) in Er. rewrite rev_length, length_los in Er.
    destruct c; [congruence|discriminate]. }
  inversion Hrb; subst. simpl app. unfold pop_elem.
  destruct acc' as [|c2 acc''].
  - simpl app. apply pop_go_to_mark; auto.
  - change ((xs ++ [slash] ++ enc r (c2 :: acc''))%list) with ((xs ++ slash :: enc r (c2 :: acc''))%list).
    apply pop_go_to_slash; auto.
Qed.

(* ---------- the loop invariant ---------- *)
Definition goodns (c : string) : Prop := good_comp c /\ noslash c.

Definition rel (rooted : bool) (acc : list string) (out : list ascii) (dd : nat) : Prop :=
  out = enc rooted acc /\
  if rooted then Forall goodns acc /\ dd = 1%nat
  else exists gacc k, acc = (gacc ++ repeat ".." k)%list /\ Forall goodns gacc /\
                      dd = List.length (enc false (repeat ".." k)).

Lemma goodns_nonempty l : Forall goodns l -> nonempty_all l.
Proof. intros H. eapply Forall_impl; [|exact H]. intros c [Hg _]. now apply good_nonempty. Qed.

Lemma dots_nonempty k : nonempty_all (repeat ".." k).
Proof. apply Forall_forall. intros c Hc. apply repeat_spec in Hc. subst. discriminate. Qed.

Lemma rel_nonempty r acc out dd : rel r acc out dd -> nonempty_all acc.
Proof.
  destruct r; intros [_ H].
  - destruct H as [H _]. now apply goodns_nonempty.
  - destruct H as (g & k & -> & Hg & _). apply Forall_app; split; [now apply goodns_nonempty|apply dots_nonempty].
Qed.

(* "can backtrack": out.w > dotdot *)
Lemma rel_can_backtrack r acc out dd : rel r acc out dd ->
  Nat.ltb dd (List.length out) = true ->
  exists c acc', acc = c :: acc' /\ goodns c /\ rel r acc' (enc r acc') dd /\ pop_elem out dd = enc r acc'.
Proof.
  intros Hrel Hlt. pose proof (rel_nonempty _ _ _ _ Hrel) as Hne. apply Nat.ltb_lt in Hlt.
  destruct r; destruct Hrel as [-> H].
  - destruct H as [Hg ->]. destruct acc as [|c acc'].
    { simpl in Hlt. lia. }
    inversion Hg as [|? ? Hc Hg']; subst. exists c, acc'.
    split; [reflexivity|]. split; [exact Hc|]. split; [split; [reflexivity|split; auto]|].
    apply pop_elem_enc; [apply good_nonempty; apply Hc|apply Hc| |].
    + apply enc_true_pos.
    + intros ->. reflexivity.
  - destruct H as (g & k & -> & Hg & ->). destruct g as [|c g'].
    { simpl in Hlt. lia. }
    inversion Hg as [|? ? Hc Hg']; subst. exists c, (g' ++ repeat ".." k)%list.
    split; [reflexivity|]. split; [exact Hc|]. split.
    + split; [reflexivity|]. exists g', k. auto.
    + simpl app. apply pop_elem_enc; [apply good_nonempty; apply Hc|apply Hc| |].
      * destruct g' as [|c2 g''].
        -- simpl. lia.
        -- apply Nat.lt_le_incl. apply enc_length_mono; [now apply goodns_nonempty|discriminate].
      * intros E. apply app_eq_nil in E as [-> Hk]. rewrite Hk. reflexivity.
Qed.

Lemma rel_cannot_backtrack r acc out dd : rel r acc out dd ->
  Nat.ltb dd (List.length out) = false ->
  if r then acc = [] else exists k, acc = repeat ".." k.
Proof.
  intros Hrel Hlt. pose proof (rel_nonempty _ _ _ _ Hrel) as Hne. apply Nat.ltb_ge in Hlt.
  destruct r; destruct Hrel as [-> H].
  - destruct H as [Hg ->]. destruct acc as [|c acc']; auto. exfalso.
    assert (List.length (enc true (c :: acc')) <> 1%nat) as Hn.
    { intro E. apply (enc_length_rooted _ Hne) in E. discriminate. }
    pose proof (enc_true_pos (c :: acc')). lia.
  - destruct H as (g & k & -> & Hg & ->). destruct g as [|c g']; [exists k; reflexivity|]. exfalso.
    assert (List.length (enc false (repeat ".." k)) < List.length (enc false ((c :: g') ++ repeat ".." k)))%nat.
    { apply enc_length_mono; [now apply goodns_nonempty|discriminate]. }
    lia.
Qed.

(* pushing a real element *)
Lemma rel_push r acc out dd c : rel r acc out dd -> goodns c ->
  let out1 := if (r && negb (Nat.eqb (List.length out) 1)) || (negb r && negb (Nat.eqb (List.length out) 0))
              then slash :: out else out in
  rel r (c :: acc) (rev (list_of_string c) ++ out1)%list dd.
Proof.
  intros Hrel Hc. pose proof (rel_nonempty _ _ _ _ Hrel) as Hne. cbv zeta.
  assert ((rev (list_of_string c) ++
           (if (r && negb (Nat.eqb (List.length out) 1)) || (negb r && negb (Nat.eqb (List.length out) 0))
            then slash :: out else out))%list = enc r (c :: acc)) as Henc.
  { destruct Hrel as [-> _]. simpl enc. f_equal. destruct r; simpl.
    - rewrite orb_false_r. destruct acc as [|c2 acc'].
      + reflexivity.
      + destruct (Nat.eqb (List.length (enc true (c2 :: acc'))) 1) eqn:E; [|reflexivity].
        apply Nat.eqb_eq in E. apply (enc_length_rooted _ Hne) in E. discriminate.
    - destruct acc as [|c2 acc'].
      + reflexivity.
      + destruct (Nat.eqb (List.length (enc false (c2 :: acc'))) 0) eqn:E; [|reflexivity].
        apply Nat.eqb_eq in E. apply (enc_length_rel _ Hne) in E. discriminate. }
  rewrite Henc. split; [reflexivity|]. destruct r; destruct Hrel as [_ H].
  - destruct H as [Hg ->]. split; auto.
  - destruct H as (g & k & -> & Hg & ->). exists (c :: g), k. repeat split; auto.
Qed.

(* appending a ".." that cannot be backed over (not rooted) *)
Lemma rel_dotdot k out :
  out = enc false (repeat ".." k) ->
  let out1 := if Nat.ltb 0 (List.length out) then slash :: out else out in
  let out2 := "."%char :: "."%char :: out1 in
  rel false (".." :: repeat ".." k) out2 (List.length out2).
Proof.
  intros ->. cbv zeta.
  assert (("."%char :: "."%char ::
           (if Nat.ltb 0 (List.length (enc false (repeat ".." k))) then slash :: enc false (repeat ".." k)
            else enc false (repeat ".." k))) = enc false (".." :: repeat ".." k)) as Henc.
  { simpl enc. do 2 f_equal. destruct k; simpl; reflexivity. }
  rewrite Henc. split; [reflexivity|]. exists [], (S k). repeat split; auto.
Qed.

(* ---------- classification of the element the loop looks at ---------- *)
Lemma span_cons_noslash a t : Ascii.eqb a slash = false ->
  span (a :: t) = (a :: fst (span t), snd (span t)).
Proof. intros H. simpl. rewrite H. destruct (span t); reflexivity. Qed.

Lemma at_elem_end_span t : at_elem_end t = true <-> fst (span t) = [].
Proof.
  destruct t as [|b t']; simpl; [intuition|].
  destruct (Ascii.eqb b slash); simpl; [intuition|]. destruct (span t'). simpl. split; discriminate.
Qed.

Lemma at_elem_end_rest t : at_elem_end t = true -> snd (span t) = t.
Proof.
  destruct t as [|b t']; simpl; auto. destruct (Ascii.eqb b slash); [reflexivity|discriminate].
Qed.


(* ---------- the loop ---------- *)
Lemma clean_loop_spec rooted : forall fuel inp acc out dd,
  (List.length inp <= fuel)%nat -> rel rooted acc out dd ->
  exists acc', clean_go rooted acc (split_on slash (string_of_list inp)) = rev acc' /\
               clean_loop fuel rooted inp out dd = enc rooted acc' /\ nonempty_all acc'.
Proof.
  induction fuel as [|fuel IH]; intros inp acc out dd Hlen Hrel.
  { destruct inp; [|simpl in Hlen; lia]. simpl. exists acc. destruct Hrel as [-> H].
    repeat split; auto. eapply rel_nonempty. split; [reflexivity|exact H]. }
  destruct inp as [|a t].
  { simpl. exists acc. pose proof (rel_nonempty _ _ _ _ Hrel). destruct Hrel as [-> _]. auto. }
  simpl in Hlen. cbn [clean_loop].
  destruct (Ascii.eqb a slash) eqn:Ea.
  { (* empty path element *)
    apply Ascii.eqb_eq in Ea. subst a. simpl string_of_list. rewrite split_on_slash_cons.
    change (clean_go rooted acc ("" :: split_on slash (string_of_list t)))
      with (clean_go rooted acc (split_on slash (string_of_list t))).
    apply IH; [lia|exact Hrel]. }
  (* an element that starts with a non-slash byte *)
  pose proof (split_span (a :: t)) as Hsplit. rewrite (span_cons_noslash a t Ea) in Hsplit. simpl fst in Hsplit. simpl snd in Hsplit.
  rewrite Hsplit.
  pose proof (span_rest t) as Hrest. pose proof (span_length t) as Hsl.
  destruct (Ascii.eqb a "."%char && at_elem_end t) eqn:Edot.
  { (* "." *)
    apply andb_true_iff in Edot as [Ed Hend]. apply Ascii.eqb_eq in Ed. subst a.
    pose proof (proj1 (at_elem_end_span t) Hend) as He. rewrite He. simpl string_of_list.
    change (clean_go rooted acc ("." :: tailcomps (snd (span t)))) with (clean_go rooted acc (tailcomps (snd (span t)))).
    rewrite <- clean_go_tail by assumption. rewrite (at_elem_end_rest t Hend).
    apply IH; [lia|exact Hrel]. }
  destruct (Ascii.eqb a "."%char && match t with b :: t2 => Ascii.eqb b "."%char && at_elem_end t2 | [] => false end) eqn:Edd.
  { (* ".." *)
    apply andb_true_iff in Edd as [Ed Hrest2]. apply Ascii.eqb_eq in Ed. subst a.
    destruct t as [|b t2]; [discriminate|]. apply andb_true_iff in Hrest2 as [Eb Hend].
    apply Ascii.eqb_eq in Eb. subst b.
    assert (Ascii.eqb "."%char slash = false) as Hds by reflexivity.
    rewrite (span_cons_noslash "."%char t2 Hds) in *. simpl fst in *. simpl snd in *.
    pose proof (proj1 (at_elem_end_span t2) Hend) as He. rewrite He. simpl string_of_list.
    pose proof (at_elem_end_rest t2 Hend) as Hr2.
    assert (forall acc2, clean_go rooted acc2 (tailcomps (snd (span t2))) =
                         clean_go rooted acc2 (split_on slash (string_of_list t2))) as Htail.
    { intros acc2. rewrite <- clean_go_tail by assumption. now rewrite Hr2. }
    destruct (Nat.ltb dd (List.length out)) eqn:Elt.
    - (* can backtrack *)
      destruct (rel_can_backtrack _ _ _ _ Hrel Elt) as (c & acc' & -> & [Hgc Hnc] & Hrel' & Hpop).
      rewrite Hpop. simpl clean_go.
      assert (String.eqb c ".." = false) as -> by (apply String.eqb_neq; apply Hgc).
      rewrite Htail. apply IH; [simpl in Hlen; lia|exact Hrel'].
    - pose proof (rel_cannot_backtrack _ _ _ _ Hrel Elt) as Hcb. destruct rooted.
      + subst acc. simpl clean_go. rewrite Htail. simpl negb. cbv iota.
        apply IH; [simpl in Hlen; lia|exact Hrel].
      + destruct Hcb as (k & ->). simpl negb. cbv iota.
        assert (clean_go false (repeat ".." k) (".." :: tailcomps (snd (span t2))) =
                clean_go false (".." :: repeat ".." k) (split_on slash (string_of_list t2))) as ->.
        { rewrite <- Htail. destruct k; reflexivity. }
        destruct Hrel as [Hout _].
        apply IH; [simpl in Hlen; lia|]. now apply rel_dotdot. }
  (* a real element *)
  set (e := a :: fst (span t)) in *.
  assert (goodns (string_of_list e)) as Hge.
  { split.
    - unfold good_comp. repeat split.
      + discriminate.
      + intros E. apply (f_equal list_of_string) in E. rewrite los_sol in E. unfold e in E. simpl in E.
        inversion E as [[Ha Hf]]. subst a. rewrite (proj2 (at_elem_end_span t) Hf) in Edot. discriminate.
      + intros E. apply (f_equal list_of_string) in E. rewrite los_sol in E. unfold e in E. simpl in E.
        inversion E as [[Ha Hf]]. subst a. destruct t as [|b t2]; [discriminate|].
        simpl in Hf. destruct (Ascii.eqb b slash) eqn:Eb; [discriminate|].
        destruct (span t2) as [e2 r2] eqn:Es2. simpl in Hf. inversion Hf as [[Hb He2]]. subst b e2.
        assert (at_elem_end t2 = true) as Hend by (apply at_elem_end_span; now rewrite Es2).
        simpl in Edd. rewrite Hend in Edd. discriminate.
    - unfold noslash. pose proof (span_noslash t) as Hns. unfold e. simpl. rewrite Ea. simpl.
      clear -Hns. induction (fst (span t)) as [|x l IHl]; simpl; auto. inversion Hns; subst.
      rewrite H1. simpl. auto. }
  assert (clean_go rooted acc (string_of_list e :: tailcomps (snd (span t))) =
          clean_go rooted (string_of_list e :: acc) (tailcomps (snd (span t)))) as Hpush.
  { apply clean_go_push. apply Hge. }
  rewrite Hpush.
  match goal with |- context [copy_elem (a :: t) ?o] => set (out1 := o) end.
  rewrite copy_elem_span. rewrite (span_cons_noslash a t Ea). simpl fst. simpl snd. fold e.
  rewrite <- clean_go_tail by assumption.
  apply IH; [lia|].
  replace (rev e) with (rev (list_of_string (string_of_list e))) by now rewrite los_sol.
  subst out1. now apply rel_push.
Qed.

(* Go's path.Clean, byte by byte, computes what the component-level model computes *)
Theorem clean_bytes_path_clean s : clean_bytes s = path_clean s.
Proof.
  destruct s as [|a t]; [reflexivity|].
  unfold clean_bytes. destruct (Ascii.eqb a slash) eqn:Ea.
  - apply Ascii.eqb_eq in Ea. subst a.
    assert (rel true [] [slash] 1) as Hrel by (split; [reflexivity|split; [constructor|reflexivity]]).
    destruct (clean_loop_spec true (S (String.length (String slash t))) (list_of_string t) [] [slash] 1)
      as (acc' & Hgo & Hloop & Hne); auto.
    { rewrite length_los. simpl. lia. }
    rewrite sol_los in Hgo. rewrite Hloop.
    pose proof (enc_true_pos acc') as Hpos.
    destruct (enc true acc') as [|x l] eqn:Ee; [simpl in Hpos; lia|]. rewrite <- Ee.
    rewrite string_of_rev_spec, append_nil_r, enc_snoc_decode by assumption.
    unfold render', path_clean. simpl is_abs. cbv iota. unfold clean_comps. simpl is_abs. cbv iota.
    rewrite split_on_slash_cons. change (clean_go true [] ("" :: split_on slash t)) with (clean_go true [] (split_on slash t)).
    now rewrite Hgo.
  - assert (rel false [] [] 0) as Hrel.
    { split; [reflexivity|]. exists [], 0%nat. repeat split; constructor. }
    destruct (clean_loop_spec false (S (String.length (String a t))) (list_of_string (String a t)) [] [] 0)
      as (acc' & Hgo & Hloop & Hne); auto.
    { rewrite length_los. lia. }
    rewrite sol_los in Hgo. rewrite Hloop.
    assert (is_abs (String a t) = false) as Habs by exact Ea.
    unfold path_clean, clean_comps. rewrite Habs, Hgo.
    destruct acc' as [|c acc''].
    + reflexivity.
    + assert (enc false (c :: acc'') <> []) as Hnz.
      { intro E. apply (f_equal (@List.length _)) in E. simpl List.length at 2 in E.
        apply (enc_length_rel _ Hne) in E. discriminate. }
      destruct (enc false (c :: acc'')) as [|x l] eqn:Ee; [congruence|]. rewrite <- Ee.
      rewrite string_of_rev_spec, append_nil_r, enc_snoc_decode by assumption.
      unfold render'. destruct (rev (c :: acc'')) eqn:Er; [|reflexivity].
      apply (f_equal (@List.length _)) in Er. rewrite rev_length in Er. discriminate.
Qed.

(* LoadFiles does not depend on the order in which the file list presents the entries of
   different subcharts (fix 14399c3: the subchart names are sorted; before it the order of the
   dependencies was the iteration order of a Go map).  Every file has a group: [None] for the
   files the chart keeps itself, [Some name] for the files handed to the subchart directory /
   archive charts/<name>.  Two lists that present every group in the same internal order --
   however the groups are interleaved -- load to the same chart: same metadata, lock, values,
   schema, templates, files, and the same dependencies in the same (name) order; only Raw, which
   is the input list itself, differs. *)
From Coq Require Import List String Ascii Bool Arith ZArith Lia Permutation Sorted.
From Helm Require Import Common.SortUniq Values.Tree Chart.Paths Chart.PathsProofs Chart.Archive Chart.Files Chart.Save Chart.Load
  Chart.Wf Chart.Wf2 Chart.LoadProofs Chart.AgreeProofs Chart.RecProofs Chart.Rt2Proofs Chart.Examples15.
Import ListNotations.
Local Open Scope string_scope.

(* the part of the name after charts/ *)
Definition charts_rest (n : string) : string := substring 7 (String.length n - 7) n.

(* the group of a file *)
Definition sub_name (f : file) : option string :=
  let n := f_name f in
  if String.prefix "charts/" n then
    if prov_direct n then None else Some (fst (split2 (charts_rest n)))
  else None.

Definition key_eqb (a b : option string) : bool :=
  match a, b with
  | None, None => true
  | Some x, Some y => String.eqb x y
  | _, _ => false
  end.

Definition group (k : option string) (l : list file) : list file := filter (fun f => key_eqb (sub_name f) k) l.

Definition with_sub (st : lstate) (s : list (string * file)) : lstate :=
  mkLS (ls_meta st) (ls_lock st) (ls_values st) (ls_schema st) (ls_templates st) (ls_files st) s.

Definition sub_entry_of (f : file) : list (string * file) :=
  match sub_name f with
  | Some k => [(k, mkFile (charts_rest (f_name f)) (f_data f))]
  | None => []
  end.
Definition subs_of (l : list file) : list (string * file) := flat_map sub_entry_of l.
Definition tops (l : list file) : list file := group None l.

Definition set_raw (c : chart) (r : list file) : chart :=
  Chart (c_meta c) (c_lock c) r (c_values c) (c_schema c) (c_templates c) (c_files c) (c_deps c).

(* sorted + without repetition: determined by the set of names *)
Lemma dedup_in x l : In x (dedup l) <-> In x l.
Proof.
  induction l as [|y l IH]; simpl; [tauto|]. destruct (existsb (String.eqb y) l) eqn:E.
  - rewrite IH. split; auto. intros [->|H]; auto. apply existsb_exists in E as (z & Hz & Ez).
    apply String.eqb_eq in Ez. now subst.
  - simpl. now rewrite IH.
Qed.

Lemma dedup_nodup l : NoDup (dedup l).
Proof.
  induction l as [|y l IH]; simpl; [constructor|]. destruct (existsb (String.eqb y) l) eqn:E; auto.
  constructor; auto. rewrite dedup_in. intros H.
  assert (existsb (String.eqb y) l = true) as Ht by (apply existsb_exists; exists y; split; [auto|apply String.eqb_refl]).
  congruence.
Qed.

Lemma sorted_names_unique l1 l2 :
  (forall n, In n l1 <-> In n l2) -> sort_strs (dedup l1) = sort_strs (dedup l2).
Proof.
  intros H. rewrite !sort_strs_ssort.
  apply sorted_antisym_unique with (leb := str_leb).
  - apply str_leb_total.
  - intros a b _ _. apply str_leb_antisym.
  - apply ssort_sorted; [apply str_leb_total|apply str_leb_trans].
  - apply ssort_sorted; [apply str_leb_total|apply str_leb_trans].
  - rewrite !ssort_perm. apply NoDup_Permutation; try apply dedup_nodup.
    intros x. rewrite !dedup_in. apply H.
Qed.


Section Order.
  Variable md_merge : meta -> string -> option meta.
  Variable lock_dec : string -> option (option lockv).
  Variable parse_values : string -> option val.
  Variable untar : string -> tstream.
  Variable sanitize : meta -> meta.
  Variable is_semver : string -> bool.
  Variable rest_valid : meta -> bool.
  Variable maxt maxf : Z.
  Notation lstep := (load_step md_merge lock_dec parse_values).
  Notation lloop := (load_loop md_merge lock_dec parse_values).
  Notation LFILES := (load_files md_merge lock_dec parse_values untar sanitize is_semver rest_valid maxt maxf).

  (* a name below charts/ is none of the special names *)
  Lemma charts_name n : String.prefix "charts/" n = true -> n = "charts/" ++ charts_rest n.
  Proof. intros H. exact (prefix_split "charts/" n H). Qed.

  Lemma lstep_sub st f k : sub_name f = Some k ->
    lstep st f = inr (with_sub st (ls_sub st ++ [(k, mkFile (charts_rest (f_name f)) (f_data f))])).
  Proof.
    unfold sub_name. destruct (String.prefix "charts/" (f_name f)) eqn:Hp; [|discriminate].
    destruct (prov_direct (f_name f)) eqn:Hd; [discriminate|]. intros H. inversion H; subst. clear H.
    unfold prov_direct in Hd. rewrite Hp in Hd. cbn [andb] in Hd.
    pose proof (charts_name _ Hp) as Hn. unfold charts_rest in *.
    set (X := substring 7 (String.length (f_name f) - 7) (f_name f)) in *. clearbody X.
    destruct f as [n d]. cbn [f_name f_data] in *. subst n. destruct st as [om lk vs sch tpl fls sub].
    unfold load_step, with_sub. cbn [f_name f_data ls_meta ls_lock ls_values ls_schema ls_templates ls_files ls_sub].
    change (String.eqb ("charts/" ++ X) "Chart.yaml") with false.
    change (String.eqb ("charts/" ++ X) "Chart.lock") with false.
    change (String.eqb ("charts/" ++ X) "values.yaml") with false.
    change (String.eqb ("charts/" ++ X) "values.schema.json") with false.
    change (String.eqb ("charts/" ++ X) "requirements.yaml") with false.
    change (String.eqb ("charts/" ++ X) "requirements.lock") with false.
    change (String.prefix "templates/" ("charts/" ++ X)) with false.
    rewrite (prefix_app "charts/" X). cbv iota.
    replace (substring 7 (String.length ("charts/" ++ X) - 7) ("charts/" ++ X)) with X
      by (symmetry; exact (substring_app_tail "charts/" X)).
    replace (substring 7 (String.length ("charts/" ++ X) - 7) ("charts/" ++ X)) with X in Hd
      by (symmetry; exact (substring_app_tail "charts/" X)).
    rewrite Hd. reflexivity.
  Qed.

  (* a file of the chart itself neither reads nor writes the subchart table *)
  Lemma lstep_top st f : sub_name f = None ->
    lstep st f = match lstep (with_sub st []) f with
                 | inl e => inl e
                 | inr st' => inr (with_sub st' (ls_sub st))
                 end /\
    (forall st', lstep (with_sub st []) f = inr st' -> ls_sub st' = []).
  Proof.
    intros Hk. destruct st as [om lk vs sch tpl fls sub]. unfold with_sub.
    cbn [ls_meta ls_lock ls_values ls_schema ls_templates ls_files ls_sub].
    unfold sub_name in Hk. unfold load_step. cbn [f_name f_data].
    destruct (String.eqb (f_name f) "Chart.yaml"); [split; [reflexivity|intros st' H; inversion H; reflexivity]|].
    destruct (String.eqb (f_name f) "Chart.lock").
    { destruct (lock_dec (f_data f)); split; try reflexivity; intros st' H; inversion H; reflexivity. }
    destruct (String.eqb (f_name f) "values.yaml").
    { destruct (parse_values (f_data f)); split; try reflexivity; intros st' H; inversion H; reflexivity. }
    destruct (String.eqb (f_name f) "values.schema.json"); [split; [reflexivity|intros st' H; inversion H; reflexivity]|].
    destruct (String.eqb (f_name f) "requirements.yaml").
    { destruct (md_merge (meta_or_new om) (f_data f)); split; try reflexivity; intros st' H; inversion H; reflexivity. }
    destruct (String.eqb (f_name f) "requirements.lock").
    { destruct (lock_dec (f_data f)); split; try reflexivity; intros st' H; inversion H; reflexivity. }
    destruct (String.prefix "templates/" (f_name f)); [split; [reflexivity|intros st' H; inversion H; reflexivity]|].
    destruct (String.prefix "charts/" (f_name f)) eqn:Hp; [|split; [reflexivity|intros st' H; inversion H; reflexivity]].
    destruct (prov_direct (f_name f)) eqn:Hd; [|discriminate].
    unfold prov_direct in Hd. rewrite Hp in Hd. cbn [andb] in Hd. rewrite Hd.
    split; [reflexivity|intros st' H; inversion H; reflexivity].
  Qed.

  Lemma with_sub_idem st a b : with_sub (with_sub st a) b = with_sub st b.
  Proof. reflexivity. Qed.

  Lemma with_sub_self st : with_sub st (ls_sub st) = st.
  Proof. destruct st; reflexivity. Qed.

  (* the second loop: the chart's own files in their order, the table in list order *)
  Lemma lloop_split l : forall st,
    lloop st l = match lloop (with_sub st []) (tops l) with
                 | inl e => inl e
                 | inr st' => inr (with_sub st' (ls_sub st ++ subs_of l))
                 end /\
    (forall st', lloop (with_sub st []) (tops l) = inr st' -> ls_sub st' = []).
  Proof.
    induction l as [|f l IH]; intros st.
    - unfold tops, group. cbn [filter subs_of flat_map load_loop]. rewrite app_nil_r, with_sub_idem, with_sub_self. split; [reflexivity|]. intros st' H. inversion H. reflexivity.
    - unfold tops, group in *. cbn [filter subs_of flat_map load_loop]. unfold sub_entry_of at 1.
      destruct (sub_name f) as [k|] eqn:Ek; cbn [key_eqb].
      + rewrite (lstep_sub st f k Ek). destruct (IH (with_sub st (ls_sub st ++ [(k, mkFile (charts_rest (f_name f)) (f_data f))]))) as [IH1 IH2].
        rewrite IH1, with_sub_idem. cbn [ls_sub with_sub]. rewrite <- app_assoc. split; [reflexivity|exact IH2].
      + destruct (lstep_top st f Ek) as [H1 H2]. rewrite H1. cbn [load_loop].
        destruct (lstep (with_sub st []) f) as [e|st1] eqn:E1; [split; [reflexivity|discriminate]|].
        pose proof (H2 st1 eq_refl) as Hs1.
        destruct (IH (with_sub st1 (ls_sub st))) as [IH1 IH2]. rewrite with_sub_idem in IH1, IH2.
        assert (with_sub st1 [] = st1) as Hst1 by (rewrite <- Hs1; apply with_sub_self).
        rewrite Hst1 in IH1, IH2. rewrite IH1. cbn [ls_sub with_sub app]. split; [reflexivity|exact IH2].
  Qed.

  Lemma sub_not_chartyaml f k : sub_name f = Some k -> String.eqb (f_name f) "Chart.yaml" = false.
  Proof.
    unfold sub_name. destruct (String.prefix "charts/" (f_name f)) eqn:Hp; [|discriminate]. intros _.
    rewrite (charts_name _ Hp). reflexivity.
  Qed.

  Lemma load_meta_tops l : forall om, load_meta md_merge om l = load_meta md_merge om (tops l).
  Proof.
    induction l as [|f l IH]; intros om; [reflexivity|]. unfold tops, group in *. cbn [filter load_meta].
    destruct (sub_name f) as [k|] eqn:Ek; cbn [key_eqb].
    - rewrite (sub_not_chartyaml f k Ek). apply IH.
    - cbn [load_meta]. destruct (String.eqb (f_name f) "Chart.yaml"); [|apply IH].
      destruct (md_merge (meta_or_new om) (f_data f)); [apply IH|reflexivity].
  Qed.

  (* the files of one subchart: the group, in list order *)
  Lemma sub_files_group n l :
    sub_files n (subs_of l) = map (fun f => mkFile (charts_rest (f_name f)) (f_data f)) (group (Some n) l).
  Proof.
    unfold sub_files, subs_of, group. induction l as [|f l IH]; [reflexivity|]. cbn [flat_map filter].
    rewrite filter_app, map_app, IH. unfold sub_entry_of. destruct (sub_name f) as [k|]; cbn [key_eqb filter map app fst snd]; [|reflexivity].
    rewrite (String.eqb_sym k n). destruct (String.eqb n k); reflexivity.
  Qed.

  Lemma in_subs_names n l : In n (map fst (subs_of l)) <-> group (Some n) l <> [].
  Proof.
    unfold subs_of, group. induction l as [|f l IH]; cbn [flat_map map filter]; [split; [contradiction|congruence]|].
    rewrite map_app, in_app_iff, IH. unfold sub_entry_of. destruct (sub_name f) as [k|]; cbn [key_eqb map fst In].
    - destruct (String.eqb k n) eqn:E.
      + apply String.eqb_eq in E. subst. split; [discriminate|auto].
      + apply String.eqb_neq in E. split; [intros [[H|[]]|H]; [contradiction|exact H]|auto].
    - split; [intros [[]|H]; exact H|auto].
  Qed.

  (* the groups of the two lists agree *)
  Definition same_groups (l1 l2 : list file) : Prop := forall k, group k l1 = group k l2.

  Theorem order_invariant fuel l1 l2 :
    same_groups l1 l2 ->
    LFILES fuel l2 = match LFILES fuel l1 with
                     | inl e => inl e
                     | inr c => inr (set_raw c l2)
                     end.
  Proof.
    intros Hg. destruct fuel as [|fuel]; [reflexivity|]. cbn [load_files].
    rewrite (load_meta_tops l1), (load_meta_tops l2). unfold tops. rewrite <- (Hg None).
    destruct (load_meta md_merge None (group None l1)) as [e|om]; [reflexivity|].
    destruct (lloop_split l1 (mkLS om None None None [] [] [])) as [H1 _].
    destruct (lloop_split l2 (mkLS om None None None [] [] [])) as [H2 _].
    rewrite H1, H2. unfold tops. rewrite <- (Hg None).
    destruct (lloop (with_sub (mkLS om None None None [] [] []) []) (group None l1)) as [e|st]; [reflexivity|].
    cbn [ls_sub app with_sub ls_meta ls_lock ls_values ls_schema ls_templates ls_files].
    destruct (ls_meta st) as [m0|]; [|reflexivity].
    destruct (validate sanitize is_semver rest_valid m0) as [m|]; [|reflexivity].
    assert (sort_strs (dedup (map fst (subs_of l2))) = sort_strs (dedup (map fst (subs_of l1)))) as ->.
    { apply sorted_names_unique. intros n. rewrite !in_subs_names, (Hg (Some n)). tauto. }
    match goal with |- match subs_loop ?F2 ?names with _ => _ end = match match subs_loop ?F1 ?names with _ => _ end with _ => _ end =>
      assert (subs_loop F2 names = subs_loop F1 names) as Hsl end.
    { apply subs_loop_ext. intros n _. cbv beta. rewrite !sub_files_group, (Hg (Some n)). reflexivity. }
    rewrite Hsl.
    match goal with |- match ?X with _ => _ end = _ => destruct X end; reflexivity.
  Qed.

  (* in particular the dependencies, and everything but Raw *)
  Corollary order_invariant_fields fuel l1 l2 c1 :
    same_groups l1 l2 -> LFILES fuel l1 = inr c1 ->
    exists c2, LFILES fuel l2 = inr c2 /\ c_meta c2 = c_meta c1 /\ c_lock c2 = c_lock c1 /\ c_values c2 = c_values c1 /\
      c_schema c2 = c_schema c1 /\ c_templates c2 = c_templates c1 /\ c_files c2 = c_files c1 /\ c_deps c2 = c_deps c1 /\
      c_raw c2 = l2.
  Proof.
    intros Hg H1. pose proof (order_invariant fuel l1 l2 Hg) as H. rewrite H1 in H.
    exists (set_raw c1 l2). repeat split; auto.
  Qed.
End Order.

(* two presentations of the same tree: subcharts interleaved and in reverse name order *)
Definition order_l1 : list file :=
  [mkFile "Chart.yaml" "n:top"; mkFile "charts/alpha/Chart.yaml" "n:alpha"; mkFile "charts/alpha/x" "1";
   mkFile "templates/t.yaml" "t"; mkFile "charts/foo-bar/Chart.yaml" "n:foo-bar"; mkFile "charts/foo/Chart.yaml" "n:foo";
   mkFile "charts/foo-1.0.0.tgz.prov" "sig"].
Definition order_l2 : list file :=
  [mkFile "charts/foo/Chart.yaml" "n:foo"; mkFile "Chart.yaml" "n:top"; mkFile "charts/foo-bar/Chart.yaml" "n:foo-bar";
   mkFile "templates/t.yaml" "t"; mkFile "charts/alpha/Chart.yaml" "n:alpha"; mkFile "charts/foo-1.0.0.tgz.prov" "sig";
   mkFile "charts/alpha/x" "1"].

Lemma order_example :
  (forall k, group k order_l1 = group k order_l2) /\
  order_l1 <> order_l2 /\
  exists c1 c2,
    load_files Examples15.mergeT Examples15.lock_decK Examples15.parseK Examples15.untarK Examples15.sanK Examples15.semverK Examples15.restT 1000 100 3 order_l1 = inr c1 /\
    load_files Examples15.mergeT Examples15.lock_decK Examples15.parseK Examples15.untarK Examples15.sanK Examples15.semverK Examples15.restT 1000 100 3 order_l2 = inr c2 /\
    map dname (c_deps c1) = ["alpha"; "foo"; "foo-bar"] /\ c_deps c2 = c_deps c1 /\
    map f_name (c_files c1) = ["charts/foo-1.0.0.tgz.prov"].
Proof.
  split.
  - intros k. unfold group, order_l1, order_l2. cbn [filter].
    change (sub_name (mkFile "Chart.yaml" "n:top")) with (@None string).
    change (sub_name (mkFile "templates/t.yaml" "t")) with (@None string).
    change (sub_name (mkFile "charts/foo-1.0.0.tgz.prov" "sig")) with (@None string).
    change (sub_name (mkFile "charts/alpha/Chart.yaml" "n:alpha")) with (Some "alpha").
    change (sub_name (mkFile "charts/alpha/x" "1")) with (Some "alpha").
    change (sub_name (mkFile "charts/foo-bar/Chart.yaml" "n:foo-bar")) with (Some "foo-bar").
    change (sub_name (mkFile "charts/foo/Chart.yaml" "n:foo")) with (Some "foo").
    destruct k as [k|]; cbn [key_eqb]; [|reflexivity].
    destruct (String.eqb "alpha" k) eqn:E1; destruct (String.eqb "foo-bar" k) eqn:E2; destruct (String.eqb "foo" k) eqn:E3;
      try reflexivity;
      repeat match goal with E : String.eqb _ k = true |- _ => apply String.eqb_eq in E; subst end; discriminate.
  - split; [discriminate|]. eexists. eexists. split; [vm_compute; reflexivity|]. split; [vm_compute; reflexivity|].
    repeat split; reflexivity.
Qed.

(* ---------- subchart directories / archives that are skipped, and the "error unpacking" paths ---------- *)
Definition hidden (n : string) : bool := first_char_in n [underscore; dot].

(* a file handed to a subchart whose name starts with '_' or '.' *)
Definition hidden_file (f : file) : bool :=
  match sub_name f with Some n => hidden n | None => false end.

Lemma subs_loop_skip F l :
  (forall n, hidden n = true -> F n = inr None) ->
  subs_loop F l = subs_loop F (filter (fun n => negb (hidden n)) l).
Proof.
  intros H. induction l as [|n l IH]; [reflexivity|]. cbn [subs_loop filter].
  destruct (hidden n) eqn:E; cbn [negb].
  - now rewrite (H n E).
  - cbn [subs_loop]. destruct (F n) as [e|[sc|]]; auto. now rewrite IH.
Qed.

Lemma sorted_filter (p : string -> bool) l :
  SortedBy str_leb l -> SortedBy str_leb (filter p l).
Proof.
  unfold SortedBy. induction 1 as [|a l Hs IH Ha]; simpl; [constructor|].
  destruct (p a); auto. constructor; auto.
  apply Forall_forall. intros x Hx. apply filter_In in Hx as [Hx _]. rewrite Forall_forall in Ha. now apply Ha.
Qed.

Lemma sorted_names_filter (p : string -> bool) l1 l2 :
  (forall n, In n l2 <-> In n l1 /\ p n = true) ->
  sort_strs (dedup l2) = filter p (sort_strs (dedup l1)).
Proof.
  intros H. rewrite !sort_strs_ssort.
  apply sorted_antisym_unique with (leb := str_leb).
  - apply str_leb_total.
  - intros a b _ _. apply str_leb_antisym.
  - apply ssort_sorted; [apply str_leb_total|apply str_leb_trans].
  - apply sorted_filter. apply ssort_sorted; [apply str_leb_total|apply str_leb_trans].
  - apply NoDup_Permutation.
    + eapply Permutation_NoDup; [apply Permutation_sym, ssort_perm|apply dedup_nodup].
    + apply NoDup_filter. eapply Permutation_NoDup; [apply Permutation_sym, ssort_perm|apply dedup_nodup].
    + intros x. rewrite filter_In, !ssort_In, !dedup_in. apply H.
Qed.

Lemma sort_strs_in x l : In x (sort_strs l) <-> In x l.
Proof. rewrite sort_strs_ssort. apply ssort_In. Qed.

Section Skipped.
  Variable md_merge : meta -> string -> option meta.
  Variable lock_dec : string -> option (option lockv).
  Variable parse_values : string -> option val.
  Variable untar : string -> tstream.
  Variable sanitize : meta -> meta.
  Variable is_semver : string -> bool.
  Variable rest_valid : meta -> bool.
  Variable maxt maxf : Z.
  Notation lloop := (load_loop md_merge lock_dec parse_values).
  Notation LFILES := (load_files md_merge lock_dec parse_values untar sanitize is_semver rest_valid maxt maxf).

  Lemma group_filter_hidden k l :
    group k (filter (fun f => negb (hidden_file f)) l) =
    match k with
    | Some n => if hidden n then [] else group k l
    | None => group k l
    end.
  Proof.
    unfold group. induction l as [|f l IH]; [destruct k as [n|]; [destruct (hidden n)|]; reflexivity|].
    cbn [filter]. destruct (hidden_file f) eqn:Ehf; cbn [negb].
    - (* the file is dropped *)
      rewrite IH. unfold hidden_file in Ehf. destruct (sub_name f) as [m|] eqn:Em; [|discriminate].
      destruct k as [n|]; cbn [key_eqb]; [|reflexivity].
      destruct (hidden n) eqn:En; [reflexivity|].
      destruct (String.eqb m n) eqn:E; [|reflexivity]. apply String.eqb_eq in E. subst. congruence.
    - (* the file stays *)
      cbn [filter]. rewrite IH. unfold hidden_file in Ehf.
      destruct k as [n|]; [|reflexivity].
      destruct (hidden n) eqn:En; [|reflexivity].
      destruct (sub_name f) as [m|] eqn:Em; cbn [key_eqb]; [|reflexivity].
      destruct (String.eqb m n) eqn:E; [|reflexivity]. apply String.eqb_eq in E. subst. congruence.
  Qed.

  (* files below charts/_x or charts/.x (directories or archives) have no influence on the result *)
  Theorem hidden_subcharts_ignored fuel l :
    LFILES fuel l = match LFILES fuel (filter (fun f => negb (hidden_file f)) l) with
                    | inl e => inl e
                    | inr c => inr (set_raw c l)
                    end.
  Proof.
    set (l' := filter (fun f => negb (hidden_file f)) l).
    destruct fuel as [|fuel]; [reflexivity|]. cbn [load_files].
    rewrite (load_meta_tops md_merge l), (load_meta_tops md_merge l'). unfold tops.
    assert (group None l' = group None l) as HN by (unfold l'; now rewrite (group_filter_hidden None l)).
    rewrite HN.
    destruct (load_meta md_merge None (group None l)) as [e|om]; [reflexivity|].
    destruct (lloop_split md_merge lock_dec parse_values l (mkLS om None None None [] [] [])) as [H1 _].
    destruct (lloop_split md_merge lock_dec parse_values l' (mkLS om None None None [] [] [])) as [H2 _].
    rewrite H1, H2. unfold tops. rewrite HN.
    destruct (lloop (with_sub (mkLS om None None None [] [] []) []) (group None l)) as [e|st]; [reflexivity|].
    cbn [ls_sub app with_sub ls_meta ls_lock ls_values ls_schema ls_templates ls_files].
    destruct (ls_meta st) as [m0|]; [|reflexivity].
    destruct (validate sanitize is_semver rest_valid m0) as [m|]; [|reflexivity].
    assert (sort_strs (dedup (map fst (subs_of l'))) =
            filter (fun n => negb (hidden n)) (sort_strs (dedup (map fst (subs_of l))))) as ->.
    { apply sorted_names_filter. intros n. rewrite !in_subs_names. unfold l'. rewrite (group_filter_hidden (Some n) l).
      destruct (hidden n); cbn [negb]; split; intros H; try tauto; try (destruct H as [_ H]; discriminate). }
    match goal with |- match subs_loop ?F1 ?names with _ => _ end = match match subs_loop ?F2 (filter ?p ?names) with _ => _ end with _ => _ end =>
      assert (subs_loop F1 names = subs_loop F2 (filter p names)) as Hsl end.
    { rewrite subs_loop_skip.
      - apply subs_loop_ext. intros n Hn. apply filter_In in Hn as [_ Hn]. apply negb_true_iff in Hn.
        cbv beta. unfold hidden in Hn. rewrite Hn. rewrite !sub_files_group. unfold l'.
        rewrite (group_filter_hidden (Some n) l). unfold hidden. now rewrite Hn.
      - intros n Hn. cbv beta. unfold hidden in Hn. now rewrite Hn. }
    rewrite Hsl.
    match goal with |- match ?X with _ => _ end = _ => destruct X end; reflexivity.
  Qed.

  (* "error unpacking subchart": if the chart's own files load and validate, and some visible
     subchart name does not load -- a packed dependency whose first file is not the archive
     itself, an archive that cannot be read, a chart in it that does not load --, LoadFiles fails *)
  Lemma subs_loop_error F l n e :
    In n l -> F n = inl e -> exists e', subs_loop F l = inl e'.
  Proof.
    induction l as [|x l IH]; intros Hin He; [contradiction|]. cbn [subs_loop].
    destruct Hin as [->|Hin]; [rewrite He; eauto|].
    destruct (F x) as [e0|[sc|]]; eauto.
    destruct (IH Hin He) as (e' & ->). eauto.
  Qed.

  Theorem packed_subchart_errors fuel l n :
    group (Some n) l <> [] -> hidden n = false -> String.eqb (path_ext n) ".tgz" = true ->
    (match group (Some n) l with
     | f :: _ => charts_rest (f_name f) <> n \/
                 (exists e, load_archive_files maxt maxf (untar (f_data f)) = inl e) \/
                 (exists afs e, load_archive_files maxt maxf (untar (f_data f)) = inr afs /\ LFILES fuel afs = inl e)
     | [] => False
     end) ->
    exists e, LFILES (S fuel) l = inl e.
  Proof.
    intros Hne Hh Hext Hbad. cbn [load_files].
    destruct (load_meta md_merge None l) as [e|om]; [eauto|].
    destruct (lloop_split md_merge lock_dec parse_values l (mkLS om None None None [] [] [])) as [H1 _]. rewrite H1.
    destruct (lloop (with_sub (mkLS om None None None [] [] []) []) (tops l)) as [e|st]; [eauto|].
    cbn [ls_sub app with_sub ls_meta ls_lock ls_values ls_schema ls_templates ls_files].
    destruct (ls_meta st) as [m0|]; [|eauto].
    destruct (validate sanitize is_semver rest_valid m0) as [m|]; [|eauto].
    match goal with |- exists e, match subs_loop ?F ?names with _ => _ end = _ =>
      assert (exists e, F n = inl e) as (e & He) end.
    { cbv beta. unfold hidden in Hh. rewrite Hh, Hext. rewrite sub_files_group.
      destruct (group (Some n) l) as [|f r]; [contradiction|]. cbn [map f_name f_data].
      destruct Hbad as [Hn|[(e & He)|(afs & e & Ha & He)]].
      - apply String.eqb_neq in Hn. rewrite Hn. cbn [negb]. eauto.
      - destruct (negb (String.eqb (charts_rest (f_name f)) n)); [eauto|]. rewrite He. eauto.
      - destruct (negb (String.eqb (charts_rest (f_name f)) n)); [eauto|]. rewrite Ha, He. destruct e; eauto. }
    match goal with |- exists e, match subs_loop ?F ?names with _ => _ end = _ =>
      destruct (subs_loop_error F names n e) as (e' & ->); eauto end.
    apply sort_strs_in. apply dedup_in. now apply in_subs_names.
  Qed.
End Skipped.

(* FsTree: a NESTED file-system model for C16 — directories, regular files and symbolic links
   with arbitrary targets (relative, absolute, dangling, chains, loops) — with

     walk / k_walk      path resolution the way the kernel does it for lstat(2) / open(2):
                        component by component, "." and "" skipped, ".." to the parent (the root
                        is its own parent), symlinks followed at EVERY intermediate component and,
                        when asked, at the final one; at most 40 links per resolution (ELOOP)
     k_mkdir, k_write   mkdir(2) and open(O_CREAT|O_WRONLY[|O_TRUNC]) + write
     mkdir_all          os.MkdirAll
     secure_join        github.com/cyphar/filepath-securejoin v0.4.1, SecureJoinVFS, as the code
                        is: one component at a time, Lstat through the kernel walk, a symlink's
                        target is spliced in front of what remains, absolute targets restart at
                        the root, at most 255 links, non-existent components are taken lexically
     expand_model       pkg/chart/v2/util/expand.go: Expand after LoadArchiveFiles
     extract_model      pkg/plugin/installer/http_installer.go: cleanJoin + TarGzExtractor.Extract
     write_lock_t       pkg/downloader/manager.go: writeLock on the nested model

   Definitions only; proofs in FsTreeProofs.v.  Paths inside the model are lists of
   components counted from the root of the tree ("canonical locations"). *)
From Coq Require Import List String Ascii Bool Arith ZArith.
From Helm Require Import Chart.Paths Chart.PathFns Chart.Archive Chart.Lock.
Import ListNotations.
Local Open Scope string_scope.

Inductive tnode :=
| TFile (data : string)
| TDir (entries : list (string * tnode))
| TLink (target : string).

Fixpoint alookup {A} (k : string) (l : list (string * A)) : option A :=
  match l with
  | [] => None
  | (q, v) :: t => if String.eqb k q then Some v else alookup k t
  end.

Fixpoint aset {A} (k : string) (v : A) (l : list (string * A)) : list (string * A) :=
  match l with
  | [] => [(k, v)]
  | (q, w) :: t => if String.eqb k q then (k, v) :: t else (q, w) :: aset k v t
  end.

(* the node at a canonical location *)
Fixpoint tget (t : tnode) (p : list string) : option tnode :=
  match p with
  | [] => Some t
  | c :: r =>
      match t with
      | TDir es => match alookup c es with Some t' => tget t' r | None => None end
      | _ => None
      end
  end.

(* put node n at location p; every proper prefix of p must be a directory *)
Fixpoint tset (t : tnode) (p : list string) (n : tnode) : option tnode :=
  match p with
  | [] => Some n
  | c :: r =>
      match t with
      | TDir es =>
          match (match alookup c es with
                 | Some t' => tset t' r n
                 | None => match r with [] => Some n | _ => None end
                 end) with
          | Some t'' => Some (TDir (aset c t'' es))
          | None => None
          end
      | _ => None
      end
  end.

Inductive kerr := ENOENT | ENOTDIR | ELOOP | EEXIST | EISDIR | EINVAL.

Definition kerr_eqb (a b : kerr) : bool :=
  match a, b with
  | ENOENT, ENOENT | ENOTDIR, ENOTDIR | ELOOP, ELOOP | EEXIST, EEXIST | EISDIR, EISDIR | EINVAL, EINVAL => true
  | _, _ => false
  end.

(* ---------- path resolution ---------- *)
Inductive wres :=
| WAt (loc : list string) (n : tnode)               (* resolved to an existing node *)
| WNew (parent : list string) (name : string)       (* the parent directory exists, the last name does not *)
| WLink (dir : list string) (target : string) (rest : list string)   (* a symlink to follow *)
| WErr (e : kerr).

(* one pass up to the next symlink that has to be followed.  [cur] is the canonical location
   reached so far.  Every component, "" and "." included, needs [cur] to be a directory. *)
Fixpoint walk1 (t : tnode) (cur : list string) (comps : list string) (follow : bool) : wres :=
  match comps with
  | [] => match tget t cur with Some n => WAt cur n | None => WErr ENOENT end
  | c :: rest =>
      match tget t cur with
      | Some (TDir es) =>
          if String.eqb c "" || String.eqb c "." then walk1 t cur rest follow
          else if String.eqb c ".." then walk1 t (removelast cur) rest follow
          else match alookup c es with
               | None => match rest with [] => WNew cur c | _ => WErr ENOENT end
               | Some (TLink tg) =>
                   match rest, follow with
                   | [], false => WAt (cur ++ [c]) (TLink tg)
                   | _, _ => WLink cur tg rest
                   end
               | Some _ => walk1 t (cur ++ [c]) rest follow
               end
      | Some _ => WErr ENOTDIR
      | None => WErr ENOENT
      end
  end.

(* following symlinks: the target's components are put in front of what remains; an absolute
   target restarts at the root; an empty target is ENOENT; the (fuel+1)-th link is ELOOP *)
Fixpoint walk (fuel : nat) (t : tnode) (cur comps : list string) (follow : bool) : wres :=
  match walk1 t cur comps follow with
  | WLink dir tg rest =>
      match fuel with
      | O => WErr ELOOP
      | S f =>
          if String.eqb tg "" then WErr ENOENT
          else walk f t (if is_abs tg then [] else dir) (split_on slash tg ++ rest) follow
      end
  | r => r
  end.

Definition max_links : nat := 40.   (* MAXSYMLINKS *)


(* resolution of a component list from the root (an absolute path) *)
Definition c_walk (t : tnode) (p : list string) (follow : bool) : wres :=
  if existsb has_nul p then WErr EINVAL else walk max_links t [] p follow.

(* resolution of a path string; relative paths start at [cwd] *)
Definition k_walk (t : tnode) (cwd : list string) (path : string) (follow : bool) : wres :=
  if String.eqb path "" then WErr ENOENT
  else if has_nul path then WErr EINVAL
  else walk max_links t (if is_abs path then [] else cwd) (split_on slash path) follow.

(* ---------- operations (absolute component lists) ---------- *)
(* an operation yields the tree afterwards and the error it stopped with, if any *)
Definition opres := (tnode * option kerr)%type.

Definition put (t : tnode) (loc : list string) (n : tnode) : opres :=
  match tset t loc n with
  | Some t' => (t', None)
  | None => (t, Some ENOENT)
  end.

(* mkdir(2): the last component is not followed; anything there, a dangling link included, is EEXIST *)
Definition k_mkdir (t : tnode) (p : list string) : opres :=
  match c_walk t p false with
  | WAt _ _ => (t, Some EEXIST)
  | WNew parent name => put t (parent ++ [name]) (TDir [])
  | WErr e => (t, Some e)
  | WLink _ _ _ => (t, Some ELOOP)
  end.

(* what a file holds after [data] was written at offset 0 without truncation *)
Definition overwrite (old data : string) : string :=
  data ++ substring (String.length data) (String.length old - String.length data) old.

(* open(O_CREAT|O_WRONLY [|O_TRUNC]) + write + close: the last component IS followed, so a
   dangling link creates its target *)
Definition write_at (t : tnode) (w : wres) (trunc : bool) (data : string) : opres :=
  match w with
  | WAt loc (TFile old) => put t loc (TFile (if trunc then data else overwrite old data))
  | WAt _ (TDir _) => (t, Some EISDIR)
  | WAt _ (TLink _) => (t, Some ELOOP)
  | WNew parent name => put t (parent ++ [name]) (TFile data)
  | WErr e => (t, Some e)
  | WLink _ _ _ => (t, Some ELOOP)
  end.

Definition k_write (t : tnode) (p : list string) (trunc : bool) (data : string) : opres :=
  write_at t (c_walk t p true) trunc data.

Definition is_dir_node (n : tnode) : bool := match n with TDir _ => true | _ => false end.

(* os.MkdirAll(path): Stat; a directory is fine, anything else ENOTDIR; otherwise MkdirAll of
   the parent, then Mkdir, and if that fails an Lstat that finds a directory still succeeds.
   [rp] is the path's component list REVERSED (so the parent is the tail). *)
Fixpoint mkdir_all_rev (t : tnode) (rp : list string) : opres :=
  match c_walk t (rev rp) true with
  | WAt _ n => if is_dir_node n then (t, None) else (t, Some ENOTDIR)
  | _ =>
      match rp with
      | [] => (t, Some ENOENT)
      | _ :: parent =>
          match mkdir_all_rev t parent with
          | (t1, Some e) => (t1, Some e)
          | (t1, None) =>
              match k_mkdir t1 (rev rp) with
              | (t2, None) => (t2, None)
              | (t2, Some e) =>
                  match c_walk t2 (rev rp) false with
                  | WAt _ n => if is_dir_node n then (t2, None) else (t2, Some e)
                  | _ => (t2, Some e)
                  end
              end
          end
      end
  end.

Definition mkdir_all (t : tnode) (p : list string) : opres := mkdir_all_rev t (rev p).

(* ---------- securejoin.SecureJoinVFS ---------- *)
(* nextPath := filepath.Join("/", currentPath, part), on the component list of currentPath *)
Definition sj_step (cur : list string) (part : string) : list string :=
  if String.eqb part "" || String.eqb part "." then cur
  else if String.eqb part ".." then removelast cur
  else (cur ++ [part])%list.

Inductive sjres :=
| SJDone (cur : list string)
| SJLink (cur : list string) (target : string) (rest : list string)
| SJErr (e : kerr).

(* the loop body up to the next symlink; [root] is the root's component list *)
Fixpoint sj_pass (t : tnode) (root cur rem : list string) : sjres :=
  match rem with
  | [] => SJDone cur
  | part :: rest =>
      match sj_step cur part with
      | [] => sj_pass t root [] rest                       (* nextPath == "/": currentPath = "" *)
      | next =>
          match c_walk t (root ++ next) false with         (* vfs.Lstat(root + "/" + nextPath) *)
          | WAt _ (TLink tg) => SJLink cur tg rest
          | WAt _ _ => sj_pass t root next rest
          | WNew _ _ => sj_pass t root next rest           (* IsNotExist: taken lexically *)
          | WErr ENOENT => sj_pass t root next rest
          | WErr ENOTDIR => sj_pass t root next rest
          | WErr e => SJErr e
          | WLink _ _ _ => SJErr ELOOP
          end
      end
  end.

(* remainingPath = dest + "/" + remainingPath; an absolute dest resets currentPath *)
Fixpoint sj_loop (fuel : nat) (t : tnode) (root cur rem : list string) : kerr + list string :=
  match sj_pass t root cur rem with
  | SJDone c => inr c
  | SJErr e => inl e
  | SJLink c tg rest =>
      match fuel with
      | O => inl ELOOP
      | S f => sj_loop f t root (if is_abs tg then [] else c) (split_on slash tg ++ rest)
      end
  end.

Definition sj_max_links : nat := 255.   (* maxSymlinkLimit *)

(* fingerprint of the SecureJoinVFS declaration (filepath-securejoin v0.4.1, join.go) that
   sj_step / sj_pass / sj_loop / secure_join were transcribed from: SHA-256 of the declaration
   as go/printer prints it without comments.  The translator computes the same fingerprint
   from the version /repo/go.mod requires (Gen/SecureJoinLib.v, C16_securejoin_source). *)
Definition sj_transcribed_sha256 : string :=
  "8e009726dd0cb3f060dcf46ce11f4f2aeeacf7e3dbd89331e28fc311ef5b5b79".

(* SecureJoin(root, unsafe) for a root given by its component list; the result is
   filepath.Join(root, filepath.Join("/", currentPath)) *)
Definition secure_join (t : tnode) (root : list string) (unsafe : string) : kerr + list string :=
  if existsb (fun c => String.eqb c "..") root then inl EINVAL else       (* hasDotDot(root) *)
  match sj_loop sj_max_links t root [] (split_on slash unsafe) with
  | inr cur => inr (root ++ cur)%list
  | inl e => inl e
  end.

Definition abs_path (cs : list string) : string := "/" ++ join "/" cs.

(* the same on path strings, for an absolute root: the kernel sees the root through its
   cleaned components *)
Definition secure_join_s (t : tnode) (root unsafe : string) : kerr + string :=
  if has_dotdot root || negb (is_abs root) then inl EINVAL else
  match secure_join t (clean_comps root) unsafe with
  | inr out => inr (abs_path out)
  | inl e => inl e
  end.

(* ---------- Expand ---------- *)
Inductive xerr :=
| XKernel (e : kerr)      (* a system call or SecureJoin failed *)
| XName                   (* cleanJoin / chart name checks refused *)
| XType                   (* Extract: unknown entry type *)
| XStream.                (* tar / gzip reader error *)

Definition xres := (tnode * option xerr)%type.

Definition lift (r : opres) : xres := (fst r, option_map XKernel (snd r)).

(* one file of Expand: SecureJoin(chartdir, name); MkdirAll(filepath.Dir(outpath)); WriteFile *)
Definition expand_file (t : tnode) (chartdir : list string) (f : file) : xres :=
  match secure_join t chartdir (f_name f) with
  | inl e => (t, Some (XKernel e))
  | inr out =>
      match mkdir_all t (removelast out) with
      | (t1, Some e) => (t1, Some (XKernel e))
      | (t1, None) => lift (k_write t1 out true (f_data f))
      end
  end.

Fixpoint expand_files (t : tnode) (chartdir : list string) (fs : list file) : xres :=
  match fs with
  | [] => (t, None)
  | f :: rest =>
      match expand_file t chartdir f with
      | (t1, Some e) => (t1, Some e)
      | (t1, None) => expand_files t1 chartdir rest
      end
  end.

(* Expand(dir, r) once LoadArchiveFiles returned [fs] and Chart.yaml gave [chart_name];
   [dir] is the component list of filepath.Clean(dir) *)
Definition expand_model (t : tnode) (dir : list string) (chart_name : string) (fs : list file) : xres :=
  if String.eqb chart_name "" then (t, Some XName) else
  match secure_join t dir chart_name with
  | inl e => (t, Some (XKernel e))
  | inr chartdir => expand_files t chartdir fs
  end.

(* ---------- the plugin installer's extractor ---------- *)
(* cleanJoin(root, dest) on the tree: the checks of Paths.clean_join, then SecureJoin *)
Definition clean_join_t (t : tnode) (root : list string) (dest : string) : xerr + list string :=
  if contains_char colon dest then inl XName else
  let dest := replace_char bslash slash dest in
  if existsb (fun p => String.eqb p "..") (split_on slash dest) then inl XName else
  if is_abs dest then inl XName else
  match secure_join t root dest with
  | inl e => inl (XKernel e)
  | inr p => inr p
  end.

(* one tar entry of Extract.  tar.TypeDir = '5' = 53, tar.TypeReg = '0' = 48,
   TypeXGlobalHeader = 'g' = 103, TypeXHeader = 'x' = 120.  An entry whose data cannot be read
   to its end ([te_rerr]) fails in io.Copy, or in the following Next() when it was skipped. *)
Definition after_read (rerr : bool) (r : xres) : xres :=
  match r with
  | (t1, None) => if rerr then (t1, Some XStream) else (t1, None)
  | _ => r
  end.

Definition extract_entry (t : tnode) (root : list string) (e : tentry) : xres :=
  match clean_join_t t root (te_name e) with
  | inl err => (t, Some err)
  | inr p =>
      if (te_type e =? 53)%Z then after_read (te_rerr e) (lift (k_mkdir t p))
      else if (te_type e =? 48)%Z then after_read (te_rerr e) (lift (k_write t p false (te_data e)))
      else if (te_type e =? 103)%Z || (te_type e =? 120)%Z then after_read (te_rerr e) (t, None)
      else (t, Some XType)
  end.

Fixpoint extract_entries (t : tnode) (root : list string) (es : list tentry) : xres :=
  match es with
  | [] => (t, None)
  | e :: rest =>
      match extract_entry t root e with
      | (t1, Some err) => (t1, Some err)
      | (t1, None) => extract_entries t1 root rest
      end
  end.

(* Extract(buffer, targetDir): gzip.NewReader, MkdirAll(targetDir), the entries, the final Next() *)
Definition extract_model (t : tnode) (root : list string) (s : tstream) : xres :=
  if ts_gzerr s then (t, Some XStream) else
  match mkdir_all t root with
  | (t1, Some e) => (t1, Some (XKernel e))
  | (t1, None) =>
      match extract_entries t1 root (ts_entries s) with
      | (t2, None) => if ts_err s then (t2, Some XStream) else (t2, None)
      | r => r
      end
  end.

(* ---------- writeLock on the nested model ---------- *)
Inductive lerr := LSymlink | LStat (e : kerr) | LWrite (e : kerr).

(* dest := filepath.Join(chartpath, name); os.Lstat(dest): not-exist is fine (ENOENT only),
   another error or a symlink is refused; then os.WriteFile(dest, data, 0644) *)
Definition write_lock_t (t : tnode) (cwd : list string) (chartpath : string) (legacy : bool) (data : string)
  : tnode * option lerr :=
  let dest := path_join chartpath (lock_name legacy) in
  let write := match write_at t (k_walk t cwd dest true) true data with
               | (t', None) => (t', None)
               | (t', Some e) => (t', Some (LWrite e))
               end in
  match k_walk t cwd dest false with
  | WAt _ (TLink _) => (t, Some LSymlink)
  | WAt _ _ => write
  | WNew _ _ => write
  | WErr ENOENT => write
  | WErr e => (t, Some (LStat e))
  | WLink _ _ _ => (t, Some (LStat ELOOP))
  end.

(* the behaviour before fix 2970e48: os.WriteFile straight away *)
Definition write_lock_t_prefix (t : tnode) (cwd : list string) (chartpath : string) (legacy : bool) (data : string)
  : opres :=
  write_at t (k_walk t cwd (path_join chartpath (lock_name legacy)) true) true data.

(* ---------- observation: the tree as a sorted-by-construction flat listing ---------- *)
Inductive shallow := SNone | SFile (data : string) | SDir | SLink (target : string).

Definition shallow_of (n : option tnode) : shallow :=
  match n with
  | None => SNone
  | Some (TFile d) => SFile d
  | Some (TDir _) => SDir
  | Some (TLink tg) => SLink tg
  end.

Definition shallow_eqb (a b : shallow) : bool :=
  match a, b with
  | SNone, SNone | SDir, SDir => true
  | SFile x, SFile y => String.eqb x y
  | SLink x, SLink y => String.eqb x y
  | _, _ => false
  end.

(* every location of the tree with its shallow node, parents before children *)
Fixpoint flatten (fuel : nat) (t : tnode) (at_ : list string) : list (list string * shallow) :=
  match fuel with
  | O => []
  | S f =>
      match t with
      | TDir es =>
          (at_, SDir) :: flat_map (fun kv => flatten f (snd kv) (at_ ++ [fst kv])) es
      | n => [(at_, shallow_of (Some n))]
      end
  end.

(* ---------- links in an observed listing ---------- *)
Fixpoint loc_prefixb (p q : list string) : bool :=
  match p, q with
  | [], _ => true
  | a :: p', b :: q' => String.eqb a b && loc_prefixb p' q'
  | _ :: _, [] => false
  end.

(* the tree a listing describes (parents come before children in a listing) *)
Definition tree_of_listing (l : list (list string * shallow)) : tnode :=
  fold_left (fun t ps =>
               match fst ps, snd ps with
               | [], _ => t
               | p, SDir => match tset t p (TDir []) with Some t' => t' | None => t end
               | p, SFile d => match tset t p (TFile d) with Some t' => t' | None => t end
               | p, SLink g => match tset t p (TLink g) with Some t' => t' | None => t end
               | _, SNone => t
               end) l (TDir []).

(* following the link at [loc] (and whatever it leads to) ends inside [dest], or nowhere *)
Definition link_resolves_inside (t : tnode) (dest loc : list string) : bool :=
  match c_walk t loc true with
  | WAt l _ => loc_prefixb dest l
  | WNew p c => loc_prefixb dest (p ++ [c])
  | WErr _ => true
  | WLink _ _ _ => false
  end.

(* every link of the listing below [dest] that the tree [before] did not already hold
   resolves inside [dest] *)
Definition new_links_inside (before : tnode) (dest : list string) (after : list (list string * shallow)) : bool :=
  let ta := tree_of_listing after in
  forallb (fun ps =>
             match snd ps with
             | SLink g =>
                 if loc_prefixb dest (fst ps) && negb (shallow_eqb (shallow_of (tget before (fst ps))) (SLink g))
                 then link_resolves_inside ta dest (fst ps) else true
             | _ => true
             end) after.

(* ---------- a symlink case for Extract with a LEXICAL guard (not Helm's code) ----------
   What a "support links in plugin archives" change would look like when the target is checked
   textually: absolute targets refused; filepath.Join(filepath.Dir(path), linkname) has to stay
   below the target directory (filepath.Rel does not start with ".."); then os.Symlink.
   Used only by C16_lexical_link_guard_refuted. *)
Definition lexical_link_entry (t : tnode) (root : list string) (name linkname : string) : xres :=
  match clean_join_t t root name with
  | inl err => (t, Some err)
  | inr p =>
      if is_abs linkname then (t, Some XName) else
      let target := clean_comps (abs_path (removelast p) ++ "/" ++ linkname) in
      if negb (loc_prefixb root target) then (t, Some XName) else
      match c_walk t p false with
      | WNew parent c => lift (put t (parent ++ [c]) (TLink linkname))      (* os.Symlink *)
      | WAt _ _ => (t, Some (XKernel EEXIST))
      | WErr e => (t, Some (XKernel e))
      | WLink _ _ _ => (t, Some (XKernel ELOOP))
      end
  end.

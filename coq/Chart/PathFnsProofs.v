(* Proofs about Chart/PathFns.v and the concrete path.Clean model of Chart/Paths.v, for ALL
   byte strings: shape of the result, idempotence, the independent cleanliness test, the
   archive names and cleanJoin restated over the concrete clean. *)
From Coq Require Import List String Ascii Bool Arith ZArith Lia.
From Helm Require Import Chart.Paths Chart.PathsProofs Chart.PathFns Chart.Archive Chart.ArchiveProofs.
Import ListNotations.
Local Open Scope string_scope.

Definition noslash (c : string) : Prop := contains_char slash c = false.

(* ---------- small facts ---------- *)
Lemma good_noslash_dotdot : noslash "..".
Proof. reflexivity. Qed.

Lemma Forall_repeat {A} (P : A -> Prop) x k : P x -> Forall P (repeat x k).
Proof. intros H. induction k; simpl; constructor; auto. Qed.

Lemma split_on_slash_cons t : split_on slash (String slash t) = "" :: split_on slash t.
Proof. reflexivity. Qed.

Lemma is_abs_split s : is_abs s = true -> exists r, split_on slash s = "" :: r.
Proof.
  destruct s as [|a t]; simpl; [discriminate|]. intros H. rewrite H. eauto.
Qed.

Lemma not_abs_split s : is_abs s = false -> s <> "" ->
  exists h r, split_on slash s = h :: r /\ h <> "".
Proof.
  destruct s as [|a t]; simpl; [congruence|]. intros H _. rewrite H.
  destruct (split_on slash t) as [|h r]; eexists; eexists; split; eauto; discriminate.
Qed.

Lemma is_abs_join_rel h r : h <> "" -> noslash h -> is_abs (join "/" (h :: r)) = false.
Proof.
  intros Hne Hns. destruct h as [|a h']; [congruence|].
  unfold noslash in Hns. simpl in Hns. apply orb_false_iff in Hns as [Ha _].
  destruct r; simpl; exact Ha.
Qed.

Lemma good_nonempty c : good_comp c -> c <> "".
Proof. now intros (H & _). Qed.

Lemma rev_repeat {A} (x : A) k : rev (repeat x k) = repeat x k.
Proof.
  induction k; simpl; auto. rewrite IHk. clear.
  induction k; simpl; auto. now rewrite <- IHk.
Qed.

Lemma repeat_snoc {A} (x : A) k : (repeat x k ++ [x])%list = x :: repeat x k.
Proof. induction k; simpl; auto. now rewrite IHk. Qed.

(* ---------- the rooted pass ---------- *)
Lemma clean_go_rooted_shape l : forall acc, Forall good_comp acc ->
  Forall good_comp (clean_go true acc l) /\
  (forall c, In c (clean_go true acc l) -> In c acc \/ In c l).
Proof.
  induction l as [|c l IH]; intros acc Hacc; simpl.
  - split; [now apply Forall_rev|]. intros x Hx. left. now apply in_rev.
  - destruct (String.eqb c "" || String.eqb c ".") eqn:E.
    { destruct (IH acc Hacc) as [H1 H2]. split; auto. intros x Hx. destruct (H2 x Hx); auto. }
    destruct (String.eqb c "..") eqn:E2.
    + destruct acc as [|a acc'].
      * destruct (IH [] Hacc) as [H1 H2]. split; auto. intros x Hx. destruct (H2 x Hx); auto.
      * inversion Hacc as [|? ? Ha Hacc']; subst.
        assert (String.eqb a ".." = false) as -> by (apply String.eqb_neq; apply Ha).
        destruct (IH acc' Hacc') as [H1 H2]. split; auto.
        intros x Hx. destruct (H2 x Hx); [left; now right | right; now right].
    + apply orb_false_iff in E as [E0 E1]. apply String.eqb_neq in E0, E1, E2.
      assert (Forall good_comp (c :: acc)) as Hc by (constructor; auto; now repeat split).
      destruct (IH (c :: acc) Hc) as [H1 H2]. split; auto.
      intros x Hx. destruct (H2 x Hx) as [[<-|]|]; auto; right; now left.
Qed.

(* the non-rooted pass on a list that is already in normal form *)
Lemma clean_go_rel_normal j k g : Forall good_comp g ->
  clean_go false (repeat ".." j) (repeat ".." k ++ g) = (repeat ".." (j + k) ++ g)%list.
Proof.
  intros Hg. revert j. induction k as [|k IH]; intros j; simpl.
  - rewrite clean_go_good by assumption. now rewrite rev_repeat, Nat.add_0_r.
  - destruct j; simpl.
    + change [".."] with (repeat ".." 1). rewrite IH. reflexivity.
    + change (".." :: ".." :: repeat ".." j) with (repeat ".." (S (S j))). rewrite IH.
      replace (S (S j) + k)%nat with (S (j + S k))%nat by lia. reflexivity.
Qed.

(* ---------- path.Clean: shape ---------- *)
Lemma clean_comps_noslash s : Forall noslash (clean_comps s).
Proof.
  unfold clean_comps. pose proof (split_on_pieces slash s) as HP. rewrite Forall_forall in HP.
  apply Forall_forall. intros c Hc. destruct (is_abs s).
  - destruct (clean_go_rooted_shape (split_on slash s) [] (Forall_nil _)) as [_ H].
    destruct (H c Hc) as [[]|]; auto. now apply HP.
  - destruct (clean_go_shape0 (split_on slash s)) as (k & g & Hc' & _ & Hin). rewrite Hc' in Hc.
    apply in_app_or in Hc as [Hc|Hc]; [apply repeat_spec in Hc; subst; reflexivity|]. apply HP. auto.
Qed.

Lemma clean_comps_abs_good s : is_abs s = true -> Forall good_comp (clean_comps s).
Proof.
  intros H. unfold clean_comps. rewrite H. apply clean_go_rooted_shape. constructor.
Qed.

Lemma clean_comps_rel_shape s : is_abs s = false ->
  exists k g, clean_comps s = (repeat ".." k ++ g)%list /\ Forall good_comp g.
Proof.
  intros H. unfold clean_comps. rewrite H.
  destruct (clean_go_shape0 (split_on slash s)) as (k & g & Hc & Hg & _). eauto.
Qed.

(* rendering a component list the way path.Clean does *)
Definition render (abs : bool) (cs : list string) : string :=
  if abs then "/" ++ join "/" cs else match cs with [] => "." | _ => join "/" cs end.

Lemma path_clean_render s : s <> "" -> path_clean s = render (is_abs s) (clean_comps s).
Proof. destruct s; [congruence|reflexivity]. Qed.

(* what cleaning a rendered normal form gives back *)
Lemma comps_of_render_abs cs : Forall good_comp cs -> Forall noslash cs ->
  is_abs (render true cs) = true /\ clean_comps (render true cs) = cs.
Proof.
  intros Hg Hn. split; [reflexivity|]. unfold clean_comps, render. simpl is_abs. cbv iota.
  change ("/" ++ join "/" cs) with (String slash (join "/" cs)). rewrite split_on_slash_cons.
  simpl. destruct cs as [|c cs'].
  - reflexivity.
  - change "/" with (sep1 slash). rewrite split_join by (auto; discriminate).
    now rewrite clean_go_good.
Qed.

Lemma comps_of_render_rel k g : Forall good_comp g -> Forall noslash g ->
  is_abs (render false (repeat ".." k ++ g)) = false /\
  clean_comps (render false (repeat ".." k ++ g)) = (repeat ".." k ++ g)%list.
Proof.
  intros Hg Hn. unfold render. destruct (repeat ".." k ++ g)%list as [|h r] eqn:E.
  - split; reflexivity.
  - rewrite <- E.
    assert (Forall noslash (repeat ".." k ++ g)) as Hns.
    { apply Forall_app; split; auto. apply Forall_repeat. reflexivity. }
    assert (h <> "" /\ noslash h) as [Hh Hhn].
    { rewrite E in Hns. inversion Hns; subst. split; auto.
      destruct k; simpl in E.
      - subst g. inversion Hg; subst. now apply good_nonempty.
      - inversion E; subst. discriminate. }
    assert (is_abs (join "/" (repeat ".." k ++ g)) = false) as Habs.
    { rewrite E. now apply is_abs_join_rel. }
    split; auto. unfold clean_comps. rewrite Habs.
    change "/" with (sep1 slash). rewrite split_join by (auto; rewrite E; discriminate).
    change [] with (repeat ".." 0). now rewrite clean_go_rel_normal.
Qed.

(* cleaning does not change what a second cleaning sees *)
Lemma clean_of_clean s :
  is_abs (path_clean s) = is_abs s /\ clean_comps (path_clean s) = clean_comps s.
Proof.
  destruct (String.eqb s "") eqn:Es.
  { apply String.eqb_eq in Es. subst. split; reflexivity. }
  apply String.eqb_neq in Es. rewrite path_clean_render by assumption.
  pose proof (clean_comps_noslash s) as Hn.
  destruct (is_abs s) eqn:Ha.
  - apply comps_of_render_abs; auto. now apply clean_comps_abs_good.
  - destruct (clean_comps_rel_shape s Ha) as (k & g & Hc & Hg). rewrite Hc in *.
    apply comps_of_render_rel; auto. now apply Forall_app in Hn as [_ Hn].
Qed.

Lemma path_clean_ne s : path_clean s <> "".
Proof. apply path_clean_nonempty. Qed.

(* path.Clean is idempotent, for every byte string *)
Theorem path_clean_idem s : path_clean (path_clean s) = path_clean s.
Proof.
  destruct (String.eqb s "") eqn:Es.
  { apply String.eqb_eq in Es. subst. reflexivity. }
  apply String.eqb_neq in Es.
  rewrite (path_clean_render (path_clean s)) by apply path_clean_ne.
  destruct (clean_of_clean s) as [-> ->]. symmetry. now apply path_clean_render.
Qed.

(* the result in components: an absolute result is "/" followed by good components only; a
   relative result is a run of ".." followed by good components only ("." when there are none) *)
Theorem path_clean_components s :
  (is_abs s = true ->
     exists g, path_clean s = "/" ++ join "/" g /\ Forall good_comp g /\ Forall noslash g) /\
  (is_abs s = false ->
     exists k g, path_clean s = (match (repeat ".." k ++ g)%list with [] => "." | l => join "/" l end) /\
                 Forall good_comp g /\ Forall noslash g).
Proof.
  pose proof (clean_comps_noslash s) as Hn. split; intros Ha.
  - assert (s <> "") as Hs by (intro; subst; discriminate).
    rewrite path_clean_render, Ha by assumption. exists (clean_comps s).
    split; [reflexivity|]. split; [now apply clean_comps_abs_good|assumption].
  - destruct (String.eqb s "") eqn:Es.
    { apply String.eqb_eq in Es. subst. exists 0%nat, []. repeat split; constructor. }
    apply String.eqb_neq in Es. rewrite path_clean_render, Ha by assumption.
    destruct (clean_comps_rel_shape s Ha) as (k & g & Hc & Hg). rewrite Hc in *.
    exists k, g. split; [unfold render; destruct (repeat ".." k ++ g)%list; reflexivity|].
    split; [assumption|]. now apply Forall_app in Hn as [_ Hn].
Qed.

(* ---------- the independent cleanliness test ---------- *)
Lemma drop_dotdot_normal k g : Forall good_comp g -> drop_dotdot (repeat ".." k ++ g) = g.
Proof.
  intros Hg. induction k; simpl; auto.
  destruct g as [|c g']; auto. inversion Hg as [|? ? (_ & _ & Hc) _]; subst.
  simpl. apply String.eqb_neq in Hc. now rewrite Hc.
Qed.

Lemma forallb_good l : Forall good_comp l -> forallb good_compb l = true.
Proof.
  induction 1; simpl; auto. rewrite IHForall. apply good_compb_iff in H. now rewrite H.
Qed.

Lemma forallb_good_inv l : forallb good_compb l = true -> Forall good_comp l.
Proof.
  induction l; simpl; intros H; constructor; apply andb_true_iff in H as [H1 H2]; auto.
  now apply good_compb_iff.
Qed.

Lemma clean_body_rel (l : list string) h r : l = h :: r -> h <> "" ->
  clean_body l = forallb good_compb (drop_dotdot l).
Proof. intros -> H. destruct h; [congruence|reflexivity]. Qed.

Theorem path_clean_is_clean s : is_clean_path (path_clean s) = true.
Proof.
  unfold is_clean_path.
  destruct (String.eqb (path_clean s) ".") eqn:E1; auto.
  destruct (String.eqb (path_clean s) "/") eqn:E2; auto. rewrite !orb_false_l.
  apply String.eqb_neq in E1, E2.
  destruct (path_clean_components s) as [HA HR]. destruct (is_abs s) eqn:Ha.
  - destruct (HA eq_refl) as (g & Hp & Hg & Hn). rewrite Hp in *.
    change ("/" ++ join "/" g) with (String slash (join "/" g)). rewrite split_on_slash_cons.
    destruct g as [|c g']; [simpl in E2; congruence|].
    change "/" with (sep1 slash). rewrite split_join by (auto; discriminate).
    unfold clean_body. simpl is_nil. simpl negb. rewrite andb_true_l. now apply forallb_good.
  - destruct (HR eq_refl) as (k & g & Hp & Hg & Hn). rewrite Hp in *.
    destruct (repeat ".." k ++ g)%list as [|h r] eqn:E; [congruence|]. rewrite <- E in *.
    assert (Forall noslash (repeat ".." k ++ g)) as Hns.
    { apply Forall_app; split; auto. apply Forall_repeat. reflexivity. }
    change "/" with (sep1 slash). rewrite split_join by (auto; rewrite E; discriminate).
    assert (h <> "") as Hh.
    { destruct k; simpl in E.
      - subst g. inversion Hg; subst. now apply good_nonempty.
      - inversion E; subst. discriminate. }
    rewrite (clean_body_rel _ h r E Hh).
    rewrite drop_dotdot_normal by assumption. now apply forallb_good.
Qed.

Lemma drop_dotdot_decomp l : exists k, l = (repeat ".." k ++ drop_dotdot l)%list.
Proof.
  induction l as [|c l IH]; [exists 0%nat; reflexivity|]. simpl.
  destruct (String.eqb c "..") eqn:E.
  - apply String.eqb_eq in E. subst. destruct IH as (k & Hk). exists (S k). simpl. now rewrite <- Hk.
  - exists 0%nat. reflexivity.
Qed.

(* a path the test accepts is a fixed point of path.Clean *)
Theorem is_clean_fixed p : is_clean_path p = true -> path_clean p = p.
Proof.
  unfold is_clean_path. intros H.
  destruct (String.eqb p ".") eqn:E1; [apply String.eqb_eq in E1; subst; reflexivity|].
  destruct (String.eqb p "/") eqn:E2; [apply String.eqb_eq in E2; subst; reflexivity|].
  simpl in H. pose proof (join_split slash p) as Hj.
  pose proof (split_on_pieces slash p) as HP.
  destruct (split_on slash p) as [|h r] eqn:Es; [now apply split_on_nonempty in Es|].
  destruct (String.eqb h "") eqn:Eh.
  - apply String.eqb_eq in Eh. subst h. apply andb_true_iff in H as [Hne Hg].
    apply forallb_good_inv in Hg. apply Forall_inv_tail in HP. rename HP into HPr.
    destruct r as [|c r']; [discriminate|].
    assert (p = render true (c :: r')) as Hp.
    { rewrite <- Hj. unfold render. reflexivity. }
    assert (p <> "") as Hpn by (rewrite Hp; discriminate).
    rewrite path_clean_render by assumption.
    destruct (comps_of_render_abs (c :: r') Hg HPr) as [Ha Hc]. rewrite <- Hp in Ha, Hc.
    rewrite Ha, Hc. now symmetry.
  - assert (forallb good_compb (drop_dotdot (h :: r)) = true) as Hg.
    { destruct h; [discriminate|exact H]. }
    apply forallb_good_inv in Hg. destruct (drop_dotdot_decomp (h :: r)) as (k & Hk).
    set (g := drop_dotdot (h :: r)) in *.
    assert (Forall noslash g) as Hn.
    { rewrite Hk in HP. now apply Forall_app in HP as [_ HP]. }
    assert (p = render false (repeat ".." k ++ g)) as Hp.
    { rewrite <- Hk. unfold render. now rewrite <- Hj. }
    assert (p <> "") as Hpn.
    { intro Hp0. rewrite Hp0 in Es. simpl in Es. inversion Es as [[Hh Hr]]. rewrite <- Hh in Eh. discriminate. }
    rewrite path_clean_render by assumption.
    destruct (comps_of_render_rel k g Hg Hn) as [Ha Hc]. rewrite <- Hp in Ha, Hc.
    rewrite Ha, Hc. now symmetry.
Qed.

(* ---------- archive names over the concrete clean ---------- *)
(* every name LoadArchiveFiles exposes is a fixed point of path.Clean, relative, not ".",
   and does not start with ".." *)
Theorem arch_name_concrete h n : arch_name h = inr n ->
  path_clean n = n /\ is_clean_path n = true /\ is_abs n = false /\ n <> "." /\ has_prefix n ".." = false.
Proof.
  intros H. pose proof (arch_name_clean h n H) as (Hg & _ & _).
  destruct (clean_comps_good n Hg) as [_ Ha].
  unfold arch_name in H. set (delim := if contains_char bslash h then bslash else slash) in *.
  destruct (split_on delim h) as [|p0 rest]; [discriminate|].
  set (n0 := replace_char delim slash (join (String delim EmptyString) rest)) in *.
  destruct (is_abs n0); [discriminate|].
  destruct (String.eqb (path_clean n0) ".") eqn:Hdot; [discriminate|].
  destruct (String.prefix ".." (path_clean n0)) eqn:Hpre; [discriminate|].
  destruct (drive_prefix (path_clean n0)); [discriminate|].
  destruct (String.eqb p0 "Chart.yaml"); [discriminate|].
  inversion H; subst n. apply String.eqb_neq in Hdot.
  repeat split; auto using path_clean_idem, path_clean_is_clean.
Qed.

(* any property of the names the pipeline accepts holds of every loaded file *)
Lemma load_go_names_P (P : string -> Prop) maxf es :
  (forall h n, arch_name h = inr n -> P n) ->
  forall rem fs rs, load_go maxf rem es = (inr fs, rs) -> Forall (fun f => P (f_name f)) fs.
Proof.
  intros HP. induction es as [|e es IH]; intros rem fs rs H; simpl in H;
    unfold entry_over_remaining, entry_over_file_limit, short_read, budget_exhausted in H.
  - inversion H. constructor.
  - destruct (te_isdir e || te_xheader e).
    { destruct (te_rerr e); [discriminate|]. eauto. }
    destruct (arch_name (te_name e)) as [|n] eqn:En; [discriminate|].
    destruct (Z.gtb (te_size e) rem); [discriminate|].
    destruct (Z.gtb (te_size e) maxf); [discriminate|].
    destruct (te_rerr e); [discriminate|].
    destruct (_ || _); [discriminate|].
    destruct (load_go maxf _ es) as [res' rs'] eqn:Er.
    destruct res' as [|fs']; [discriminate|]. inversion H; subst.
    constructor; [simpl; eapply HP; eauto|eauto].
Qed.

Lemma loaded_names_P (P : string -> Prop) maxt maxf s fs :
  (forall h n, arch_name h = inr n -> P n) ->
  load_archive_files maxt maxf s = inr fs -> Forall (fun f => P (f_name f)) fs.
Proof.
  intros HP. unfold load_archive_files, load_archive_trace. destruct (ts_gzerr s); [discriminate|].
  destruct (load_go maxf maxt (ts_entries s)) as [res rs] eqn:E. simpl.
  destruct res as [|fs0]; [discriminate|]. destruct (ts_err s); [discriminate|].
  destruct fs0; [discriminate|]. intros H. inversion H; subst. eapply load_go_names_P; eauto.
Qed.

Theorem loaded_names_concrete maxt maxf s fs :
  load_archive_files maxt maxf s = inr fs ->
  Forall (fun f => path_clean (f_name f) = f_name f /\ is_clean_path (f_name f) = true /\
                   is_abs (f_name f) = false /\ f_name f <> "." /\ has_prefix (f_name f) ".." = false) fs.
Proof.
  apply (loaded_names_P (fun n => path_clean n = n /\ is_clean_path n = true /\ is_abs n = false /\
                                  n <> "." /\ has_prefix n ".." = false)).
  exact arch_name_concrete.
Qed.

(* ---------- path.Join ---------- *)
Lemma path_join_n_two a b : path_join_n [a; b] = path_join a b.
Proof.
  unfold path_join_n, path_join. destruct a as [|x a']; destruct b as [|y b']; simpl; auto.
  (* a <> "", b = "": Go joins a ++ "/" and cleans; same components as a *)
  set (a := String x a').
  assert (path_clean (a ++ "/") = path_clean a) as Hc.
  { assert (a <> "") as Ha by discriminate. assert (a ++ "/" <> "") as Ha' by discriminate.
    rewrite !path_clean_render by assumption. rewrite is_abs_app by assumption.
    f_equal. unfold clean_comps. rewrite is_abs_app by assumption.
    change (a ++ "/") with (a ++ String slash ""). rewrite split_on_concat, clean_go_app.
    simpl. now rewrite rev_involutive. }
  exact Hc.
Qed.

(* ---------- cleanJoin with the real final join ---------- *)
Lemma has_dotdot_clean_comps r : has_dotdot r = false ->
  existsb (fun c => String.eqb c "..") (clean_comps r) = false.
Proof.
  unfold has_dotdot, clean_comps. intros H. rewrite clean_go_nodotdot by assumption. simpl.
  induction (split_on slash r) as [|c l IH]; simpl in *; auto.
  apply orb_false_iff in H as [Hc Hl]. destruct (negb (trivial_comp c)); simpl; auto.
  rewrite Hc. auto.
Qed.

Lemma clean_go_trailing_empty r acc : clean_go r acc [""] = rev acc.
Proof. reflexivity. Qed.

Lemma clean_go_skip_empty r acc l : clean_go r acc ("" :: l) = clean_go r acc l.
Proof. reflexivity. Qed.

(* the join SecureJoin ends with: Clean(root + "/" + "/" + join cs) keeps the root's cleaned
   components and appends cs *)
Lemma secure_join_lex2_comps root cs p :
  root <> "" -> Forall good_comp cs -> Forall noslash cs ->
  p = path_join_n [root; "/" ++ join "/" cs] ->
  is_abs p = is_abs root /\ clean_comps p = (clean_comps root ++ cs)%list /\ path_clean p = p.
Proof.
  intros Hr Hg Hn ->. unfold path_join_n.
  assert (drop_empty [root; "/" ++ join "/" cs] = [root; "/" ++ join "/" cs]) as ->
    by (destruct root; [congruence|reflexivity]).
  set (x := join "/" [root; "/" ++ join "/" cs]).
  assert (x = root ++ String slash (String slash (join "/" cs))) as Hx by reflexivity.
  assert (is_abs x = is_abs root) as Hax by (rewrite Hx; now apply is_abs_app).
  assert (clean_comps x = (clean_comps root ++ cs)%list) as Hcx.
  { unfold clean_comps. rewrite Hax, Hx, split_on_concat, clean_go_app, split_on_slash_cons.
    destruct cs as [|c cs'].
    - simpl. now rewrite rev_involutive, app_nil_r.
    - change "/" with (sep1 slash). rewrite split_join by (auto; discriminate).
      rewrite clean_go_skip_empty, clean_go_good by assumption. now rewrite rev_involutive. }
  destruct (clean_of_clean x) as [H1 H2]. rewrite H1, H2, Hax, Hcx.
  repeat split; auto using path_clean_idem.
Qed.

Theorem clean_join2_confined root dest p :
  clean_join2 root dest = inr p ->
  let dest' := replace_char bslash slash dest in
  let rest := filter (fun c => negb (trivial_comp c)) (split_on slash dest') in
  Forall good_comp rest /\
  is_abs p = is_abs (path_clean root) /\
  clean_comps p = (clean_comps (path_clean root) ++ rest)%list /\
  existsb (fun c => String.eqb c "..") (clean_comps p) = false /\
  path_clean p = p.
Proof.
  unfold clean_join2. destruct (contains_char colon dest); [discriminate|].
  set (dest' := replace_char bslash slash dest).
  destruct (existsb (fun p => String.eqb p "..") (split_on slash dest')) eqn:Hdd; [discriminate|].
  destruct (is_abs dest'); [discriminate|]. unfold secure_join_lex2.
  destruct (has_dotdot (path_clean root)) eqn:Hr; [discriminate|].
  destruct (has_nul dest'); [discriminate|].
  intros H. injection H as Hp. cbv zeta.
  rewrite clean_go_nodotdot in Hp by assumption. simpl in Hp.
  set (rest := filter (fun c => negb (trivial_comp c)) (split_on slash dest')) in *.
  assert (Forall good_comp rest) as Hg by now apply filter_nontrivial_good.
  assert (Forall noslash rest) as Hn.
  { apply Forall_forall. intros c Hc. apply filter_In in Hc as [Hc _].
    pose proof (split_on_pieces slash dest') as HP. rewrite Forall_forall in HP. now apply HP. }
  destruct (secure_join_lex2_comps (path_clean root) rest p (path_clean_ne root) Hg Hn (eq_sym Hp))
    as (H1 & H2 & H3).
  repeat split; auto. rewrite H2, existsb_app.
  rewrite has_dotdot_clean_comps by assumption. simpl.
  clear -Hg. induction Hg as [|c l (_ & _ & Hc) _ IH]; simpl; auto.
  apply String.eqb_neq in Hc. now rewrite Hc.
Qed.

(* where both are defined and the cleaned root is not "/", the two cleanJoin models agree *)
Lemma join_app_root r cs : r <> "" -> cs <> [] -> r ++ "/" ++ join "/" cs = join "/" (r :: cs).
Proof. intros _ H. destruct cs; [congruence|reflexivity]. Qed.

Theorem clean_join2_agrees root dest :
  has_dotdot (path_clean root) = false -> clean_comps (path_clean root) <> [] ->
  has_nul (replace_char bslash slash dest) = false ->
  match clean_join root dest, clean_join2 root dest with
  | inl CJColon, inl CJ2Colon | inl CJDotDot, inl CJ2DotDot | inl CJAbs, inl CJ2Abs => True
  | inr a, inr b => a = b
  | _, _ => False
  end.
Proof.
  intros Hr Hroot Hnul. unfold clean_join, clean_join2.
  destruct (contains_char colon dest); auto.
  set (dest' := replace_char bslash slash dest) in *.
  destruct (existsb (fun p => String.eqb p "..") (split_on slash dest')) eqn:Hdd; auto.
  destruct (is_abs dest'); auto. unfold secure_join_lex2, secure_join_lex. rewrite Hr, Hnul.
  rewrite clean_go_nodotdot by assumption. cbn [rev app].
  set (rest := filter (fun c => negb (trivial_comp c)) (split_on slash dest')).
  assert (Forall good_comp rest) as Hg by now apply filter_nontrivial_good.
  assert (Forall noslash rest) as Hn.
  { apply Forall_forall. intros c Hc. apply filter_In in Hc as [Hc _].
    pose proof (split_on_pieces slash dest') as HP. rewrite Forall_forall in HP. now apply HP. }
  set (r := path_clean root) in *.
  destruct (secure_join_lex2_comps r rest _ (path_clean_ne root) Hg Hn eq_refl) as (H1 & H2 & H3).
  set (p := path_join_n [r; "/" ++ join "/" rest]) in *.
  assert (p <> "") as Hpn by (rewrite <- H3; apply path_clean_ne).
  rewrite <- H3, path_clean_render, H1, H2 by assumption.
  assert (r = render (is_abs r) (clean_comps r)) as Hrr.
  { unfold r at 1. rewrite <- path_clean_idem. fold r. apply path_clean_render. apply path_clean_ne. }
  destruct (clean_comps r) as [|d ds] eqn:Ec; [congruence|].
  destruct rest as [|c rest'].
  - rewrite app_nil_r. exact Hrr.
  - rewrite Hrr at 1. unfold render. destruct (is_abs r) eqn:Ha.
    + rewrite join_app by discriminate. now rewrite append_assoc.
    + change ((d :: ds) ++ c :: rest')%list with (d :: (ds ++ c :: rest'))%list. cbv iota.
      change (d :: (ds ++ c :: rest'))%list with ((d :: ds) ++ c :: rest')%list.
      rewrite join_app by discriminate. reflexivity.
Qed.

(* ---------- the byte-level path.Clean against the component-level one ---------- *)
(* all strings over [alpha] of length n / of length at most n *)
Fixpoint strings_of_len (alpha : list ascii) (n : nat) : list string :=
  match n with
  | O => [""]
  | S k => flat_map (fun s => map (fun a => String a s) alpha) (strings_of_len alpha k)
  end.

Fixpoint strings_upto (alpha : list ascii) (n : nat) : list string :=
  match n with
  | O => [""]
  | S k => (strings_upto alpha k ++ strings_of_len alpha (S k))%list
  end.

Definition clean_alphabet : list ascii := [slash; "."%char; "a"%char].

Lemma clean_bytes_agree_upto8 :
  forallb (fun s => String.eqb (clean_bytes s) (path_clean s)) (strings_upto clean_alphabet 8) = true.
Proof. vm_compute. reflexivity. Qed.

(* partial: every string of at most 8 bytes over {/, ., a} (9841 strings, by computation); all
   other strings are tied by the correspondence run, which compares both with Go's path.Clean *)
Lemma clean_bytes_agree_small s :
  In s (strings_upto clean_alphabet 8) -> clean_bytes s = path_clean s.
Proof.
  intros H. pose proof clean_bytes_agree_upto8 as HF. rewrite forallb_forall in HF.
  apply String.eqb_eq. now apply HF.
Qed.

(* ---------- DownloadTo's file name is never empty ---------- *)
Fixpoint last_char (s : string) : option ascii :=
  match s with
  | EmptyString => None
  | String a EmptyString => Some a
  | String _ t => last_char t
  end.

Lemma strip_trailing_last c s : strip_trailing c s = "" \/ exists a, last_char (strip_trailing c s) = Some a /\ a <> c.
Proof.
  induction s as [|x s IH]; simpl; [now left|].
  destruct (strip_trailing c s) as [|y t] eqn:E.
  - destruct (Ascii.eqb x c) eqn:Ex; [now left|]. right. exists x. split; [reflexivity|].
    intro; subst. now rewrite Ascii.eqb_refl in Ex.
  - right. destruct IH as [IH|(a & Ha & Hc)]; [discriminate|]. exists a. split; auto.
Qed.

Lemma last_split_nonempty c s a : last_char s = Some a -> a <> c -> forall d, last (split_on c s) d <> "".
Proof.
  revert a. induction s as [|x s IH]; intros a Hl Hc d; [discriminate|].
  simpl in Hl. destruct s as [|y s'].
  - inversion Hl; subst. simpl. destruct (Ascii.eqb a c) eqn:E; [apply Ascii.eqb_eq in E; congruence|]. discriminate.
  - specialize (IH a Hl Hc).
    change (split_on c (String x (String y s'))) with
      (if Ascii.eqb x c then "" :: split_on c (String y s')
       else match split_on c (String y s') with h :: r => String x h :: r | [] => [String x ""] end).
    remember (split_on c (String y s')) as rest eqn:Er. destruct rest as [|h r].
    { exfalso. eapply split_on_nonempty. symmetry. exact Er. }
    destruct (Ascii.eqb x c).
    + exact (IH d).
    + destruct r as [|h2 r2]; [simpl; discriminate|exact (IH d)].
Qed.

Lemma path_base_nonempty s : path_base s <> "".
Proof.
  unfold path_base. destruct s as [|a s']; [discriminate|].
  destruct (strip_trailing_last slash (String a s')) as [E|(x & Hx & Hc)].
  - rewrite E. discriminate.
  - destruct (strip_trailing slash (String a s')) as [|b t] eqn:E; [discriminate|].
    eapply last_split_nonempty; eauto.
Qed.

(* the file name DownloadTo writes: one non-empty path element that is neither "." nor "..",
   and joining it to a destination appends exactly that component *)
Theorem download_name_element upath name d :
  download_name upath = Some name -> d <> "" ->
  name <> "" /\ name <> "." /\ name <> ".." /\ contains_char slash name = false /\
  clean_comps (path_join d name) = (clean_comps d ++ [name])%list.
Proof.
  intros H Hd. destruct (download_confined upath name d H Hd) as (H1 & H2 & H3 & H4).
  assert (name <> "") as Hne.
  { unfold download_name in H. destruct (_ || _); [discriminate|]. inversion H. apply path_base_nonempty. }
  repeat split; auto.
  assert (path_join d name = path_clean (d ++ "/" ++ name)) as ->
    by (unfold path_join; destruct d; [congruence|]; destruct name; [congruence|reflexivity]).
  destruct (clean_of_clean (d ++ "/" ++ name)) as [_ ->]. rewrite H4.
  apply String.eqb_neq in Hne. now rewrite Hne.
Qed.

(* pkg/chart/v2/util/save.go: Save / writeTarContents / writeToTar / validateName and
   chart.Metadata.Validate, as they are.  tar+gzip are the identity on entry lists: the
   result of [save] is the list of entries handed to the tar writer, in order. *)
From Coq Require Import List String Ascii Bool Arith ZArith.
From Helm Require Import Values.Tree Chart.Paths Chart.Archive Chart.Files.
Import ListNotations.
Local Open Scope string_scope.

(* the loop over the dependencies: the entries of each, in order; stops at the first failure *)
Definition deps_loop (f : chart -> option (list tentry)) : list chart -> option (list tentry) :=
  fix go (l : list chart) : option (list tentry) :=
    match l with
    | [] => Some []
    | d :: t =>
        match f d with
        | None => None
        | Some es => match go t with Some r => Some (es ++ r)%list | None => None end
        end
    end.

Section Save.
  (* third-party: sigs.k8s.io/yaml, encoding/json, Masterminds/semver, unicode tables *)
  Variable md_enc : meta -> string.          (* yaml.Marshal(c.Metadata) *)
  Variable lock_enc : lockv -> string.       (* yaml.Marshal(c.Lock) *)
  Variable json_valid : string -> bool.      (* json.Valid *)
  Variable sanitize : meta -> meta.          (* the sanitizeString pass of Metadata.Validate *)
  Variable is_semver : string -> bool.       (* semver.NewVersion succeeds *)
  Variable rest_valid : meta -> bool.        (* maintainers / dependencies / alias checks *)

  Definition valid_type (t : string) : bool :=
    String.eqb t "" || String.eqb t "application" || String.eqb t "library".

  (* validateName (save.go) and the name check of Metadata.Validate: name == filepath.Base(name) *)
  Definition name_is_base (n : string) : bool := String.eqb (path_base n) n.

  (* chart.Metadata.Validate: sanitises in place, then checks *)
  Definition validate (m0 : meta) : option meta :=
    let m := sanitize m0 in
    if String.eqb (m_api m) "" then None else
    if String.eqb (m_name m) "" then None else
    if negb (name_is_base (m_name m)) then None else
    if String.eqb (m_version m) "" then None else
    if negb (is_semver (m_version m)) then None else
    if negb (valid_type (m_type m)) then None else
    if negb (rest_valid m) then None else
    Some m.

  (* writeToTar: regular entry, mode 0644, size = len(body); name through filepath.ToSlash *)
  Definition tar_entry (name body : string) : tentry :=
    mkTE name 48 420 (slen body) body false.

  Definition concat_opt {A} (l : list (option (list A))) : option (list A) :=
    fold_right (fun x acc => match x, acc with Some a, Some b => Some (a ++ b)%list | _, _ => None end) (Some []) l.

  (* writeTarContents(out, c, prefix) *)
  Fixpoint write_tar_contents (prefix : string) (c : chart) {struct c} : option (list tentry) :=
    let m := c_meta c in
    if negb (name_is_base (m_name m)) then None else
    let base := path_join prefix (m_name m) in
    let cdata := md_enc (if String.eqb (m_api m) "v1" then strip_deps m else m) in
    let e_chart := [tar_entry (path_join base "Chart.yaml") cdata] in
    let e_lock := if String.eqb (m_api m) "v2" then
                    match c_lock c with
                    | Some l => [tar_entry (path_join base "Chart.lock") (lock_enc l)]
                    | None => []
                    end
                  else [] in
    let e_vals := map (fun f => tar_entry (path_join base "values.yaml") (f_data f))
                      (filter is_values_file (c_raw c)) in
    match (match c_schema c with
           | Some s => if json_valid s then Some [tar_entry (path_join base "values.schema.json") s] else None
           | None => Some []
           end) with
    | None => None
    | Some e_schema =>
        let e_tpl := map (fun f => tar_entry (path_join base (f_name f)) (f_data f)) (c_templates c) in
        let e_files := map (fun f => tar_entry (path_join base (f_name f)) (f_data f)) (c_files c) in
        match deps_loop (write_tar_contents (path_join base "charts")) (c_deps c) with
        | None => None
        | Some e_deps => Some (e_chart ++ e_lock ++ e_vals ++ e_schema ++ e_tpl ++ e_files ++ e_deps)%list
        end
    end.

  (* Save: Validate (mutating the chart's metadata), then writeTarContents with prefix "" *)
  Definition save (c : chart) : option (list tentry) :=
    match validate (c_meta c) with
    | None => None
    | Some m => write_tar_contents "" (set_meta c m)
    end.

  (* the archive file name Save creates: <name>-<version>.tgz *)
  Definition save_filename (c : chart) : option string :=
    match validate (c_meta c) with
    | None => None
    | Some m => Some (m_name m ++ "-" ++ m_version m ++ ".tgz")
    end.

  (* action.Package.Run after LoadDir: --version override, validateVersion,
     CheckDependencies (every declared dependency is present in charts/), then Save *)
  Variable dep_names : meta -> list string.   (* names in Metadata.Dependencies *)

  Definition set_version (m : meta) (v : string) : meta :=
    mkMeta (m_api m) (m_name m) v (m_type m) (m_deps m) (m_rest m).

  Definition check_dependencies (c : chart) : bool :=
    forallb (fun r => existsb (fun d => String.eqb (m_name (c_meta d)) r) (c_deps c)) (dep_names (c_meta c)).

  Definition package (ver : string) (c : chart) : option (list tentry) :=
    let m := if String.eqb ver "" then c_meta c else set_version (c_meta c) ver in
    let c := set_meta c m in
    if negb (is_semver (m_version m)) then None else
    if negb (check_dependencies c) then None else
    save c.
End Save.

(* C15_savedir_load_roundtrip: SaveDir (Chart/SaveDir.v) then LoadDir, both in the model, on
   the chart trees of Chart/Wf2.v.  SaveDir writes the chart's own files below <name>/ and every
   dependency as an archive charts/<name>-<version>.tgz (Save); LoadDir walks the directory in
   whatever order the file system lists it, LoadFiles classifies the files, unpacks the nested
   archives (recursive LoadArchive) and returns the dependencies in the order of their FILE names. *)
From Coq Require Import List String Ascii Bool Arith ZArith Lia ZifyBool Permutation Sorted.
From Helm Require Import Common.SortUniq Values.Tree Chart.Paths Chart.PathsProofs Chart.Archive Chart.ArchiveProofs
  Chart.Files Chart.Save Chart.Load Chart.SaveDir Chart.Wf Chart.Wf2 Chart.LoadProofs Chart.AgreeProofs Chart.RecProofs
  Chart.Rt2Proofs Chart.OrderProofs.
Import ListNotations.
Local Open Scope string_scope.

(* ---------- the class of a file in LoadFiles' second loop ---------- *)
Inductive fcls := KChartYaml | KChartLock | KValues | KSchema | KReqYaml | KReqLock | KTpl | KSub (k : string) | KFile.

Definition cls (f : file) : fcls :=
  let n := f_name f in
  if String.eqb n "Chart.yaml" then KChartYaml
  else if String.eqb n "Chart.lock" then KChartLock
  else if String.eqb n "values.yaml" then KValues
  else if String.eqb n "values.schema.json" then KSchema
  else if String.eqb n "requirements.yaml" then KReqYaml
  else if String.eqb n "requirements.lock" then KReqLock
  else if String.prefix "templates/" n then KTpl
  else if String.prefix "charts/" n then
    if String.eqb (path_ext n) ".prov" && negb (contains_char slash (charts_rest n)) then KFile
    else KSub (fst (split2 (charts_rest n)))
  else KFile.

Definition is_cls (k : fcls) (f : file) : bool :=
  match k, cls f with
  | KChartYaml, KChartYaml | KChartLock, KChartLock | KValues, KValues | KSchema, KSchema
  | KReqYaml, KReqYaml | KReqLock, KReqLock | KTpl, KTpl | KFile, KFile => true
  | KSub a, KSub b => String.eqb a b
  | _, _ => false
  end.

Section Cls.
  Variable md_merge : meta -> string -> option meta.
  Variable lock_dec : string -> option (option lockv).
  Variable parse_values : string -> option val.
  Notation lstep := (load_step md_merge lock_dec parse_values).

  (* load_step, by class *)
  Lemma lstep_by_cls om lk vs sch tpl fls sub f :
    lstep (mkLS om lk vs sch tpl fls sub) f =
    match cls f with
    | KChartYaml => inr (mkLS om lk vs sch tpl fls sub)
    | KChartLock => match lock_dec (f_data f) with
                    | None => inl LLock
                    | Some l => inr (mkLS om l vs sch tpl fls sub)
                    end
    | KValues => match parse_values (f_data f) with
                 | None => inl LValues
                 | Some v => inr (mkLS om lk (Some v) sch tpl fls sub)
                 end
    | KSchema => inr (mkLS om lk vs (Some (f_data f)) tpl fls sub)
    | KReqYaml => match md_merge (meta_or_new om) (f_data f) with
                  | None => inl LReq
                  | Some m => inr (mkLS (Some m) lk vs sch tpl (if is_v1 (Some m) then fls ++ [f] else fls)%list sub)
                  end
    | KReqLock => match lock_dec (f_data f) with
                  | None => inl LLock
                  | Some l => inr (mkLS (Some (meta_or_new om)) l vs sch tpl
                                        (if is_v1 (Some (meta_or_new om)) then fls ++ [f] else fls)%list sub)
                  end
    | KTpl => inr (mkLS om lk vs sch (tpl ++ [f])%list fls sub)
    | KSub k => inr (mkLS om lk vs sch tpl fls (sub ++ [(k, mkFile (charts_rest (f_name f)) (f_data f))])%list)
    | KFile => inr (mkLS om lk vs sch tpl (fls ++ [f])%list sub)
    end.
  Proof.
    unfold load_step, cls, charts_rest.
    destruct (String.eqb (f_name f) "Chart.yaml"); [reflexivity|].
    destruct (String.eqb (f_name f) "Chart.lock"); [reflexivity|].
    destruct (String.eqb (f_name f) "values.yaml"); [reflexivity|].
    destruct (String.eqb (f_name f) "values.schema.json"); [reflexivity|].
    destruct (String.eqb (f_name f) "requirements.yaml"); [reflexivity|].
    destruct (String.eqb (f_name f) "requirements.lock"); [reflexivity|].
    destruct (String.prefix "templates/" (f_name f)); [reflexivity|].
    destruct (String.prefix "charts/" (f_name f)); [|reflexivity].
    destruct (String.eqb (path_ext (f_name f)) ".prov" && negb (contains_char slash (substring 7 (String.length (f_name f) - 7) (f_name f)))); reflexivity.
  Qed.

  (* Chart.lock and requirements.lock in one file list: the one that comes later decides the lock *)
  Lemma lock_last_wins st f g la lb :
    cls f = KChartLock -> cls g = KReqLock ->
    lock_dec (f_data f) = Some la -> lock_dec (f_data g) = Some lb ->
    (exists st', load_loop md_merge lock_dec parse_values st [f; g] = inr st' /\ ls_lock st' = lb) /\
    (exists st', load_loop md_merge lock_dec parse_values st [g; f] = inr st' /\ ls_lock st' = la).
  Proof.
    intros Hf Hg Ha Hb. destruct st as [om lk vs sch tpl fls sub]. split; cbn [load_loop].
    - rewrite lstep_by_cls, Hf, Ha, lstep_by_cls, Hg, Hb. eexists. split; reflexivity.
    - rewrite lstep_by_cls, Hg, Hb, lstep_by_cls, Hf, Ha. eexists. split; reflexivity.
  Qed.
End Cls.

Lemma lock_last_wins_names md_merge lock_dec parse_values (st : lstate) (f g : file) (la lb : option lockv) :
  f_name f = "Chart.lock" -> f_name g = "requirements.lock" ->
  lock_dec (f_data f) = Some la -> lock_dec (f_data g) = Some lb ->
  (exists st', load_loop md_merge lock_dec parse_values st [f; g] = inr st' /\ ls_lock st' = lb) /\
  (exists st', load_loop md_merge lock_dec parse_values st [g; f] = inr st' /\ ls_lock st' = la).
Proof.
  intros Hf Hg. apply lock_last_wins; unfold cls; [rewrite Hf|rewrite Hg]; reflexivity.
Qed.

(* ---------- writes into a fresh directory ---------- *)
(* [n] can be created next to the paths [seen]: no NUL, no path of [seen] is n, a parent of n, or below n *)
Definition fresh (seen : list string) (n : string) : bool :=
  negb (contains_char nul n) &&
  forallb (fun g => negb (below g n) && negb (below n g) && negb (String.eqb g n)) seen.

Fixpoint fresh_all (seen : list string) (l : list string) : bool :=
  match l with
  | [] => true
  | n :: r => fresh seen n && fresh_all (seen ++ [n]) r
  end.

Lemma existsb_map {A B} (g : A -> B) (p : B -> bool) l : existsb p (map g l) = existsb (fun x => p (g x)) l.
Proof. induction l; simpl; congruence. Qed.

Lemma dir_put_fresh t rel data : fresh (map f_name t) rel = true -> dir_put t rel data = Some (t ++ [mkFile rel data])%list.
Proof.
  unfold fresh, dir_put. rewrite andb_true_iff, negb_true_iff. intros [-> H].
  rewrite forallb_forall in H.
  assert (forall p, (forall g, In g (map f_name t) -> p g = false) -> existsb (fun g => p (f_name g)) t = false) as Hex.
  { intros p Hp. rewrite <- existsb_map. destruct (existsb p (map f_name t)) eqn:E; auto.
    apply existsb_exists in E as (g & Hg & Eg). rewrite (Hp g Hg) in Eg. discriminate. }
  rewrite (Hex (fun g => below g rel)), (Hex (fun g => below rel g)), (Hex (fun g => String.eqb g rel)); auto;
    intros g Hg; specialize (H g Hg); rewrite !andb_true_iff, !negb_true_iff in H; tauto.
Qed.

Lemma good_dest : good_comp dest_mark.
Proof. unfold dest_mark. repeat split; discriminate. Qed.

(* a clean relative name stays where it is *)
Lemma rel_of_wf name fname : wf_cname name = true -> wf_fname fname = true -> rel_of name fname = Some (Some fname).
Proof.
  intros Hn Hf. destruct (wf_cname_props name Hn) as (Hg & _). destruct (wf_fname_props fname Hf) as (Hfg & _).
  unfold rel_of. rewrite (clean_go_good true (dest_mark :: name :: split_on slash fname) []).
  2:{ constructor; [exact good_dest|]. constructor; assumption. }
  cbn [rev app]. rewrite !String.eqb_refl. cbn [andb].
  destruct (split_on_cons slash fname) as (h & r & Hs). rewrite Hs. rewrite <- Hs.
  change "/" with (sep1 slash). now rewrite join_split.
Qed.

Lemma rel_of_good name fname : good_comp name -> Forall good_comp (split_on slash fname) -> rel_of name fname = Some (Some fname).
Proof.
  intros Hg Hfg. unfold rel_of. rewrite (clean_go_good true (dest_mark :: name :: split_on slash fname) []).
  2:{ constructor; [exact good_dest|]. constructor; assumption. }
  cbn [rev app]. rewrite !String.eqb_refl. cbn [andb].
  destruct (split_on_cons slash fname) as (h & r & Hs). rewrite Hs. rewrite <- Hs.
  change "/" with (sep1 slash). now rewrite join_split.
Qed.

Lemma dir_write_all_fresh name l : forall t,
  wf_cname name = true -> Forall (fun f => wf_fname (f_name f) = true) l ->
  fresh_all (map f_name t) (map f_name l) = true ->
  dir_write_all name t l = Some (t ++ l)%list.
Proof.
  induction l as [|f l IH]; intros t Hn Hw Hf; cbn [dir_write_all].
  - now rewrite app_nil_r.
  - inversion Hw; subst. cbn [map fresh_all] in Hf. apply andb_true_iff in Hf as [Hf1 Hf2].
    unfold dir_write. rewrite (rel_of_wf name (f_name f) Hn) by assumption.
    rewrite (dir_put_fresh t _ _ Hf1). rewrite file_eta. rewrite IH; auto.
    + now rewrite <- app_assoc.
    + now rewrite map_app.
Qed.

Lemma fresh_all_app seen a b : fresh_all seen (a ++ b) = fresh_all seen a && fresh_all (seen ++ a) b.
Proof.
  revert seen. induction a as [|x a IH]; intros seen; cbn [app fresh_all]; [now rewrite app_nil_r|].
  rewrite IH, <- app_assoc. cbn [app]. now rewrite andb_assoc.
Qed.

Lemma fresh_nodup seen l : fresh_all seen l = true -> NoDup l /\ (forall n, In n l -> ~ In n seen).
Proof.
  revert seen. induction l as [|x l IH]; intros seen H; cbn [fresh_all] in H.
  - split; [constructor|contradiction].
  - apply andb_true_iff in H as [Hx Hl]. destruct (IH _ Hl) as [Hnd Hns].
    unfold fresh in Hx. apply andb_true_iff in Hx as [_ Hx]. rewrite forallb_forall in Hx.
    split.
    + constructor; auto. intros Hin. apply (Hns x Hin). apply in_app_iff. right. now left.
    + intros n [<-|Hin] Hs.
      * specialize (Hx _ Hs). rewrite !andb_true_iff, !negb_true_iff in Hx. destruct Hx as [_ Hx].
        now rewrite String.eqb_refl in Hx.
      * apply (Hns n Hin). apply in_app_iff. now left.
Qed.

(* ---------- permutations ---------- *)
Lemma perm_filter {A} (p : A -> bool) l l' : Permutation l l' -> Permutation (filter p l) (filter p l').
Proof.
  induction 1 as [|x l l' _ IH|x y l|l l' l'' _ IH1 _ IH2]; simpl; auto.
  - destruct (p x); auto.
  - destruct (p x), (p y); auto. apply perm_swap.
  - eapply perm_trans; eauto.
Qed.

Lemma perm_existsb {A} (p : A -> bool) l l' : Permutation l l' -> existsb p l = existsb p l'.
Proof.
  induction 1 as [|x l l' _ IH|x y l|l l' l'' _ IH1 _ IH2]; simpl; auto; try congruence.
  destruct (p x), (p y); reflexivity.
Qed.

Lemma perm_flat_map {A B} (f : A -> list B) l l' : Permutation l l' -> Permutation (flat_map f l) (flat_map f l').
Proof.
  induction 1 as [|x l l' _ IH|x y l|l l' l'' _ IH1 _ IH2]; simpl; auto.
  - now apply Permutation_app_head.
  - rewrite !app_assoc. apply Permutation_app_tail. apply Permutation_app_comm.
  - eapply perm_trans; eauto.
Qed.

Lemma filter_all_true {A} (p : A -> bool) l : Forall (fun x => p x = true) l -> filter p l = l.
Proof. induction 1; simpl; auto. rewrite H. congruence. Qed.

Lemma filter_all_false {A} (p : A -> bool) l : Forall (fun x => p x = false) l -> filter p l = [].
Proof. induction 1; simpl; auto. now rewrite H. Qed.

Lemma perm_singleton {A} (x : A) l : Permutation l [x] -> l = [x].
Proof. intros H. apply Permutation_sym in H. now apply Permutation_length_1_inv in H. Qed.

Lemma perm_short {A} (l l' : list A) : (List.length l <= 1)%nat -> Permutation l' l -> l' = l.
Proof.
  intros Hl H. destruct l as [|x [|y r]]; [|now apply perm_singleton|simpl in Hl; lia].
  apply Permutation_sym in H. now apply Permutation_nil in H.
Qed.

Lemma dedup_nodup_id l : NoDup l -> dedup l = l.
Proof.
  induction 1 as [|x l Hx _ IH]; simpl; auto.
  destruct (existsb (String.eqb x) l) eqn:E; [|congruence].
  apply existsb_exists in E as (y & Hy & Ey). apply String.eqb_eq in Ey. subst. contradiction.
Qed.

(* sorting the keys = the keys of the list sorted by key *)
Lemma ssort_map_key {A} (key : A -> string) l :
  ssort str_leb (map key l) = map key (ssort (fun a b => str_leb (key a) (key b)) l).
Proof.
  induction l as [|x t IH]; simpl; auto. rewrite IH.
  generalize (ssort (fun a b => str_leb (key a) (key b)) t). intros u.
  induction u as [|y u IHu]; simpl; auto. destruct (str_leb (key x) (key y)); simpl; congruence.
Qed.

Lemma filter_key_unique {A} (key : A -> string) l d :
  NoDup (map key l) -> In d l -> filter (fun x => String.eqb (key x) (key d)) l = [d].
Proof.
  induction l as [|x l IH]; intros Hnd Hin; [contradiction|]. cbn [map] in Hnd. inversion Hnd as [|? ? Hx Hl]; subst.
  cbn [filter]. destruct Hin as [->|Hin].
  - rewrite String.eqb_refl. f_equal. apply filter_all_false. apply Forall_forall. intros y Hy.
    apply String.eqb_neq. intros E. apply Hx. rewrite <- E. now apply in_map.
  - assert (String.eqb (key x) (key d) = false) as ->.
    { apply String.eqb_neq. intros E. apply Hx. rewrite E. now apply in_map. }
    now apply IH.
Qed.

Lemma length_app_s a b : String.length (a ++ b) = (String.length a + String.length b)%nat.
Proof. induction a; simpl; auto. Qed.

Lemma nodup_tail {A} (a b : list A) : NoDup (a ++ b) -> NoDup b.
Proof. induction a as [|x a IH]; simpl; auto. intros H. inversion H; auto. Qed.

Lemma nodup_head {A} (a b : list A) : NoDup (a ++ b) -> NoDup a.
Proof.
  induction a as [|x a IH]; simpl; [constructor|]. intros H. inversion H as [|? ? Hx Hl]; subst.
  constructor; auto. intros Hin. apply Hx. apply in_app_iff. now left.
Qed.

Lemma ext_tgz_go x : ext_go (x ++ ".tgz") = Some ".tgz".
Proof. induction x as [|a t IH]; [reflexivity|]. cbn [append ext_go]. now rewrite IH. Qed.

Section DirRt.
  Variable md_enc : meta -> string.
  Variable lock_enc : lockv -> string.
  Variable json_valid : string -> bool.
  Variable sanitize : meta -> meta.
  Variable is_semver : string -> bool.
  Variable rest_valid : meta -> bool.
  Variable md_merge : meta -> string -> option meta.
  Variable lock_dec : string -> option (option lockv).
  Variable parse_values : string -> option val.
  Variable untar : string -> tstream.
  Variable tgz : list tentry -> string.
  Variable maxt maxf : Z.

  Hypothesis md_rt : forall m, validate sanitize is_semver rest_valid m = Some m ->
                               md_merge empty_meta (md_enc m) = Some m.
  Hypothesis md_nobom : forall m, has_bom (md_enc m) = false.
  Hypothesis lock_rt : forall l, lock_dec (lock_enc l) = Some (Some l).
  Hypothesis lock_nobom : forall l, has_bom (lock_enc l) = false.
  (* tar+gzip: reading back what Save wrote (regular entries, mode 0644, size = length of the body)
     yields the entries; a gzip stream does not start with a BOM *)
  Hypothesis untar_tgz : forall l : list (string * string),
    untar (tgz (map (fun p => tar_entry (fst p) (snd p)) l)) = mkTS false (map (fun p => tar_entry (fst p) (snd p)) l) false.
  Hypothesis tgz_nobom : forall es, has_bom (tgz es) = false.

  Notation ENC2 := (md_enc2 md_enc).
  Notation SP := (saved_pairs ENC2 lock_enc).
  Notation TP := (tree_pairs ENC2 lock_enc).
  Notation TE := (tree_entries ENC2 lock_enc).
  Notation LOADED := (loaded_files ENC2 lock_enc).
  Notation WF2 := (wf2_chart md_merge lock_dec parse_values json_valid sanitize is_semver rest_valid).
  Notation WT2 := (wf2_tree md_merge lock_dec parse_values json_valid sanitize is_semver rest_valid).
  Notation LFILES := (load_files md_merge lock_dec parse_values untar sanitize is_semver rest_valid maxt maxf).
  Notation LDIR := (load_dir_walk md_merge lock_dec parse_values untar sanitize is_semver rest_valid maxt maxf).
  Notation lstep := (load_step md_merge lock_dec parse_values).
  Notation lloop := (load_loop md_merge lock_dec parse_values).
  Notation SAVEDIR := (save_dir md_enc lock_enc json_valid sanitize is_semver rest_valid tgz).
  Notation CANON := (canon2 md_enc lock_enc).

  (* the lemmas of Rt2Proofs at these codecs *)
  Lemma L_save d : WT2 d -> save md_enc lock_enc json_valid sanitize is_semver rest_valid d = Some (TE d).
  Proof. intros H. eapply save_wf2; eauto. Qed.
  Lemma L_save_filename d : WT2 d ->
    save_filename sanitize is_semver rest_valid d = Some (m_name (c_meta d) ++ "-" ++ m_version (c_meta d) ++ ".tgz").
  Proof. intros H. eapply save_filename_wf2; eauto. Qed.
  Lemma L_cname d : WT2 d -> wf_cname (dname d) = true.
  Proof. intros H. eapply wf2_tree_cname; eauto. Qed.
  Lemma L_own_names d : WF2 (own d) -> Forall (fun p => wf_fname (fst p) = true) (SP d).
  Proof. intros H. eapply own_names_ok2; eauto. Qed.
  Lemma L_archive d : WT2 d -> nobom_tree d -> fits maxt maxf (TE d) ->
    load_archive_files maxt maxf (mkTS false (TE d) false) = inr (map mk2 (TP d)).
  Proof. intros. eapply archive_of_tree2; eauto. Qed.
  Lemma L_load n d : (depth d <= n)%nat -> WT2 d -> LFILES n (map mk2 (TP d)) = inr (CANON d).
  Proof. intros. eapply load_tree2; eauto. Qed.
  Lemma L_same n d : (depth d <= n)%nat -> WT2 d -> same_tree (norm d) (CANON d).
  Proof. intros. eapply same_tree_canon2; eauto. Qed.
  Lemma L_raw_values d : WF2 (own d) -> filter is_values_file (LOADED d) = raw_values d.
  Proof. intros. eapply raw_values_own2; eauto. Qed.
  Lemma L_files d : WF2 d -> exists v1, forallb (wf_file2 v1) (c_files d) = true.
  Proof. intros. eapply wf2_files; eauto. Qed.
  Lemma L_yaml_valid d : WF2 d ->
    validate sanitize is_semver rest_valid (yaml_meta (c_meta d)) = Some (yaml_meta (c_meta d)).
  Proof. intros. eapply wf2_yaml_valid; eauto. Qed.

  (* the archive file SaveDir (through Save) writes for a dependency *)
  Definition dep_fname (d : chart) : string := m_name (c_meta d) ++ "-" ++ m_version (c_meta d) ++ ".tgz".
  Definition dep_file (d : chart) : file := mkFile ("charts/" ++ dep_fname d) (tgz (TE d)).

  (* the directory tree SaveDir writes, in the order it writes it *)
  Definition dir_tree (c : chart) : list file := (LOADED c ++ map dep_file (c_deps c))%list.

  Lemma dir_write_fresh name t n d :
    wf_cname name = true -> wf_fname n = true -> fresh (map f_name t) n = true ->
    dir_write name t n d = Some (t ++ [mkFile n d])%list.
  Proof.
    intros Hn Hw Hf. pose proof (dir_write_all_fresh name [mkFile n d] t Hn) as H.
    cbn [dir_write_all f_name f_data map fresh_all] in H. rewrite Hf in H. specialize (H ltac:(repeat constructor; exact Hw) eq_refl).
    destruct (dir_write name t n d); [exact H|discriminate].
  Qed.

  Lemma dep_fname_good d : contains_char slash (dep_fname d) = false ->
    Forall good_comp (split_on slash ("charts/" ++ dep_fname d)).
  Proof.
    intros Hs. change ("charts/" ++ dep_fname d) with ("charts" ++ String slash (dep_fname d)).
    rewrite split_on_sep by reflexivity. rewrite (split_on_nosep slash _ Hs).
    constructor; [repeat split; discriminate|]. constructor; [|constructor].
    assert (4 <= String.length (dep_fname d))%nat as Hl.
    { unfold dep_fname. rewrite !length_app_s. simpl. lia. }
    repeat split; intros E; rewrite E in Hl; simpl in Hl; lia.
  Qed.

  Lemma save_deps_fresh name deps : forall t,
    good_comp name ->
    Forall WT2 deps -> Forall (fun d => contains_char slash (dep_fname d) = false) deps ->
    fresh_all (map f_name t) (map f_name (map dep_file deps)) = true ->
    save_deps md_enc lock_enc json_valid sanitize is_semver rest_valid tgz name t deps = Some (t ++ map dep_file deps)%list.
  Proof.
    induction deps as [|d deps IH]; intros t Hn Hw Hsl Hf; cbn [save_deps map].
    - now rewrite app_nil_r.
    - inversion Hw; subst. inversion Hsl; subst. cbn [map fresh_all] in Hf. apply andb_true_iff in Hf as [Hf1 Hf2].
      rewrite (L_save_filename d) by assumption. rewrite (L_save d) by assumption.
      fold (dep_fname d). cbn [f_name dep_file] in Hf1. unfold dir_write.
      rewrite (rel_of_good name _ Hn (dep_fname_good d ltac:(assumption))). rewrite (dir_put_fresh t _ _ Hf1).
      fold (dep_file d). rewrite IH; auto.
      + now rewrite <- app_assoc.
      + now rewrite map_app.
  Qed.

  (* SaveDir on a well-formed tree whose paths do not collide: exactly [dir_tree] *)
  Lemma save_dir_tree c :
    WT2 c -> contains_char nul (dname c) = false ->
    Forall (fun d => contains_char slash (dep_fname d) = false) (c_deps c) ->
    fresh_all [] (map f_name (dir_tree c)) = true ->
    SAVEDIR c = Some (dir_tree c).
  Proof.
    intros Hwf Hnul Hdsl Hfresh. pose proof (L_cname c Hwf) as Hcn.
    inversion Hwf as [c' Hown Hnd Hok Hdeps]; subst.
    pose proof (L_own_names c Hown) as Hnames.
    destruct Hown as [Hval _ _ _ _ _ _]. cbn [own c_meta] in Hval.
    destruct (validate_inv _ _ _ _ _ Hval) as (_ & _ & Hbase & _).
    unfold dir_tree in *. rewrite (loaded_files_eq ENC2 lock_enc c) in *.
    cbn [app map f_name fresh_all] in Hfresh. apply andb_true_iff in Hfresh as [_ Hfresh]. cbn [app] in Hfresh.
    rewrite !map_app, !fresh_all_app in Hfresh. rewrite !andb_true_iff in Hfresh.
    destruct Hfresh as ((F1 & F2 & F3 & F4 & F5) & F6).
    (* the names of the own files are clean *)
    unfold saved_pairs in Hnames. rewrite !Forall_app in Hnames.
    destruct Hnames as (_ & N1 & N2 & N3 & N4 & N5).
    assert (forall (l : list (string * string)), Forall (fun p => wf_fname (fst p) = true) l ->
              Forall (fun f => wf_fname (f_name f) = true) (map mk2 l)) as Hmk.
    { intros l H. apply Forall_forall. intros f Hf. apply in_map_iff in Hf as (p & <- & Hp).
      rewrite Forall_forall in H. now apply H. }
    unfold save_dir. unfold dname in *. rewrite Hbase, Hnul. cbn [negb]. cbv iota.
    set (t0 := [mkFile "Chart.yaml" (md_enc (if String.eqb (m_api (c_meta c)) "v1" then strip_deps (c_meta c) else c_meta c))]).
    assert (t0 = [mkFile "Chart.yaml" (ENC2 (c_meta c))]) as Ht0 by reflexivity.
    (* Chart.lock *)
    assert ((if String.eqb (m_api (c_meta c)) "v2"
             then match c_lock c with
                  | Some l => dir_write (m_name (c_meta c)) t0 "Chart.lock" (lock_enc l)
                  | None => Some t0
                  end
             else Some t0) = Some (t0 ++ map mk2 (lock_seg lock_enc c))%list) as ->.
    { unfold lock_seg in *. destruct (String.eqb (m_api (c_meta c)) "v2"); [|now rewrite app_nil_r].
      destruct (c_lock c) as [l|]; [|now rewrite app_nil_r].
      cbn [map mk2 fst snd f_name fresh_all] in *. apply andb_true_iff in F1 as [F1 _].
      rewrite (dir_write_fresh _ t0 "Chart.lock" _ Hcn eq_refl F1). reflexivity. }
    (* values.yaml *)
    rewrite (dir_write_all_fresh (m_name (c_meta c)) _ (t0 ++ map mk2 (lock_seg lock_enc c)) Hcn).
    2:{ apply Forall_forall. intros f Hf. apply in_map_iff in Hf as (g & <- & _). reflexivity. }
    2:{ rewrite map_app. exact F2. }
    (* values.schema.json *)
    set (t2 := ((t0 ++ map mk2 (lock_seg lock_enc c)) ++ map (fun f => mkFile "values.yaml" (f_data f)) (filter is_values_file (c_raw c)))%list).
    assert (match c_schema c with
            | Some s => dir_write (m_name (c_meta c)) t2 "values.schema.json" s
            | None => Some t2
            end = Some (t2 ++ map mk2 (schema_seg c))%list) as ->.
    { unfold schema_seg in *. destruct (c_schema c) as [s|]; [|now rewrite app_nil_r].
      cbn [map mk2 fst snd f_name fresh_all] in *. apply andb_true_iff in F3 as [F3 _].
      rewrite (dir_write_fresh _ t2 "values.schema.json" s Hcn eq_refl); [reflexivity|].
      unfold t2. rewrite !map_app. exact F3. }
    (* templates, files *)
    rewrite (dir_write_all_fresh (m_name (c_meta c)) (c_templates c) _ Hcn).
    2:{ specialize (Hmk _ N4). rewrite map_map in Hmk. cbn [mk2 fst snd] in Hmk. now rewrite map_file_eta in Hmk. }
    2:{ unfold t2. rewrite !map_app. exact F4. }
    rewrite (dir_write_all_fresh (m_name (c_meta c)) (c_files c) _ Hcn).
    2:{ specialize (Hmk _ N5). rewrite map_map in Hmk. cbn [mk2 fst snd] in Hmk. now rewrite map_file_eta in Hmk. }
    2:{ unfold t2. rewrite !map_app. exact F5. }
    (* dependencies *)
    rewrite (save_deps_fresh (m_name (c_meta c)) (c_deps c) _ (proj1 (wf_cname_props _ Hcn)) Hdeps Hdsl).
    - unfold t2, t0, raw_values. f_equal. cbn [app]. rewrite <- !app_assoc. reflexivity.
    - unfold t2, t0. rewrite !map_app. cbn [app map f_name] in *. rewrite <- !app_assoc. exact F6.
  Qed.

  (* ---------- classes by name ---------- *)
  Lemma cls_special f :
    (cls f = KChartYaml -> f_name f = "Chart.yaml") /\ (cls f = KChartLock -> f_name f = "Chart.lock") /\
    (cls f = KValues -> f_name f = "values.yaml") /\ (cls f = KSchema -> f_name f = "values.schema.json") /\
    (cls f = KReqYaml -> f_name f = "requirements.yaml") /\ (cls f = KReqLock -> f_name f = "requirements.lock").
  Proof.
    unfold cls.
    destruct (String.eqb (f_name f) "Chart.yaml") eqn:E1; [apply String.eqb_eq in E1; repeat split; intros; congruence|].
    destruct (String.eqb (f_name f) "Chart.lock") eqn:E2; [apply String.eqb_eq in E2; repeat split; intros; congruence|].
    destruct (String.eqb (f_name f) "values.yaml") eqn:E3; [apply String.eqb_eq in E3; repeat split; intros; congruence|].
    destruct (String.eqb (f_name f) "values.schema.json") eqn:E4; [apply String.eqb_eq in E4; repeat split; intros; congruence|].
    destruct (String.eqb (f_name f) "requirements.yaml") eqn:E5; [apply String.eqb_eq in E5; repeat split; intros; congruence|].
    destruct (String.eqb (f_name f) "requirements.lock") eqn:E6; [apply String.eqb_eq in E6; repeat split; intros; congruence|].
    destruct (String.prefix "templates/" (f_name f)); [repeat split; discriminate|].
    destruct (String.prefix "charts/" (f_name f)); [|repeat split; discriminate].
    destruct (String.eqb (path_ext (f_name f)) ".prov" && negb (contains_char slash (charts_rest (f_name f)))); repeat split; discriminate.
  Qed.

  Definition special (k : fcls) : Prop :=
    k = KChartYaml \/ k = KChartLock \/ k = KValues \/ k = KSchema \/ k = KReqYaml \/ k = KReqLock.

  Lemma special_same_name k f g : special k -> cls f = k -> cls g = k -> f_name f = f_name g.
  Proof.
    intros Hk Hf Hg. destruct (cls_special f) as (A1 & A2 & A3 & A4 & A5 & A6).
    destruct (cls_special g) as (B1 & B2 & B3 & B4 & B5 & B6).
    destruct Hk as [->|[->|[->|[->|[->| ->]]]]]; [rewrite A1, B1|rewrite A2, B2|rewrite A3, B3|rewrite A4, B4|rewrite A5, B5|rewrite A6, B6]; auto.
  Qed.

  Lemma is_cls_iff k f : is_cls k f = true <-> cls f = k.
  Proof.
    unfold is_cls. destruct k, (cls f); split; intros H; try discriminate; try reflexivity.
    - apply String.eqb_eq in H. now subst.
    - inversion H. apply String.eqb_refl.
  Qed.

  Definition has (k : fcls) (l : list file) : bool := existsb (is_cls k) l.

  (* a special class occurs at most once among files with pairwise different names *)
  Lemma special_fresh k pre f post :
    special k -> NoDup (map f_name (pre ++ f :: post)) -> cls f = k -> has k pre = false.
  Proof.
    intros Hk Hnd Hf. unfold has. destruct (existsb (is_cls k) pre) eqn:E; auto.
    apply existsb_exists in E as (g & Hg & Eg). apply is_cls_iff in Eg.
    pose proof (special_same_name k f g Hk Hf Eg) as Hn.
    rewrite map_app in Hnd. cbn [map] in Hnd. apply NoDup_remove_2 in Hnd. exfalso. apply Hnd.
    apply in_app_iff. left. rewrite Hn. now apply in_map.
  Qed.

  Lemma cls_tpl f : String.prefix "templates/" (f_name f) = true -> cls f = KTpl.
  Proof.
    intros H. pose proof (prefix_split "templates/" (f_name f) H) as Hn. unfold cls. rewrite H. rewrite Hn.
    reflexivity.
  Qed.

  Lemma cls_plain f : reserved (f_name f) = false -> String.prefix "templates/" (f_name f) = false ->
    String.prefix "charts/" (f_name f) = false -> cls f = KFile.
  Proof.
    unfold reserved. rewrite !orb_false_iff. intros (((((H1 & H2) & H3) & H4) & H5) & H6) Ht Hc.
    unfold cls. now rewrite H1, H2, H3, H4, H5, H6, Ht, Hc.
  Qed.

  Lemma cls_prov f : prov_direct (f_name f) = true -> cls f = KFile.
  Proof.
    unfold prov_direct. rewrite !andb_true_iff. intros [[Hp He] Hs].
    pose proof (prefix_split "charts/" (f_name f) Hp) as Hn. unfold cls, charts_rest.
    rewrite Hp, He, Hs. rewrite Hn. reflexivity.
  Qed.

  Lemma ext_tgz x : path_ext (x ++ ".tgz") = ".tgz".
  Proof.
    unfold path_ext. assert (ext_go (x ++ ".tgz") = Some ".tgz") as ->; [|reflexivity].
    induction x as [|a t IH]; [reflexivity|]. cbn [append ext_go]. now rewrite IH.
  Qed.

  Lemma ext_go_app_noslash p s e : contains_char slash s = false -> ext_go s = Some e -> ext_go (p ++ s) = Some e.
  Proof. intros Hs He. induction p as [|a t IH]; [exact He|]. cbn [append ext_go]. now rewrite IH. Qed.

  Lemma dep_fname_noslash d : WT2 d -> is_semver (m_version (c_meta d)) = true ->
    contains_char slash (m_version (c_meta d)) = false -> contains_char slash (dep_fname d) = false.
  Proof.
    intros Hw _ Hv. destruct (wf_cname_props _ (L_cname d Hw)) as (_ & Hs & _).
    unfold dep_fname, dname in *. rewrite !contains_char_app, Hs, Hv. reflexivity.
  Qed.

  (* the archive of a dependency is handed to the subchart table under its file name *)
  Lemma cls_dep d : contains_char slash (dep_fname d) = false -> cls (dep_file d) = KSub (dep_fname d).
  Proof.
    intros Hs. unfold cls, dep_file, charts_rest. cbn [f_name].
    change (String.eqb ("charts/" ++ dep_fname d) "Chart.yaml") with false.
    change (String.eqb ("charts/" ++ dep_fname d) "Chart.lock") with false.
    change (String.eqb ("charts/" ++ dep_fname d) "values.yaml") with false.
    change (String.eqb ("charts/" ++ dep_fname d) "values.schema.json") with false.
    change (String.eqb ("charts/" ++ dep_fname d) "requirements.yaml") with false.
    change (String.eqb ("charts/" ++ dep_fname d) "requirements.lock") with false.
    change (String.prefix "templates/" ("charts/" ++ dep_fname d)) with false.
    rewrite (prefix_app "charts/" (dep_fname d)). cbv iota.
    replace (substring 7 (String.length ("charts/" ++ dep_fname d) - 7) ("charts/" ++ dep_fname d)) with (dep_fname d)
      by (symmetry; exact (substring_app_tail "charts/" (dep_fname d))).
    assert (path_ext ("charts/" ++ dep_fname d) = ".tgz") as ->.
    { unfold path_ext, dep_fname. rewrite <- !append_assoc. now rewrite ext_tgz_go. }
    cbn [String.eqb Ascii.eqb Bool.eqb andb]. unfold split2. rewrite (split_on_nosep slash _ Hs). reflexivity.
  Qed.

  (* ---------- the second loop of LoadFiles on the files of one chart directory, in any order ---------- *)
  Definition is_filecls (f : file) : bool := is_cls KFile f || is_cls KReqYaml f || is_cls KReqLock f.
  Definition sub_ent (f : file) : list (string * file) :=
    match cls f with
    | KSub k => [(k, mkFile (charts_rest (f_name f)) (f_data f))]
    | _ => []
    end.
  Definition subs' (l : list file) : list (string * file) := flat_map sub_ent l.

  Section OneChart.
    Variable c : chart.

    (* the state of the loop after the files [pre] *)
    Definition St (pre : list file) : lstate :=
      mkLS (Some (if has KReqYaml pre then c_meta c else yaml_meta (c_meta c)))
           (if has KChartLock pre || has KReqLock pre then c_lock c else None)
           (if has KValues pre then c_values c else None)
           (if has KSchema pre then c_schema c else None)
           (filter (is_cls KTpl) pre) (filter is_filecls pre) (subs' pre).

    (* what the special files of this chart decode to *)
    Definition facts (f : file) : Prop :=
      match cls f with
      | KChartLock => lock_dec (f_data f) = Some (c_lock c)
      | KValues => exists v, parse_values (f_data f) = Some v /\ c_values c = Some v
      | KSchema => c_schema c = Some (f_data f)
      | KReqYaml => md_merge (yaml_meta (c_meta c)) (f_data f) = Some (c_meta c) /\ m_api (c_meta c) = "v1"
      | KReqLock => lock_dec (f_data f) = Some (c_lock c) /\ m_api (c_meta c) = "v1"
      | _ => True
      end.

    Lemma has_app k a b : has k (a ++ b) = has k a || has k b.
    Proof. unfold has. apply existsb_app. Qed.

    Lemma has_one k f : has k [f] = is_cls k f.
    Proof. unfold has. simpl. apply orb_false_r. Qed.

    Lemma yaml_meta_api m : m_api (yaml_meta m) = m_api m.
    Proof. unfold yaml_meta. destruct (String.eqb (m_api m) "v1"); reflexivity. Qed.

    Lemma step pre f :
      facts f -> (forall k, special k -> cls f = k -> has k pre = false) ->
      lstep (St pre) f = inr (St (pre ++ [f])).
    Proof.
      intros Hf Hu. unfold St. rewrite lstep_by_cls.
      rewrite !has_app, !has_one, !filter_app. unfold subs'. rewrite flat_map_app. cbn [flat_map filter].
      unfold facts in Hf. unfold is_filecls, sub_ent, is_cls.
      destruct (cls f) eqn:E; cbn [orb andb]; rewrite ?orb_false_r, ?orb_true_r, ?app_nil_r; try reflexivity.
      - (* Chart.lock *) rewrite Hf. reflexivity.
      - (* values.yaml *) destruct Hf as (v & -> & ->). reflexivity.
      - (* values.schema.json *) rewrite Hf. reflexivity.
      - (* requirements.yaml *)
        destruct Hf as [Hm Ha]. rewrite (Hu KReqYaml) by (try exact E; unfold special; tauto). cbn [orb].
        unfold meta_or_new. rewrite Hm. unfold is_v1. rewrite Ha. reflexivity.
      - (* requirements.lock *)
        destruct Hf as [Hl Ha]. rewrite Hl. unfold meta_or_new, is_v1.
        assert (m_api (if has KReqYaml pre then c_meta c else yaml_meta (c_meta c)) = "v1") as ->.
        { destruct (has KReqYaml pre); [exact Ha|now rewrite yaml_meta_api]. }
        reflexivity.
    Qed.

    Lemma lloop_S post : forall pre,
      NoDup (map f_name (pre ++ post)) -> Forall facts post ->
      lloop (St pre) post = inr (St (pre ++ post)).
    Proof.
      induction post as [|f post IH]; intros pre Hnd Hf; cbn [load_loop].
      - now rewrite app_nil_r.
      - inversion Hf; subst. rewrite step; auto.
        + rewrite IH; auto; rewrite <- app_assoc; auto.
        + intros k Hk Hc. eapply special_fresh; eauto.
    Qed.
  End OneChart.

  (* ---------- requirements.* among files with pairwise different names ---------- *)
  Lemma v1_fold_facts l : forall m0 lk m1 lk1,
    NoDup (map f_name l) -> v1_fold md_merge lock_dec m0 lk l = Some (m1, lk1) ->
    (forall f, In f l -> is_req_yaml f = true -> md_merge m0 (f_data f) = Some m1) /\
    ((forall f, In f l -> is_req_yaml f = false) -> m1 = m0) /\
    (forall f, In f l -> is_req_lock f = true -> lock_dec (f_data f) = Some lk1) /\
    ((forall f, In f l -> is_req_lock f = false) -> lk1 = lk).
  Proof.
    induction l as [|f t IH]; intros m0 lk m1 lk1 Hnd H.
    - simpl in H. inversion H; subst. repeat split; auto; contradiction.
    - cbn [map] in Hnd. inversion Hnd as [|? ? Hnin Hnd']; subst. cbn [v1_fold] in H.
      assert (forall g nm, In g t -> f_name f = nm -> f_name g = nm -> False) as Hother.
      { intros g nm Hg Hf1 Hg1. apply Hnin. rewrite Hf1, <- Hg1. now apply in_map. }
      destruct (is_req_yaml f) eqn:Ey.
      + destruct (md_merge m0 (f_data f)) as [m'|] eqn:Em; [|discriminate].
        destruct (String.eqb (m_api m') "v1"); [|discriminate].
        destruct (IH m' lk m1 lk1 Hnd' H) as (I1 & I2 & I3 & I4).
        assert (forall g, In g t -> is_req_yaml g = false) as Hno.
        { intros g Hg. destruct (is_req_yaml g) eqn:Eg; auto. exfalso.
          unfold is_req_yaml in *. apply String.eqb_eq in Ey, Eg. exact (Hother g _ Hg Ey Eg). }
        pose proof (I2 Hno) as ->.
        assert (is_req_lock f = false) as El.
        { unfold is_req_yaml, is_req_lock in *. apply String.eqb_eq in Ey. now rewrite Ey. }
        repeat split.
        * intros g [<-|Hg] Hy; [exact Em|]. rewrite (Hno g Hg) in Hy. discriminate.
        * intros Hall. rewrite (Hall f (or_introl eq_refl)) in Ey. discriminate.
        * intros g [<-|Hg] Hl; [congruence|]. now apply I3.
        * intros Hall. apply I4. intros g Hg. apply Hall. now right.
      + destruct (is_req_lock f) eqn:El.
        * destruct (lock_dec (f_data f)) as [l'|] eqn:Ed; [|discriminate].
          destruct (IH m0 l' m1 lk1 Hnd' H) as (I1 & I2 & I3 & I4).
          assert (forall g, In g t -> is_req_lock g = false) as Hno.
          { intros g Hg. destruct (is_req_lock g) eqn:Eg; auto. exfalso.
            unfold is_req_lock in *. apply String.eqb_eq in El, Eg. exact (Hother g _ Hg El Eg). }
          pose proof (I4 Hno) as ->.
          repeat split.
          -- intros g [<-|Hg] Hy; [congruence|]. now apply I1.
          -- intros Hall. apply I2. intros g Hg. apply Hall. now right.
          -- intros g [<-|Hg] Hl; [exact Ed|]. rewrite (Hno g Hg) in Hl. discriminate.
          -- intros Hall. rewrite (Hall f (or_introl eq_refl)) in El. discriminate.
        * destruct (IH m0 lk m1 lk1 Hnd' H) as (I1 & I2 & I3 & I4).
          repeat split.
          -- intros g [<-|Hg] Hy; [congruence|]. now apply I1.
          -- intros Hall. apply I2. intros g Hg. apply Hall. now right.
          -- intros g [<-|Hg] Hl; [congruence|]. now apply I3.
          -- intros Hall. apply I4. intros g Hg. apply Hall. now right.
  Qed.

  Lemma has_in k l f : In f l -> cls f = k -> has k l = true.
  Proof. intros Hin Hc. unfold has. apply existsb_exists. exists f. split; auto. now apply is_cls_iff. Qed.

  Lemma cls_req_yaml f : f_name f = "requirements.yaml" -> cls f = KReqYaml.
  Proof. intros H. unfold cls. rewrite H. reflexivity. Qed.
  Lemma cls_req_lock f : f_name f = "requirements.lock" -> cls f = KReqLock.
  Proof. intros H. unfold cls. rewrite H. reflexivity. Qed.

  (* the classes and the decodings of everything SaveDir writes for one chart *)
  Lemma tree_facts c :
    WF2 (own c) -> (List.length (raw_values c) <= 1)%nat -> NoDup (map f_name (c_files c)) ->
    Forall (fun d => contains_char slash (dep_fname d) = false) (c_deps c) ->
    Forall (facts c) (dir_tree c) /\
    Forall (fun f => cls f = KTpl) (c_templates c) /\
    Forall (fun f => is_filecls f = true) (c_files c) /\
    (has KReqYaml (dir_tree c) = false -> yaml_meta (c_meta c) = c_meta c) /\
    (has KChartLock (dir_tree c) || has KReqLock (dir_tree c) = false -> c_lock c = None) /\
    (has KValues (dir_tree c) = false -> c_values c = None) /\
    (has KSchema (dir_tree c) = false -> c_schema c = None).
  Proof.
    intros Hwf Hlen Hnd Hdeps. destruct (L_files _ Hwf) as [v1f Hfl].
    destruct Hwf as [Hval Hapi Hname Hvals Hsch Htpl _].
    cbn [own c_meta c_lock c_values c_schema c_templates c_files c_deps] in *.
    change (raw_values (own c)) with (raw_values c) in Hvals.
    assert (Forall (fun f => cls f = KTpl) (c_templates c)) as HT.
    { apply Forall_forall. intros f Hf. rewrite forallb_forall in Htpl. apply cls_tpl. now destruct (wf_template_props f (Htpl f Hf)). }
    (* the Files list, by apiVersion *)
    assert (Forall (fun f => facts c f /\ is_filecls f = true) (c_files c) /\
            (has KReqYaml (c_files c) = false -> yaml_meta (c_meta c) = c_meta c) /\
            (m_api (c_meta c) = "v1" -> has KReqLock (c_files c) = false -> c_lock c = None)) as (HF & HE1 & HE2).
    { destruct Hapi as [[Ha Hw]|(Ha & Hsv & Hfold & Hw)].
      - split; [|split].
        + apply Forall_forall. intros f Hf. rewrite forallb_forall in Hw.
          destruct (wf_file2_cases false f (Hw f Hf)) as [[? _]|[[? _]|(Hr & Ht & Hc)]]; try discriminate.
          assert (cls f = KFile) as Hc' by (destruct Hc; [now apply cls_plain|now apply cls_prov]).
          unfold facts, is_filecls, is_cls. rewrite Hc'. auto.
        + intros _. unfold yaml_meta. now rewrite Ha.
        + intros Hv1. rewrite Ha in Hv1. discriminate.
      - assert (yaml_meta (c_meta c) = strip_deps (c_meta c)) as Hy by (unfold yaml_meta; now rewrite Ha).
        destruct (v1_fold_facts _ _ _ _ _ Hnd Hfold) as (V1 & V2 & V3 & V4).
        split; [|split].
        + apply Forall_forall. intros f Hf. rewrite forallb_forall in Hw.
          destruct (wf_file2_cases true f (Hw f Hf)) as [[_ Hn]|[[_ Hn]|(Hr & Ht & Hc)]].
          * unfold facts, is_filecls, is_cls. rewrite (cls_req_yaml f Hn). rewrite Hy. split; [|reflexivity].
            split; auto. apply V1; auto. unfold is_req_yaml. now rewrite Hn.
          * unfold facts, is_filecls, is_cls. rewrite (cls_req_lock f Hn). split; [|reflexivity].
            split; auto. apply V3; auto. unfold is_req_lock. now rewrite Hn.
          * assert (cls f = KFile) as Hc' by (destruct Hc; [now apply cls_plain|now apply cls_prov]).
            unfold facts, is_filecls, is_cls. rewrite Hc'. auto.
        + intros Hno. rewrite Hy. symmetry. apply V2. intros f Hf.
          destruct (is_req_yaml f) eqn:E; auto. unfold is_req_yaml in E. apply String.eqb_eq in E.
          rewrite (has_in KReqYaml _ f Hf (cls_req_yaml f E)) in Hno. discriminate.
        + intros _ Hno. apply V4. intros f Hf.
          destruct (is_req_lock f) eqn:E; auto. unfold is_req_lock in E. apply String.eqb_eq in E.
          rewrite (has_in KReqLock _ f Hf (cls_req_lock f E)) in Hno. discriminate. }
    unfold dir_tree. rewrite (loaded_files_eq ENC2 lock_enc c).
    split; [|split; [exact HT|split; [eapply Forall_impl; [|exact HF]; intros f Hf; apply Hf|]]].
    - (* the decodings *)
      constructor; [exact I|]. rewrite !Forall_app. repeat split.
      + unfold lock_seg. destruct (String.eqb (m_api (c_meta c)) "v2") eqn:Ea; [|constructor].
        destruct (c_lock c) as [l|] eqn:El; constructor; [|constructor].
        unfold facts. cbn. rewrite El. apply lock_rt.
      + apply Forall_forall. intros f Hf. apply in_map_iff in Hf as (g & <- & Hg).
        unfold facts. cbn. destruct (raw_values c) as [|g0 [|g1 r]] eqn:Er; [contradiction| |simpl in Hlen; lia].
        destruct Hg as [<-|[]]. cbn [vals_fold] in Hvals.
        destruct (parse_values (f_data g0)) as [v|]; [|discriminate]. inversion Hvals. eauto.
      + unfold schema_seg. destruct (c_schema c) as [sc|] eqn:Esc; constructor; [|constructor]. unfold facts. cbn. now rewrite Esc.
      + eapply Forall_impl; [|exact HT]. intros f Hf. unfold facts. now rewrite Hf.
      + eapply Forall_impl; [|exact HF]. intros f Hf. apply Hf.
      + apply Forall_forall. intros f Hf. apply in_map_iff in Hf as (d & <- & Hd).
        rewrite Forall_forall in Hdeps. unfold facts. now rewrite (cls_dep d (Hdeps d Hd)).
    - (* what the absence of a special file means *)
      assert (forall k, has k (mkFile "Chart.yaml" (ENC2 (c_meta c))
                 :: (map mk2 (lock_seg lock_enc c) ++ map (fun f => mkFile "values.yaml" (f_data f)) (raw_values c) ++
                     map mk2 (schema_seg c) ++ c_templates c ++ c_files c) ++ map dep_file (c_deps c))%list = false ->
                has k (map mk2 (lock_seg lock_enc c)) = false /\
                has k (map (fun f => mkFile "values.yaml" (f_data f)) (raw_values c)) = false /\
                has k (map mk2 (schema_seg c)) = false /\ has k (c_files c) = false) as Hsplit.
      { intros k H. unfold has in *. cbn [existsb] in H. rewrite !existsb_app in H. rewrite !orb_false_iff in H. tauto. }
      repeat split.
      + intros H. apply HE1. now destruct (Hsplit _ H) as (_ & _ & _ & ?).
      + intros H. apply orb_false_iff in H as [H1 H2].
        destruct (Hsplit _ H1) as (HL & _). destruct (Hsplit _ H2) as (_ & _ & _ & HR).
        destruct Hapi as [[Ha _]|(Ha & _)].
        * unfold lock_seg in HL. rewrite Ha in HL. cbn in HL. destruct (c_lock c); [discriminate|reflexivity].
        * now apply HE2.
      + intros H. destruct (Hsplit _ H) as (_ & HV & _).
        destruct (raw_values c) as [|g0 r]; [cbn in Hvals; now inversion Hvals|]. cbn in HV. discriminate.
      + intros H. destruct (Hsplit _ H) as (_ & _ & HS & _).
        unfold schema_seg in HS. destruct (c_schema c); [cbn in HS; discriminate|reflexivity].
  Qed.

  Definition dsub (d : chart) : string * file := (dep_fname d, mkFile (dep_fname d) (tgz (TE d))).

  Lemma sub_ent_dep d : contains_char slash (dep_fname d) = false -> sub_ent (dep_file d) = [dsub d].
  Proof.
    intros H. unfold sub_ent. rewrite (cls_dep d H). unfold dsub, dep_file, charts_rest. cbn [f_name f_data].
    replace (substring 7 (String.length ("charts/" ++ dep_fname d) - 7) ("charts/" ++ dep_fname d)) with (dep_fname d)
      by (symmetry; exact (substring_app_tail "charts/" (dep_fname d))).
    reflexivity.
  Qed.

  (* templates, files and the subchart table of the written tree *)
  Lemma tree_filters c :
    WF2 (own c) -> (List.length (raw_values c) <= 1)%nat -> NoDup (map f_name (c_files c)) ->
    Forall (fun d => contains_char slash (dep_fname d) = false) (c_deps c) ->
    filter (is_cls KTpl) (dir_tree c) = c_templates c /\
    filter is_filecls (dir_tree c) = c_files c /\
    subs' (dir_tree c) = map dsub (c_deps c).
  Proof.
    intros Hwf Hlen Hnd Hdeps. destruct (tree_facts c Hwf Hlen Hnd Hdeps) as (_ & HT & HF & _).
    assert (Forall (fun f => is_cls KTpl f = false /\ sub_ent f = []) (c_files c)) as HF2.
    { eapply Forall_impl; [|exact HF]. intros f Hf. unfold is_filecls, is_cls, sub_ent in *. destruct (cls f); try discriminate; auto. }
    assert (Forall (fun f => is_filecls f = false /\ sub_ent f = []) (c_templates c)) as HT2.
    { eapply Forall_impl; [|exact HT]. intros f Hf. unfold is_filecls, is_cls, sub_ent. rewrite Hf. auto. }
    assert (Forall (fun f => is_cls KTpl f = false /\ is_filecls f = false) (map dep_file (c_deps c))) as HD.
    { apply Forall_forall. intros f Hf. apply in_map_iff in Hf as (d & <- & Hd). rewrite Forall_forall in Hdeps.
      unfold is_filecls, is_cls. rewrite (cls_dep d (Hdeps d Hd)). auto. }
    unfold dir_tree. rewrite (loaded_files_eq ENC2 lock_enc c). unfold subs'.
    cbn [app filter flat_map]. rewrite !filter_app, !flat_map_app.
    change (is_cls KTpl (mkFile "Chart.yaml" (ENC2 (c_meta c)))) with false.
    change (is_filecls (mkFile "Chart.yaml" (ENC2 (c_meta c)))) with false.
    change (sub_ent (mkFile "Chart.yaml" (ENC2 (c_meta c)))) with (@nil (string * file)).
    assert (forall (p : file -> bool), (forall n d, n = "Chart.lock" \/ n = "values.yaml" \/ n = "values.schema.json" -> p (mkFile n d) = false) ->
              filter p (map mk2 (lock_seg lock_enc c)) = [] /\
              filter p (map (fun f => mkFile "values.yaml" (f_data f)) (raw_values c)) = [] /\
              filter p (map mk2 (schema_seg c)) = []) as Hsp.
    { intros p Hp. repeat split; apply filter_all_false; apply Forall_forall; intros f Hf.
      - unfold lock_seg in Hf. destruct (String.eqb (m_api (c_meta c)) "v2"); [|contradiction].
        destruct (c_lock c); [|contradiction]. destruct Hf as [<-|[]]. apply Hp. auto.
      - apply in_map_iff in Hf as (g & <- & _). apply Hp. auto.
      - unfold schema_seg in Hf. destruct (c_schema c); [|contradiction]. destruct Hf as [<-|[]]. apply Hp. auto. }
    assert (flat_map sub_ent (map mk2 (lock_seg lock_enc c)) = [] /\
            flat_map sub_ent (map (fun f => mkFile "values.yaml" (f_data f)) (raw_values c)) = [] /\
            flat_map sub_ent (map mk2 (schema_seg c)) = []) as (S1 & S2 & S3).
    { repeat split.
      - unfold lock_seg. destruct (String.eqb (m_api (c_meta c)) "v2"); [|reflexivity]. destruct (c_lock c); reflexivity.
      - assert (forall l : list file, flat_map sub_ent (map (fun f => mkFile "values.yaml" (f_data f)) l) = []) as Hv
          by (intros l; induction l as [|a l IHl]; [reflexivity|]; cbn [map flat_map]; rewrite IHl; reflexivity).
        apply Hv.
      - unfold schema_seg. destruct (c_schema c); reflexivity. }
    destruct (Hsp (is_cls KTpl)) as (A1 & A2 & A3); [intros n d [->|[->| ->]]; reflexivity|].
    destruct (Hsp is_filecls) as (B1 & B2 & B3); [intros n d [->|[->| ->]]; reflexivity|].
    rewrite A1, A2, A3, B1, B2, B3, S1, S2, S3. cbn [app].
    rewrite (filter_all_true (is_cls KTpl) (c_templates c)) by (eapply Forall_impl; [|exact HT]; intros f Hf; now apply is_cls_iff).
    rewrite (filter_all_false (is_cls KTpl) (c_files c)) by (eapply Forall_impl; [|exact HF2]; intros f Hf; apply Hf).
    rewrite (filter_all_false (is_cls KTpl) (map dep_file (c_deps c))) by (eapply Forall_impl; [|exact HD]; intros f Hf; apply Hf).
    rewrite (filter_all_false is_filecls (c_templates c)) by (eapply Forall_impl; [|exact HT2]; intros f Hf; apply Hf).
    rewrite (filter_all_true is_filecls (c_files c)) by exact HF.
    rewrite (filter_all_false is_filecls (map dep_file (c_deps c))) by (eapply Forall_impl; [|exact HD]; intros f Hf; apply Hf).
    rewrite !app_nil_r. repeat split.
    assert (flat_map sub_ent (c_templates c) = []) as ->.
    { clear -HT2. induction HT2 as [|f l [_ H] _ IH]; [reflexivity|]. cbn [flat_map]. now rewrite H, IH. }
    assert (flat_map sub_ent (c_files c) = []) as ->.
    { clear -HF2. induction HF2 as [|f l [_ H] _ IH]; [reflexivity|]. cbn [flat_map]. now rewrite H, IH. }
    cbn [app]. clear -Hdeps. induction Hdeps as [|d l Hd _ IH]; [reflexivity|]. cbn [map flat_map].
    now rewrite (sub_ent_dep d Hd), IH.
  Qed.

  (* the first loop: the one Chart.yaml among files with pairwise different names *)
  Lemma load_meta_unique l : forall om f,
    NoDup (map f_name l) -> In f l -> f_name f = "Chart.yaml" ->
    load_meta md_merge om l = match md_merge (meta_or_new om) (f_data f) with
                              | None => inl LMeta
                              | Some m => inr (Some (default_api m))
                              end.
  Proof.
    induction l as [|g l IH]; intros om f Hnd Hin Hn; [contradiction|]. cbn [map] in Hnd. inversion Hnd as [|? ? Hg Hl]; subst.
    cbn [load_meta]. destruct Hin as [->|Hin].
    - rewrite Hn. simpl String.eqb. cbv iota. destruct (md_merge (meta_or_new om) (f_data f)); [|reflexivity].
      apply load_meta_other. apply Forall_forall. intros h Hh. apply String.eqb_neq. intros E. apply Hg.
      rewrite Hn, <- E. now apply in_map.
    - assert (String.eqb (f_name g) "Chart.yaml" = false) as ->.
      { apply String.eqb_neq. intros E. apply Hg. rewrite E, <- Hn. now apply in_map. }
      now apply IH.
  Qed.

  Definition fname_leb (a b : chart) : bool := str_leb (dep_fname a) (dep_fname b).

  (* C15_savedir_load_roundtrip *)
  Theorem savedir_load_roundtrip c :
    WT2 c -> nobom_tree c ->
    contains_char nul (dname c) = false ->
    fresh_all [] (map f_name (dir_tree c)) = true ->
    Forall (fun d => contains_char slash (m_version (c_meta d)) = false /\ fits maxt maxf (TE d)) (c_deps c) ->
    exists tree, SAVEDIR c = Some tree /\
      forall (ign : string -> bool -> bool) (fuel : nat) (walk : list file),
        Permutation walk tree ->
        Forall (fun f => eff_ignored ign (f_name f) = false /\ (slen (f_data f) <= maxf)%Z) tree ->
        (depth c <= fuel)%nat ->
        exists c', LDIR ign fuel walk = inr c' /\
          c_meta c' = c_meta c /\ c_lock c' = c_lock c /\ raw_values c' = raw_values c /\
          c_values c' = c_values c /\ c_schema c' = c_schema c /\
          c_templates c' = filter (is_cls KTpl) walk /\ Permutation (c_templates c') (c_templates c) /\
          c_files c' = filter is_filecls walk /\ Permutation (c_files c') (c_files c) /\
          Forall2 same_tree (map norm (ssort fname_leb (c_deps c))) (c_deps c').
  Proof.
    intros Hwf Hnb Hnul Hfresh Hdv.
    inversion Hwf as [c0 Hown Hndn Hdok Hdeps]; subst. inversion Hnb as [c0 Hnbo Hnbd]; subst.
    assert (Forall (fun d => contains_char slash (dep_fname d) = false) (c_deps c)) as Hds.
    { apply Forall_forall. intros d Hd. rewrite Forall_forall in Hdv, Hdeps. destruct (Hdv d Hd) as [Hv _].
      destruct (wf_cname_props _ (L_cname d (Hdeps d Hd))) as (_ & Hs & _).
      unfold dep_fname, dname in *. rewrite !contains_char_app, Hs, Hv. reflexivity. }
    exists (dir_tree c). split; [now apply save_dir_tree|].
    intros ign fuel walk Hperm Hok Hfuel.
    destruct (fresh_nodup _ _ Hfresh) as [Hnames _].
    (* consequences of the pairwise different names *)
    assert (NoDup (map f_name (c_files c)) /\ NoDup (map f_name (map (fun f => mkFile "values.yaml" (f_data f)) (raw_values c)))) as [Hndf Hndv].
    { unfold dir_tree in Hnames. rewrite (loaded_files_eq ENC2 lock_enc c) in Hnames.
      cbn [app map] in Hnames. apply NoDup_cons_iff in Hnames as [_ Hnames].
      rewrite !map_app in Hnames. apply nodup_head in Hnames.
      apply nodup_tail in Hnames. split.
      - now do 3 apply nodup_tail in Hnames.
      - now apply nodup_head in Hnames. }
    assert (List.length (raw_values c) <= 1)%nat as Hlen.
    { destruct (raw_values c) as [|a [|b r]]; simpl; try lia. cbn in Hndv.
      inversion Hndv as [|? ? Hx _]; subst. exfalso. apply Hx. now left. }
    destruct (tree_facts c Hown Hlen Hndf Hds) as (Hfacts & _ & _ & E1 & E2 & E3 & E4).
    destruct (tree_filters c Hown Hlen Hndf Hds) as (FT & FF & FS).
    assert (NoDup (map f_name walk)) as Hndw by (eapply Permutation_NoDup; [apply Permutation_map, Permutation_sym; exact Hperm|exact Hnames]).
    (* the walk keeps every file as it is *)
    assert (dir_files maxf ign walk = inr walk) as Hdf.
    { assert (Forall (fun f => eff_ignored ign (f_name f) = false /\ (slen (f_data f) <= maxf)%Z /\ has_bom (f_data f) = false) walk) as Hw.
      { eapply Permutation_Forall; [apply Permutation_sym; exact Hperm|].
        apply Forall_forall. intros f Hf. rewrite Forall_forall in Hok. destruct (Hok f Hf). repeat split; auto.
        unfold dir_tree in Hf. apply in_app_iff in Hf as [Hf|Hf].
        - unfold loaded_files in Hf. apply in_map_iff in Hf as (q & <- & Hq).
          pose proof (saved_nobom ENC2 lock_enc (fun m => md_nobom _) lock_nobom (own c) Hnbo) as Hb.
          rewrite Forall_forall in Hb. now apply Hb.
        - apply in_map_iff in Hf as (d & <- & _). apply tgz_nobom. }
      clear -Hw. induction Hw as [|f l (Hi & Hs & Hb) _ IH]; [reflexivity|]. cbn [dir_files].
      rewrite Hi. unfold dir_file_over_limit. assert ((slen (f_data f) >? maxf)%Z = false) as -> by lia.
      rewrite IH. rewrite (trim_bom_nobom _ Hb). now rewrite file_eta. }
    unfold load_dir_walk. rewrite Hdf.
    destruct fuel as [|fuel']; [destruct c; simpl in Hfuel; lia|].
    destruct Hown as [Hval Hapi Hname Hvals Hsch Htpl Hnod] eqn:Eown. clear Eown.
    cbn [own c_meta c_lock c_values c_schema c_templates c_files] in Hval.
    (* first loop *)
    assert (load_meta md_merge None walk = inr (Some (yaml_meta (c_meta c)))) as Hmeta.
    { rewrite (load_meta_unique walk None (mkFile "Chart.yaml" (ENC2 (c_meta c))) Hndw); [|
        eapply Permutation_in; [apply Permutation_sym; exact Hperm|]; unfold dir_tree; rewrite (loaded_files_eq ENC2 lock_enc c); now left|reflexivity].
      cbn [f_data meta_or_new]. unfold md_enc2.
      assert (WF2 (own c)) as Hown' by (constructor; assumption).
      pose proof (L_yaml_valid _ Hown') as Hyv. cbn [own c_meta] in Hyv. rewrite (md_rt _ Hyv). unfold default_api. rewrite yaml_meta_api.
      destruct (validate_inv _ _ _ _ _ Hval) as (_ & Hne & _). apply String.eqb_neq in Hne. now rewrite Hne. }
    (* second loop *)
    assert (lloop (mkLS (Some (yaml_meta (c_meta c))) None None None [] [] []) walk =
            inr (mkLS (Some (c_meta c)) (c_lock c) (c_values c) (c_schema c)
                      (filter (is_cls KTpl) walk) (filter is_filecls walk) (subs' walk))) as Hloop.
    { change (mkLS (Some (yaml_meta (c_meta c))) None None None [] [] []) with (St c []).
      rewrite (lloop_S c walk []); [|exact Hndw|eapply Permutation_Forall; [apply Permutation_sym; exact Hperm|exact Hfacts]].
      cbn [app]. unfold St. f_equal.
      assert (forall k, has k walk = has k (dir_tree c)) as Hhas by (intros k; unfold has; now apply perm_existsb).
      rewrite !Hhas. f_equal.
      - destruct (has KReqYaml (dir_tree c)) eqn:E; [reflexivity|]. f_equal. now apply E1.
      - destruct (has KChartLock (dir_tree c) || has KReqLock (dir_tree c)) eqn:E; [reflexivity|]. symmetry. now apply E2.
      - destruct (has KValues (dir_tree c)) eqn:E; [reflexivity|]. symmetry. now apply E3.
      - destruct (has KSchema (dir_tree c)) eqn:E; [reflexivity|]. symmetry. now apply E4. }
    cbn [load_files]. rewrite Hmeta, Hloop.
    cbn [ls_meta ls_lock ls_values ls_schema ls_templates ls_files ls_sub]. rewrite Hval.
    (* the subchart table: one archive per dependency, under its file name *)
    assert (Permutation (subs' walk) (map dsub (c_deps c))) as Hps.
    { rewrite <- FS. unfold subs'. now apply perm_flat_map. }
    assert (NoDup (map dep_fname (c_deps c))) as Hndd.
    { unfold dir_tree in Hnames. rewrite map_app in Hnames. apply nodup_tail in Hnames.
      rewrite map_map in Hnames. cbn [dep_file f_name] in Hnames.
      clear -Hnames. induction (c_deps c) as [|d l IH]; [constructor|]. cbn [map] in *. inversion Hnames as [|? ? Hx Hl]; subst.
      constructor; [|now apply IH]. intros Hin. apply Hx. apply in_map_iff in Hin as (e & He & Hin).
      apply in_map_iff. exists e. split; [now rewrite He|exact Hin]. }
    assert (sort_strs (dedup (map fst (subs' walk))) = map dep_fname (ssort fname_leb (c_deps c))) as ->.
    { rewrite (sorted_names_unique (map fst (subs' walk)) (map dep_fname (c_deps c))).
      - rewrite (dedup_nodup_id _ Hndd), sort_strs_ssort. apply (ssort_map_key dep_fname).
      - intros n. assert (map dep_fname (c_deps c) = map fst (map dsub (c_deps c))) as -> by (rewrite map_map; reflexivity).
        split; intros H; (eapply Permutation_in; [|exact H]); [apply Permutation_map; exact Hps|apply Permutation_map, Permutation_sym; exact Hps]. }
    rewrite (subs_loop_map _ dep_fname CANON (ssort fname_leb (c_deps c))).
    2:{ intros d Hd. apply (proj1 (ssort_In fname_leb d (c_deps c))) in Hd. cbv beta.
        rewrite Forall_forall in Hdok, Hdeps, Hdv, Hnbd, Hds.
        destruct (Hdok d Hd) as [Hfc _]. destruct (Hdv d Hd) as [_ Hfit].
        assert (first_char_in (dep_fname d) [underscore; dot] = false) as ->.
        { destruct (wf_cname_props _ (L_cname d (Hdeps d Hd))) as ((Hne & _) & _).
          unfold dep_fname, dname in *. destruct (m_name (c_meta d)); [congruence|exact Hfc]. }
        assert (path_ext (dep_fname d) = ".tgz") as ->.
        { unfold path_ext, dep_fname. rewrite <- !append_assoc. now rewrite ext_tgz_go. }
        cbn [String.eqb Ascii.eqb Bool.eqb]. cbv iota.
        assert (sub_files (dep_fname d) (subs' walk) = [mkFile (dep_fname d) (tgz (TE d))]) as ->.
        { unfold sub_files.
          assert (filter (fun p => String.eqb (fst p) (dep_fname d)) (subs' walk) = [dsub d]) as ->; [|reflexivity].
          apply perm_singleton.
          rewrite (perm_filter (fun p => String.eqb (fst p) (dep_fname d)) _ _ Hps).
          assert (filter (fun p => String.eqb (fst p) (dep_fname d)) (map dsub (c_deps c)) = [dsub d]) as ->; [|reflexivity].
          pose proof (filter_key_unique (fun p : string * file => fst p) (map dsub (c_deps c)) (dsub d)) as Hu.
          cbn [fst dsub] in Hu. apply Hu; [rewrite map_map; exact Hndd|now apply in_map]. }
        cbn [f_name f_data]. rewrite String.eqb_refl. cbn [negb]. cbv iota.
        assert (TE d = map (fun p => tar_entry (fst p) (snd p)) (map (fun p => (dname d ++ "/" ++ fst p, snd p)) (TP d))) as Hte
          by (unfold tree_entries; rewrite map_map; reflexivity).
        rewrite Hte, untar_tgz, <- Hte, (L_archive d (Hdeps d Hd) (Hnbd d Hd) Hfit).
        rewrite (L_load fuel' d); [reflexivity| |now apply Hdeps].
        pose proof (depth_dep c d Hd) as Hdd. clear -Hdd Hfuel. lia. }
    eexists. split; [reflexivity|].
    cbn [c_meta c_lock c_values c_schema c_templates c_files c_deps].
    repeat split.
    - (* raw values.yaml *)
      unfold raw_values at 1. cbn [c_raw]. apply perm_short; [exact Hlen|].
      assert (WF2 (own c)) as Hown' by (constructor; assumption).
      rewrite <- (L_raw_values c Hown').
      assert (filter is_values_file (LOADED c) = filter is_values_file (dir_tree c)) as ->.
      { unfold dir_tree. rewrite filter_app.
        rewrite (filter_all_false is_values_file (map dep_file (c_deps c))); [now rewrite app_nil_r|].
        apply Forall_forall. intros f Hf. apply in_map_iff in Hf as (d & <- & _). reflexivity. }
      now apply perm_filter.
    - rewrite <- FT. now apply perm_filter.
    - rewrite <- FF. now apply perm_filter.
    - (* the dependencies, in the order of their archive file names *)
      clear -Hdeps Hfuel. assert (forall d, In d (ssort fname_leb (c_deps c)) -> same_tree (norm d) (CANON d)) as H.
      { intros d Hd. apply (proj1 (ssort_In fname_leb d (c_deps c))) in Hd. rewrite Forall_forall in Hdeps.
        apply (L_same (depth d)); [lia|now apply Hdeps]. }
      induction (ssort fname_leb (c_deps c)) as [|d l IH]; [constructor|]. cbn [map]. constructor.
      + apply H. now left.
      + apply IH. intros e He. apply H. now right.
  Qed.
End DirRt.

(* C15_dir_archive_agree: the directory loader and the archive loader give the same chart
   on the same file set (apart from the files the ignore predicate removes).  Both hand
   LoadFiles the same list of (name, BOM-trimmed data); the proof is that the two readers
   produce that same list. *)
From Coq Require Import List String Ascii Bool Arith ZArith Lia ZifyBool.
From Helm Require Import Values.Tree Chart.Paths Chart.PathsProofs Chart.Archive Chart.ArchiveProofs
  Chart.Files Chart.Save Chart.Load Chart.Wf Chart.LoadProofs Gen.Limits.
Import ListNotations.
Local Open Scope string_scope.

Lemma prefix_split p : forall s, String.prefix p s = true ->
  s = p ++ substring (String.length p) (String.length s - String.length p) s.
Proof.
  induction p as [|a p IH]; intros s H; simpl.
  - rewrite Nat.sub_0_r. clear. induction s; simpl; congruence.
  - destruct s as [|b s]; simpl in H; [discriminate|].
    destruct (ascii_dec a b); [|discriminate]. subst b. simpl. f_equal. now apply IH.
Qed.

Lemma subs_loop_ext F1 F2 l :
  (forall n, In n l -> F1 n = F2 n) -> subs_loop F1 l = subs_loop F2 l.
Proof.
  induction l as [|n l IH]; intros H; simpl; auto.
  rewrite (H n (or_introl eq_refl)). rewrite IH by (intros; apply H; now right). reflexivity.
Qed.

Lemma size_checks_agree (a b : Z) :
  cmp_of Gen.Limits.op_dir_file_vs_limit a b = dir_file_over_limit a b /\
  cmp_of Gen.Limits.op_entry_vs_file_limit a b = entry_over_file_limit a b /\
  dir_file_over_limit a b = entry_over_file_limit a b.
Proof. repeat split; reflexivity. Qed.

Section Agree.
  Variable md_merge : meta -> string -> option meta.
  Variable lock_dec : string -> option (option lockv).
  Variable parse_values : string -> option val.
  Variable untar : string -> tstream.
  Variable sanitize : meta -> meta.
  Variable is_semver : string -> bool.
  Variable rest_valid : meta -> bool.
  Variable maxt maxf : Z.
  Variable ignored : string -> bool -> bool.
  Notation lstep := (load_step md_merge lock_dec parse_values).
  Notation lloop := (load_loop md_merge lock_dec parse_values).
  Notation LFILES := (load_files md_merge lock_dec parse_values untar sanitize is_semver rest_valid maxt maxf).
  Notation LDIR := (load_dir_walk md_merge lock_dec parse_values untar sanitize is_semver rest_valid maxt maxf).
  Notation LARCH := (load_archive md_merge lock_dec parse_values untar sanitize is_semver rest_valid maxt maxf).

  Definition trimmed (l : list file) : list file := map (fun f => mkFile (f_name f) (trim_bom (f_data f))) l.
  Definition kept (walk : list file) : list file := filter (fun f => negb (eff_ignored ignored (f_name f))) walk.

  Lemma dir_files_ok walk :
    Forall (fun f => (slen (f_data f) <= maxf)%Z) (kept walk) ->
    dir_files maxf ignored walk = inr (trimmed (kept walk)).
  Proof.
    induction walk as [|f walk IH]; simpl; intros H; auto.
    unfold kept in *. simpl in *. destruct (eff_ignored ignored (f_name f)); simpl in *; auto.
    inversion H; subst. unfold dir_file_over_limit. assert ((slen (f_data f) >? maxf)%Z = false) as -> by lia.
    now rewrite IH.
  Qed.

  Theorem dir_archive_agree fuel base walk :
    wf_cname base = true ->
    Forall (fun f => wf_fname (f_name f) = true) walk ->
    let es := map (fun f => tar_entry (base ++ "/" ++ f_name f) (f_data f)) (kept walk) in
    fits maxt maxf es -> kept walk <> [] ->
    LARCH fuel (mkTS false es false) = LDIR ignored fuel walk.
  Proof.
    intros Hb Hw es [Hf1 Hf2] Hne.
    assert (Forall (fun f => (slen (f_data f) <= maxf)%Z) (kept walk)) as Hsz.
    { apply Forall_forall. intros f Hf. rewrite Forall_forall in Hf1.
      apply (Hf1 (tar_entry (base ++ "/" ++ f_name f) (f_data f))). unfold es.
      apply in_map_iff. exists f. split; [reflexivity|assumption]. }
    unfold load_dir_walk. rewrite (dir_files_ok walk Hsz).
    unfold load_archive, load_archive_files, load_archive_trace. cbn [ts_gzerr ts_entries ts_err].
    set (L := map (fun f => (base ++ "/" ++ f_name f, f_name f, f_data f)) (kept walk)).
    assert (es = map (fun x => let '(name, fn, body) := x in tar_entry name body) L) as Hes
      by (unfold es, L; rewrite map_map; reflexivity).
    pose proof (load_go_saved maxf L maxt) as HL. rewrite <- Hes in HL.
    assert (fst (load_go maxf maxt es) = inr (trimmed (kept walk))) as HL'.
    { rewrite HL.
      - unfold L, trimmed. rewrite map_map. reflexivity.
      - unfold L. apply Forall_forall. intros [[name fn] body] Hx. apply in_map_iff in Hx as (f & Hx & Hin).
        inversion Hx; subst. split.
        + apply saved_name; auto. unfold kept in Hin. apply filter_In in Hin as [Hin _].
          rewrite Forall_forall in Hw. now apply Hw.
        + rewrite Forall_forall in Hsz. now apply Hsz.
      - assert (map te_size es = map (fun x : string * string * string => slen (snd x)) L) as <-; [|exact Hf2].
        unfold es, L. rewrite !map_map. reflexivity. }
    destruct (load_go maxf maxt es) as [res rs]. simpl in HL'. subst res. simpl.
    destruct (trimmed (kept walk)) as [|f0 l0] eqn:Et.
    - unfold trimmed in Et. apply map_eq_nil in Et. contradiction.
    - reflexivity.
  Qed.
End Agree.

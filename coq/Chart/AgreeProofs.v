(* C15_dir_archive_agree: the directory loader and the archive loader give the same chart
   on the same file set (apart from the files the ignore predicate removes). *)
From Coq Require Import List String Ascii Bool Arith ZArith Lia ZifyBool.
From Helm Require Import Values.Tree Chart.Paths Chart.PathsProofs Chart.Archive Chart.ArchiveProofs
  Chart.Files Chart.Save Chart.Load Chart.Wf Chart.LoadProofs.
Import ListNotations.
Local Open Scope string_scope.

Lemma prefix_split p : forall s, String.prefix p s = true ->
  s = p ++ substring (String.length p) (String.length s - String.length p) s.
Proof.
  induction p as [|a p IH]; intros s H; simpl.
  - rewrite Nat.sub_0_r. clear. induction s; simpl; congruence.
  - destruct s as [|b s]; simpl in H; [discriminate|].
    destruct (ascii_dec a b); [|discriminate]. subst b. simpl. f_equal. now apply IH.
Qed.

Lemma subs_loop_ext F1 F2 l :
  (forall n, In n l -> F1 n = F2 n) -> subs_loop F1 l = subs_loop F2 l.
Proof.
  induction l as [|n l IH]; intros H; simpl; auto.
  rewrite (H n (or_introl eq_refl)). rewrite IH by (intros; apply H; now right). reflexivity.
Qed.

(* an empty file never carries a name that ends in values.schema.json: the only place where
   the two loaders' nil-vs-empty difference is visible *)
Definition schema_ok (files : list file) : Prop :=
  forall f, In f files -> f_data f = "" -> forall p, f_name f <> p ++ "values.schema.json".

Lemma schema_ok_derived files files' :
  schema_ok files ->
  (forall g, In g files' -> exists f q, In f files /\ f_name f = q ++ f_name g /\ f_data g = f_data f) ->
  schema_ok files'.
Proof.
  intros H Hd g Hg He p Hn. destruct (Hd g Hg) as (f & q & Hf & Hname & Hdata).
  apply (H f Hf (eq_trans (eq_sym Hdata) He) (q ++ p)). rewrite Hname, Hn. now rewrite append_assoc.
Qed.

Section Agree.
  Variable md_merge : meta -> string -> option meta.
  Variable lock_dec : string -> option (option lockv).
  Variable parse_values : string -> option val.
  Variable untar : string -> tstream.
  Variable sanitize : meta -> meta.
  Variable is_semver : string -> bool.
  Variable rest_valid : meta -> bool.
  Variable maxt maxf : Z.
  Variable ignored : string -> bool -> bool.
  Notation lstep := (load_step md_merge lock_dec parse_values).
  Notation lloop := (load_loop md_merge lock_dec parse_values).
  Notation LFILES := (load_files md_merge lock_dec parse_values untar sanitize is_semver rest_valid maxt maxf).
  Notation LDIR := (load_dir_walk md_merge lock_dec parse_values untar sanitize is_semver rest_valid maxt maxf).
  Notation LARCH := (load_archive md_merge lock_dec parse_values untar sanitize is_semver rest_valid maxt maxf).

  Lemma lstep_ne st f :
    (f_data f = "" -> f_name f <> "values.schema.json") -> lstep true st f = lstep false st f.
  Proof.
    intros H. unfold load_step. destruct st as [om lk vs sch tpl fls sub].
    destruct (String.eqb (f_name f) "Chart.yaml"); auto.
    destruct (String.eqb (f_name f) "Chart.lock"); auto.
    destruct (String.eqb (f_name f) "values.yaml"); auto.
    destruct (String.eqb (f_name f) "values.schema.json") eqn:E; auto.
    destruct (String.eqb (f_data f) "") eqn:D; auto.
    apply String.eqb_eq in E, D. now apply H in D.
  Qed.

  Lemma lloop_ne files : forall st,
    schema_ok files -> lloop true st files = lloop false st files.
  Proof.
    induction files as [|f files IH]; intros st H; simpl; auto.
    rewrite lstep_ne.
    - destruct (lstep false st f); auto. apply IH. intros g Hg. apply H. now right.
    - intros He Hn. apply (H f (or_introl eq_refl) He ""). exact Hn.
  Qed.

  (* where the entries of the subchart table come from *)
  Lemma lstep_sub ne st f st' :
    lstep ne st f = inr st' ->
    forall cn g, In (cn, g) (ls_sub st') ->
      In (cn, g) (ls_sub st) \/ (f_name f = "charts/" ++ f_name g /\ f_data g = f_data f).
  Proof.
    unfold load_step. destruct st as [om lk vs sch tpl fls sub]. intros H cn g Hg.
    destruct (String.eqb (f_name f) "Chart.yaml"); [inversion H; subst; auto|].
    destruct (String.eqb (f_name f) "Chart.lock").
    { destruct (lock_dec (f_data f)); inversion H; subst; auto. }
    destruct (String.eqb (f_name f) "values.yaml").
    { destruct (parse_values (f_data f)); inversion H; subst; auto. }
    destruct (String.eqb (f_name f) "values.schema.json"); [inversion H; subst; auto|].
    destruct (String.eqb (f_name f) "requirements.yaml").
    { destruct (md_merge (meta_or_new om) (f_data f)); inversion H; subst; auto. }
    destruct (String.eqb (f_name f) "requirements.lock").
    { destruct (lock_dec (f_data f)); inversion H; subst; auto. }
    destruct (String.prefix "templates/" (f_name f)); [inversion H; subst; auto|].
    destruct (String.prefix "charts/" (f_name f)) eqn:Ep; [|inversion H; subst; auto].
    destruct (String.eqb (path_ext (f_name f)) ".prov" && negb (contains_char slash (substring 7 (String.length (f_name f) - 7) (f_name f))));
      inversion H; subst; auto. simpl in Hg. apply in_app_or in Hg as [|[Hi|[]]]; auto.
    inversion Hi; subst. right. simpl. split; auto.
    exact (prefix_split "charts/" (f_name f) Ep).
  Qed.

  Lemma lloop_sub ne files : forall st st',
    lloop ne st files = inr st' ->
    forall cn g, In (cn, g) (ls_sub st') ->
      In (cn, g) (ls_sub st) \/ exists f, In f files /\ f_name f = "charts/" ++ f_name g /\ f_data g = f_data f.
  Proof.
    induction files as [|f files IH]; intros st st' H cn g Hg; simpl in H.
    - inversion H; subst. auto.
    - destruct (lstep ne st f) as [|st1] eqn:E; [discriminate|].
      destruct (IH _ _ H cn g Hg) as [Hi|(f' & Hf' & Hn & Hd)].
      + destruct (lstep_sub _ _ _ _ E cn g Hi) as [|[Hn Hd]]; auto.
        right. exists f. split; [now left|auto].
      + right. exists f'. split; [now right|auto].
  Qed.

  Lemma cut_first_origin fs g :
    In g (cut_first fs) -> exists f x, In f fs /\ f_name f = (x ++ "/") ++ f_name g /\ f_data g = f_data f.
  Proof.
    induction fs as [|f fs IH]; simpl; intros H; [contradiction|].
    destruct (snd (split2 (f_name f))) as [rest|] eqn:E.
    - destruct H as [<-|H].
      + exists f. unfold split2 in E.
        pose proof (join_split slash (f_name f)) as Hj.
        destruct (split_on slash (f_name f)) as [|x [|y l]]; simpl in E; try discriminate.
        inversion E; subst rest. exists x. split; [now left|]. split; [|reflexivity].
        simpl f_name. rewrite <- Hj at 1. rewrite join_cons2. unfold sep1. now rewrite append_assoc.
      + destruct (IH H) as (f' & x & Hf & Hn & Hd). exists f', x. split; [now right|auto].
    - destruct (IH H) as (f' & x & Hf & Hn & Hd). exists f', x. split; [now right|auto].
  Qed.

  (* nil-vs-empty file data does not matter when no schema file is empty *)
  Lemma ne_irrelevant fuel : forall files,
    schema_ok files -> LFILES fuel true files = LFILES fuel false files.
  Proof.
    induction fuel as [|fuel IH]; intros files Hok; [reflexivity|].
    cbn [load_files]. destruct (load_meta md_merge None files) as [|om]; auto.
    rewrite (lloop_ne files _ Hok).
    destruct (lloop false (mkLS om None None None [] [] []) files) as [|st] eqn:El; auto.
    destruct (ls_meta st); auto.
    destruct (validate sanitize is_semver rest_valid m); auto.
    match goal with |- match subs_loop ?F1 ?l with _ => _ end = match subs_loop ?F2 _ with _ => _ end =>
      rewrite (subs_loop_ext F1 F2 l); [reflexivity|] end.
    intros n _. cbv beta.
    destruct (first_char_in n [underscore; dot]); auto.
    destruct (String.eqb (path_ext n) ".tgz"); auto.
    rewrite IH; [reflexivity|].
    apply (schema_ok_derived files); auto.
    intros g Hg. destruct (cut_first_origin _ _ Hg) as (f1 & x & Hf1 & Hn1 & Hd1).
    unfold sub_files in Hf1. apply in_map_iff in Hf1 as ([cn f1'] & Hsnd & Hin). simpl in Hsnd. subst f1'.
    apply filter_In in Hin as [Hin _].
    destruct (lloop_sub _ _ _ _ El cn f1 Hin) as [[]|(f0 & Hf0 & Hn0 & Hd0)].
    exists f0, ("charts/" ++ x ++ "/"). split; auto. split.
    - rewrite Hn0, Hn1. now rewrite !append_assoc.
    - congruence.
  Qed.

  Definition trimmed (l : list file) : list file := map (fun f => mkFile (f_name f) (trim_bom (f_data f))) l.
  Definition kept (walk : list file) : list file := filter (fun f => negb (eff_ignored ignored (f_name f))) walk.

  Lemma dir_files_ok walk :
    Forall (fun f => (slen (f_data f) <= maxf)%Z) (kept walk) ->
    dir_files maxf ignored walk = inr (trimmed (kept walk)).
  Proof.
    induction walk as [|f walk IH]; simpl; intros H; auto.
    unfold kept in *. simpl in *. destruct (eff_ignored ignored (f_name f)); simpl in *; auto.
    inversion H; subst. assert ((slen (f_data f) >? maxf)%Z = false) as -> by lia.
    now rewrite IH.
  Qed.

  Theorem dir_archive_agree fuel base walk :
    wf_cname base = true ->
    Forall (fun f => wf_fname (f_name f) = true) walk ->
    let es := map (fun f => tar_entry (base ++ "/" ++ f_name f) (f_data f)) (kept walk) in
    fits maxt maxf es -> kept walk <> [] -> schema_ok (trimmed (kept walk)) ->
    LARCH fuel (mkTS false es false) = LDIR ignored fuel walk.
  Proof.
    intros Hb Hw es [Hf1 Hf2] Hne Hok.
    assert (Forall (fun f => (slen (f_data f) <= maxf)%Z) (kept walk)) as Hsz.
    { apply Forall_forall. intros f Hf. rewrite Forall_forall in Hf1.
      apply (Hf1 (tar_entry (base ++ "/" ++ f_name f) (f_data f))). unfold es.
      apply in_map_iff. exists f. split; [reflexivity|assumption]. }
    unfold load_dir_walk. rewrite (dir_files_ok walk Hsz).
    unfold load_archive, load_archive_files, load_archive_trace. cbn [ts_gzerr ts_entries ts_err].
    set (L := map (fun f => (base ++ "/" ++ f_name f, f_name f, f_data f)) (kept walk)).
    assert (es = map (fun x => let '(name, fn, body) := x in tar_entry name body) L) as Hes
      by (unfold es, L; rewrite map_map; reflexivity).
    pose proof (load_go_saved maxf L maxt) as HL. rewrite <- Hes in HL.
    assert (fst (load_go maxf maxt es) = inr (trimmed (kept walk))) as HL'.
    { rewrite HL.
      - unfold L, trimmed. rewrite map_map. reflexivity.
      - unfold L. apply Forall_forall. intros [[name fn] body] Hx. apply in_map_iff in Hx as (f & Hx & Hin).
        inversion Hx; subst. split.
        + apply saved_name; auto. unfold kept in Hin. apply filter_In in Hin as [Hin _].
          rewrite Forall_forall in Hw. now apply Hw.
        + rewrite Forall_forall in Hsz. now apply Hsz.
      - assert (map te_size es = map (fun x : string * string * string => slen (snd x)) L) as <-; [|exact Hf2].
        unfold es, L. rewrite !map_map. reflexivity. }
    destruct (load_go maxf maxt es) as [res rs]. simpl in HL'. subst res. simpl.
    destruct (trimmed (kept walk)) as [|f0 l0] eqn:Et.
    - unfold trimmed in Et. apply map_eq_nil in Et. contradiction.
    - rewrite <- Et in *. now apply ne_irrelevant.
  Qed.
End Agree.

(* pkg/ignore with the concrete matcher (Chart/Match.v) instead of an arbitrary predicate:
   what a .helmignore TEXT excludes.  With no negated line, a line that is a plain word
   excludes every path with that base name, a line *<suffix> every path whose base name ends
   in the suffix, a line <word>/ everything below a directory of that name; excluded files
   are skipped by the directory walk (eff_ignored), hence (Chart/LoadProofs.v,
   ignored_absent) have no influence on the loaded chart or on anything packaged from it. *)
From Coq Require Import List String Ascii Bool Arith ZArith Lia.
From Helm Require Import Values.Tree Chart.Paths Chart.PathsProofs Chart.Archive Chart.Files Chart.Save Chart.Load
  Chart.Wf Chart.LoadProofs Chart.Ignore Chart.Utf8 Chart.Match Chart.MatchProofs.
Import ListNotations.
Local Open Scope string_scope.

(* the lines Parse hands to parseRule: bufio.Scanner lines, BOM trimmed from the first *)
Definition ignore_lines (text : string) : list string :=
  match scan_lines text with l :: r => trim_bom l :: r | [] => [] end.

(* the rules LoadDir evaluates for a chart directory whose .helmignore has this text *)
Definition helm_rules (text : string) : option (list pat) := parse_ignore gmatch_err (Some text).

Definition default_pat : pat := mkPat "templates/.?*" false false KStructural.

Lemma default_rule : parse_rule gmatch_err "templates/.?*" = Some (Some default_pat).
Proof. vm_compute. reflexivity. Qed.

Lemma helm_rules_eq text ps :
  helm_rules text = Some ps ->
  exists qs, parse_lines gmatch_err (ignore_lines text) = Some qs /\ ps = (qs ++ [default_pat])%list.
Proof.
  unfold helm_rules, parse_ignore. fold (ignore_lines text). rewrite default_rule.
  destruct (parse_lines gmatch_err (ignore_lines text)) as [qs|]; [|discriminate].
  intros H. inversion H; subst. eauto.
Qed.

Section Lines.
  Variable pe : string -> bool.

  Lemma parse_lines_in ls : forall ps l p,
    parse_lines pe ls = Some ps -> In l ls -> parse_rule pe l = Some (Some p) -> In p ps.
  Proof.
    induction ls as [|x ls IH]; intros ps l p H Hin Hp; [contradiction|]. simpl in H.
    destruct (parse_rule pe x) as [[q|]|] eqn:Ex; [| |discriminate].
    - destruct (parse_lines pe ls) as [r|] eqn:Er; [|discriminate]. inversion H; subst.
      destruct Hin as [->|Hin]; [rewrite Hp in Ex; inversion Ex; now left|]. right. eapply IH; eauto.
    - destruct Hin as [->|Hin]; [rewrite Hp in Ex; discriminate|]. eapply IH; eauto.
  Qed.

  Lemma parse_lines_from ls : forall ps p,
    parse_lines pe ls = Some ps -> In p ps -> exists l, In l ls /\ parse_rule pe l = Some (Some p).
  Proof.
    induction ls as [|x ls IH]; intros ps p H Hin; simpl in H; [inversion H; subst; contradiction|].
    destruct (parse_rule pe x) as [[q|]|] eqn:Ex; [| |discriminate].
    - destruct (parse_lines pe ls) as [r|] eqn:Er; [|discriminate]. inversion H; subst.
      destruct Hin as [->|Hin]; [exists x; split; [now left|assumption]|].
      destruct (IH r p eq_refl Hin) as (l & Hl & Hp). exists l. split; [now right|assumption].
    - destruct (IH ps p H Hin) as (l & Hl & Hp). exists l. split; [now right|assumption].
  Qed.

  Lemma parse_rule_negate l p : parse_rule pe l = Some (Some p) -> p_negate p = String.prefix "!" (trim_space l).
  Proof.
    unfold parse_rule. destruct (String.eqb (trim_space l) ""); [discriminate|].
    destruct (String.prefix "#" (trim_space l)); [discriminate|].
    destruct (has_infix "**" (trim_space l)); [discriminate|]. destruct (pe (trim_space l)); [discriminate|].
    intros H. inversion H; subst. reflexivity.
  Qed.
End Lines.

(* no line is a negation ("!pattern"): the only rule kind that excludes what it does NOT match *)
Definition no_negation (text : string) : Prop :=
  Forall (fun l => String.prefix "!" (trim_space l) = false) (ignore_lines text).

Lemma helm_rules_no_neg text ps : helm_rules text = Some ps -> no_negation text ->
  forall p, In p ps -> p_negate p = false.
Proof.
  intros H Hn p Hp. destruct (helm_rules_eq text ps H) as (qs & Hq & ->).
  apply in_app_iff in Hp as [Hp|[<-|[]]]; [|reflexivity].
  destruct (parse_lines_from gmatch_err _ _ _ Hq Hp) as (l & Hl & Hr).
  rewrite (parse_rule_negate _ _ _ Hr). unfold no_negation in Hn. rewrite Forall_forall in Hn. now apply Hn.
Qed.

(* without negations, the first matching rule that applies decides: excluded *)
Lemma ignore_go_match pm ps p n isdir :
  (forall q, In q ps -> p_negate q = false) -> In p ps ->
  (p_mustdir p = false \/ isdir = true) -> pat_match pm p n = true ->
  ignore_go pm ps n isdir = true.
Proof.
  induction ps as [|q ps IH]; intros Hneg Hin Hd Hm; [contradiction|]. cbn [ignore_go].
  rewrite (Hneg q (or_introl eq_refl)).
  assert (forall q0, In q0 ps -> p_negate q0 = false) as Hneg' by (intros; apply Hneg; now right).
  destruct Hin as [->|Hin].
  - destruct Hd as [->| ->]; [simpl|rewrite andb_false_r]; now rewrite Hm.
  - destruct (p_mustdir q && negb isdir); [now apply IH|]. destruct (pat_match pm q n); [reflexivity|now apply IH].
Qed.

Lemma wf_fname_not_special n : wf_fname n = true -> (String.eqb n "" || String.eqb n "." || String.eqb n "./") = false.
Proof.
  intros H. destruct (String.eqb n "") eqn:E1; [apply String.eqb_eq in E1; subst; discriminate|].
  destruct (String.eqb n ".") eqn:E2; [apply String.eqb_eq in E2; subst; discriminate|].
  destruct (String.eqb n "./") eqn:E3; [apply String.eqb_eq in E3; subst; discriminate|]. reflexivity.
Qed.

(* a rule obtained from a line of the text excludes every path it matches *)
Theorem line_excludes text ps l p n isdir :
  helm_rules text = Some ps -> no_negation text ->
  In l (ignore_lines text) -> parse_rule gmatch_err l = Some (Some p) ->
  (p_mustdir p = false \/ isdir = true) -> pat_match gmatch_ok p n = true -> wf_fname n = true ->
  rules_ignore gmatch_ok ps n isdir = true.
Proof.
  intros H Hn Hl Hp Hd Hm Hw. unfold rules_ignore. rewrite (wf_fname_not_special n Hw).
  destruct (helm_rules_eq text ps H) as (qs & Hq & Hps).
  apply (ignore_go_match gmatch_ok ps p); auto.
  - now apply (helm_rules_no_neg text).
  - subst ps. apply in_app_iff. left. eapply parse_lines_in; eauto.
Qed.

(* ---------- lines ---------- *)
Lemma prefix_char c a t x : String.prefix (String c x) (String a t) = Ascii.eqb c a && String.prefix x t.
Proof.
  cbn [String.prefix]. destruct (ascii_dec c a) as [->|Hn]; [now rewrite Ascii.eqb_refl|].
  apply Ascii.eqb_neq in Hn. now rewrite Hn.
Qed.

Lemma prefix_nil_r s : String.prefix "" s = true.
Proof. now destruct s. Qed.

Lemma has_infix_stars_plain s : is_plain s = true -> has_infix "**" s = false.
Proof.
  induction s as [|c t IH]; [reflexivity|]. cbn [is_plain]. rewrite andb_true_iff. intros [Hc Ht].
  destruct (plain_char_props c Hc) as (Hs & _). cbn [has_infix]. rewrite prefix_char, (IH Ht).
  rewrite Ascii.eqb_sym in Hs. unfold c_star in Hs. now rewrite Hs.
Qed.

Lemma ends_with_noslash s : contains_char slash s = false -> ends_with_char slash s = false.
Proof.
  intros H. unfold ends_with_char. apply negb_false_iff, String.eqb_eq.
  induction s as [|a t IH]; [reflexivity|]. simpl in H. apply orb_false_iff in H as [Ha Ht].
  cbn [trim_one_suffix]. destruct t as [|b t']; [now rewrite Ha|]. now rewrite (IH Ht).
Qed.

Lemma prefix_slash_noslash s : contains_char slash s = false -> String.prefix "/" s = false.
Proof.
  destruct s as [|a t]; [reflexivity|]. cbn [contains_char]. intros H. apply orb_false_iff in H as [Ha _].
  rewrite prefix_char. rewrite Ascii.eqb_sym in Ha. unfold slash in Ha. now rewrite Ha.
Qed.

(* a line that is one plain word: no metacharacter, no slash, nothing to trim, not a comment,
   not a negation, not "." *)
Record word_line (l : string) : Prop := {
  wl_plain : is_plain l = true;
  wl_noslash : contains_char slash l = false;
  wl_trim : trim_space l = l;
  wl_nonempty : l <> "";
  wl_nocomment : String.prefix "#" l = false;
  wl_noneg : String.prefix "!" l = false }.

Lemma gmatch_err_plain l : is_plain l = true -> gmatch_err l = false.
Proof. intros H. unfold gmatch_err. rewrite (gmatch_literal l "abc" H). now destruct (String.eqb l "abc"). Qed.

Lemma word_line_rule l : word_line l -> parse_rule gmatch_err l = Some (Some (mkPat l false false KBase)).
Proof.
  intros [Hp Hs Ht Hne Hc Hn]. unfold parse_rule. rewrite Ht.
  apply String.eqb_neq in Hne. rewrite Hne, Hc, (has_infix_stars_plain l Hp), (gmatch_err_plain l Hp), Hn.
  rewrite (ends_with_noslash l Hs), (prefix_slash_noslash l Hs), Hs. reflexivity.
Qed.

(* <word>/ : a directory rule *)
Lemma trim_one_suffix_app w : trim_one_suffix slash (w ++ "/") = w.
Proof.
  induction w as [|a t IH]; [reflexivity|]. cbn [append trim_one_suffix].
  destruct (t ++ "/") as [|b u] eqn:E; [destruct t; discriminate|]. now rewrite IH.
Qed.

Lemma has_infix_app_slash w : has_infix "**" w = false -> has_infix "**" (w ++ "/") = false.
Proof.
  induction w as [|a t IH]; [reflexivity|]. cbn [has_infix append]. intros H. apply orb_false_iff in H as [H1 H2].
  rewrite (IH H2), orb_false_r. rewrite prefix_char in *.
  destruct (Ascii.eqb "*" a); [|reflexivity]. cbn [andb] in *.
  destruct t as [|b u]; [reflexivity|]. cbn [append]. rewrite prefix_char in *.
  destruct (Ascii.eqb "*" b); [|reflexivity]. rewrite prefix_nil_r in H1. discriminate.
Qed.

Record dir_line (w l : string) : Prop := {
  dl_shape : l = w ++ "/";
  dl_plain : is_plain w = true;
  dl_noslash : contains_char slash w = false;
  dl_trim : trim_space l = l;
  dl_nonempty : w <> "";
  dl_nocomment : String.prefix "#" w = false;
  dl_noneg : String.prefix "!" w = false }.

Lemma is_plain_app a b : is_plain (a ++ b) = is_plain a && is_plain b.
Proof. induction a as [|c t IH]; simpl; auto. now rewrite IH, andb_assoc. Qed.

Lemma prefix1_app c w x : w <> "" -> String.prefix (String c "") (w ++ x) = String.prefix (String c "") w.
Proof. destruct w as [|a t]; [congruence|]. intros _. cbn [append]. now rewrite !prefix_char, !prefix_nil_r. Qed.

Lemma dir_line_rule w l : dir_line w l -> parse_rule gmatch_err l = Some (Some (mkPat w false true KBase)).
Proof.
  intros [-> Hp Hs Ht Hne Hc Hn]. unfold parse_rule. rewrite Ht.
  assert (String.eqb (w ++ "/") "" = false) as -> by (destruct w; [congruence|reflexivity]).
  rewrite (prefix1_app "#" w "/" Hne), Hc.
  rewrite (has_infix_app_slash w (has_infix_stars_plain w Hp)).
  assert (is_plain (w ++ "/") = true) as Hp2 by (rewrite is_plain_app, Hp; reflexivity).
  rewrite (gmatch_err_plain _ Hp2), (prefix1_app "!" w "/" Hne), Hn.
  assert (ends_with_char slash (w ++ "/") = true) as ->.
  { unfold ends_with_char. rewrite trim_one_suffix_app. apply negb_true_iff, String.eqb_neq.
    intros H. apply (f_equal String.length) in H. rewrite length_app in H. simpl in H. lia. }
  rewrite trim_one_suffix_app, (prefix_slash_noslash w Hs), Hs. reflexivity.
Qed.

(* *<suffix> : the suffix is plain, without slash, and does not end in white space *)
Record ext_line (lit l : string) : Prop := {
  el_shape : l = "*" ++ lit;
  el_plain : is_plain lit = true;
  el_noslash : contains_char slash lit = false;
  el_trim : trim_space l = l;
  el_nonempty : lit <> "" }.

Lemma gmatch_err_star_lit lit : is_plain lit = true -> lit <> "" -> gmatch_err ("*" ++ lit) = false.
Proof.
  intros Hp Hne. unfold gmatch_err. destruct (gmatch_star_lit lit "abc" Hp Hne) as [_ [-> | ->]]; reflexivity.
Qed.

Lemma ext_line_rule lit l : ext_line lit l -> parse_rule gmatch_err l = Some (Some (mkPat l false false KBase)).
Proof.
  intros [-> Hp Hs Ht Hne]. unfold parse_rule. rewrite Ht.
  change (String.eqb ("*" ++ lit) "") with false. change (String.prefix "#" ("*" ++ lit)) with false.
  assert (has_infix "**" ("*" ++ lit) = false) as ->.
  { change ("*" ++ lit) with (String "*" lit). cbn [has_infix]. rewrite (has_infix_stars_plain lit Hp), orb_false_r.
    destruct lit as [|c t]; [reflexivity|]. cbn [is_plain] in Hp. apply andb_true_iff in Hp as [Hc _].
    destruct (plain_char_props c Hc) as (Hst & _). rewrite !prefix_char. rewrite Ascii.eqb_sym in Hst. unfold c_star in Hst.
    now rewrite Hst, andb_false_r. }
  rewrite (gmatch_err_star_lit lit Hp Hne). change (String.prefix "!" ("*" ++ lit)) with false. cbv iota.
  assert (contains_char slash ("*" ++ lit) = false) as Hs' by (simpl; exact Hs).
  rewrite (ends_with_noslash _ Hs'), (prefix_slash_noslash _ Hs'), Hs'. reflexivity.
Qed.

(* ---------- what the text excludes ---------- *)
Section Excluded.
  Variable text : string.
  Variable ps : list pat.
  Hypothesis Hrules : helm_rules text = Some ps.
  Hypothesis Hnoneg : no_negation text.
  Notation ign := (rules_ignore gmatch_ok ps).

  (* a word line excludes every path whose last element is the word, file or directory *)
  Theorem word_excludes l n isdir :
    In l (ignore_lines text) -> word_line l -> wf_fname n = true -> path_base n = l -> ign n isdir = true.
  Proof.
    intros Hl Hw Hn Hb. apply (line_excludes text ps l (mkPat l false false KBase)); auto.
    - now apply word_line_rule.
    - unfold pat_match. cbn [p_kind p_rule]. rewrite Hb. unfold gmatch_ok.
      rewrite (gmatch_literal l l (wl_plain l Hw)), String.eqb_refl. reflexivity.
  Qed.

  (* a *suffix line excludes every path whose last element ends in the suffix *)
  Theorem ext_excludes lit l n x isdir :
    In l (ignore_lines text) -> ext_line lit l -> wf_fname n = true ->
    path_base n = x ++ lit -> contains_char slash x = false -> ign n isdir = true.
  Proof.
    intros Hl He Hn Hb Hx. apply (line_excludes text ps l (mkPat l false false KBase)); auto.
    - now apply (ext_line_rule lit).
    - unfold pat_match. cbn [p_kind p_rule]. destruct He as [-> Hp _ _ Hne]. unfold gmatch_ok.
      destruct (gmatch_star_lit lit (path_base n) Hp Hne) as [Hiff _].
      assert (gmatch ("*" ++ lit) (path_base n) = MYes) as -> by (apply Hiff; exists x; auto). reflexivity.
  Qed.

  (* a word/ line excludes every directory of that name ... *)
  Theorem dir_excludes w l d :
    In l (ignore_lines text) -> dir_line w l -> wf_fname d = true -> path_base d = w -> ign d true = true.
  Proof.
    intros Hl Hd Hn Hb. apply (line_excludes text ps l (mkPat w false true KBase)); auto.
    - now apply dir_line_rule.
    - unfold pat_match. cbn [p_kind p_rule]. rewrite Hb. unfold gmatch_ok.
      rewrite (gmatch_literal w w (dl_plain w l Hd)), String.eqb_refl. reflexivity.
  Qed.

  (* ... and the walk skips everything below it *)
  Theorem below_dir_skipped w l d n :
    In l (ignore_lines text) -> dir_line w l -> In d (ancestors n) -> wf_fname d = true -> path_base d = w ->
    eff_ignored ign n = true.
  Proof.
    intros Hl Hd Hin Hn Hb. unfold eff_ignored. apply orb_true_iff. right.
    apply existsb_exists. exists d. split; auto. now apply (dir_excludes w l).
  Qed.

  Theorem word_skipped l n :
    In l (ignore_lines text) -> word_line l -> wf_fname n = true -> path_base n = l -> eff_ignored ign n = true.
  Proof. intros. unfold eff_ignored. now rewrite (word_excludes l n false). Qed.

  Theorem ext_skipped lit l n x :
    In l (ignore_lines text) -> ext_line lit l -> wf_fname n = true ->
    path_base n = x ++ lit -> contains_char slash x = false -> eff_ignored ign n = true.
  Proof. intros. unfold eff_ignored. now rewrite (ext_excludes lit l n x false). Qed.
End Excluded.

(* the lines, rules and exclusions of a concrete text *)
Definition ign_text : string := "# build output" ++ String nl ("*.bak" ++ String nl ("  " ++ String nl (".git/" ++ String nl ("secret.txt" ++ String nl "")))).

Lemma ign_text_example :
  ignore_lines ign_text = ["# build output"; "*.bak"; "  "; ".git/"; "secret.txt"] /\
  no_negation ign_text /\
  ext_line ".bak" "*.bak" /\ dir_line ".git" ".git/" /\ word_line "secret.txt" /\
  exists ps, helm_rules ign_text = Some ps /\
    rules_ignore gmatch_ok ps "docs/old/notes.bak" false = true /\
    eff_ignored (rules_ignore gmatch_ok ps) ".git/objects/ab/cd" = true /\
    rules_ignore gmatch_ok ps "conf/secret.txt" false = true /\
    rules_ignore gmatch_ok ps "templates/.hidden" false = true /\
    rules_ignore gmatch_ok ps "templates/deployment.yaml" false = false.
Proof.
  split; [reflexivity|]. split; [repeat constructor|].
  split; [constructor; try reflexivity; discriminate|].
  split; [constructor; try reflexivity; discriminate|].
  split; [constructor; try reflexivity; discriminate|].
  eexists. split; [vm_compute; reflexivity|]. repeat split; vm_compute; reflexivity.
Qed.

(* ---------- end to end: the text of .helmignore, the walk, the loaded chart, the package ---------- *)
Section EndToEnd.
  Variable md_enc : meta -> string.
  Variable lock_enc : lockv -> string.
  Variable json_valid : string -> bool.
  Variable dep_names : meta -> list string.
  Variable md_merge : meta -> string -> option meta.
  Variable lock_dec : string -> option (option lockv).
  Variable parse_values : string -> option val.
  Variable untar : string -> tstream.
  Variable sanitize : meta -> meta.
  Variable is_semver : string -> bool.
  Variable rest_valid : meta -> bool.
  Variable maxt maxf : Z.
  Notation LDIR := (load_dir_walk md_merge lock_dec parse_values untar sanitize is_semver rest_valid maxt maxf).
  Notation PKG := (package md_enc lock_enc json_valid sanitize is_semver rest_valid dep_names).

  (* helm package <dir>: LoadDir, then Package.Run's checks and Save *)
  Definition pack_dir (ign : string -> bool -> bool) (fuel : nat) (ver : string) (walk : list file) : option (list tentry) :=
    match LDIR ign fuel walk with inr c => PKG ver c | inl _ => None end.

  Theorem helmignore_excluded text ps fuel ver walk :
    helm_rules text = Some ps ->
    let ign := rules_ignore gmatch_ok ps in
    let kept := filter (fun f => negb (eff_ignored ign (f_name f))) walk in
    LDIR ign fuel walk = LDIR (fun _ _ => false) fuel kept /\
    pack_dir ign fuel ver walk = pack_dir (fun _ _ => false) fuel ver kept /\
    (no_negation text ->
     forall f, In f walk -> wf_fname (f_name f) = true ->
       (exists l, In l (ignore_lines text) /\ word_line l /\ path_base (f_name f) = l) \/
       (exists l lit x, In l (ignore_lines text) /\ ext_line lit l /\ path_base (f_name f) = x ++ lit /\ contains_char slash x = false) \/
       (exists l w d, In l (ignore_lines text) /\ dir_line w l /\ In d (ancestors (f_name f)) /\ wf_fname d = true /\ path_base d = w) ->
       ~ In f kept).
  Proof.
    intros Hr ign kept.
    destruct (ignored_absent md_merge lock_dec parse_values untar sanitize is_semver rest_valid maxt maxf ign fuel walk) as [Heq _].
    split; [exact Heq|]. split; [unfold pack_dir; fold kept in Heq; now rewrite Heq|].
    intros Hn f Hf Hw Hcase Hin. unfold kept in Hin. apply filter_In in Hin as [_ Hk].
    apply negb_true_iff in Hk.
    assert (eff_ignored ign (f_name f) = true) as Ht.
    { destruct Hcase as [(l & Hl & Hwl & Hb)|[(l & lit & x & Hl & He & Hb & Hx)|(l & w & d & Hl & Hd & Hin & Hwd & Hb)]].
      - now apply (word_skipped text ps Hr Hn l).
      - now apply (ext_skipped text ps Hr Hn lit l (f_name f) x).
      - now apply (below_dir_skipped text ps Hr Hn w l d). }
    congruence.
  Qed.
End EndToEnd.

(* ---------- the constants of pkg/ignore/rules.go, read from the source (coq/Gen/IgnoreConsts.v) ---------- *)
From Helm Require Import Gen.IgnoreConsts.

Lemma ignore_constants :
  (ignore_default_rules = ["templates/.?*"] /\ ignore_match_probes = ["abc"]) /\
  (* the model installs exactly the built-in rules of AddDefaults after the rules of the file ... *)
  (forall (pe : string -> bool) (text : option string),
     parse_ignore pe text =
     match parse_lines pe (match text with Some t => ignore_lines t | None => [] end),
           map (parse_rule pe) ignore_default_rules with
     | Some ps, [Some (Some d)] => Some (ps ++ [d])%list
     | Some ps, [Some None] => Some ps
     | _, _ => None
     end) /\
  (* ... and probes a rule with the names parseRule probes it with *)
  (forall p, gmatch_err p = existsb (fun n => mres_eqb (gmatch p n) MBad) ignore_match_probes).
Proof.
  split; [repeat split; reflexivity|]. split.
  - intros pe text. unfold parse_ignore, ignore_lines. cbn [map ignore_default_rules]. destruct text; reflexivity.
  - intros p. unfold gmatch_err. cbn [existsb ignore_match_probes]. now rewrite orb_false_r.
Qed.

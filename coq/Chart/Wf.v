(* Well-formed charts: the charts C15_roundtrip quantifies over.  Definitions only. *)
From Coq Require Import List String Ascii Bool Arith ZArith.
From Helm Require Import Values.Tree Chart.Paths Chart.Archive Chart.Files Chart.Save Chart.Load.
Import ListNotations.
Local Open Scope string_scope.

(* names LoadFiles treats specially *)
Definition reserved (n : string) : bool :=
  String.eqb n "Chart.yaml" || String.eqb n "Chart.lock" || String.eqb n "values.yaml" ||
  String.eqb n "values.schema.json" || String.eqb n "requirements.yaml" || String.eqb n "requirements.lock".

(* a clean relative file name that the archive name pipeline leaves alone *)
Definition wf_fname (n : string) : bool :=
  forallb good_compb (split_on slash n) && negb (contains_char bslash n) &&
  negb (drive_prefix n) && negb (String.prefix ".." n).

Definition wf_template (f : file) : bool :=
  wf_fname (f_name f) && String.prefix "templates/" (f_name f).

Definition wf_file (f : file) : bool :=
  wf_fname (f_name f) && negb (reserved (f_name f)) &&
  negb (String.prefix "templates/" (f_name f)) && negb (String.prefix "charts/" (f_name f)).

(* a chart name that can serve as the archive's base directory *)
Definition wf_cname (n : string) : bool :=
  good_compb n && negb (contains_char slash n) && negb (contains_char bslash n) &&
  negb (String.eqb n "Chart.yaml").

(* Values is what LoadFiles would compute from the raw values.yaml documents, in order *)
Fixpoint vals_fold (parse : string -> option val) (acc : option val) (l : list file) : option (option val) :=
  match l with
  | [] => Some acc
  | f :: t => match parse (f_data f) with
              | None => None
              | Some v => vals_fold parse (Some v) t
              end
  end.

Definition bom_free (l : list file) : Prop := Forall (fun f => has_bom (f_data f) = false) l.

(* ---- charts with dependencies ---- *)
Definition dname (d : chart) : string := m_name (c_meta d).

(* the chart without its dependencies: what wf_chart speaks about *)
Definition own (c : chart) : chart :=
  Chart (c_meta c) (c_lock c) (c_raw c) (c_values c) (c_schema c) (c_templates c) (c_files c) [].

(* nesting depth of the dependency tree (at least 1) *)
Fixpoint depth (c : chart) : nat := S (fold_right Nat.max 0%nat (map depth (c_deps c))).

(* names usable as a subchart directory: loaded, not skipped ('_' / '.'), not taken for an archive *)
Definition dep_name_ok (n : string) : Prop :=
  first_char_in n [underscore; dot] = false /\ String.eqb (path_ext n) ".tgz" = false.

(* strictly increasing in byte order (every element below all later ones): the order in
   which LoadFiles returns dependencies since fix 14399c3 *)
Fixpoint strict_sorted (l : list string) : Prop :=
  match l with
  | a :: t => Forall (fun b => str_leb a b = true /\ a <> b) t /\ strict_sorted t
  | [] => True
  end.

(* the same content, through the whole dependency tree *)
Inductive same_tree : chart -> chart -> Prop :=
| SameTree a b :
    c_meta a = c_meta b -> c_lock a = c_lock b -> raw_values a = raw_values b ->
    c_values a = c_values b -> c_schema a = c_schema b ->
    c_templates a = c_templates b -> c_files a = c_files b ->
    Forall2 same_tree (c_deps a) (c_deps b) ->
    same_tree a b.

Section Wf.
  Variable parse_values : string -> option val.
  Variable json_valid : string -> bool.
  Variable sanitize : meta -> meta.
  Variable is_semver : string -> bool.
  Variable rest_valid : meta -> bool.

  (* a chart without dependencies as Save expects it and LoadFiles produces it *)
  Record wf_chart (c : chart) : Prop := {
    wf_valid : validate sanitize is_semver rest_valid (c_meta c) = Some (c_meta c);
    wf_api : (m_api (c_meta c) = "v2") \/ (m_api (c_meta c) = "v1" /\ m_deps (c_meta c) = "" /\ c_lock c = None);
    wf_name : wf_cname (m_name (c_meta c)) = true;
    wf_values : vals_fold parse_values None (raw_values c) = Some (c_values c);
    wf_schema : match c_schema c with Some s => json_valid s = true | None => True end;
    wf_templates : forallb wf_template (c_templates c) = true;
    wf_files : forallb wf_file (c_files c) = true;
    wf_nodeps : c_deps c = [] }.

  (* K4: the loaders strip a leading BOM from every file; the round trip needs its absence *)
  Record no_bom (c : chart) : Prop := {
    nb_values : bom_free (raw_values c);
    nb_schema : match c_schema c with Some s => has_bom s = false | None => True end;
    nb_templates : bom_free (c_templates c);
    nb_files : bom_free (c_files c) }.

  (* a chart with dependencies: every node well-formed on its own, dependency names usable
     as directory names and in strictly increasing order *)
  Inductive wf_tree : chart -> Prop :=
  | WfTree c :
      wf_chart (own c) ->
      strict_sorted (map dname (c_deps c)) ->
      Forall (fun d => dep_name_ok (dname d)) (c_deps c) ->
      Forall wf_tree (c_deps c) ->
      wf_tree c.

  Inductive nobom_tree : chart -> Prop :=
  | NbTree c : no_bom (own c) -> Forall nobom_tree (c_deps c) -> nobom_tree c.
End Wf.

(* the archive fits the limits in force *)
Definition fits (maxt maxf : Z) (es : list tentry) : Prop :=
  Forall (fun e => (te_size e <= maxf)%Z) es /\ (fold_right Z.add 0%Z (map te_size es) < maxt)%Z.

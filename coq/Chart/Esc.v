(* Byte strings in case files: (ue "...") where \HH is the byte with hexadecimal code HH.
   Used only by the harness printers (C15, C16) so that Coq reads a literal instead of a
   list of numerals. *)
From Coq Require Import String Ascii Arith List.
From Coq.Strings Require Import Byte.
Local Open Scope string_scope.

Definition hexval (c : ascii) : nat :=
  let n := nat_of_ascii c in
  if Nat.leb 97 n then n - 87 else if Nat.leb 65 n then n - 55 else n - 48.

Fixpoint ue (s : string) : string :=
  match s with
  | EmptyString => EmptyString
  | String c t =>
      if Ascii.eqb c "\"%char then
        match t with
        | String h (String l t') => String (ascii_of_nat (16 * hexval h + hexval l)) (ue t')
        | _ => s
        end
      else String c (ue t)
  end.

Example ue_ex : ue "a\0a\5cb\ef""" = String "a" (String (ascii_of_nat 10) (String "\" (String "b" (String (ascii_of_nat 239) (String """" EmptyString))))).
Proof. reflexivity. Qed.

(* A literal "..."%bstr is elaborated through a constructor (no conversion function to
   normalise), several times faster than a string literal; [ub] turns it into a string and
   undoes the \HH escapes. *)
Inductive bstr := BS (l : list byte).
Definition unBS (b : bstr) : list byte := match b with BS l => l end.
Declare Scope bstr_scope.
Delimit Scope bstr_scope with bstr.
String Notation bstr BS unBS : bstr_scope.
Definition ub (b : bstr) : string := ue (string_of_list_byte (unBS b)).

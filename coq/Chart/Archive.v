(* pkg/chart/v2/loader/archive.go: LoadArchiveFiles, as it is.
   gzip + archive/tar are third-party: the model starts from what the tar reader yields,
   a list of (header, data) pairs that ends at EOF or with a reader error. *)
From Coq Require Import List String Ascii Bool Arith ZArith.
From Helm Require Import Chart.Paths.
Import ListNotations.
Local Open Scope string_scope.
Local Open Scope Z_scope.

Record file := mkFile { f_name : string; f_data : string }.

(* One entry as returned by tar.Reader.Next + reading it to its end. *)
Record tentry := mkTE {
  te_name : string;   (* hd.Name *)
  te_type : Z;        (* hd.Typeflag (byte) *)
  te_mode : Z;        (* hd.Mode *)
  te_size : Z;        (* hd.Size, the declared size *)
  te_data : string;   (* the bytes the reader yields for the entry *)
  te_rerr : bool      (* reading the entry to its end fails (truncated / corrupt stream) *)
}.

Record tstream := mkTS {
  ts_gzerr : bool;            (* gzip.NewReader fails *)
  ts_entries : list tentry;
  ts_err : bool               (* after the entries, Next() fails with something other than EOF *)
}.

Inductive aerr :=
| EStream        (* gzip / tar reader error *)
| EAbs           (* "chart illegally contains absolute paths" *)
| EOutside       (* "content outside the base directory" *)
| EParent        (* "illegally references parent directory" *)
| EDrive         (* "illegally named files" *)
| EChartBase     (* "chart yaml not in base directory" *)
| ETotal         (* "decompressed chart is larger than the maximum size" *)
| EFile          (* "decompressed chart file ... is larger than the maximum file size" *)
| ENoFiles.      (* "no files in chart archive" *)

Definition aerr_eqb (a b : aerr) : bool :=
  match a, b with
  | EStream, EStream | EAbs, EAbs | EOutside, EOutside | EParent, EParent | EDrive, EDrive
  | EChartBase, EChartBase | ETotal, ETotal | EFile, EFile | ENoFiles, ENoFiles => true
  | _, _ => false
  end.

(* tar.Header.FileInfo().IsDir(): directory bit from the mode field OR from the type flag.
   c_ISFMT = 0170000 = 61440, c_ISDIR = 040000 = 16384, TypeDir = '5' = 53 *)
Definition te_isdir (e : tentry) : bool :=
  (Z.land (te_mode e) 61440 =? 16384) || (te_type e =? 53).

(* tar.TypeXGlobalHeader = 'g' = 103, tar.TypeXHeader = 'x' = 120 *)
Definition te_xheader (e : tentry) : bool := (te_type e =? 103) || (te_type e =? 120).

(* entries that take part in the size accounting *)
Definition counted (e : tentry) : bool := negb (te_isdir e) && negb (te_xheader e).

Definition utf8bom : string := String (ascii_of_nat 239) (String (ascii_of_nat 187) (String (ascii_of_nat 191) EmptyString)).

(* bytes.TrimPrefix(data, utf8bom) *)
Definition trim_bom (s : string) : string :=
  if String.prefix utf8bom s then substring 3 (String.length s - 3) s else s.

Definition has_bom (s : string) : bool := String.prefix utf8bom s.

(* the name pipeline of LoadArchiveFiles *)
Definition arch_name (hdname : string) : aerr + string :=
  let delim := if contains_char bslash hdname then bslash else slash in
  match split_on delim hdname with
  | [] => inl EStream (* strings.Split never returns an empty slice *)
  | p0 :: rest =>
      let n := join (String delim EmptyString) rest in
      let n := replace_char delim slash n in
      if is_abs n then inl EAbs else
      let n := path_clean n in
      if String.eqb n "." then inl EOutside else
      if String.prefix ".." n then inl EParent else
      if drive_prefix n then inl EDrive else
      if String.eqb p0 "Chart.yaml" then inl EChartBase else
      inr n
  end.

(* the four size comparisons of the loop, by name, so that the operators the translator reads
   from archive.go can be held against them (Props/C16.v, C16_limit_operators) *)
Definition entry_over_remaining (size rem : Z) : bool := size >? rem.        (* hd.Size > remainingSize *)
Definition entry_over_file_limit (size maxf : Z) : bool := size >? maxf.     (* hd.Size > MaxDecompressedFileSize *)
Definition short_read (written size : Z) : bool := written <? size.          (* bytesWritten < hd.Size *)
Definition budget_exhausted (rem : Z) : bool := rem <=? 0.                   (* remainingSize <= 0 *)

(* a Go comparison operator as a predicate on Z *)
Definition cmp_of (op : string) : Z -> Z -> bool :=
  if String.eqb op ">" then Z.gtb else if String.eqb op ">=" then Z.geb
  else if String.eqb op "<" then Z.ltb else if String.eqb op "<=" then Z.leb
  else if String.eqb op "==" then Z.eqb else if String.eqb op "!=" then (fun a b => negb (Z.eqb a b))
  else fun _ _ => false.

(* one io.Copy through io.LimitReader(tr, remaining): what was asked and what was read *)
Record rd := mkRd { rd_size : Z; rd_rem : Z; rd_n : Z }.

(* the loop; [rem] is remainingSize.  Returns the result and the reads performed. *)
Fixpoint load_go (maxf rem : Z) (es : list tentry) : (aerr + list file) * list rd :=
  match es with
  | [] => (inr [], [])
  | e :: t =>
      if te_isdir e || te_xheader e then
        (* `continue`: the next call of Next() discards the entry's data *)
        if te_rerr e then (inl EStream, []) else load_go maxf rem t
      else
        match arch_name (te_name e) with
        | inl err => (inl err, [])
        | inr n =>
            if entry_over_remaining (te_size e) rem then (inl ETotal, []) else
            if entry_over_file_limit (te_size e) maxf then (inl EFile, []) else
            let w := Z.min (slen (te_data e)) rem in
            let r := mkRd (te_size e) rem w in
            if te_rerr e then (inl EStream, [r]) else
            let rem' := rem - w in
            if short_read w (te_size e) || budget_exhausted rem' then (inl ETotal, [r]) else
            let data := substring 0 (Z.to_nat w) (te_data e) in
            let '(res, rs) := load_go maxf rem' t in
            (match res with
             | inl x => inl x
             | inr fs => inr (mkFile n (trim_bom data) :: fs)
             end, r :: rs)
        end
  end.

Definition load_archive_trace (maxt maxf : Z) (s : tstream) : (aerr + list file) * list rd :=
  if ts_gzerr s then (inl EStream, []) else
  let '(res, rs) := load_go maxf maxt (ts_entries s) in
  (match res with
   | inl x => inl x
   | inr fs => if ts_err s then inl EStream else
               match fs with [] => inl ENoFiles | _ => inr fs end
   end, rs).

Definition load_archive_files (maxt maxf : Z) (s : tstream) : aerr + list file :=
  fst (load_archive_trace maxt maxf s).

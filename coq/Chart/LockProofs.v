(* Proofs about Chart/Lock.v (C16_lock_confined). *)
From Coq Require Import List String Ascii Bool Arith.
From Helm Require Import Chart.Paths Chart.Lock.
Import ListNotations.
Local Open Scope string_scope.

Lemma fs_get_set_eq p n fs : fs_get p (fs_set p n fs) = Some n.
Proof.
  induction fs as [|[q m] t IH]; simpl.
  - now rewrite String.eqb_refl.
  - destruct (String.eqb p q) eqn:E; simpl; rewrite ?String.eqb_refl, ?E; auto.
Qed.

Lemma fs_get_set_neq p q n fs : q <> p -> fs_get q (fs_set p n fs) = fs_get q fs.
Proof.
  intros Hne. induction fs as [|[r m] t IH]; simpl.
  - destruct (String.eqb q p) eqn:E; auto. apply String.eqb_eq in E. congruence.
  - destruct (String.eqb p r) eqn:E; simpl.
    + apply String.eqb_eq in E. subst r.
      destruct (String.eqb q p) eqn:E2; auto. apply String.eqb_eq in E2. congruence.
    + destruct (String.eqb q r); auto.
Qed.

(* writeLock either fails or changes only the lock path, which then holds a regular file
   and held nothing or a regular file before *)
Lemma lock_confined fs dir legacy data fs' :
  write_lock fs dir legacy data = Some fs' ->
  (forall p, p <> lock_path dir legacy -> fs_get p fs' = fs_get p fs) /\
  fs_get (lock_path dir legacy) fs' = Some (NFile data) /\
  (fs_get (lock_path dir legacy) fs = None \/ exists d, fs_get (lock_path dir legacy) fs = Some (NFile d)).
Proof.
  unfold write_lock. set (dest := lock_path dir legacy).
  destruct (fs_get dest fs) as [[d| |t]|] eqn:E; simpl; rewrite ?E; try discriminate;
    intros H; inversion H; subst fs'; (split; [intros p Hp; now apply fs_get_set_neq|]);
    (split; [apply fs_get_set_eq|]); eauto.
Qed.

(* before fix 2970e48: the write goes through a symlink planted at the lock path *)
Definition planted_fs : fsys :=
  [("/work/chart", NDir); ("/work/chart/Chart.lock", NSymlink "../../outside/target");
   ("/outside/target", NFile "precious")].

Lemma lock_symlink_refuted :
  exists fs dir data fs' p,
    write_lock_prefix fs dir false data = Some fs' /\ p <> lock_path dir false /\
    fs_get p fs' <> fs_get p fs.
Proof.
  exists planted_fs, "/work/chart", "lock",
    [("/work/chart", NDir); ("/work/chart/Chart.lock", NSymlink "../../outside/target");
     ("/outside/target", NFile "lock")], "/outside/target".
  split; [vm_compute; reflexivity|]. split; vm_compute; discriminate.
Qed.

Lemma lock_symlink_refused : write_lock planted_fs "/work/chart" false "lock" = None.
Proof. vm_compute. reflexivity. Qed.

Lemma lock_example :
  exists fs', write_lock [("/work/chart", NDir); ("/work/chart/Chart.lock", NFile "old")] "/work/chart" false "new" = Some fs'
              /\ fs_get "/work/chart/Chart.lock" fs' = Some (NFile "new").
Proof. eexists. split; vm_compute; reflexivity. Qed.

(* pkg/chart/v2/util/save.go: SaveDir, as it is (after fix f5fbed2: Chart.lock is written).
   The result is the directory tree below <dest>/<name>: relative slash paths and bytes.  The
   file system is modelled as far as SaveDir can observe it in a fresh destination: a path is a
   file or a directory (a proper prefix of a file); writeFile = MkdirAll(dir) + WriteFile fails
   when a parent is a file (ENOTDIR), when the path is a directory (EISDIR) or contains a NUL
   byte (EINVAL), and otherwise creates or truncates.  Dependencies are written by Save as
   charts/<name>-<version>.tgz; [tgz] is what tar+gzip leave on disk for a list of entries.
   Definitions only. *)
From Coq Require Import List String Ascii Bool Arith ZArith.
From Helm Require Import Values.Tree Chart.Paths Chart.Archive Chart.Files Chart.Save.
Import ListNotations.
Local Open Scope string_scope.

Definition nul : ascii := ascii_of_nat 0.
Definition dest_mark : string := "<dest>".

(* filepath.Join(<dest>/<name>, fname), relative to <dest>/<name>:
   None = the chart directory itself; Some None = a path outside it (a name that climbs out with
   ..); Some (Some rel) = a path below it *)
Definition rel_of (name fname : string) : option (option string) :=
  match clean_go true [] (dest_mark :: name :: split_on slash fname) with
  | d :: n :: r =>
      if String.eqb d dest_mark && String.eqb n name then
        match r with
        | [] => None
        | _ => Some (Some (join "/" r))
        end
      else Some None
  | _ => Some None
  end.

Definition below (d n : string) : bool := String.prefix (d ++ "/") n.

(* os.MkdirAll(filepath.Dir(p)) ; os.WriteFile(p) / os.Create(p) *)
Definition dir_put (t : list file) (rel data : string) : option (list file) :=
  if contains_char nul rel then None
  else if existsb (fun g => below (f_name g) rel) t then None
  else if existsb (fun g => below rel (f_name g)) t then None
  else if existsb (fun g => String.eqb (f_name g) rel) t then
    Some (map (fun g => if String.eqb (f_name g) rel then mkFile rel data else g) t)
  else Some (t ++ [mkFile rel data])%list.

(* writeFile(filepath.Join(outdir, fname), data) *)
Definition dir_write (name : string) (t : list file) (fname data : string) : option (list file) :=
  match rel_of name fname with
  | None => None
  | Some None => Some t          (* written outside the chart directory *)
  | Some (Some rel) => dir_put t rel data
  end.

Fixpoint dir_write_all (name : string) (t : list file) (l : list file) : option (list file) :=
  match l with
  | [] => Some t
  | f :: r =>
      match dir_write name t (f_name f) (f_data f) with
      | None => None
      | Some t' => dir_write_all name t' r
      end
  end.

Section SaveDir.
  Variable md_enc : meta -> string.
  Variable lock_enc : lockv -> string.
  Variable json_valid : string -> bool.
  Variable sanitize : meta -> meta.
  Variable is_semver : string -> bool.
  Variable rest_valid : meta -> bool.
  Variable tgz : list tentry -> string.

  Notation SAVE := (save md_enc lock_enc json_valid sanitize is_semver rest_valid).
  Notation SAVENAME := (save_filename sanitize is_semver rest_valid).

  (* the loop over c.Dependencies(): Save(dep, <outdir>/charts) -- the archive is created at
     filepath.Join(<outdir>/charts, <name>-<version>.tgz), a cleaned path (a dependency named "/"
     gives charts/-<version>.tgz) *)
  Fixpoint save_deps (name : string) (t : list file) (deps : list chart) : option (list file) :=
    match deps with
    | [] => Some t
    | d :: r =>
        match SAVENAME d, SAVE d with
        | Some fname, Some es =>
            match dir_write name t ("charts/" ++ fname) (tgz es) with
            | None => None
            | Some t' => save_deps name t' r
            end
        | _, _ => None
        end
    end.

  Definition save_dir (c : chart) : option (list file) :=
    let m := c_meta c in
    let name := m_name m in
    if negb (name_is_base name) then None else
    if contains_char nul name then None else
    (* SaveChartfile: dependencies stripped for v1 *)
    let t0 := [mkFile "Chart.yaml" (md_enc (if String.eqb (m_api m) "v1" then strip_deps m else m))] in
    match (if String.eqb (m_api m) "v2" then
             match c_lock c with
             | Some l => dir_write name t0 "Chart.lock" (lock_enc l)
             | None => Some t0
             end
           else Some t0) with
    | None => None
    | Some t1 =>
        match dir_write_all name t1 (map (fun f => mkFile "values.yaml" (f_data f)) (filter is_values_file (c_raw c))) with
        | None => None
        | Some t2 =>
            match (match c_schema c with
                   | Some s => dir_write name t2 "values.schema.json" s
                   | None => Some t2
                   end) with
            | None => None
            | Some t3 =>
                match dir_write_all name t3 (c_templates c) with
                | None => None
                | Some t4 =>
                    match dir_write_all name t4 (c_files c) with
                    | None => None
                    | Some t5 => save_deps name t5 (c_deps c)
                    end
                end
            end
        end
    end.
End SaveDir.

(* Lemmas about Chart/Paths.v: split/join, the component pass of path.Clean. *)
From Coq Require Import List String Ascii Bool Arith ZArith Lia.
From Helm Require Import Chart.Paths.
Import ListNotations.
Local Open Scope string_scope.

(* ---------- strings ---------- *)
Lemma append_nil_r s : s ++ "" = s.
Proof. induction s; simpl; congruence. Qed.

Lemma append_assoc (a b c : string) : (a ++ b) ++ c = a ++ (b ++ c).
Proof. induction a; simpl; congruence. Qed.

Lemma contains_char_app c a b : contains_char c (a ++ b) = contains_char c a || contains_char c b.
Proof. induction a; simpl; auto. rewrite IHa. now rewrite orb_assoc. Qed.

(* ---------- split_on ---------- *)
Lemma split_on_nonempty c s : split_on c s <> [].
Proof.
  destruct s; simpl; [discriminate|].
  destruct (Ascii.eqb a c); [discriminate|]. destruct (split_on c s); discriminate.
Qed.

Lemma split_on_cons c s : exists h r, split_on c s = h :: r.
Proof. destruct (split_on c s) eqn:E; [now apply split_on_nonempty in E|eauto]. Qed.

Lemma split_on_app c a b : split_on c (a ++ String c b) = (split_on c a ++ split_on c b)%list
                           \/ True.
Proof. now right. Qed.

(* splitting "a<c>b": the pieces of a, where the last piece of a is followed by the pieces of b *)
Lemma split_on_sep c a b :
  contains_char c a = false -> split_on c (a ++ String c b) = a :: split_on c b.
Proof.
  induction a as [|x a IH]; simpl; intros H.
  - now rewrite Ascii.eqb_refl.
  - apply orb_false_iff in H as [Hx Ha]. rewrite Hx. rewrite (IH Ha). reflexivity.
Qed.

Lemma split_on_nosep c a : contains_char c a = false -> split_on c a = [a].
Proof.
  induction a as [|x a IH]; simpl; intros H; auto.
  apply orb_false_iff in H as [Hx Ha]. rewrite Hx, (IH Ha). reflexivity.
Qed.

Lemma split_on_pieces c s : Forall (fun p => contains_char c p = false) (split_on c s).
Proof.
  induction s as [|x s IH]; simpl.
  - constructor; auto.
  - destruct (Ascii.eqb x c) eqn:E.
    + constructor; auto.
    + destruct (split_on c s) as [|h r] eqn:Es.
      * constructor; simpl; auto. now rewrite E.
      * inversion IH; subst. constructor; auto. simpl. now rewrite E.
Qed.

Definition sep1 (c : ascii) : string := String c EmptyString.

Lemma join_split c s : join (sep1 c) (split_on c s) = s.
Proof.
  induction s as [|x s IH]; simpl; auto.
  destruct (Ascii.eqb x c) eqn:E.
  - apply Ascii.eqb_eq in E. subst x.
    destruct (split_on_cons c s) as (h & r & Hs). rewrite Hs in *. simpl.
    simpl in IH. now rewrite IH.
  - destruct (split_on_cons c s) as (h & r & Hs). rewrite Hs in *.
    destruct r; simpl in *; now rewrite IH.
Qed.

Lemma join_cons2 sep x y l : join sep (x :: y :: l) = x ++ sep ++ join sep (y :: l).
Proof. reflexivity. Qed.

Lemma split_join c l :
  l <> [] -> Forall (fun p => contains_char c p = false) l -> split_on c (join (sep1 c) l) = l.
Proof.
  induction l as [|x l IH]; intros Hne HF; [congruence|].
  inversion HF; subst. destruct l as [|y l].
  - simpl. now apply split_on_nosep.
  - rewrite join_cons2. unfold sep1 at 1. simpl append.
    rewrite split_on_sep by assumption. f_equal. apply IH; [discriminate|assumption].
Qed.

Lemma join_app sep a b :
  a <> [] -> b <> [] -> join sep (a ++ b) = join sep a ++ sep ++ join sep b.
Proof.
  induction a as [|x a IH]; intros Ha Hb; [congruence|].
  destruct a as [|y a].
  - simpl. destruct b; [congruence|reflexivity].
  - change ((x :: y :: a) ++ b)%list with (x :: (y :: a) ++ b)%list.
    simpl app. rewrite join_cons2. change (y :: (a ++ b)%list) with ((y :: a) ++ b)%list.
    rewrite IH by (auto; discriminate). rewrite join_cons2.
    now rewrite !append_assoc.
Qed.

Lemma split_on_concat c a b :
  split_on c (a ++ String c b) = (split_on c a ++ split_on c b)%list.
Proof.
  induction a as [|x a IH]; simpl.
  - now rewrite Ascii.eqb_refl.
  - destruct (Ascii.eqb x c) eqn:E.
    + now rewrite IH.
    + rewrite IH. destruct (split_on_cons c a) as (h & r & Hs). rewrite Hs. reflexivity.
Qed.

Lemma contains_char_join c sep l :
  contains_char c sep = false -> Forall (fun p => contains_char c p = false) l ->
  contains_char c (join sep l) = false.
Proof.
  intros Hs. induction l as [|x l IH]; intros HF; simpl; auto.
  inversion HF; subst. destruct l; auto.
  rewrite !contains_char_app, H1, Hs. simpl. now apply IH.
Qed.

Lemma contains_replace_char c s : c <> slash -> contains_char c (replace_char c slash s) = false.
Proof.
  intros Hc. induction s as [|x s IH]; simpl; auto.
  destruct (Ascii.eqb x c) eqn:E; rewrite IH.
  - destruct (Ascii.eqb slash c) eqn:E2; auto. apply Ascii.eqb_eq in E2. congruence.
  - now rewrite E.
Qed.

Lemma replace_char_id c s : replace_char c c s = s.
Proof.
  induction s as [|x s IH]; simpl; auto. rewrite IH.
  destruct (Ascii.eqb x c) eqn:E; auto. apply Ascii.eqb_eq in E. now subst.
Qed.

Lemma contains_char_replace_other c d s :
  contains_char c s = false -> c <> slash -> contains_char c (replace_char d slash s) = false.
Proof.
  intros H Hc. induction s as [|x s IH]; simpl in *; auto.
  apply orb_false_iff in H as [Hx Hs]. rewrite (IH Hs).
  destruct (Ascii.eqb x d); [|now rewrite Hx].
  destruct (Ascii.eqb slash c) eqn:E; auto. apply Ascii.eqb_eq in E. congruence.
Qed.

(* ---------- good components and the clean pass ---------- *)
Lemma good_compb_iff c : good_compb c = true <-> good_comp c.
Proof.
  unfold good_compb, good_comp. rewrite !andb_true_iff, !negb_true_iff.
  rewrite !String.eqb_neq. tauto.
Qed.

Lemma clean_go_app r l1 : forall acc l2,
  clean_go r acc (l1 ++ l2) = clean_go r (rev (clean_go r acc l1)) l2.
Proof.
  induction l1 as [|c l1 IH]; intros acc l2; simpl.
  - now rewrite rev_involutive.
  - destruct (String.eqb c "" || String.eqb c "."); [apply IH|].
    destruct (String.eqb c "..").
    + destruct acc as [|a acc']; [destruct r; apply IH|].
      destruct (String.eqb a ".."); apply IH.
    + apply IH.
Qed.

Lemma clean_go_good r l : forall acc, Forall good_comp l -> clean_go r acc l = (rev acc ++ l)%list.
Proof.
  induction l as [|c l IH]; intros acc HF; simpl.
  - now rewrite app_nil_r.
  - inversion HF as [|? ? (H1 & H2 & H3) HF']; subst.
    apply String.eqb_neq in H1, H2, H3. rewrite H1, H2, H3. simpl.
    rewrite IH by assumption. simpl. now rewrite <- app_assoc.
Qed.

(* without ".." components the pass only drops "" and "." *)
Definition trivial_comp (c : string) : bool := String.eqb c "" || String.eqb c ".".

Lemma clean_go_nodotdot r l : forall acc,
  existsb (fun p => String.eqb p "..") l = false ->
  clean_go r acc l = (rev acc ++ filter (fun c => negb (trivial_comp c)) l)%list.
Proof.
  induction l as [|c l IH]; intros acc H; simpl in *.
  - now rewrite app_nil_r.
  - apply orb_false_iff in H as [Hc Hl]. unfold trivial_comp.
    destruct (String.eqb c "" || String.eqb c ".") eqn:E; simpl.
    + now apply IH.
    + rewrite Hc. rewrite IH by assumption. simpl. now rewrite <- app_assoc.
Qed.

Lemma filter_nontrivial_good l :
  existsb (fun p => String.eqb p "..") l = false ->
  Forall good_comp (filter (fun c => negb (trivial_comp c)) l).
Proof.
  induction l as [|c l IH]; simpl; intros H; [constructor|].
  apply orb_false_iff in H as [Hc Hl]. unfold trivial_comp at 1.
  destruct (String.eqb c "" || String.eqb c ".") eqn:E; simpl; auto.
  constructor; auto. apply orb_false_iff in E as [E1 E2].
  apply String.eqb_neq in E1, E2, Hc. now repeat split.
Qed.

(* shape of the non-rooted pass: some ".." then good components taken from the input *)
Lemma clean_go_shape l : forall acc k g,
  acc = (rev g ++ repeat ".." k)%list -> Forall good_comp g ->
  exists k' g', clean_go false acc l = (repeat ".." k' ++ g')%list /\ Forall good_comp g' /\
                (forall c, In c g' -> In c g \/ In c l).
Proof.
  induction l as [|c l IH]; intros acc k g Hacc Hg; simpl.
  - exists k, g. subst acc. rewrite rev_app_distr, rev_involutive.
    assert (rev (repeat ".." k) = repeat ".." k) as ->.
    { clear. induction k; simpl; auto. rewrite IHk. clear.
      induction k; simpl; auto. now rewrite <- IHk. }
    repeat split; auto.
  - destruct (String.eqb c "" || String.eqb c ".") eqn:E.
    { destruct (IH acc k g Hacc Hg) as (k' & g' & H1 & H2 & H3).
      exists k', g'. repeat split; auto. intros x Hx. destruct (H3 x Hx); [auto | right; simpl; auto]. }
    destruct (String.eqb c "..") eqn:E2.
    + apply String.eqb_eq in E2. subst c. destruct acc as [|a acc'].
      * (* g = [] and k = 0 *)
        destruct (IH [".."] 1%nat [] eq_refl (Forall_nil _)) as (k' & g' & H1 & H2 & H3).
        exists k', g'. repeat split; auto. intros x Hx. destruct (H3 x Hx) as [[]|]; right; simpl; auto.
      * destruct (String.eqb a "..") eqn:Ea.
        -- (* a = "..": g must be empty *)
           apply String.eqb_eq in Ea. subst a.
           assert (g = []) as ->.
           { destruct g as [|x g] using rev_ind; auto. rewrite rev_app_distr in Hacc. simpl in Hacc.
             inversion Hacc; subst. apply Forall_app in Hg as [_ Hx]. inversion Hx as [|? ? (_ & _ & Hdd) _]. congruence. }
           simpl in Hacc.
           destruct (IH (".." :: ".." :: acc') (S k) [] ) as (k' & g' & H1 & H2 & H3).
           { simpl. rewrite <- Hacc. reflexivity. } { constructor. }
           exists k', g'. repeat split; auto. intros x Hx. destruct (H3 x Hx) as [[]|]; right; simpl; auto.
        -- (* a is the last good component: pop it *)
           assert (exists g0, g = (g0 ++ [a])%list /\ acc' = (rev g0 ++ repeat ".." k)%list) as (g0 & -> & ->).
           { destruct g as [|x g0] using rev_ind.
             - simpl in Hacc. destruct k; simpl in Hacc; [discriminate|]. inversion Hacc; subst.
               rewrite String.eqb_refl in Ea. discriminate.
             - rewrite rev_app_distr in Hacc. simpl in Hacc. inversion Hacc; subst. eauto. }
           apply Forall_app in Hg as [Hg0 _].
           destruct (IH _ k g0 eq_refl Hg0) as (k' & g' & H1 & H2 & H3).
           exists k', g'. repeat split; auto. intros x Hx. destruct (H3 x Hx); [left; apply in_or_app; auto|right; simpl; auto].
    + (* a good component: push *)
      apply orb_false_iff in E as [E0 E1]. apply String.eqb_neq in E0, E1, E2.
      destruct (IH (c :: acc) k (g ++ [c])%list) as (k' & g' & H1 & H2 & H3).
      { subst acc. rewrite rev_app_distr. reflexivity. }
      { apply Forall_app; split; auto. constructor; auto. now repeat split. }
      exists k', g'. repeat split; auto. intros x Hx. destruct (H3 x Hx) as [Hi|]; [|right; simpl; auto].
      apply in_app_or in Hi as [|[<-|[]]]; [auto | right; simpl; auto].
Qed.

Lemma clean_go_shape0 l :
  exists k g, clean_go false [] l = (repeat ".." k ++ g)%list /\ Forall good_comp g /\ (forall c, In c g -> In c l).
Proof.
  destruct (clean_go_shape l [] 0%nat [] eq_refl (Forall_nil _)) as (k & g & H1 & H2 & H3).
  exists k, g. repeat split; auto. intros c Hc. destruct (H3 c Hc) as [[]|]; auto.
Qed.

Lemma prefix_dotdot_join k g :
  (k > 0)%nat -> String.prefix ".." (join "/" (repeat ".." k ++ g)%list) = true.
Proof.
  intros Hk. destruct k; [lia|]. simpl repeat. simpl app.
  destruct (repeat ".." k ++ g)%list eqn:E; reflexivity.
Qed.

(* path.Clean leaves a non-empty list of good components alone *)
Lemma clean_comps_good n :
  Forall good_comp (split_on slash n) -> clean_comps n = split_on slash n /\ is_abs n = false.
Proof.
  intros HF. assert (is_abs n = false) as Habs.
  { destruct n as [|a n]; auto. simpl. destruct (Ascii.eqb a slash) eqn:E; auto.
    simpl in HF. rewrite E in HF. inversion HF as [|? ? (H & _) _]. congruence. }
  split; auto. unfold clean_comps. rewrite Habs. now rewrite clean_go_good.
Qed.

Lemma path_clean_good n :
  Forall good_comp (split_on slash n) -> path_clean n = n.
Proof.
  intros HF. destruct (clean_comps_good n HF) as [Hc Ha].
  unfold path_clean. rewrite Hc, Ha.
  destruct n as [|a n'] eqn:En.
  - simpl in HF. inversion HF as [|? ? (H & _) _]. congruence.
  - rewrite <- En.
    destruct (split_on_cons slash n) as (h & r & Hs). rewrite Hs.
    rewrite <- Hs. change "/" with (sep1 slash). apply join_split.
Qed.

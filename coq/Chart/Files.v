(* Charts as values: the in-memory chart of pkg/chart/v2/chart.go projected to what
   packaging and loading read and write.  Definitions only. *)
From Coq Require Import List String Ascii Bool Arith ZArith.
From Helm Require Import Values.Tree Chart.Paths Chart.Archive.
Import ListNotations.
Local Open Scope string_scope.

(* chart.Metadata: the four fields Validate / Save / LoadFiles look at, the dependency
   list (dropped from Chart.yaml for apiVersion v1), and everything else as one
   canonical string that is only ever compared. *)
Record meta := mkMeta {
  m_api : string; m_name : string; m_version : string; m_type : string;
  m_deps : string; m_rest : string }.

Definition meta_eqb (a b : meta) : bool :=
  String.eqb (m_api a) (m_api b) && String.eqb (m_name a) (m_name b) &&
  String.eqb (m_version a) (m_version b) && String.eqb (m_type a) (m_type b) &&
  String.eqb (m_deps a) (m_deps b) && String.eqb (m_rest a) (m_rest b).

(* new(chart.Metadata) *)
(* m_rest of the zero value is its canonical JSON, "{}" *)
Definition empty_meta : meta := mkMeta "" "" "" "" "" "{}".

Definition set_api (m : meta) (a : string) : meta :=
  mkMeta a (m_name m) (m_version m) (m_type m) (m_deps m) (m_rest m).
Definition strip_deps (m : meta) : meta :=
  mkMeta (m_api m) (m_name m) (m_version m) (m_type m) "" (m_rest m).

(* chart.Lock, by its canonical content *)
Definition lockv := string.

Inductive chart := Chart {
  c_meta : meta;
  c_lock : option lockv;
  c_raw : list file;            (* Raw: every file as loaded *)
  c_values : option val;        (* Values: None = nil map *)
  c_schema : option string;     (* Schema: None = nil *)
  c_templates : list file;
  c_files : list file;
  c_deps : list chart }.

Definition set_meta (c : chart) (m : meta) : chart :=
  Chart m (c_lock c) (c_raw c) (c_values c) (c_schema c) (c_templates c) (c_files c) (c_deps c).

Definition file_eqb (a b : file) : bool :=
  String.eqb (f_name a) (f_name b) && String.eqb (f_data a) (f_data b).

Fixpoint list_eqb {A} (f : A -> A -> bool) (l1 l2 : list A) : bool :=
  match l1, l2 with
  | [], [] => true
  | a :: t1, b :: t2 => f a b && list_eqb f t1 t2
  | _, _ => false
  end.

Definition opt_eqb {A} (f : A -> A -> bool) (a b : option A) : bool :=
  match a, b with
  | None, None => true
  | Some x, Some y => f x y
  | _, _ => false
  end.

Definition is_values_file (f : file) : bool := String.eqb (f_name f) "values.yaml".

(* the raw values.yaml documents kept in Raw *)
Definition raw_values (c : chart) : list file := filter is_values_file (c_raw c).

(* The content of a chart the property speaks about: metadata, raw and parsed values,
   schema, lock, templates, files, dependencies (recursively, in order). *)
Fixpoint chart_eqb (a b : chart) {struct a} : bool :=
  meta_eqb (c_meta a) (c_meta b) &&
  opt_eqb String.eqb (c_lock a) (c_lock b) &&
  list_eqb file_eqb (raw_values a) (raw_values b) &&
  opt_eqb val_eqb (c_values a) (c_values b) &&
  opt_eqb String.eqb (c_schema a) (c_schema b) &&
  list_eqb file_eqb (c_templates a) (c_templates b) &&
  list_eqb file_eqb (c_files a) (c_files b) &&
  (fix go (l1 l2 : list chart) : bool :=
     match l1, l2 with
     | [], [] => true
     | x :: t1, y :: t2 => chart_eqb x y && go t1 t2
     | _, _ => false
     end) (c_deps a) (c_deps b).

(* as above, plus the whole Raw list (used when comparing model and implementation) *)
Fixpoint chart_eqb_full (a b : chart) {struct a} : bool :=
  meta_eqb (c_meta a) (c_meta b) &&
  opt_eqb String.eqb (c_lock a) (c_lock b) &&
  list_eqb file_eqb (c_raw a) (c_raw b) &&
  opt_eqb val_eqb (c_values a) (c_values b) &&
  opt_eqb String.eqb (c_schema a) (c_schema b) &&
  list_eqb file_eqb (c_templates a) (c_templates b) &&
  list_eqb file_eqb (c_files a) (c_files b) &&
  (fix go (l1 l2 : list chart) : bool :=
     match l1, l2 with
     | [], [] => true
     | x :: t1, y :: t2 => chart_eqb_full x y && go t1 t2
     | _, _ => false
     end) (c_deps a) (c_deps b).

(* the same content, as a proposition (what C15_roundtrip concludes) *)
Record same_content (a b : chart) : Prop := {
  sc_meta : c_meta a = c_meta b;
  sc_lock : c_lock a = c_lock b;
  sc_rawv : raw_values a = raw_values b;
  sc_values : c_values a = c_values b;
  sc_schema : c_schema a = c_schema b;
  sc_templates : c_templates a = c_templates b;
  sc_files : c_files a = c_files b;
  sc_deps : c_deps a = c_deps b }.

(* filepath.Ext of a single path element / slash path: from the last '.' of the last element *)
Fixpoint ext_go (s : string) : option string :=
  (* Some e: the suffix starting at the last '.' after the last '/', None: no such '.' *)
  match s with
  | EmptyString => None
  | String a t =>
      match ext_go t with
      | Some e => Some e
      | None => if Ascii.eqb a "."%char && negb (contains_char slash t) then Some s else None
      end
  end.
Definition path_ext (s : string) : string := match ext_go s with Some e => e | None => "" end.

Definition first_char_in (s : string) (cs : list ascii) : bool :=
  match s with
  | String a _ => existsb (Ascii.eqb a) cs
  | EmptyString => false
  end.

(* byte-wise string order (Go's < on strings, sort.Strings) *)
Fixpoint str_leb (a b : string) : bool :=
  match a, b with
  | EmptyString, _ => true
  | String _ _, EmptyString => false
  | String c1 t1, String c2 t2 =>
      if Nat.ltb (nat_of_ascii c1) (nat_of_ascii c2) then true
      else if Nat.ltb (nat_of_ascii c2) (nat_of_ascii c1) then false
      else str_leb t1 t2
  end.

Fixpoint insert_str (x : string) (l : list string) : list string :=
  match l with
  | [] => [x]
  | y :: t => if str_leb x y then x :: l else y :: insert_str x t
  end.
Definition sort_strs (l : list string) : list string := fold_right insert_str [] l.

Fixpoint dedup (l : list string) : list string :=
  match l with
  | [] => []
  | x :: t => if existsb (String.eqb x) t then dedup t else x :: dedup t
  end.

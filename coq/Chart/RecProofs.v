(* C15_roundtrip for charts WITH dependencies (stretch): Save writes the dependency tree
   below <name>/charts/<dep>/..., LoadFiles groups by first path element, sorts the names
   and recurses. *)
From Coq Require Import List String Ascii Bool Arith ZArith Lia ZifyBool.
From Helm Require Import Values.Tree Chart.Paths Chart.PathsProofs Chart.Archive Chart.ArchiveProofs
  Chart.Files Chart.Save Chart.Load Chart.Wf Chart.LoadProofs Chart.AgreeProofs.
Import ListNotations.
Local Open Scope string_scope.

Lemma depth_dep c d : In d (c_deps c) -> (depth d < depth c)%nat.
Proof.
  destruct c as [m lk raw vs sch tpl fls deps]. simpl. intros H.
  induction deps as [|x l IH]; [contradiction|]. simpl. destruct H as [->|H]; [lia|].
  specialize (IH H). lia.
Qed.

(* induction over the dependency tree *)
Lemma chart_tree_ind (P : chart -> Prop) :
  (forall c, (forall d, In d (c_deps c) -> P d) -> P c) -> forall c, P c.
Proof.
  intros H. assert (forall n c, (depth c <= n)%nat -> P c) as Hn.
  { induction n as [|n IH]; intros c Hd.
    - destruct c; simpl in Hd; lia.
    - apply H. intros d Hin. apply IH. pose proof (depth_dep c d Hin). lia. }
  intros c. now apply (Hn (depth c)).
Qed.

Lemma sort_sorted l : strict_sorted l -> sort_strs l = l.
Proof.
  induction l as [|a t IH]; simpl; auto. intros [Ha Ht]. unfold sort_strs in *. simpl.
  rewrite (IH Ht). destruct t as [|b t']; simpl; auto.
  inversion Ha as [|? ? [Hab _] _]; subst. now rewrite Hab.
Qed.

(* dedup of consecutive blocks of pairwise different names *)
Lemma dedup_blocks {A} (name : A -> string) (k : A -> nat) (l : list A) :
  strict_sorted (map name l) -> (forall x, In x l -> (k x > 0)%nat) ->
  dedup (flat_map (fun x => repeat (name x) (k x)) l) = map name l.
Proof.
  induction l as [|x l IH]; intros Hs Hk; simpl; auto.
  destruct Hs as [Hx Hl]. specialize (IH Hl (fun y Hy => Hk y (or_intror Hy))).
  assert (existsb (String.eqb (name x)) (flat_map (fun y => repeat (name y) (k y)) l) = false) as Hnot.
  { clear -Hx. induction l as [|y l IH]; simpl; auto. inversion Hx as [|? ? [_ Hne] Hx']; subst.
    rewrite existsb_app, (IH Hx'), orb_false_r. clear -Hne. induction (k y); simpl; auto.
    apply String.eqb_neq in Hne. now rewrite Hne. }
  pose proof (Hk x (or_introl eq_refl)) as Hpos.
  induction (k x) as [|n IHn]; [lia|]. simpl.
  destruct n as [|n].
  - simpl. rewrite Hnot. now rewrite IH.
  - assert (existsb (String.eqb (name x)) (repeat (name x) (S n) ++ flat_map (fun y => repeat (name y) (k y)) l) = true) as ->.
    { simpl. now rewrite String.eqb_refl. }
    apply IHn. lia.
Qed.

Lemma subs_loop_map {A} (F : string -> lerr + option chart) (name : A -> string) (res : A -> chart) (l : list A) :
  (forall x, In x l -> F (name x) = inr (Some (res x))) ->
  subs_loop F (map name l) = inr (map res l).
Proof.
  induction l as [|x l IH]; intros H; simpl; auto.
  rewrite (H x (or_introl eq_refl)). rewrite IH by (intros; apply H; now right). reflexivity.
Qed.

Lemma filter_block {A B} (name : A -> string) (block : A -> list (string * B)) (l : list A) d :
  In d l -> strict_sorted (map name l) ->
  (forall x, Forall (fun p => fst p = name x) (block x)) ->
  filter (fun p => String.eqb (fst p) (name d)) (flat_map block l) = block d.
Proof.
  intros Hin Hs Hb.
  assert (forall x, name x = name d -> filter (fun p => String.eqb (fst p) (name d)) (block x) = block x) as Hsame.
  { intros x Hx. specialize (Hb x). induction (block x) as [|p t IH]; simpl; auto. inversion Hb; subst.
    rewrite H1, Hx, String.eqb_refl. f_equal. auto. }
  assert (forall x, name x <> name d -> filter (fun p => String.eqb (fst p) (name d)) (block x) = []) as Hdiff.
  { intros x Hx. specialize (Hb x). induction (block x) as [|p t IH]; simpl; auto. inversion Hb; subst.
    rewrite H1. apply String.eqb_neq in Hx. rewrite Hx. auto. }
  induction l as [|x l IH]; [contradiction|]. simpl. rewrite filter_app.
  destruct Hs as [Hx Hl]. destruct Hin as [->|Hin].
  - rewrite Hsame by reflexivity.
    assert (filter (fun p => String.eqb (fst p) (name d)) (flat_map block l) = []) as ->; [|now rewrite app_nil_r].
    clear -Hx Hdiff. induction l as [|y l IH]; simpl; auto. inversion Hx as [|? ? [_ Hne] Hx']; subst.
    rewrite filter_app, (IH Hx'), app_nil_r. apply Hdiff. congruence.
  - rewrite (IH Hin Hl). rewrite Hdiff; auto.
    rewrite Forall_forall in Hx. destruct (Hx (name d) (in_map name l d Hin)) as [_ Hne]. exact Hne.
Qed.

Lemma prefix_app p s : String.prefix p (p ++ s) = true.
Proof.
  induction p as [|a p IH]; simpl; [now destruct s|].
  destruct (ascii_dec a a); [exact IH|congruence].
Qed.

Lemma substring_app_tail p s : substring (String.length p) (String.length (p ++ s) - String.length p) (p ++ s) = s.
Proof.
  induction p as [|a p IH]; simpl.
  - rewrite Nat.sub_0_r. induction s; simpl; congruence.
  - exact IH.
Qed.

(* ---------- an invalid name anywhere in the tree: nothing is packaged ---------- *)
(* some chart of the tree (the root or a dependency at any depth) has a name that is not its
   own base name *)
Inductive bad_name_in : chart -> Prop :=
| BadHere c : name_is_base (dname c) = false -> bad_name_in c
| BadBelow c d : In d (c_deps c) -> bad_name_in d -> bad_name_in c.

Lemma deps_loop_none (F : chart -> option (list tentry)) l d :
  In d l -> F d = None -> deps_loop F l = None.
Proof.
  induction l as [|x l IH]; intros Hin Hd; [contradiction|]. cbn [deps_loop].
  destruct Hin as [->|Hin]; [now rewrite Hd|].
  destruct (F x); auto. fold (deps_loop F l). now rewrite (IH Hin Hd).
Qed.

Lemma bad_name_not_written md_enc lock_enc json_valid : forall c, bad_name_in c ->
  forall pre, write_tar_contents md_enc lock_enc json_valid pre c = None.
Proof.
  induction 1 as [c Hbad|c d Hin Hd IH]; intros pre; destruct c as [m lk raw vs sch tpl fls deps];
    cbn [write_tar_contents c_meta c_lock c_raw c_schema c_templates c_files c_deps] in *.
  - unfold dname in Hbad. cbn [c_meta] in Hbad. now rewrite Hbad.
  - destruct (name_is_base (m_name m)); auto. cbn [negb]. cbv iota.
    destruct (match sch with Some s => if json_valid s then _ else None | None => Some [] end); auto.
    now rewrite (deps_loop_none _ deps d Hin (IH _)).
Qed.

(* Save validates (and sanitises) the root's metadata only; the dependencies are written as they are *)
Lemma bad_dependency_not_saved md_enc lock_enc json_valid sanitize is_semver rest_valid c d :
  In d (c_deps c) -> bad_name_in d ->
  save md_enc lock_enc json_valid sanitize is_semver rest_valid c = None.
Proof.
  intros Hin Hbad. unfold save. destruct (validate sanitize is_semver rest_valid (c_meta c)) as [m|]; auto.
  apply bad_name_not_written. apply (BadBelow _ d); [destruct c; exact Hin|exact Hbad].
Qed.

Section Rec.
  Variable md_enc : meta -> string.
  Variable lock_enc : lockv -> string.
  Variable json_valid : string -> bool.
  Variable sanitize : meta -> meta.
  Variable is_semver : string -> bool.
  Variable rest_valid : meta -> bool.
  Variable md_merge : meta -> string -> option meta.
  Variable lock_dec : string -> option (option lockv).
  Variable parse_values : string -> option val.
  Variable untar : string -> tstream.
  Variable maxt maxf : Z.

  Hypothesis md_rt : forall m, validate sanitize is_semver rest_valid m = Some m ->
                               md_merge empty_meta (md_enc m) = Some m.
  Hypothesis md_nobom : forall m, has_bom (md_enc m) = false.
  Hypothesis lock_rt : forall l, lock_dec (lock_enc l) = Some (Some l).
  Hypothesis lock_nobom : forall l, has_bom (lock_enc l) = false.

  Notation SP := (saved_pairs md_enc lock_enc).
  Notation WF := (wf_chart parse_values json_valid sanitize is_semver rest_valid).
  Notation wf_tree := (wf_tree parse_values json_valid sanitize is_semver rest_valid).
  Notation LFILES := (load_files md_merge lock_dec parse_values untar sanitize is_semver rest_valid maxt maxf).
  Notation lstep := (load_step md_merge lock_dec parse_values).
  Notation lloop := (load_loop md_merge lock_dec parse_values).

  Definition nest (dn : string) (p : string * string) : string * string :=
    ("charts/" ++ dn ++ "/" ++ fst p, snd p).

  (* every file of the subtree, named relative to the chart's own directory *)
  Fixpoint tree_pairs (c : chart) : list (string * string) :=
    SP c ++ flat_map (fun d => map (nest (dname d)) (tree_pairs d)) (c_deps c).

  (* the chart LoadFiles rebuilds: Raw holds every file of the subtree *)
  Fixpoint canon (c : chart) : chart :=
    Chart (c_meta c) (c_lock c) (map mk2 (tree_pairs c)) (c_values c) (c_schema c)
          (c_templates c) (c_files c) (map canon (c_deps c)).

  Lemma sp_own c : SP (own c) = SP c.
  Proof. reflexivity. Qed.

  (* a file below charts/<something>/ goes to the subchart table *)
  Lemma lstep_charts om lk vs sch tpl fls sub X d :
    contains_char slash X = true ->
    lstep (mkLS om lk vs sch tpl fls sub) (mkFile ("charts/" ++ X) d) =
    inr (mkLS om lk vs sch tpl fls (sub ++ [(fst (split2 X), mkFile X d)])).
  Proof.
    intros Hs. unfold load_step. cbn [f_name f_data].
    change (String.eqb ("charts/" ++ X) "Chart.yaml") with false.
    change (String.eqb ("charts/" ++ X) "Chart.lock") with false.
    change (String.eqb ("charts/" ++ X) "values.yaml") with false.
    change (String.eqb ("charts/" ++ X) "values.schema.json") with false.
    change (String.eqb ("charts/" ++ X) "requirements.yaml") with false.
    change (String.eqb ("charts/" ++ X) "requirements.lock") with false.
    change (String.prefix "templates/" ("charts/" ++ X)) with false.
    rewrite (prefix_app "charts/" X). cbv iota.
    replace (substring 7 (String.length ("charts/" ++ X) - 7) ("charts/" ++ X)) with X
      by (symmetry; exact (substring_app_tail "charts/" X)).
    rewrite Hs. simpl negb. rewrite andb_false_r. reflexivity.
  Qed.

  Definition sub_entry (dn : string) (p : string * string) : string * file :=
    (dn, mkFile (dn ++ "/" ++ fst p) (snd p)).

  Lemma split2_nested dn rest :
    contains_char slash dn = false -> split2 (dn ++ "/" ++ rest) = (dn, Some rest).
  Proof.
    intros H. unfold split2. change (dn ++ "/" ++ rest) with (dn ++ String slash rest).
    rewrite split_on_sep by assumption.
    destruct (split_on_cons slash rest) as (h & r & Hs). rewrite Hs. f_equal. f_equal.
    rewrite <- Hs. change "/" with (sep1 slash). apply join_split.
  Qed.

  Lemma lloop_nested om lk vs sch tpl fls dn (l : list (string * string)) : forall sub,
    contains_char slash dn = false ->
    lloop (mkLS om lk vs sch tpl fls sub) (map mk2 (map (nest dn) l)) =
    inr (mkLS om lk vs sch tpl fls (sub ++ map (sub_entry dn) l)).
  Proof.
    induction l as [|p l IH]; intros sub Hdn; cbn [map load_loop].
    - now rewrite app_nil_r.
    - unfold nest at 1, mk2 at 1. cbn [fst snd].
      rewrite lstep_charts.
      + rewrite split2_nested by assumption. cbn [fst]. rewrite IH by assumption.
        unfold sub_entry at 2. now rewrite <- app_assoc.
      + rewrite !contains_char_app. simpl. now rewrite orb_true_r.
  Qed.

  Lemma cut_first_block dn (l : list (string * string)) :
    contains_char slash dn = false ->
    cut_first (map snd (map (sub_entry dn) l)) = map mk2 l.
  Proof.
    intros Hdn. induction l as [|p l IH]; cbn [map]; auto.
    unfold sub_entry at 1. cbn [snd cut_first f_name f_data].
    rewrite split2_nested by assumption. cbn [snd]. rewrite IH. destruct p; reflexivity.
  Qed.
  Notation LOADED := (loaded_files md_enc lock_enc).

  (* the chart's own files through the two loops of LoadFiles (as in files_of_saved, but
     exposing the state so that the dependency files can follow) *)
  Lemma own_loops c extra :
    WF (own c) ->
    Forall (fun f => String.eqb (f_name f) "Chart.yaml" = false) extra ->
    load_meta md_merge None (LOADED c ++ extra) = inr (Some (c_meta c)) /\
    lloop (mkLS (Some (c_meta c)) None None None [] [] []) (LOADED c) =
      inr (mkLS (Some (c_meta c)) (c_lock c) (c_values c) (c_schema c) (c_templates c) (c_files c) []).
  Proof.
    intros [Hval Hapi Hname Hvals Hsch Htpl Hfls Hdeps] Hextra.
    unfold own in *. cbn [c_meta c_lock c_values c_schema c_templates c_files c_deps] in *.
    change (raw_values (Chart (c_meta c) (c_lock c) (c_raw c) (c_values c) (c_schema c) (c_templates c) (c_files c) [])) with (raw_values c) in Hvals.
    destruct (validate_inv _ _ _ _ _ Hval) as (_ & Hapine & _ & _).
    assert (Forall (fun f => String.prefix "templates/" (f_name f) = true) (c_templates c)) as HT.
    { apply Forall_forall. intros f Hf. rewrite forallb_forall in Htpl. now destruct (wf_template_props f (Htpl f Hf)). }
    assert (Forall (fun f => reserved (f_name f) = false /\ String.prefix "templates/" (f_name f) = false /\
                             String.prefix "charts/" (f_name f) = false) (c_files c)) as HF.
    { apply Forall_forall. intros f Hf. rewrite forallb_forall in Hfls. destruct (wf_file_props f (Hfls f Hf)) as (_ & ? & ? & ?). auto. }
    set (rest := (map mk2 (lock_seg lock_enc c) ++ map (fun f => mkFile "values.yaml" (f_data f)) (raw_values c) ++
                  map mk2 (schema_seg c) ++ c_templates c ++ c_files c)%list).
    assert (Forall (fun f => String.eqb (f_name f) "Chart.yaml" = false) rest) as Hrest.
    { unfold rest. repeat (apply Forall_app; split).
      - unfold lock_seg. destruct (String.eqb (m_api (c_meta c)) "v2"); [|constructor].
        destruct (c_lock c); repeat constructor.
      - apply Forall_forall. intros f Hf. apply in_map_iff in Hf as (g & <- & _). reflexivity.
      - unfold schema_seg. destruct (c_schema c); repeat constructor.
      - eapply Forall_impl; [|exact HT]. intros f Hf. simpl in Hf.
        destruct (String.eqb (f_name f) "Chart.yaml") eqn:E; auto.
        apply String.eqb_eq in E. rewrite E in Hf. discriminate.
      - eapply Forall_impl; [|exact HF]. intros f (Hr & _). now apply reserved_not_chartyaml. }
    rewrite (loaded_files_eq md_enc lock_enc c). fold rest. split.
    - cbn [app load_meta f_name f_data]. simpl String.eqb. cbv iota.
      unfold meta_or_new. rewrite (md_rt _ Hval).
      assert (default_api (c_meta c) = c_meta c) as ->.
      { unfold default_api. apply String.eqb_neq in Hapine. now rewrite Hapine. }
      apply load_meta_other. apply Forall_app. split; assumption.
    - cbn [load_loop]. rewrite lstep_chartyaml by reflexivity.
      unfold rest. rewrite lloop_app.
      rewrite (lloop_lock lock_enc md_merge lock_dec parse_values lock_rt c _ _ _ _ _ _ Hapi). cbv beta iota. rewrite lloop_app.
      rewrite (lloop_values md_merge lock_dec parse_values _ _ _ _ _ _ (raw_values c) None (c_values c) Hvals). cbv beta iota. rewrite lloop_app.
      rewrite (lloop_schema md_merge lock_dec parse_values c). cbv beta iota. rewrite lloop_app.
      rewrite (lloop_templates md_merge lock_dec parse_values _ _ _ _ _ _ (c_templates c) [] HT). cbv beta iota.
      rewrite (lloop_files md_merge lock_dec parse_values _ _ _ _ _ _ (c_files c) [] HF). reflexivity.
  Qed.
  Definition dep_files (deps : list chart) : list (string * string) :=
    flat_map (fun d => map (nest (dname d)) (tree_pairs d)) deps.
  Definition sub_table (deps : list chart) : list (string * file) :=
    flat_map (fun d => map (sub_entry (dname d)) (tree_pairs d)) deps.

  Lemma tree_pairs_eq c : tree_pairs c = (SP c ++ dep_files (c_deps c))%list.
  Proof. destruct c; reflexivity. Qed.

  Lemma canon_eq c :
    canon c = Chart (c_meta c) (c_lock c) (map mk2 (tree_pairs c)) (c_values c) (c_schema c)
                    (c_templates c) (c_files c) (map canon (c_deps c)).
  Proof. destruct c; reflexivity. Qed.

  Lemma tree_pairs_nonempty c : tree_pairs c <> [].
  Proof. rewrite tree_pairs_eq. unfold saved_pairs. discriminate. Qed.

  Lemma lloop_deps om lk vs sch tpl fls deps : forall sub,
    Forall (fun d => contains_char slash (dname d) = false) deps ->
    lloop (mkLS om lk vs sch tpl fls sub) (map mk2 (dep_files deps)) =
    inr (mkLS om lk vs sch tpl fls (sub ++ sub_table deps)).
  Proof.
    induction deps as [|d deps IH]; intros sub H; cbn [dep_files sub_table flat_map map load_loop].
    - now rewrite app_nil_r.
    - inversion H; subst. rewrite map_app, lloop_app. rewrite lloop_nested by assumption.
      fold (dep_files deps). rewrite IH by assumption. fold (sub_table deps). now rewrite <- app_assoc.
  Qed.

  Lemma sub_table_names deps :
    map fst (sub_table deps) = flat_map (fun d => repeat (dname d) (List.length (tree_pairs d))) deps.
  Proof.
    induction deps as [|d deps IH]; cbn [sub_table flat_map map]; auto.
    rewrite map_app. fold (sub_table deps). rewrite IH. f_equal.
    induction (tree_pairs d); simpl; congruence.
  Qed.

  Lemma dep_files_not_chartyaml deps :
    Forall (fun f => String.eqb (f_name f) "Chart.yaml" = false) (map mk2 (dep_files deps)).
  Proof.
    apply Forall_forall. intros f Hf. apply in_map_iff in Hf as (p & <- & Hp).
    unfold dep_files in Hp. apply in_flat_map in Hp as (d & _ & Hp).
    apply in_map_iff in Hp as (q & <- & _). reflexivity.
  Qed.

  (* one level of LoadFiles, given the dependencies load *)
  Lemma level fuel c :
    WF (own c) ->
    strict_sorted (map dname (c_deps c)) ->
    Forall (fun d => dep_name_ok (dname d)) (c_deps c) ->
    Forall (fun d => contains_char slash (dname d) = false) (c_deps c) ->
    (forall d, In d (c_deps c) -> LFILES fuel (map mk2 (tree_pairs d)) = inr (canon d)) ->
    LFILES (S fuel) (map mk2 (tree_pairs c)) = inr (canon c).
  Proof.
    intros Hwf Hsorted Hok Hns IH.
    destruct (own_loops c (map mk2 (dep_files (c_deps c))) Hwf (dep_files_not_chartyaml _)) as [Hmeta Hloop].
    assert (validate sanitize is_semver rest_valid (c_meta c) = Some (c_meta c)) as Hval by (now destruct Hwf).
    rewrite canon_eq, tree_pairs_eq, map_app.
    change (map mk2 (SP c)) with (LOADED c).
    cbn [load_files]. rewrite Hmeta. rewrite lloop_app, Hloop. cbv beta iota.
    rewrite (lloop_deps _ _ _ _ _ _ (c_deps c) [] Hns). cbn [app].
    cbn [ls_meta ls_lock ls_values ls_schema ls_templates ls_files ls_sub]. rewrite Hval.
    rewrite sub_table_names.
    rewrite (dedup_blocks dname (fun d => List.length (tree_pairs d)) (c_deps c) Hsorted).
    2:{ intros d _. pose proof (tree_pairs_nonempty d). destruct (tree_pairs d); [congruence|simpl; lia]. }
    rewrite (sort_sorted _ Hsorted).
    rewrite (subs_loop_map _ dname canon (c_deps c)); [reflexivity|].
    intros d Hd. cbv beta.
    rewrite Forall_forall in Hok, Hns. destruct (Hok d Hd) as [Hfc Hext]. rewrite Hfc, Hext.
    unfold sub_files, sub_table.
    rewrite (filter_block dname (fun d => map (sub_entry (dname d)) (tree_pairs d)) (c_deps c) d Hd Hsorted).
    2:{ intros x. apply Forall_forall. intros p Hp. apply in_map_iff in Hp as (q & <- & _). reflexivity. }
    rewrite (cut_first_block (dname d) (tree_pairs d) (Hns d Hd)).
    rewrite (IH d Hd). reflexivity.
  Qed.

  Lemma wf_tree_noslash c : wf_tree c -> contains_char slash (dname c) = false.
  Proof.
    intros H. inversion H as [c' Hwf _ _ _]; subst. destruct Hwf as [_ _ Hname _ _ _ _ _].
    now destruct (wf_cname_props _ Hname) as (_ & Hs & _).
  Qed.

  (* LoadFiles on the files of a whole well-formed tree *)
  Lemma load_tree : forall n c, (depth c <= n)%nat -> wf_tree c ->
    LFILES n (map mk2 (tree_pairs c)) = inr (canon c).
  Proof.
    induction n as [|n IH]; intros c Hd Hwf.
    - destruct c; simpl in Hd; lia.
    - inversion Hwf as [c' Hown Hsorted Hok Hdeps]; subst.
      apply level; auto.
      + apply Forall_forall. intros d Hin. rewrite Forall_forall in Hdeps. now apply wf_tree_noslash, Hdeps.
      + intros d Hin. apply IH.
        * pose proof (depth_dep c d Hin). lia.
        * rewrite Forall_forall in Hdeps. now apply Hdeps.
  Qed.

  (* ---------- the reloaded tree has the same content ---------- *)
  Lemma filter_values_nested deps :
    filter is_values_file (map mk2 (dep_files deps)) = [].
  Proof.
    unfold dep_files. induction deps as [|d deps IH]; cbn [flat_map map]; auto.
    rewrite map_app, filter_app, IH, app_nil_r.
    induction (tree_pairs d) as [|p l IHl]; cbn [map filter]; auto.
  Qed.

  Lemma raw_values_canon c : WF (own c) -> raw_values (canon c) = raw_values c.
  Proof.
    intros Hwf. rewrite canon_eq. unfold raw_values at 1. cbn [c_raw].
    rewrite tree_pairs_eq, map_app, filter_app, filter_values_nested, app_nil_r.
    change (map mk2 (SP c)) with (LOADED (own c)).
    exact (raw_values_loaded md_enc lock_enc json_valid sanitize is_semver rest_valid parse_values (own c) Hwf).
  Qed.

  Lemma same_tree_canon : forall n c, (depth c <= n)%nat -> wf_tree c -> same_tree c (canon c).
  Proof.
    induction n as [|n IH]; intros c Hd Hwf.
    - destruct c; simpl in Hd; lia.
    - inversion Hwf as [c' Hown _ _ Hdeps]; subst.
      pose proof (raw_values_canon c Hown) as Hrv.
      rewrite canon_eq in *. constructor; cbn [c_meta c_lock c_values c_schema c_templates c_files c_deps]; auto.
      assert (forall d, In d (c_deps c) -> same_tree d (canon d)) as Hall.
      { intros d Hin. apply IH; [pose proof (depth_dep c d Hin); lia|].
        rewrite Forall_forall in Hdeps. now apply Hdeps. }
      clear -Hall. induction (c_deps c) as [|d l IHl]; cbn [map]; constructor.
      + apply Hall. now left.
      + apply IHl. intros x Hx. apply Hall. now right.
  Qed.

  (* ---------- names and contents of the whole tree ---------- *)
  Lemma wf_fname_nest dn fn :
    wf_cname dn = true -> wf_fname fn = true -> wf_fname ("charts/" ++ dn ++ "/" ++ fn) = true.
  Proof.
    intros Hd Hf. destruct (wf_cname_props dn Hd) as (Hg & Hns & Hnb & _).
    unfold wf_fname in *. rewrite !andb_true_iff, !negb_true_iff in *.
    destruct Hf as [[[Hf1 Hf2] Hf3] Hf4]. repeat split; try reflexivity.
    - change ("charts/" ++ dn ++ "/" ++ fn) with ("charts" ++ String slash (dn ++ String slash fn)).
      rewrite split_on_sep by reflexivity. rewrite split_on_sep by assumption.
      cbn [forallb]. rewrite Hf1. apply good_compb_iff in Hg. now rewrite Hg.
    - change ("charts/" ++ dn ++ "/" ++ fn) with ("charts/" ++ (dn ++ ("/" ++ fn))).
      rewrite !contains_char_app, Hnb, Hf2. reflexivity.
  Qed.

  Lemma own_names_ok c : WF (own c) -> Forall (fun p => wf_fname (fst p) = true) (SP c).
  Proof.
    intros [_ _ _ _ _ Htpl Hfls _]. cbn [own c_templates c_files] in *.
    unfold saved_pairs, lock_seg, schema_seg. repeat (apply Forall_app; split).
    - repeat constructor.
    - destruct (String.eqb (m_api (c_meta c)) "v2"); [|constructor]. destruct (c_lock c); repeat constructor.
    - apply Forall_forall. intros p Hp. apply in_map_iff in Hp as (f & <- & _). reflexivity.
    - destruct (c_schema c); repeat constructor.
    - apply Forall_forall. intros p Hp. apply in_map_iff in Hp as (f & <- & Hf).
      rewrite forallb_forall in Htpl. now destruct (wf_template_props f (Htpl f Hf)).
    - apply Forall_forall. intros p Hp. apply in_map_iff in Hp as (f & <- & Hf).
      rewrite forallb_forall in Hfls. now destruct (wf_file_props f (Hfls f Hf)).
  Qed.

  Lemma wf_tree_cname c : wf_tree c -> wf_cname (dname c) = true.
  Proof. intros H. inversion H as [c' Hwf _ _ _]; subst. now destruct Hwf. Qed.

  Lemma tree_names_ok : forall c, wf_tree c -> Forall (fun p => wf_fname (fst p) = true) (tree_pairs c).
  Proof.
    apply (chart_tree_ind (fun c => wf_tree c -> Forall (fun p => wf_fname (fst p) = true) (tree_pairs c))).
    intros c IH Hwf. inversion Hwf as [c' Hown _ _ Hdeps]; subst.
    rewrite tree_pairs_eq. apply Forall_app. split; [now apply own_names_ok|].
    unfold dep_files. apply Forall_forall. intros p Hp. apply in_flat_map in Hp as (d & Hd & Hp).
    apply in_map_iff in Hp as (q & <- & Hq). rewrite Forall_forall in Hdeps.
    unfold nest. cbn [fst]. apply wf_fname_nest.
    - apply wf_tree_cname. now apply Hdeps.
    - specialize (IH d Hd (Hdeps d Hd)). rewrite Forall_forall in IH. now apply IH.
  Qed.

  Lemma tree_nobom : forall c, nobom_tree c -> Forall (fun p => has_bom (snd p) = false) (tree_pairs c).
  Proof.
    apply (chart_tree_ind (fun c => nobom_tree c -> Forall (fun p => has_bom (snd p) = false) (tree_pairs c))).
    intros c IH Hnb. inversion Hnb as [c' Hown Hdeps]; subst.
    rewrite tree_pairs_eq. apply Forall_app. split.
    - exact (saved_nobom md_enc lock_enc md_nobom lock_nobom (own c) Hown).
    - unfold dep_files. apply Forall_forall. intros p Hp. apply in_flat_map in Hp as (d & Hd & Hp).
      apply in_map_iff in Hp as (q & <- & Hq). rewrite Forall_forall in Hdeps.
      specialize (IH d Hd (Hdeps d Hd)). rewrite Forall_forall in IH. cbn [nest snd]. now apply IH.
  Qed.

  (* LoadArchiveFiles on the entries of a whole tree *)
  Definition tree_entries (c : chart) : list tentry :=
    map (fun p => tar_entry (dname c ++ "/" ++ fst p) (snd p)) (tree_pairs c).

  Lemma archive_of_tree c :
    wf_tree c -> nobom_tree c -> fits maxt maxf (tree_entries c) ->
    load_archive_files maxt maxf (mkTS false (tree_entries c) false) = inr (map mk2 (tree_pairs c)).
  Proof.
    intros Hwf Hnb [Hf1 Hf2].
    pose proof (tree_names_ok c Hwf) as Hn. pose proof (tree_nobom c Hnb) as Hb.
    pose proof (wf_tree_cname c Hwf) as Hcn.
    unfold load_archive_files, load_archive_trace. cbn [ts_gzerr ts_entries ts_err].
    set (L := map (fun p => (dname c ++ "/" ++ fst p, fst p, snd p)) (tree_pairs c)).
    assert (tree_entries c = map (fun x => let '(name, fn, body) := x in tar_entry name body) L) as Hes
      by (unfold tree_entries, L; rewrite map_map; reflexivity).
    pose proof (load_go_saved maxf L maxt) as HL. rewrite <- Hes in HL.
    assert (fst (load_go maxf maxt (tree_entries c)) = inr (map mk2 (tree_pairs c))) as HL'.
    { rewrite HL.
      - unfold L. rewrite map_map. f_equal. apply map_ext_in. intros p Hp. unfold mk2.
        rewrite Forall_forall in Hb. now rewrite trim_bom_nobom by (apply Hb; assumption).
      - unfold L. apply Forall_forall. intros [[name fn] body] Hx. apply in_map_iff in Hx as (p & Hx & Hin).
        inversion Hx; subst. split.
        + apply saved_name; auto. rewrite Forall_forall in Hn. now apply Hn.
        + rewrite Forall_forall in Hf1.
          change (slen (snd p)) with (te_size (tar_entry (dname c ++ "/" ++ fst p) (snd p))).
          apply Hf1. unfold tree_entries. apply in_map_iff. exists p. split; [reflexivity|assumption].
      - assert (map te_size (tree_entries c) = map (fun x : string * string * string => slen (snd x)) L) as <-; [|exact Hf2].
        unfold tree_entries, L. rewrite !map_map. reflexivity. }
    destruct (load_go maxf maxt (tree_entries c)) as [res rs]. simpl in HL'. subst res. simpl.
    pose proof (tree_pairs_nonempty c). destruct (tree_pairs c); [congruence|reflexivity].
  Qed.

  (* ---------- Save on a whole tree ---------- *)
  Notation WTC := (write_tar_contents md_enc lock_enc json_valid).

  Definition good_path (s : string) : Prop := Forall good_comp (split_on slash s).

  Lemma path_join_good a b :
    good_path a -> good_path b -> path_join a b = a ++ "/" ++ b /\ good_path (a ++ "/" ++ b).
  Proof.
    intros Ha Hb. assert (good_path (a ++ "/" ++ b)) as Hab.
    { unfold good_path. change (a ++ "/" ++ b) with (a ++ String slash b). rewrite split_on_concat.
      apply Forall_app. split; assumption. }
    split; auto. pose proof (good_not_empty a Ha). pose proof (good_not_empty b Hb).
    unfold path_join. destruct a; [congruence|]. destruct b; [congruence|]. now apply path_clean_good.
  Qed.

  Lemma good_path_cname n : wf_cname n = true -> good_path n.
  Proof.
    intros H. destruct (wf_cname_props n H) as (Hg & Hns & _). unfold good_path.
    rewrite split_on_nosep by assumption. now constructor.
  Qed.

  Lemma good_path_fname n : wf_fname n = true -> good_path n.
  Proof. intros H. now destruct (wf_fname_props n H). Qed.

  (* the base directory of a chart written below [pre] *)
  Definition base_of (pre cn : string) : string := match pre with EmptyString => cn | _ => pre ++ "/" ++ cn end.

  Lemma base_ok pre cn :
    pre = "" \/ good_path pre -> wf_cname cn = true ->
    path_join pre cn = base_of pre cn /\ good_path (base_of pre cn).
  Proof.
    intros Hp Hc. pose proof (good_path_cname cn Hc) as Hg. destruct pre as [|a pre'].
    - simpl base_of. split; auto. unfold path_join. pose proof (good_not_empty cn Hg).
      destruct cn; [congruence|]. now apply path_clean_good.
    - destruct Hp as [|Hp]; [discriminate|]. unfold base_of. now apply path_join_good.
  Qed.

  Lemma deps_loop_flat (F : chart -> option (list tentry)) (E : chart -> list tentry) l :
    (forall d, In d l -> F d = Some (E d)) -> deps_loop F l = Some (flat_map E l).
  Proof.
    induction l as [|d l IH]; intros H; cbn [deps_loop flat_map]; auto.
    rewrite (H d (or_introl eq_refl)). fold (deps_loop F l).
    rewrite IH by (intros; apply H; now right). reflexivity.
  Qed.

  Definition entries_at (B : string) (c : chart) : list tentry :=
    map (fun p => tar_entry (B ++ "/" ++ fst p) (snd p)) (tree_pairs c).

  Lemma map_entries_base B (l : list file) :
    good_path B -> Forall (fun f => wf_fname (f_name f) = true) l ->
    map (fun f => tar_entry (path_join B (f_name f)) (f_data f)) l =
    map (fun p => tar_entry (B ++ "/" ++ fst p) (snd p)) (map (fun f => (f_name f, f_data f)) l).
  Proof.
    intros HB HF. rewrite map_map. apply map_ext_in. intros f Hf. cbn [fst snd].
    rewrite Forall_forall in HF.
    now destruct (path_join_good B (f_name f) HB (good_path_fname _ (HF f Hf))) as [-> _].
  Qed.

  Local Opaque path_join.
  Lemma save_tree : forall c, wf_tree c -> forall pre, pre = "" \/ good_path pre ->
    WTC pre c = Some (entries_at (base_of pre (dname c)) c).
  Proof.
    apply (chart_tree_ind (fun c => wf_tree c -> forall pre, pre = "" \/ good_path pre ->
              WTC pre c = Some (entries_at (base_of pre (dname c)) c))).
    intros c IH Hwf pre Hpre. inversion Hwf as [c' Hown Hsorted Hok Hdeps]; subst.
    pose proof (wf_tree_cname c Hwf) as Hcn.
    destruct (base_ok pre (dname c) Hpre Hcn) as [HB HBg]. set (B := base_of pre (dname c)) in *.
    destruct Hown as [Hval Hapi Hname Hvals Hsch Htpl Hfls _].
    cbn [own c_meta c_lock c_values c_schema c_templates c_files] in *.
    destruct (validate_inv _ _ _ _ _ Hval) as (_ & _ & Hbase & _).
    assert (forall fn, wf_fname fn = true -> path_join B fn = B ++ "/" ++ fn) as Hj.
    { intros fn Hf. now destruct (path_join_good B fn HBg (good_path_fname fn Hf)). }
    assert (path_join B "charts" = B ++ "/charts" /\ good_path (B ++ "/charts")) as [HBc HBcg].
    { apply path_join_good; auto. unfold good_path. simpl. repeat constructor; discriminate. }
    unfold entries_at. rewrite tree_pairs_eq, map_app.
    destruct c as [m lk raw vs sch tpl fls deps]. cbn [write_tar_contents c_meta c_lock c_raw c_schema c_templates c_files c_deps] in *.
    unfold dname in HB, B, Hcn. cbn [c_meta] in HB, B, Hcn.
    rewrite Hbase. cbn [negb]. cbv iota. rewrite HB. fold B.
    rewrite !Hj by reflexivity.
    assert ((if String.eqb (m_api m) "v1" then strip_deps m else m) = m) as ->.
    { destruct Hapi as [->|(-> & Hd & _)]; [reflexivity|]. simpl. now apply strip_deps_id. }
    assert (match sch with
            | Some s => if json_valid s then Some [tar_entry (B ++ "/" ++ "values.schema.json") s] else None
            | None => Some []
            end = Some (map (fun p => tar_entry (B ++ "/" ++ fst p) (snd p))
                            match sch with Some s => [("values.schema.json", s)] | None => [] end)) as ->.
    { destruct sch as [s|]; [|reflexivity]. rewrite Hsch. reflexivity. }
    rewrite (map_entries_base B tpl HBg).
    2:{ apply Forall_forall. intros f Hf. rewrite forallb_forall in Htpl. now destruct (wf_template_props f (Htpl f Hf)). }
    rewrite (map_entries_base B fls HBg).
    2:{ apply Forall_forall. intros f Hf. rewrite forallb_forall in Hfls. now destruct (wf_file_props f (Hfls f Hf)). }
    change (B ++ "/" ++ "charts") with (B ++ "/charts").
    rewrite (deps_loop_flat _ (fun d => entries_at ((B ++ "/charts") ++ "/" ++ dname d) d) deps).
    2:{ intros d Hd. rewrite Forall_forall in Hdeps.
        rewrite (IH d Hd (Hdeps d Hd) (B ++ "/charts") (or_intror HBcg)).
        unfold base_of. destruct (B ++ "/charts") eqn:E; [|reflexivity].
        destruct B; discriminate. }
    f_equal. unfold saved_pairs, lock_seg, schema_seg, raw_values.
    cbn [c_meta c_lock c_raw c_schema c_templates c_files]. rewrite !map_app, !map_map.
    cbn [app map fst snd]. f_equal. rewrite <- !app_assoc.
    apply (f_equal2 (@app tentry)); [destruct (String.eqb (m_api m) "v2"); [destruct lk|]; reflexivity|].
    apply (f_equal2 (@app tentry)); [reflexivity|].
    apply (f_equal2 (@app tentry)); [reflexivity|].
    apply (f_equal2 (@app tentry)); [reflexivity|].
    apply (f_equal2 (@app tentry)); [reflexivity|].
    unfold dep_files, entries_at. clear. induction deps as [|d deps IHd]; cbn [flat_map map]; auto.
    rewrite map_app, IHd. f_equal. rewrite map_map. apply map_ext. intros p. unfold nest. cbn [fst snd].
    f_equal. now rewrite !append_assoc.
  Qed.
  Local Transparent path_join.

  (* C15_roundtrip for a chart with its whole dependency tree *)
  Theorem roundtrip_tree c :
    wf_tree c -> nobom_tree c ->
    exists es, save md_enc lock_enc json_valid sanitize is_semver rest_valid c = Some es /\
      (fits maxt maxf es -> forall fuel, (depth c <= fuel)%nat -> exists c',
         load_archive md_merge lock_dec parse_values untar sanitize is_semver rest_valid maxt maxf fuel
                      (mkTS false es false) = inr c' /\
         same_tree c c').
  Proof.
    intros Hwf Hnb. exists (tree_entries c). split.
    - unfold save. inversion Hwf as [c' Hown _ _ _]; subst. destruct Hown as [Hval _ _ _ _ _ _ _].
      cbn [own c_meta] in Hval. rewrite Hval.
      assert (set_meta c (c_meta c) = c) as -> by (destruct c; reflexivity).
      rewrite (save_tree c Hwf "" (or_introl eq_refl)). reflexivity.
    - intros Hfit fuel Hfuel. exists (canon c). split.
      + unfold load_archive. rewrite (archive_of_tree c Hwf Hnb Hfit). now apply load_tree.
      + now apply (same_tree_canon (depth c)).
  Qed.
End Rec.

(* Proofs about the model of filepath.Match (Chart/Match.v): the fuel is never exhausted;
   characterisations (a pattern without metacharacters matches exactly itself, '*' matches
   exactly the names without a separator, '*' followed by a literal matches exactly the names
   that end in the literal after a separator-free stem, '?' matches one non-separator rune);
   malformedness of the first chunk is independent of the name. *)
From Coq Require Import String Ascii NArith Bool Arith List Lia.
From Helm Require Import Chart.Paths Chart.PathsProofs Chart.Utf8 Chart.Match.
Import ListNotations.
Local Open Scope string_scope.

(* ---------- small facts ---------- *)
Lemma is_empty_true s : is_empty s = true <-> s = "".
Proof. destruct s; simpl; split; congruence. Qed.

Lemma is_empty_false s : is_empty s = false <-> s <> "".
Proof. destruct s; simpl; split; congruence. Qed.

Lemma length_app a b : String.length (a ++ b) = (String.length a + String.length b)%nat.
Proof. induction a; simpl; auto. Qed.

Lemma sdrop_length n s : String.length (sdrop n s) = String.length s - n.
Proof. revert s. induction n as [|n IH]; intros s; simpl; [lia|]. destruct s; simpl; auto. Qed.

Lemma decode_rune_pos s : s <> "" -> (1 <= snd (decode_rune s))%nat.
Proof.
  destruct s as [|a0 t0]; [congruence|]. intros _. unfold decode_rune.
  repeat (match goal with
          | |- context [if ?b then _ else _] => destruct b
          | |- context [match ?x with _ => _ end] => destruct x
          end; simpl; try lia).
Qed.

(* ---------- plain strings: no metacharacter of the pattern language ---------- *)
Definition plain_char (c : ascii) : bool :=
  negb (Ascii.eqb c c_star) && negb (Ascii.eqb c c_quest) && negb (Ascii.eqb c c_lbr) && negb (Ascii.eqb c bslash).

Fixpoint is_plain (s : string) : bool :=
  match s with
  | EmptyString => true
  | String c t => plain_char c && is_plain t
  end.

Lemma plain_char_props c : plain_char c = true ->
  Ascii.eqb c c_star = false /\ Ascii.eqb c c_quest = false /\ Ascii.eqb c c_lbr = false /\ Ascii.eqb c bslash = false.
Proof. unfold plain_char. rewrite !andb_true_iff, !negb_true_iff. tauto. Qed.

Lemma strip_stars_plain p : is_plain p = true -> strip_stars p = (false, p).
Proof.
  destruct p as [|c t]; simpl; auto. rewrite andb_true_iff. intros [Hc _].
  now destruct (plain_char_props c Hc) as (-> & _).
Qed.

Lemma scan_go_plain p : forall b, is_plain p = true -> scan_go p b = (p, "").
Proof.
  induction p as [|c t IH]; intros b; simpl; auto. rewrite andb_true_iff. intros [Hc Ht].
  destruct (plain_char_props c Hc) as (Hs & _ & Hl & Hb). rewrite Hb, Hl, Hs.
  destruct (Ascii.eqb c c_rbr); rewrite (IH _ Ht); reflexivity.
Qed.

Lemma scan_chunk_plain p : is_plain p = true -> scan_chunk p = (false, p, "").
Proof. intros H. unfold scan_chunk. now rewrite (strip_stars_plain p H), (scan_go_plain p false H). Qed.

Lemma scan_chunk_star_plain p : is_plain p = true -> p <> "" -> scan_chunk ("*" ++ p) = (true, p, "").
Proof.
  intros H Hne. unfold scan_chunk. simpl strip_stars.
  rewrite (strip_stars_plain p H). simpl. now rewrite (scan_go_plain p false H).
Qed.

(* strings.CutPrefix *)
Fixpoint cut_prefix (p s : string) : option string :=
  match p with
  | EmptyString => Some s
  | String c t =>
      match s with
      | String a s' => if Ascii.eqb c a then cut_prefix t s' else None
      | EmptyString => None
      end
  end.

Lemma cut_prefix_app p t : cut_prefix p (p ++ t) = Some t.
Proof. induction p as [|c p IH]; simpl; auto. now rewrite Ascii.eqb_refl. Qed.

Lemma cut_prefix_some p s t : cut_prefix p s = Some t -> s = p ++ t.
Proof.
  revert s. induction p as [|c p IH]; intros s; simpl; [congruence|].
  destruct s as [|a s']; [discriminate|]. destruct (Ascii.eqb c a) eqn:E; [|discriminate].
  apply Ascii.eqb_eq in E. subst a. intros H. now rewrite (IH _ H).
Qed.

(* a plain chunk is compared byte by byte *)
Lemma chunk_go_plain_failed chunk : forall fuel s, is_plain chunk = true -> (String.length chunk <= fuel)%nat ->
  chunk_go fuel chunk s true = KNo.
Proof.
  induction chunk as [|c t IH]; intros fuel s Hp Hf; [destruct fuel; reflexivity|].
  simpl in Hp, Hf. apply andb_true_iff in Hp as [Hc Ht]. destruct fuel as [|f]; [lia|]. cbn [chunk_go].
  destruct (plain_char_props c Hc) as (_ & Hq & Hl & Hb). rewrite Hl, Hq, Hb. simpl.
  apply IH; auto. lia.
Qed.

Lemma chunk_go_plain chunk : forall fuel s, is_plain chunk = true -> (String.length chunk <= fuel)%nat ->
  chunk_go fuel chunk s false = match cut_prefix chunk s with Some t => KYes t | None => KNo end.
Proof.
  induction chunk as [|c t IH]; intros fuel s Hp Hf; [destruct fuel; reflexivity|].
  simpl in Hp, Hf. apply andb_true_iff in Hp as [Hc Ht]. destruct fuel as [|f]; [lia|]. cbn [chunk_go cut_prefix].
  destruct (plain_char_props c Hc) as (_ & Hq & Hl & Hb). rewrite Hl, Hq, Hb.
  destruct s as [|a s']; simpl.
  - apply chunk_go_plain_failed; auto. lia.
  - destruct (Ascii.eqb c a); simpl.
    + apply IH; auto. lia.
    + apply chunk_go_plain_failed; auto. lia.
Qed.

Lemma match_chunk_plain chunk s : is_plain chunk = true ->
  match_chunk chunk s = match cut_prefix chunk s with Some t => KYes t | None => KNo end.
Proof. intros H. unfold match_chunk. now apply chunk_go_plain. Qed.

(* ---------- unfolding the Pattern loop ---------- *)
Lemma match_go_nil f n : match_go f "" n = if is_empty n then MYes else MNo.
Proof. destruct f; reflexivity. Qed.

Lemma match_go_S f p n : p <> "" ->
  match_go (S f) p n =
  let '(star, chunk, rest) := scan_chunk p in
  if star && is_empty chunk then (if contains_char slash n then MNo else MYes) else
  let after := if star then star_loop (match_go f rest) chunk (is_empty rest) n else MNo in
  match match_chunk chunk n with
  | KYes t => if is_empty t || negb (is_empty rest) then match_go f rest t else after
  | KBad => MBad
  | KFuel => MFuel
  | KNo => after
  end.
Proof. destruct p; [congruence|reflexivity]. Qed.

(* ---------- a pattern without metacharacters matches exactly itself ---------- *)
Theorem gmatch_literal p n : is_plain p = true -> gmatch p n = if String.eqb p n then MYes else MNo.
Proof.
  intros Hp. unfold gmatch. destruct p as [|c t] eqn:Ep.
  - simpl. destruct n; reflexivity.
  - rewrite <- Ep in *. assert (p <> "") as Hne by (subst; discriminate).
    assert (String.length p = S (String.length t)) as -> by (subst; reflexivity).
    rewrite (match_go_S _ p n Hne), (scan_chunk_plain p Hp). cbn [andb].
    rewrite (match_chunk_plain p n Hp).
    destruct (cut_prefix p n) as [r|] eqn:Ec.
    + apply cut_prefix_some in Ec. subst n. cbn [is_empty negb]. rewrite orb_false_r.
      rewrite match_go_nil.
      destruct r as [|a r'].
      * cbn. rewrite append_nil_r, String.eqb_refl. reflexivity.
      * cbn [is_empty]. destruct (String.eqb p (p ++ String a r')) eqn:E; auto.
        apply String.eqb_eq in E. apply (f_equal String.length) in E.
        rewrite length_app in E. simpl in E. lia.
    + destruct (String.eqb p n) eqn:E; auto. apply String.eqb_eq in E. subst n.
      rewrite <- (append_nil_r p) in Ec at 2. now rewrite cut_prefix_app in Ec.
Qed.

(* ---------- '*' alone: every name without a separator ---------- *)
Theorem gmatch_star n : gmatch "*" n = if contains_char slash n then MNo else MYes.
Proof. reflexivity. Qed.

(* ---------- '?' alone: exactly one rune, which is not the separator ---------- *)
Theorem gmatch_question n :
  gmatch "?" n = MYes <->
  exists a t, n = String a t /\ a <> slash /\ sdrop (snd (decode_rune n)) n = "".
Proof.
  unfold gmatch. cbn [String.length match_go]. unfold scan_chunk. cbn [strip_stars scan_go Ascii.eqb Bool.eqb c_star c_lbr c_rbr bslash andb is_empty].
  unfold match_chunk. cbn [String.length chunk_go].
  destruct n as [|a t].
  - simpl. split; [discriminate|]. intros (a & t & H & _). discriminate.
  - cbn [is_empty orb]. change (Ascii.eqb c_quest c_lbr) with false. change (Ascii.eqb c_quest c_quest) with true. cbv iota.
    destruct (decode_rune (String a t)) as [r k] eqn:Ed. cbn [snd].
    destruct (Ascii.eqb a slash) eqn:Es.
    + simpl. split; [discriminate|]. intros (a' & t' & H & Hne & _). inversion H; subst.
      apply Ascii.eqb_eq in Es. contradiction.
    + cbn [chunk_go]. destruct (sdrop k (String a t)) as [|b u] eqn:Ek; cbn.
      * split; auto. intros _. exists a, t. split; auto. split; auto.
        intros ->. now rewrite Ascii.eqb_refl in Es.
      * split; [discriminate|]. intros (a' & t' & H & _ & Hd). inversion H; subst. discriminate.
Qed.

(* ---------- '*' followed by a literal: the names that end in it after a separator-free stem ---------- *)
Definition star_stem (lit n : string) : Prop := exists x, n = x ++ lit /\ contains_char slash x = false.

Definition k_end (t : string) : mres := if is_empty t then MYes else MNo.

Lemma cut_prefix_self_none lit : cut_prefix lit lit <> None.
Proof. rewrite <- (append_nil_r lit) at 2. now rewrite cut_prefix_app. Qed.

Lemma app_inv_len (a b c d : string) : a ++ b = c ++ d -> String.length b = String.length d -> a = c /\ b = d.
Proof.
  revert c. induction a as [|x a IH]; intros c H Hl.
  - destruct c as [|y c]; simpl in *; auto. apply (f_equal String.length) in H. simpl in H. rewrite length_app in H. lia.
  - destruct c as [|y c]; simpl in *.
    + apply (f_equal String.length) in H. simpl in H. rewrite length_app in H. lia.
    + inversion H; subst. destruct (IH c H2 Hl) as [-> ->]. auto.
Qed.

Lemma star_loop_plain lit : is_plain lit = true -> lit <> "" -> forall nm,
  (star_loop k_end lit true nm = MYes <->
   exists x, x <> "" /\ nm = x ++ lit /\ contains_char slash x = false) /\
  (star_loop k_end lit true nm = MYes \/ star_loop k_end lit true nm = MNo).
Proof.
  intros Hp Hne. induction nm as [|a t [IH1 IH2]].
  - simpl. split; [|auto]. split; [discriminate|]. intros (x & Hx & H & _).
    destruct x; [congruence|discriminate].
  - cbn [star_loop]. destruct (Ascii.eqb a slash) eqn:Ea.
    + split; [|auto]. split; [discriminate|]. intros (x & Hx & H & Hs).
      destruct x as [|b x]; [congruence|]. simpl in H. inversion H; subst. simpl in Hs. now rewrite Ea in Hs.
    + rewrite (match_chunk_plain lit t Hp).
      assert (forall x, String a t = x ++ lit -> x <> "" -> exists x', x = String a x' /\ t = x' ++ lit) as Hsplit.
      { intros x H Hx. destruct x as [|b x]; [congruence|]. simpl in H. inversion H; subst. eauto. }
      destruct (cut_prefix lit t) as [t2|] eqn:Ec.
      * apply cut_prefix_some in Ec. destruct t2 as [|b t2'].
        -- cbn. split; [|auto]. split; auto. intros _. exists (String a ""). rewrite append_nil_r in Ec.
           subst t. simpl. rewrite Ea. repeat split; auto. discriminate.
        -- cbn [is_empty negb andb]. split; [|exact IH2]. rewrite IH1. split.
           ++ intros (x & Hx & -> & Hs). exists (String a x). simpl. rewrite Ea, Hs. repeat split; auto. discriminate.
           ++ intros (x & Hx & H & Hs). destruct (Hsplit x H Hx) as (x' & -> & Ht).
              simpl in Hs. rewrite Ea in Hs. simpl in Hs. exists x'. repeat split; auto.
              intros ->. simpl in Ht. rewrite Ht in Ec. apply (f_equal String.length) in Ec.
              rewrite length_app in Ec. simpl in Ec. lia.
      * split; [|exact IH2]. rewrite IH1. split.
        -- intros (x & Hx & -> & Hs). exists (String a x). simpl. rewrite Ea, Hs. repeat split; auto. discriminate.
        -- intros (x & Hx & H & Hs). destruct (Hsplit x H Hx) as (x' & -> & Ht).
           simpl in Hs. rewrite Ea in Hs. simpl in Hs. exists x'. repeat split; auto.
           intros ->. simpl in Ht. subst t. now apply cut_prefix_self_none in Ec.
Qed.

Lemma match_go_nil_ext f : forall t, match_go f "" t = k_end t.
Proof. intros t. apply match_go_nil. Qed.

Lemma star_loop_ext k1 k2 chunk last nm : (forall t, k1 t = k2 t) ->
  star_loop k1 chunk last nm = star_loop k2 chunk last nm.
Proof.
  intros H. induction nm as [|a t IH]; simpl; auto. destruct (Ascii.eqb a slash); auto.
  destruct (match_chunk chunk t); auto. rewrite IH, H. reflexivity.
Qed.

Theorem gmatch_star_lit lit n : is_plain lit = true -> lit <> "" ->
  (gmatch ("*" ++ lit) n = MYes <-> star_stem lit n) /\
  (gmatch ("*" ++ lit) n = MYes \/ gmatch ("*" ++ lit) n = MNo).
Proof.
  intros Hp Hne. unfold gmatch. change (String.length ("*" ++ lit)) with (S (String.length lit)).
  rewrite match_go_S by discriminate. rewrite (scan_chunk_star_plain lit Hp Hne).
  assert (is_empty lit = false) as -> by (now apply is_empty_false). cbn [andb is_empty].
  rewrite (star_loop_ext _ k_end lit true n (match_go_nil_ext _)).
  rewrite (match_chunk_plain lit n Hp).
  destruct (star_loop_plain lit Hp Hne n) as [HL1 HL2].
  destruct (cut_prefix lit n) as [t|] eqn:Ec.
  - apply cut_prefix_some in Ec. destruct t as [|b t'].
    + cbn. rewrite match_go_nil. cbn. split; [|auto]. split; auto. intros _. exists "". rewrite append_nil_r in Ec. auto.
    + cbn [is_empty negb orb]. split; [|exact HL2]. rewrite HL1. split.
      * intros (x & _ & H & Hs). exists x. auto.
      * intros (x & H & Hs). exists x. repeat split; auto. intros ->. simpl in H. rewrite H in Ec.
        apply (f_equal String.length) in Ec. rewrite length_app in Ec. simpl in Ec. lia.
  - split; [|exact HL2]. rewrite HL1. split.
    + intros (x & _ & H & Hs). exists x. auto.
    + intros (x & H & Hs). exists x. repeat split; auto. intros ->. simpl in H. subst n.
      now apply cut_prefix_self_none in Ec.
Qed.

(* ---------- the fuel is never exhausted ---------- *)
Lemma get_esc_shorter chunk r c' : get_esc chunk = Some (r, c') -> (String.length c' < String.length chunk)%nat.
Proof.
  unfold get_esc. destruct chunk as [|c t]; [discriminate|].
  destruct (Ascii.eqb c c_dash || Ascii.eqb c c_rbr); [discriminate|].
  set (chunk' := if Ascii.eqb c bslash then t else String c t).
  destruct (is_empty chunk') eqn:Ee; [discriminate|]. apply is_empty_false in Ee.
  pose proof (decode_rune_pos chunk' Ee) as Hpos.
  destruct (decode_rune chunk') as [r0 n]. simpl in Hpos.
  destruct ((N.eqb r0 rune_error && Nat.eqb n 1) || is_empty (sdrop n chunk')); [discriminate|].
  intros H. inversion H; subst. rewrite sdrop_length.
  assert (String.length chunk' <= String.length (String c t))%nat.
  { unfold chunk'. destruct (Ascii.eqb c bslash); simpl; lia. }
  assert (String.length chunk' > 0)%nat by (destruct chunk'; [congruence|simpl; lia]).
  lia.
Qed.

Lemma class_go_total : forall fuel chunk r np m, (String.length chunk < fuel)%nat ->
  class_go fuel chunk r np m <> CFuel /\
  (forall m' rest, class_go fuel chunk r np m = CDone m' rest -> (String.length rest < String.length chunk)%nat).
Proof.
  induction fuel as [|f IH]; intros chunk r np m Hf; [lia|]. cbn [class_go].
  assert (forall X,
    X = match get_esc chunk with
        | None => CBad
        | Some (lo, c1) =>
            match c1 with
            | String d t1 =>
                if Ascii.eqb d c_dash then
                  match get_esc t1 with
                  | None => CBad
                  | Some (hi, c2) => class_go f c2 r true (m || in_range lo r hi)
                  end
                else class_go f c1 r true (m || in_range lo r lo)
            | EmptyString => CBad
            end
        end ->
    X <> CFuel /\ (forall m' rest, X = CDone m' rest -> (String.length rest < String.length chunk)%nat)) as Hbody.
  { intros X ->. destruct (get_esc chunk) as [[lo c1]|] eqn:E1; [|split; [discriminate|discriminate]].
    apply get_esc_shorter in E1. destruct c1 as [|d t1]; [split; discriminate|].
    destruct (Ascii.eqb d c_dash).
    - destruct (get_esc t1) as [[hi c2]|] eqn:E2; [|split; discriminate].
      apply get_esc_shorter in E2. simpl in E1.
      destruct (IH c2 r true (m || in_range lo r hi) ltac:(lia)) as [H1 H2]. split; auto.
      intros m' rest H. specialize (H2 _ _ H). lia.
    - destruct (IH (String d t1) r true (m || in_range lo r lo) ltac:(lia)) as [H1 H2]. split; auto.
      intros m' rest H. specialize (H2 _ _ H). lia. }
  destruct chunk as [|c t]; [now apply Hbody|].
  destruct (Ascii.eqb c c_rbr && np); [|now apply Hbody].
  split; [discriminate|]. intros m' rest H. inversion H; subst. simpl. lia.
Qed.

Lemma chunk_go_total : forall fuel chunk s failed, (String.length chunk <= fuel)%nat ->
  chunk_go fuel chunk s failed <> KFuel.
Proof.
  induction fuel as [|f IH]; intros chunk s failed Hf.
  - destruct chunk; [|simpl in Hf; lia]. simpl. destruct failed; discriminate.
  - destruct chunk as [|c t]; [simpl; destruct failed; discriminate|]. simpl in Hf. cbn [chunk_go].
    destruct (Ascii.eqb c c_lbr).
    + destruct (if failed || is_empty s then _ else _) as [r s1].
      set (nt := match t with String d t' => if Ascii.eqb d c_caret then (true, t') else (false, t) | EmptyString => (false, t) end).
      assert (String.length (snd nt) <= String.length t)%nat as Hnt.
      { unfold nt. destruct t as [|d t']; simpl; [lia|]. destruct (Ascii.eqb d c_caret); simpl; lia. }
      destruct nt as [negated ch1]. simpl in Hnt.
      destruct (class_go_total (S (String.length ch1)) ch1 r false false ltac:(lia)) as [H1 H2].
      destruct (class_go (S (String.length ch1)) ch1 r false false) as [m rest| |] eqn:E; [|discriminate|congruence].
      specialize (H2 _ _ eq_refl). apply IH. lia.
    + destruct (Ascii.eqb c c_quest).
      * destruct (failed || is_empty s); [apply IH; lia|]. destruct (decode_rune s). apply IH. lia.
      * destruct (Ascii.eqb c bslash).
        -- destruct t as [|d t']; [discriminate|]. simpl in Hf.
           destruct (failed || is_empty s); [apply IH; lia|]. destruct s; apply IH; lia.
        -- destruct (failed || is_empty s); [apply IH; lia|]. destruct s; apply IH; lia.
Qed.

Lemma match_chunk_total chunk s : match_chunk chunk s <> KFuel.
Proof. unfold match_chunk. apply chunk_go_total. lia. Qed.

Lemma strip_stars_length p : (String.length (snd (strip_stars p)) <= String.length p)%nat.
Proof. induction p as [|c t IH]; simpl; [lia|]. destruct (Ascii.eqb c c_star); simpl; lia. Qed.

Lemma strip_stars_star p : fst (strip_stars p) = true -> (String.length (snd (strip_stars p)) < String.length p)%nat.
Proof.
  destruct p as [|c t]; simpl; [discriminate|]. destruct (Ascii.eqb c c_star); simpl; [|discriminate].
  intros _. pose proof (strip_stars_length t). lia.
Qed.

Lemma strip_stars_nostar p : fst (strip_stars p) = false -> snd (strip_stars p) = p.
Proof. destruct p as [|c t]; simpl; auto. destruct (Ascii.eqb c c_star); simpl; [discriminate|auto]. Qed.

Lemma strip_stars_head p c t : snd (strip_stars p) = String c t -> Ascii.eqb c c_star = false.
Proof.
  induction p as [|a p IH]; simpl; [discriminate|]. destruct (Ascii.eqb a c_star) eqn:E; simpl; auto.
  intros H. inversion H; subst. exact E.
Qed.

Lemma scan_go_length p : forall b, (String.length (fst (scan_go p b)) + String.length (snd (scan_go p b)) = String.length p)%nat.
Proof.
  assert (forall n q, (String.length q <= n)%nat -> forall b,
            (String.length (fst (scan_go q b)) + String.length (snd (scan_go q b)) = String.length q)%nat) as H.
  { clear p. induction n as [|n IH]; intros p Hn b.
    - destruct p; [reflexivity|simpl in Hn; lia].
    - destruct p as [|c t]; [reflexivity|]. simpl in Hn. cbn [scan_go].
      destruct (Ascii.eqb c bslash).
      + destruct t as [|d t']; [reflexivity|]. simpl in Hn. specialize (IH t' ltac:(lia) b).
        destruct (scan_go t' b). simpl in *. lia.
      + destruct (Ascii.eqb c c_lbr); [specialize (IH t ltac:(lia) true); destruct (scan_go t true); simpl in *; lia|].
        destruct (Ascii.eqb c c_rbr); [specialize (IH t ltac:(lia) false); destruct (scan_go t false); simpl in *; lia|].
        destruct (Ascii.eqb c c_star).
        * destruct b; [|simpl; lia]. specialize (IH t ltac:(lia) true). destruct (scan_go t true). simpl in *. lia.
        * specialize (IH t ltac:(lia) b). destruct (scan_go t b). simpl in *. lia. }
  intros b. now apply (H (String.length p)).
Qed.

Lemma scan_go_nonempty c t : Ascii.eqb c c_star = false -> fst (scan_go (String c t) false) <> "".
Proof.
  intros Hs. cbn [scan_go]. destruct (Ascii.eqb c bslash).
  - destruct t as [|d t']; [discriminate|]. destruct (scan_go t' false). discriminate.
  - destruct (Ascii.eqb c c_lbr); [destruct (scan_go t true); discriminate|].
    destruct (Ascii.eqb c c_rbr); [destruct (scan_go t false); discriminate|].
    rewrite Hs. destruct (scan_go t false). discriminate.
Qed.

(* every round of the Pattern loop consumes some of the pattern *)
Lemma scan_chunk_shorter p star chunk rest : p <> "" -> scan_chunk p = (star, chunk, rest) ->
  (String.length rest < String.length p)%nat.
Proof.
  intros Hne. unfold scan_chunk. destruct (strip_stars p) as [st p1] eqn:Es.
  pose proof (scan_go_length p1 false) as Hl. destruct (scan_go p1 false) as [ch r] eqn:Eg. simpl in Hl.
  intros H. inversion H; subst. destruct star.
  - pose proof (strip_stars_star p) as Hs. rewrite Es in Hs. simpl in Hs. specialize (Hs eq_refl). lia.
  - pose proof (strip_stars_nostar p) as Hs. rewrite Es in Hs. simpl in Hs. specialize (Hs eq_refl). subst p1.
    destruct p as [|c t]; [congruence|].
    pose proof (strip_stars_head (String c t) c t) as Hh. rewrite Es in Hh. specialize (Hh eq_refl).
    pose proof (scan_go_nonempty c t Hh) as Hn. rewrite Eg in Hn. simpl in Hn.
    destruct chunk; [congruence|]. simpl in Hl |- *. lia.
Qed.

Lemma star_loop_total k chunk last nm : (forall t, k t <> MFuel) -> star_loop k chunk last nm <> MFuel.
Proof.
  intros Hk. induction nm as [|a t IH]; simpl; [discriminate|]. destruct (Ascii.eqb a slash); [discriminate|].
  pose proof (match_chunk_total chunk t). destruct (match_chunk chunk t); try congruence; try discriminate.
  destruct (last && negb (is_empty rest)); auto.
Qed.

Lemma match_go_total : forall fuel p n, (String.length p <= fuel)%nat -> match_go fuel p n <> MFuel.
Proof.
  induction fuel as [|f IH]; intros p n Hf.
  - destruct p; [|simpl in Hf; lia]. simpl. destruct (is_empty n); discriminate.
  - destruct p as [|c t] eqn:Ep; [simpl; destruct (is_empty n); discriminate|]. rewrite <- Ep in *.
    assert (p <> "") as Hne by (subst; discriminate). rewrite (match_go_S f p n Hne).
    destruct (scan_chunk p) as [[star chunk] rest] eqn:Es.
    pose proof (scan_chunk_shorter p star chunk rest Hne Es) as Hsh.
    destruct (star && is_empty chunk); [destruct (contains_char slash n); discriminate|].
    assert (forall t, match_go f rest t <> MFuel) as Hk by (intros; apply IH; lia).
    assert ((if star then star_loop (match_go f rest) chunk (is_empty rest) n else MNo) <> MFuel) as Ha.
    { destruct star; [now apply star_loop_total|discriminate]. }
    pose proof (match_chunk_total chunk n). cbv zeta.
    destruct (match_chunk chunk n); try congruence; try discriminate.
    destruct (is_empty rest0 || negb (is_empty rest)); auto.
Qed.

(* filepath.Match always answers: matched, not matched, or ErrBadPattern *)
Theorem gmatch_total p n : gmatch p n = MYes \/ gmatch p n = MNo \/ gmatch p n = MBad.
Proof.
  pose proof (match_go_total (String.length p) p n (le_n _)) as H. unfold gmatch.
  destruct (match_go (String.length p) p n); auto. congruence.
Qed.

(* ---------- ErrBadPattern does not depend on the name ---------- *)
(* whether a class parses, and what follows it, is independent of the rune and of the match so far *)
Definition cshape (x : cres) : option (option string) :=
  match x with CDone _ rest => Some (Some rest) | CBad => Some None | CFuel => None end.

Lemma class_go_shape : forall fuel chunk r r' np m m',
  cshape (class_go fuel chunk r np m) = cshape (class_go fuel chunk r' np m').
Proof.
  induction fuel as [|f IH]; intros chunk r r' np m m'; [reflexivity|]. cbn [class_go].
  assert (cshape match get_esc chunk with
        | None => CBad
        | Some (lo, c1) =>
            match c1 with
            | String d t1 =>
                if Ascii.eqb d c_dash then
                  match get_esc t1 with
                  | None => CBad
                  | Some (hi, c2) => class_go f c2 r true (m || in_range lo r hi)
                  end
                else class_go f c1 r true (m || in_range lo r lo)
            | EmptyString => CBad
            end
        end = cshape match get_esc chunk with
        | None => CBad
        | Some (lo, c1) =>
            match c1 with
            | String d t1 =>
                if Ascii.eqb d c_dash then
                  match get_esc t1 with
                  | None => CBad
                  | Some (hi, c2) => class_go f c2 r' true (m' || in_range lo r' hi)
                  end
                else class_go f c1 r' true (m' || in_range lo r' lo)
            | EmptyString => CBad
            end
        end) as Hbody.
  { destruct (get_esc chunk) as [[lo c1]|]; auto. destruct c1 as [|d t1]; auto.
    destruct (Ascii.eqb d c_dash); [|apply IH]. destruct (get_esc t1) as [[hi c2]|]; auto. }
  destruct chunk as [|c t]; [exact Hbody|]. destruct (Ascii.eqb c c_rbr && np); [reflexivity|exact Hbody].
Qed.

Lemma chunk_go_bad_indep : forall fuel chunk s failed s' failed',
  chunk_go fuel chunk s failed = KBad -> chunk_go fuel chunk s' failed' = KBad.
Proof.
  induction fuel as [|f IH]; intros chunk s failed s' failed' H.
  - destruct chunk; simpl in *; [destruct failed; discriminate|discriminate].
  - destruct chunk as [|c t]; [simpl in H; destruct failed; discriminate|]. cbn [chunk_go] in *.
    destruct (Ascii.eqb c c_lbr).
    + destruct (if failed || is_empty s then _ else _) as [r s1].
      destruct (if failed' || is_empty s' then _ else _) as [r' s1'].
      destruct (match t with String d t' => if Ascii.eqb d c_caret then (true, t') else (false, t) | EmptyString => (false, t) end) as [negated ch1].
      pose proof (class_go_shape (S (String.length ch1)) ch1 r r' false false false) as Hs.
      destruct (class_go (S (String.length ch1)) ch1 r false false) as [m rest| |];
        destruct (class_go (S (String.length ch1)) ch1 r' false false) as [m' rest'| |]; simpl in Hs; try discriminate; auto.
      inversion Hs; subst. eapply IH; eauto.
    + destruct (Ascii.eqb c c_quest).
      * destruct (failed || is_empty s); destruct (failed' || is_empty s'); try destruct (decode_rune s); try destruct (decode_rune s'); eapply IH; eauto.
      * destruct (Ascii.eqb c bslash).
        -- destruct t as [|d t']; [reflexivity|].
           destruct (failed || is_empty s); destruct (failed' || is_empty s'); try destruct s; try destruct s'; eapply IH; eauto.
        -- destruct (failed || is_empty s); destruct (failed' || is_empty s'); try destruct s; try destruct s'; eapply IH; eauto.
Qed.

(* a malformed first chunk is reported whatever the name: this is what parseRule's probe
   filepath.Match(rule, "abc") relies on *)
Theorem first_chunk_bad p : forall star chunk rest,
  scan_chunk p = (star, chunk, rest) -> match_chunk chunk "" = KBad -> forall n, gmatch p n = MBad.
Proof.
  intros star chunk rest Hs Hb n. unfold gmatch.
  destruct p as [|c t] eqn:Ep.
  { unfold scan_chunk in Hs. simpl in Hs. inversion Hs; subst. discriminate. }
  rewrite <- Ep in *. assert (String.length p = S (String.length t)) as -> by (subst; reflexivity).
  rewrite match_go_S by (subst; discriminate). rewrite Hs.
  assert (is_empty chunk = false) as ->.
  { destruct chunk; [discriminate|reflexivity]. }
  rewrite andb_false_r. cbv zeta.
  unfold match_chunk in *. now rewrite (chunk_go_bad_indep _ chunk "" false n false Hb).
Qed.

(* the ErrBadPattern cases of the documentation, for every name *)
Theorem gmatch_bad_examples : forall n,
  gmatch "[" n = MBad /\ gmatch "[a" n = MBad /\ gmatch "[a-" n = MBad /\ gmatch "[]" n = MBad /\
  gmatch "[]a]" n = MBad /\ gmatch "[-a]" n = MBad /\ gmatch "[a-]" n = MBad /\ gmatch "a\" n = MBad /\
  gmatch "[\" n = MBad /\ gmatch "*[" n = MBad /\ gmatch "[^" n = MBad /\ gmatch "[^]" n = MBad.
Proof.
  intros n. repeat split; eapply first_chunk_bad; reflexivity.
Qed.

(* ... but only if the scan gets there: the probe with "abc" accepts "x*[", and on a name that
   starts with x the pattern is malformed after all *)
Theorem probe_misses_malformed :
  gmatch_err "x*[" = false /\ gmatch "x*[" "xy" = MBad /\ gmatch "x*[" "abc" = MNo.
Proof. repeat split; reflexivity. Qed.

(* classes: ranges, negation, escapes; a class (or its negation) may match the separator *)
Theorem gmatch_class_examples :
  gmatch "[a-c]" "b" = MYes /\ gmatch "[a-c]" "d" = MNo /\ gmatch "[^a-c]" "d" = MYes /\ gmatch "[^a-c]" "b" = MNo /\
  gmatch "[\]]" "]" = MYes /\ gmatch "[\-]" "-" = MYes /\ gmatch "[a-c]*" "bxyz" = MYes /\ gmatch "[a-c]*" "b/x" = MNo /\
  gmatch "[/]" "/" = MYes /\ gmatch "[^a]" "/" = MYes /\ gmatch "?" "/" = MNo /\ gmatch "*" "a/b" = MNo /\
  gmatch "a*/b" "axx/b" = MYes /\ gmatch "\*" "*" = MYes /\ gmatch "\*" "a" = MNo /\ gmatch "templates/.?*" "templates/.x" = MYes /\
  gmatch "templates/.?*" "templates/." = MNo.
Proof. repeat split; reflexivity. Qed.

(* Paths: slash-separated path strings as Go's [path] / [strings] packages treat them.
   Used by the archive loader model (Chart/Archive.v), the plugin extractor's cleanJoin
   and the lexical destination joins of C16.  Definitions only; proofs in PathsProofs.v. *)
From Coq Require Import List String Ascii Bool Arith ZArith.
Import ListNotations.
Local Open Scope string_scope.

Definition slash : ascii := "/"%char.
Definition bslash : ascii := "\"%char.
Definition colon : ascii := ":"%char.

Definition slen (s : string) : Z := Z.of_nat (String.length s).

(* strings.Split(s, sep) for a one-character separator: never empty *)
Fixpoint split_on (c : ascii) (s : string) : list string :=
  match s with
  | EmptyString => [EmptyString]
  | String a t =>
      if Ascii.eqb a c then EmptyString :: split_on c t
      else match split_on c t with
           | h :: r => String a h :: r
           | [] => [String a EmptyString]
           end
  end.

(* strings.Join *)
Fixpoint join (sep : string) (l : list string) : string :=
  match l with
  | [] => EmptyString
  | [x] => x
  | x :: t => x ++ sep ++ join sep t
  end.

Fixpoint contains_char (c : ascii) (s : string) : bool :=
  match s with
  | EmptyString => false
  | String a t => Ascii.eqb a c || contains_char c t
  end.

(* strings.ReplaceAll(s, old, new) for one-character old/new *)
Fixpoint replace_char (old new : ascii) (s : string) : string :=
  match s with
  | EmptyString => EmptyString
  | String a t => String (if Ascii.eqb a old then new else a) (replace_char old new t)
  end.

(* path.IsAbs *)
Definition is_abs (s : string) : bool :=
  match s with String a _ => Ascii.eqb a slash | EmptyString => false end.

(* the component pass of path.Clean: [acc] is the reversed output so far *)
Fixpoint clean_go (rooted : bool) (acc : list string) (l : list string) : list string :=
  match l with
  | [] => rev acc
  | c :: t =>
      if String.eqb c "" || String.eqb c "." then clean_go rooted acc t
      else if String.eqb c ".." then
        match acc with
        | a :: acc' => if String.eqb a ".." then clean_go rooted (c :: acc) t
                       else clean_go rooted acc' t
        | [] => if rooted then clean_go rooted [] t else clean_go rooted [c] t
        end
      else clean_go rooted (c :: acc) t
  end.

Definition clean_comps (s : string) : list string :=
  clean_go (is_abs s) [] (split_on slash s).

(* path.Clean *)
Definition path_clean (s : string) : string :=
  match s with
  | EmptyString => "."
  | _ =>
      let cs := clean_comps s in
      if is_abs s then "/" ++ join "/" cs
      else match cs with [] => "." | _ => join "/" cs end
  end.

(* path.Join / filepath.Join on a slash platform for two elements *)
Definition path_join (a b : string) : string :=
  match a, b with
  | EmptyString, EmptyString => EmptyString
  | EmptyString, _ => path_clean b
  | _, EmptyString => path_clean a
  | _, _ => path_clean (a ++ "/" ++ b)
  end.

(* filepath.Base on a slash platform *)
Fixpoint strip_trailing (c : ascii) (s : string) : string :=
  match s with
  | EmptyString => EmptyString
  | String a t =>
      match strip_trailing c t with
      | EmptyString => if Ascii.eqb a c then EmptyString else String a EmptyString
      | t' => String a t'
      end
  end.

Definition path_base (s : string) : string :=
  match s with
  | EmptyString => "."
  | _ =>
      match strip_trailing slash s with
      | EmptyString => "/"
      | s' => last (split_on slash s') s'
      end
  end.

Definition is_letter (a : ascii) : bool :=
  let n := nat_of_ascii a in
  (Nat.leb 65 n && Nat.leb n 90) || (Nat.leb 97 n && Nat.leb n 122).

(* regexp ^[a-zA-Z]:/ *)
Definition drive_prefix (s : string) : bool :=
  match s with
  | String a (String b (String c _)) => is_letter a && Ascii.eqb b colon && Ascii.eqb c slash
  | _ => false
  end.

(* a component that path.Clean leaves alone and that names a directory entry *)
Definition good_comp (c : string) : Prop := c <> "" /\ c <> "." /\ c <> "..".
Definition good_compb (c : string) : bool :=
  negb (String.eqb c "") && negb (String.eqb c ".") && negb (String.eqb c "..").

(* A clean relative path: what every exposed file name must be. *)
Definition clean_rel (n : string) : Prop :=
  Forall good_comp (split_on slash n) /\ contains_char bslash n = false /\ drive_prefix n = false.
Definition clean_relb (n : string) : bool :=
  forallb good_compb (split_on slash n) && negb (contains_char bslash n) && negb (drive_prefix n).

(* securejoin.SecureJoin(root, unsafe) when no component below root is a symlink:
   the unsafe path is resolved as if root were "/" and appended to root. *)
Definition secure_join_lex (root unsafe : string) : string :=
  match clean_go true [] (split_on slash unsafe) with
  | [] => root
  | cs => root ++ "/" ++ join "/" cs
  end.

(* ---- pkg/plugin/installer/http_installer.go: cleanJoin ---- *)
Inductive cj_err := CJColon | CJDotDot | CJAbs.

Definition clean_join (root dest : string) : cj_err + string :=
  if contains_char colon dest then inl CJColon else
  let dest := replace_char bslash slash dest in
  if existsb (fun p => String.eqb p "..") (split_on slash dest) then inl CJDotDot else
  if is_abs dest then inl CJAbs else
  inr (secure_join_lex (path_clean root) dest).

(* ---- pkg/downloader/chart_downloader.go: the file name DownloadTo writes to (non-OCI) ----
   name := filepath.Base(u.Path); after fix cd986f1 a path without a file name is refused. *)
Definition download_name (upath : string) : option string :=
  let name := path_base upath in
  if String.eqb name "." || String.eqb name ".." || String.eqb name "/" then None else Some name.

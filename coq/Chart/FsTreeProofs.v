(* Proofs about Chart/FsTree.v (C16): tree algebra, resolution along link-free paths, the
   SecureJoin invariant, confinement of Expand / Extract for every tree and every entry list,
   writeLock on the nested model. *)
From Coq Require Import List String Ascii Bool Arith ZArith Lia.
From Helm Require Import Chart.Paths Chart.PathsProofs Chart.PathFns Chart.PathFnsProofs
  Chart.Archive Chart.Lock Chart.FsTree.
Import ListNotations.
Local Open Scope string_scope.

(* ================= A. association lists, prefixes, tget / tset ================= *)
Lemma alookup_aset_eq {A} k (v : A) l : alookup k (aset k v l) = Some v.
Proof.
  induction l as [|[q w] l IH]; simpl.
  - now rewrite String.eqb_refl.
  - destruct (String.eqb k q) eqn:E; simpl; rewrite ?String.eqb_refl, ?E; auto.
Qed.

Lemma alookup_aset_neq {A} k k' (v : A) l : k' <> k -> alookup k' (aset k v l) = alookup k' l.
Proof.
  intros Hne. apply String.eqb_neq in Hne. induction l as [|[q w] l IH]; simpl.
  - now rewrite Hne.
  - destruct (String.eqb k q) eqn:E; simpl.
    + apply String.eqb_eq in E. subst q. now rewrite Hne.
    + destruct (String.eqb k' q); auto.
Qed.

Fixpoint prefixb (p q : list string) : bool :=
  match p, q with
  | [], _ => true
  | a :: p', b :: q' => String.eqb a b && prefixb p' q'
  | _ :: _, [] => false
  end.

Lemma prefixb_spec p q : prefixb p q = true <-> exists r, q = (p ++ r)%list.
Proof.
  revert q. induction p as [|a p IH]; intros q; simpl.
  - split; eauto.
  - destruct q as [|b q]; [split; [discriminate|intros (r & H); discriminate]|].
    rewrite andb_true_iff, String.eqb_eq, IH. split.
    + intros (-> & r & ->). eauto.
    + intros (r & H). inversion H; subst. eauto.
Qed.

Lemma prefixb_refl p : prefixb p p = true.
Proof. apply prefixb_spec. exists []. now rewrite app_nil_r. Qed.

Lemma prefixb_app p r : prefixb p (p ++ r) = true.
Proof. apply prefixb_spec. eauto. Qed.

Lemma prefixb_trans p q r : prefixb p q = true -> prefixb q r = true -> prefixb p r = true.
Proof.
  rewrite !prefixb_spec. intros (a & ->) (b & ->). exists (a ++ b)%list. now rewrite app_assoc.
Qed.

Lemma prefixb_nil_r p : prefixb p [] = true -> p = [].
Proof. destruct p; [auto|discriminate]. Qed.

(* a prefix of P is P itself or a proper one *)
Lemma prefix_cases q P : prefixb q P = true -> q = P \/ exists r, r <> [] /\ P = (q ++ r)%list.
Proof.
  intros H. apply prefixb_spec in H as (r & ->). destruct r as [|x r].
  - left. now rewrite app_nil_r.
  - right. exists (x :: r). split; [discriminate|reflexivity].
Qed.

Lemma prefixb_removelast q P : prefixb q (removelast P) = true -> prefixb q P = true.
Proof.
  intros H. destruct P as [|x P] using rev_ind; [exact H|].
  rewrite removelast_last in H. eapply prefixb_trans; [exact H|apply prefixb_app].
Qed.

Lemma tget_app t p q : tget t (p ++ q) = match tget t p with Some n => tget n q | None => None end.
Proof.
  revert t. induction p as [|c p IH]; intros t; simpl; auto.
  destruct t as [| es |]; auto. destruct (alookup c es); auto.
Qed.

Lemma tget_snoc t p c :
  tget t (p ++ [c]) = match tget t p with Some (TDir es) => alookup c es | _ => None end.
Proof.
  rewrite tget_app. destruct (tget t p) as [[| es |]|]; simpl; auto. destruct (alookup c es); auto.
Qed.

Lemma tget_nondir_below t p q n :
  tget t p = Some n -> is_dir_node n = false -> q <> [] -> tget t (p ++ q) = None.
Proof.
  intros H Hd Hq. rewrite tget_app, H. destruct q; [congruence|]. destruct n; simpl in *; congruence.
Qed.

(* a prefix of an existing location exists, and is a directory when it is a proper one *)
Lemma tget_prefix_dir t p q n : tget t (p ++ q) = Some n -> q <> [] -> exists es, tget t p = Some (TDir es).
Proof.
  rewrite tget_app. intros H Hq. destruct (tget t p) as [[| es |]|]; try discriminate; eauto;
    destruct q; try congruence; discriminate.
Qed.

Lemma tget_tset_same t : forall p n t', tset t p n = Some t' -> tget t' p = Some n.
Proof.
  intros p. revert t. induction p as [|c r IH]; intros t n t' H; simpl in *.
  - now inversion H.
  - destruct t as [| es |]; try discriminate.
    destruct (match alookup c es with Some t'0 => tset t'0 r n | None => match r with [] => Some n | _ :: _ => None end end)
      as [t''|] eqn:E; [|discriminate].
    inversion H; subst t'. simpl. rewrite alookup_aset_eq.
    destruct (alookup c es) as [ch|].
    + eapply IH; eauto.
    + destruct r; [|discriminate]. inversion E; subst. reflexivity.
Qed.

Lemma tget_tset_inside t p n t' r : tset t p n = Some t' -> tget t' (p ++ r) = tget n r.
Proof. intros H. rewrite tget_app. now rewrite (tget_tset_same _ _ _ _ H). Qed.

(* away from the written location nothing changes that can be seen without looking into
   directories: equal nodes beside it, directories above it *)
Lemma tset_shallow_outside : forall loc t n t', tset t loc n = Some t' ->
  forall q, prefixb loc q = false -> shallow_of (tget t' q) = shallow_of (tget t q).
Proof.
  induction loc as [|c r IH]; intros t n t' H q Hq; [discriminate|]. simpl in H.
  destruct t as [| es |]; try discriminate.
  destruct (match alookup c es with Some t'0 => tset t'0 r n | None => match r with [] => Some n | _ :: _ => None end end)
    as [t''|] eqn:E; [|discriminate].
  inversion H; subst t'. clear H. destruct q as [|d q']; [reflexivity|]. simpl in *.
  destruct (String.eqb c d) eqn:Ecd.
  - apply String.eqb_eq in Ecd. subst d. simpl in Hq. rewrite alookup_aset_eq.
    destruct (alookup c es) as [ch|].
    + eapply IH; eauto.
    + destruct r; [discriminate|discriminate].
  - assert (d <> c) as Hne by (intro; subst; rewrite String.eqb_refl in Ecd; discriminate).
    now rewrite alookup_aset_neq.
Qed.

Lemma tset_old_dir_above : forall loc t n t', tset t loc n = Some t' ->
  forall q r, loc = (q ++ r)%list -> r <> [] -> exists es, tget t q = Some (TDir es).
Proof.
  induction loc as [|c l IH]; intros t n t' H q r Hl Hr.
  - destruct q; destruct r; simpl in *; congruence.
  - simpl in H. destruct t as [| es |]; try discriminate.
    destruct q as [|d q']; [simpl; eauto|]. simpl in Hl. inversion Hl; subst d l. simpl.
    destruct (alookup c es) as [ch|] eqn:Ea.
    + destruct (tset ch (q' ++ r) n) as [t''|] eqn:E; [|discriminate]. eapply IH; eauto.
    + destruct (q' ++ r)%list eqn:E; [|discriminate]. apply app_eq_nil in E as [_ ->]. congruence.
Qed.

(* ================= B. resolution along a link-free path ================= *)
Definition nolink_at (t : tnode) (q : list string) : Prop := forall tg, tget t q <> Some (TLink tg).
Definition nolinks (t : tnode) (P : list string) : Prop := forall q, prefixb q P = true -> nolink_at t q.

Lemma nolinks_prefix t P Q : nolinks t P -> prefixb Q P = true -> nolinks t Q.
Proof. intros H HQ q Hq. apply H. eapply prefixb_trans; eauto. Qed.

Lemma nolink_none t q : tget t q = None -> nolink_at t q.
Proof. intros H tg. congruence. Qed.

(* what a resolution may answer when no symlink is on the way *)
Definition plain_spec (t : tnode) (P : list string) (w : wres) : Prop :=
  match w with
  | WAt loc n => loc = P /\ tget t P = Some n
  | WNew p c => (p ++ [c])%list = P /\ (exists es, tget t p = Some (TDir es)) /\ tget t P = None
  | WErr e => tget t P = None
  | WLink _ _ _ => False
  end.

Lemma good_comp_eqbs c : good_comp c ->
  (String.eqb c "" || String.eqb c ".") = false /\ String.eqb c ".." = false.
Proof.
  intros (H1 & H2 & H3). apply String.eqb_neq in H1, H2, H3. now rewrite H1, H2, H3.
Qed.

Lemma walk1_plain t : forall comps cur follow,
  Forall good_comp comps ->
  (forall q r, comps = (q ++ r)%list -> r <> [] -> nolink_at t (cur ++ q)) ->
  (follow = false \/ nolink_at t (cur ++ comps)) ->
  plain_spec t (cur ++ comps) (walk1 t cur comps follow).
Proof.
  induction comps as [|c rest IH]; intros cur follow Hg Hmid Hfin; simpl.
  - rewrite app_nil_r. destruct (tget t cur) eqn:E; simpl; auto.
  - inversion Hg as [|? ? Hc Hg']; subst. destruct (good_comp_eqbs c Hc) as [E1 E2].
    destruct (tget t cur) as [[d| es |tg]|] eqn:Ecur; simpl.
    + eapply tget_nondir_below; eauto. discriminate.
    + rewrite E1, E2.
      assert (tget t (cur ++ [c]) = alookup c es) as Hsn by (rewrite tget_snoc, Ecur; reflexivity).
      assert ((cur ++ c :: rest) = ((cur ++ [c]) ++ rest))%list as Hassoc by (rewrite <- app_assoc; reflexivity).
      destruct (alookup c es) as [[d| es' |tg]|] eqn:Ea.
      * rewrite Hassoc. apply IH; auto.
        -- intros q r Hq Hr. rewrite <- app_assoc. simpl. apply (Hmid (c :: q) r); [now rewrite Hq|assumption].
        -- destruct Hfin as [|Hf]; [now left|right]. now rewrite <- Hassoc.
      * rewrite Hassoc. apply IH; auto.
        -- intros q r Hq Hr. rewrite <- app_assoc. simpl. apply (Hmid (c :: q) r); [now rewrite Hq|assumption].
        -- destruct Hfin as [|Hf]; [now left|right]. now rewrite <- Hassoc.
      * destruct rest as [|c2 rest'].
        -- destruct Hfin as [->|Hf].
           ++ simpl. split; auto.
           ++ exfalso. apply (Hf tg). exact Hsn.
        -- exfalso. apply (Hmid [c] (c2 :: rest') eq_refl ltac:(discriminate) tg). exact Hsn.
      * destruct rest as [|c2 rest']; simpl.
        -- repeat split; eauto.
        -- rewrite Hassoc, tget_app, Hsn. reflexivity.
    + eapply tget_nondir_below; eauto. discriminate.
    + rewrite tget_app, Ecur. reflexivity.
Qed.

Lemma walk_plain fuel t cur comps follow :
  Forall good_comp comps ->
  (forall q r, comps = (q ++ r)%list -> r <> [] -> nolink_at t (cur ++ q)) ->
  (follow = false \/ nolink_at t (cur ++ comps)) ->
  plain_spec t (cur ++ comps) (walk fuel t cur comps follow).
Proof.
  intros Hg Hm Hf. pose proof (walk1_plain t comps cur follow Hg Hm Hf) as H.
  destruct fuel; simpl; destruct (walk1 t cur comps follow); simpl in *; auto; contradiction.
Qed.

(* resolution of an absolute component list: EINVAL for a NUL byte, otherwise as above *)
Lemma c_walk_plain t P follow :
  Forall good_comp P ->
  (forall q r, P = (q ++ r)%list -> r <> [] -> nolink_at t q) ->
  (follow = false \/ nolink_at t P) ->
  c_walk t P follow = WErr EINVAL \/ plain_spec t P (c_walk t P follow).
Proof.
  intros Hg Hm Hf. unfold c_walk. destruct (existsb has_nul P); [now left|right].
  apply (walk_plain max_links t [] P follow); auto.
Qed.

Lemma c_walk_nolinks t P follow :
  Forall good_comp P -> nolinks t P ->
  c_walk t P follow = WErr EINVAL \/ plain_spec t P (c_walk t P follow).
Proof.
  intros Hg Hn. apply c_walk_plain; auto.
  - intros q r -> _. apply Hn. apply prefixb_app.
  - right. apply Hn. apply prefixb_refl.
Qed.

(* ================= C. SecureJoin ================= *)
Lemma Forall_removelast {A} (P : A -> Prop) l : Forall P l -> Forall P (removelast l).
Proof.
  intros H. destruct l as [|x l] using rev_ind; [constructor|].
  rewrite removelast_last. now apply Forall_app in H as [H _].
Qed.

Lemma sj_step_good cur part : Forall good_comp cur -> Forall good_comp (sj_step cur part).
Proof.
  intros H. unfold sj_step. destruct (String.eqb part "" || String.eqb part ".") eqn:E; auto.
  destruct (String.eqb part "..") eqn:E2; [now apply Forall_removelast|].
  apply Forall_app; split; auto. constructor; auto.
  apply orb_false_iff in E as [E0 E1]. apply String.eqb_neq in E0, E1, E2. now repeat split.
Qed.

(* every proper prefix of root ++ nextPath is a prefix of root ++ currentPath *)
Lemma sj_step_mid root cur part q r :
  (root ++ sj_step cur part = q ++ r)%list -> r <> [] -> prefixb q (root ++ cur) = true.
Proof.
  unfold sj_step. intros H Hr.
  assert (forall x, (root ++ x = q ++ r)%list -> prefixb q (root ++ x) = true) as Hsame.
  { intros x Hx. rewrite Hx. apply prefixb_app. }
  destruct (String.eqb part "" || String.eqb part "."); [now apply Hsame|].
  destruct (String.eqb part "..").
  - specialize (Hsame _ H). destruct cur as [|x cur] using rev_ind; [exact Hsame|].
    rewrite removelast_last in Hsame. eapply prefixb_trans; [exact Hsame|].
    rewrite app_assoc. apply prefixb_app.
  - rewrite app_assoc in H. destruct r as [|x r] using rev_ind; [congruence|].
    rewrite app_assoc in H. apply app_inj_tail in H as [H _]. rewrite H. apply prefixb_app.
Qed.

Lemma sj_step_prefix_or_snoc cur part :
  prefixb (sj_step cur part) cur = true \/ sj_step cur part = (cur ++ [part])%list.
Proof.
  unfold sj_step. destruct (String.eqb part "" || String.eqb part "."); [left; apply prefixb_refl|].
  destruct (String.eqb part ".."); [left|now right].
  apply prefixb_removelast. apply prefixb_refl.
Qed.

Definition sj_inv (t : tnode) (root cur : list string) : Prop :=
  Forall good_comp cur /\ nolinks t (root ++ cur).

Lemma sj_inv_nil t root cur : sj_inv t root cur -> sj_inv t root [].
Proof.
  intros [_ H]. split; [constructor|]. eapply nolinks_prefix; eauto. rewrite app_nil_r. apply prefixb_app.
Qed.

Lemma sj_pass_inv t root : Forall good_comp root -> forall rem cur, sj_inv t root cur ->
  match sj_pass t root cur rem with
  | SJDone c => sj_inv t root c
  | SJLink c _ _ => sj_inv t root c
  | SJErr _ => True
  end.
Proof.
  intros Hroot. induction rem as [|part rest IH]; intros cur Hinv; simpl; auto.
  destruct (sj_step cur part) as [|x l] eqn:Es.
  - apply IH. eapply sj_inv_nil; eauto.
  - rewrite <- Es. destruct Hinv as [Hg Hn].
    assert (Forall good_comp (sj_step cur part)) as Hgn by now apply sj_step_good.
    assert (Forall good_comp (root ++ sj_step cur part)) as Hgr by (apply Forall_app; split; auto).
    assert (forall q r, (root ++ sj_step cur part = q ++ r)%list -> r <> [] -> nolink_at t q) as Hmid.
    { intros q r Hq Hr. apply Hn. eapply sj_step_mid; eauto. }
    (* once the new location is known not to be a link, the invariant moves on *)
    assert (nolink_at t (root ++ sj_step cur part) -> sj_inv t root (sj_step cur part)) as Hnext.
    { intros Hnl. split; auto. intros q Hq. destruct (prefix_cases _ _ Hq) as [->|(r & Hr & Hq')]; auto.
      eapply Hmid; eauto. }
    destruct (c_walk_plain t (root ++ sj_step cur part) false Hgr Hmid (or_introl eq_refl)) as [Hw|Hw].
    + rewrite Hw. exact I.
    + destruct (c_walk t (root ++ sj_step cur part) false) as [loc n|p c|d tg r|e]; simpl in Hw.
      * destruct Hw as [-> Hget]. destruct n as [d| es |tg].
        -- apply IH, Hnext. intros tg. congruence.
        -- apply IH, Hnext. intros tg. congruence.
        -- split; auto.
      * destruct Hw as (_ & _ & Hnone). apply IH, Hnext. now apply nolink_none.
      * contradiction.
      * destruct e; auto; apply IH, Hnext; now apply nolink_none.
Qed.

Lemma sj_loop_inv t root : Forall good_comp root -> forall fuel cur rem c,
  sj_inv t root cur -> sj_loop fuel t root cur rem = inr c -> sj_inv t root c.
Proof.
  intros Hroot. induction fuel as [|f IH]; intros cur rem c Hinv H; simpl in H;
    pose proof (sj_pass_inv t root Hroot rem cur Hinv) as Hp;
    destruct (sj_pass t root cur rem) as [c'|c' tg rest|e]; try discriminate.
  - now inversion H; subst.
  - now inversion H; subst.
  - eapply IH; [|exact H]. destruct (is_abs tg); [eapply sj_inv_nil|]; eauto.
Qed.

(* SecureJoin's contract, for every tree: the result is the root followed by good components,
   and no location on the way to it (the result included) is a symlink *)
Theorem secure_join_nolinks t root unsafe out :
  Forall good_comp root -> nolinks t root -> secure_join t root unsafe = inr out ->
  exists cur, out = (root ++ cur)%list /\ Forall good_comp cur /\ nolinks t out.
Proof.
  intros Hg Hn. unfold secure_join. destruct (existsb _ root); [discriminate|].
  destruct (sj_loop sj_max_links t root [] (split_on slash unsafe)) as [e|cur] eqn:E; [discriminate|].
  intros H. inversion H; subst out.
  assert (sj_inv t root []) as H0 by (split; [constructor|now rewrite app_nil_r]).
  destruct (sj_loop_inv t root Hg _ _ _ _ H0 E) as [Hc Hl]. eauto.
Qed.

(* hence the kernel resolves the result to itself, whether or not it follows the last component *)
Corollary secure_join_resolves t root unsafe out follow :
  Forall good_comp root -> nolinks t root -> secure_join t root unsafe = inr out ->
  c_walk t out follow = WErr EINVAL \/
  match c_walk t out follow with
  | WAt loc n => loc = out /\ tget t out = Some n
  | WNew p c => (p ++ [c])%list = out /\ tget t out = None
  | WErr _ => tget t out = None
  | WLink _ _ _ => False
  end.
Proof.
  intros Hg Hn H. destruct (secure_join_nolinks t root unsafe out Hg Hn H) as (cur & -> & Hc & Hl).
  destruct (c_walk_nolinks t (root ++ cur) follow) as [|Hs]; auto.
  { apply Forall_app; split; auto. }
  right. destruct (c_walk t (root ++ cur) follow); simpl in Hs; intuition.
Qed.

(* ================= D. writes stay inside the destination ================= *)
Definition leaf (n : tnode) : Prop := (exists d, n = TFile d) \/ n = TDir [].
Definition old_ok (o : option tnode) : Prop := o = None \/ exists d, o = Some (TFile d).

(* t' is reached from t by putting files / empty directories at locations below R that held
   nothing or a regular file *)
Inductive step_in (R : list string) : tnode -> tnode -> Prop :=
| step_refl t : step_in R t t
| step_set t t1 loc n t2 :
    step_in R t t1 -> prefixb R loc = true -> leaf n -> old_ok (tget t1 loc) ->
    tset t1 loc n = Some t2 -> step_in R t t2.

Lemma step_trans R t1 t2 t3 : step_in R t1 t2 -> step_in R t2 t3 -> step_in R t1 t3.
Proof.
  intros H12 H23. revert H12. induction H23 as [|t t0 loc n t2' H23 IH]; intros H12; auto.
  eapply (step_set R t1 t0 loc n t2'); eauto.
Qed.

Lemma step_one R t loc n t' :
  prefixb R loc = true -> leaf n -> old_ok (tget t loc) -> tset t loc n = Some t' -> step_in R t t'.
Proof. intros. eapply step_set; eauto. apply step_refl. Qed.

Lemma step_outside R t t' : step_in R t t' ->
  forall q, prefixb R q = false -> shallow_of (tget t' q) = shallow_of (tget t q).
Proof.
  induction 1 as [|t t1 loc n t2 _ IH Hloc _ _ Hset]; intros q Hq; auto.
  rewrite <- IH by assumption. eapply tset_shallow_outside; eauto.
  destruct (prefixb loc q) eqn:E; auto. rewrite (prefixb_trans _ _ _ Hloc E) in Hq. discriminate.
Qed.

Lemma leaf_below n r tg : leaf n -> tget n r <> Some (TLink tg).
Proof.
  intros [(d & ->)| ->]; destruct r; simpl; discriminate.
Qed.

Lemma shallow_link o tg : shallow_of o = SLink tg -> o = Some (TLink tg).
Proof. destruct o as [[| |]|]; simpl; intros H; inversion H; reflexivity. Qed.

Lemma shallow_dir o : shallow_of o = SDir -> exists es, o = Some (TDir es).
Proof. destruct o as [[| |]|]; simpl; intros H; inversion H; eauto. Qed.

Lemma step_nolink R t t' : step_in R t t' -> forall q, nolink_at t q -> nolink_at t' q.
Proof.
  induction 1 as [|t t1 loc n t2 _ IH _ Hleaf _ Hset]; intros q Hq; auto.
  specialize (IH q Hq). intros tg Hg. destruct (prefixb loc q) eqn:E.
  - apply prefixb_spec in E as (r & ->). rewrite (tget_tset_inside _ _ _ _ r Hset) in Hg.
    eapply leaf_below; eauto.
  - pose proof (tset_shallow_outside _ _ _ _ Hset q E) as Hs. rewrite Hg in Hs. simpl in Hs.
    symmetry in Hs. apply shallow_link in Hs. now apply (IH tg).
Qed.

Lemma step_nolinks R t t' P : step_in R t t' -> nolinks t P -> nolinks t' P.
Proof. intros Hs Hn q Hq. eapply step_nolink; eauto. Qed.

Lemma step_dir R t t' : step_in R t t' ->
  forall q es, tget t q = Some (TDir es) -> exists es', tget t' q = Some (TDir es').
Proof.
  induction 1 as [|t t1 loc n t2 _ IH _ _ Hold Hset]; intros q es Hq; eauto.
  destruct (IH q es Hq) as (es1 & H1). destruct (prefixb loc q) eqn:E.
  - exfalso. apply prefixb_spec in E as (r & ->). rewrite tget_app in H1.
    destruct Hold as [Ho|(d & Ho)]; rewrite Ho in H1; [discriminate|].
    destruct r; simpl in H1; discriminate.
  - pose proof (tset_shallow_outside _ _ _ _ Hset q E) as Hs. rewrite H1 in Hs. simpl in Hs.
    now apply shallow_dir.
Qed.

Lemma put_cases t loc n : (put t loc n = (t, Some ENOENT)) \/ exists t', tset t loc n = Some t' /\ put t loc n = (t', None).
Proof. unfold put. destruct (tset t loc n); eauto. Qed.

Definition dir_at (t : tnode) (R : list string) : Prop := exists es, tget t R = Some (TDir es).

Lemma step_dir_at R t t' Q : step_in R t t' -> dir_at t Q -> dir_at t' Q.
Proof. intros Hs (es & H). eapply step_dir; eauto. Qed.

(* mkdir below R *)
Lemma k_mkdir_step R t P :
  Forall good_comp P -> (forall q r, P = (q ++ r)%list -> r <> [] -> nolink_at t q) ->
  prefixb R P = true -> step_in R t (fst (k_mkdir t P)).
Proof.
  intros Hg Hm HR. unfold k_mkdir.
  destruct (c_walk_plain t P false Hg Hm (or_introl eq_refl)) as [Hw|Hw].
  { rewrite Hw. apply step_refl. }
  destruct (c_walk t P false) as [loc n|p c|d tg r|e]; simpl in *; try apply step_refl; try contradiction.
  destruct Hw as (Hp & _ & Hnone). rewrite Hp.
  destruct (put_cases t P (TDir [])) as [->|(t' & Hs & ->)]; simpl; [apply step_refl|].
  eapply step_one; eauto; [now right|now left].
Qed.

(* mkdir of something that exists changes nothing *)
Lemma k_mkdir_exists t P n :
  Forall good_comp P -> (forall q r, P = (q ++ r)%list -> r <> [] -> nolink_at t q) ->
  tget t P = Some n -> fst (k_mkdir t P) = t.
Proof.
  intros Hg Hm Hn. unfold k_mkdir.
  destruct (c_walk_plain t P false Hg Hm (or_introl eq_refl)) as [Hw|Hw].
  { now rewrite Hw. }
  destruct (c_walk t P false) as [loc n'|p c|d tg r|e]; simpl in *; auto; try contradiction.
  destruct Hw as (_ & _ & Hnone). congruence.
Qed.

(* open + write below R *)
Lemma write_at_step R t P w trunc data :
  plain_spec t P w -> prefixb R P = true -> step_in R t (fst (write_at t w trunc data)).
Proof.
  intros Hw HR. unfold write_at. destruct w as [loc n|p c|d tg r|e]; simpl in *; try apply step_refl; try contradiction.
  - destruct Hw as [-> Hget]. destruct n as [old| es |tg]; simpl; try apply step_refl.
    destruct (put_cases t P (TFile (if trunc then data else overwrite old data))) as [->|(t' & Hs & ->)];
      simpl; [apply step_refl|].
    eapply step_one; eauto; [left; eauto|right; eauto].
  - destruct Hw as (Hp & _ & Hnone). rewrite Hp.
    destruct (put_cases t P (TFile data)) as [->|(t' & Hs & ->)]; simpl; [apply step_refl|].
    eapply step_one; eauto; [left; eauto|now left].
Qed.

Lemma k_write_step R t P trunc data :
  Forall good_comp P -> nolinks t P -> prefixb R P = true -> step_in R t (fst (k_write t P trunc data)).
Proof.
  intros Hg Hn HR. unfold k_write. destruct (c_walk_nolinks t P true Hg Hn) as [Hw|Hw].
  - rewrite Hw. apply step_refl.
  - eapply write_at_step; eauto.
Qed.

Lemma prefixb_snoc_cases R P c : prefixb R (P ++ [c]) = true -> R = (P ++ [c])%list \/ prefixb R P = true.
Proof.
  intros H. apply prefixb_spec in H as (r & Hr). destruct r as [|x r] using rev_ind.
  - left. now rewrite app_nil_r in Hr.
  - right. rewrite app_assoc in Hr. apply app_inj_tail in Hr as [-> _]. apply prefixb_app.
Qed.

Lemma dir_at_prefix t R P : dir_at t R -> prefixb P R = true -> dir_at t P.
Proof.
  intros (es & H) HP. destruct (prefix_cases _ _ HP) as [->|(r & Hr & ->)]; [exists es; exact H|].
  unfold dir_at. eapply tget_prefix_dir; eauto.
Qed.

Lemma nolinks_mid t P : nolinks t P -> forall q r, P = (q ++ r)%list -> r <> [] -> nolink_at t q.
Proof. intros H q r -> _. apply H. apply prefixb_app. Qed.

(* os.MkdirAll on a link-free path that lies below R or above it (R being a directory) *)
Lemma mkdir_all_rev_step R : forall rp t,
  Forall good_comp (rev rp) -> nolinks t (rev rp) -> dir_at t R ->
  (prefixb R (rev rp) = true \/ prefixb (rev rp) R = true) ->
  step_in R t (fst (mkdir_all_rev t rp)).
Proof.
  induction rp as [|c parent IH]; intros t Hg Hn Hd Hpos.
  - simpl. destruct (is_dir_node t); apply step_refl.
  - cbn [mkdir_all_rev].
    destruct (c_walk t (rev (c :: parent)) true) as [loc n|p' c'|d tg r|e] eqn:Ew;
      try (destruct (is_dir_node n); apply step_refl).
    all: simpl rev in *.
    all: assert (Forall good_comp (rev parent)) as Hgp by (apply Forall_app in Hg as [Hg _]; exact Hg).
    all: assert (nolinks t (rev parent)) as Hnp by (eapply nolinks_prefix; eauto; apply prefixb_app).
    all: assert (prefixb R (rev parent) = true \/ prefixb (rev parent) R = true) as Hposp
        by (destruct Hpos as [Hp|Hp];
            [destruct (prefixb_snoc_cases _ _ _ Hp) as [->|]; [right; apply prefixb_app|now left]
            |right; eapply prefixb_trans; [apply prefixb_app|exact Hp]]).
    all: specialize (IH t Hgp Hnp Hd Hposp).
    all: destruct (mkdir_all_rev t parent) as [t1 [e1|]]; simpl in IH; simpl; auto.
    all: assert (nolinks t1 (rev parent ++ [c])) as Hn1 by (eapply step_nolinks; eauto).
    all: assert (step_in R t1 (fst (k_mkdir t1 (rev parent ++ [c])))) as Hmk
        by (destruct (prefixb R (rev parent ++ [c])) eqn:ER;
            [apply k_mkdir_step; [exact Hg|exact (nolinks_mid _ _ Hn1)|exact ER]
            |destruct Hpos as [Hp|Hp]; [congruence|];
             destruct (dir_at_prefix t1 R _ (step_dir_at _ _ _ _ IH Hd) Hp) as (es & Hes);
             rewrite (k_mkdir_exists t1 _ _ Hg (nolinks_mid _ _ Hn1) Hes); apply step_refl]).
    all: destruct (k_mkdir t1 (rev parent ++ [c])) as [t2 [e2|]]; simpl in Hmk; simpl.
    all: assert (step_in R t t2) as Hfin by (eapply step_trans; [exact IH|exact Hmk]).
    all: try exact Hfin.
    all: destruct (c_walk t2 (rev parent ++ [c]) false) as [loc2 n2| | |]; simpl; try exact Hfin.
    all: destruct (is_dir_node n2); exact Hfin.
Qed.

Lemma mkdir_all_step R t P :
  Forall good_comp P -> nolinks t P -> dir_at t R ->
  (prefixb R P = true \/ prefixb P R = true) -> step_in R t (fst (mkdir_all t P)).
Proof.
  intros. unfold mkdir_all. apply mkdir_all_rev_step; rewrite ?rev_involutive; auto.
Qed.

(* ---------- Expand ---------- *)
Lemma fst_lift r : fst (lift r) = fst r.
Proof. reflexivity. Qed.

Lemma prefixb_removelast_cases R out :
  prefixb R out = true -> prefixb R (removelast out) = true \/ prefixb (removelast out) R = true.
Proof.
  intros H. apply prefixb_spec in H as (x & ->). destruct x as [|y x].
  - right. rewrite app_nil_r. apply prefixb_removelast. apply prefixb_refl.
  - left. rewrite removelast_app by discriminate. apply prefixb_app.
Qed.

Lemma expand_file_step R t C f :
  Forall good_comp C -> nolinks t C -> prefixb R C = true -> dir_at t R ->
  step_in R t (fst (expand_file t C f)).
Proof.
  intros Hg Hn HR Hd. unfold expand_file.
  destruct (secure_join t C (f_name f)) as [e|out] eqn:Esj; [apply step_refl|].
  destruct (secure_join_nolinks t C _ _ Hg Hn Esj) as (cur & -> & Hc & Hl).
  assert (Forall good_comp (C ++ cur)) as Hgo by (apply Forall_app; split; auto).
  assert (prefixb R (C ++ cur) = true) as HRo by (eapply prefixb_trans; [exact HR|apply prefixb_app]).
  assert (step_in R t (fst (mkdir_all t (removelast (C ++ cur))))) as Hmk.
  { apply mkdir_all_step; auto.
    - now apply Forall_removelast.
    - eapply nolinks_prefix; eauto. apply prefixb_removelast, prefixb_refl.
    - now apply prefixb_removelast_cases. }
  destruct (mkdir_all t (removelast (C ++ cur))) as [t1 [e|]]; simpl in *; auto.
  eapply step_trans; [exact Hmk|]. apply k_write_step; auto. eapply step_nolinks; eauto.
Qed.

Lemma expand_files_step R C : forall fs t,
  Forall good_comp C -> nolinks t C -> prefixb R C = true -> dir_at t R ->
  step_in R t (fst (expand_files t C fs)).
Proof.
  induction fs as [|f fs IH]; intros t Hg Hn HR Hd; simpl; [apply step_refl|].
  pose proof (expand_file_step R t C f Hg Hn HR Hd) as H1.
  destruct (expand_file t C f) as [t1 [e|]]; simpl in *; auto.
  eapply step_trans; [exact H1|]. apply IH; auto.
  - eapply step_nolinks; eauto.
  - eapply step_dir_at; eauto.
Qed.

Lemma expand_model_step R t name fs :
  Forall good_comp R -> nolinks t R -> dir_at t R -> step_in R t (fst (expand_model t R name fs)).
Proof.
  intros Hg Hn Hd. unfold expand_model. destruct (String.eqb name ""); [apply step_refl|].
  destruct (secure_join t R name) as [e|C] eqn:Esj; [apply step_refl|].
  destruct (secure_join_nolinks t R _ _ Hg Hn Esj) as (cur & -> & Hc & Hl).
  apply expand_files_step; auto.
  - apply Forall_app; split; auto.
  - apply prefixb_app.
Qed.

(* Expand, for every tree, every chart name and every file list: whatever is not below the
   destination R looks the same afterwards, and R is still a directory *)
Theorem expand_confined t R name fs t' e :
  Forall good_comp R -> nolinks t R -> (exists es, tget t R = Some (TDir es)) ->
  expand_model t R name fs = (t', e) ->
  (forall q, (forall r, q <> (R ++ r)%list) -> shallow_of (tget t' q) = shallow_of (tget t q)) /\
  (exists es', tget t' R = Some (TDir es')).
Proof.
  intros Hg Hn Hd H. pose proof (expand_model_step R t name fs Hg Hn Hd) as Hs. rewrite H in Hs. simpl in Hs.
  split; [|eapply step_dir_at; eauto].
  intros q Hq. eapply step_outside; eauto. destruct (prefixb R q) eqn:E; auto.
  apply prefixb_spec in E as (r & ->). now destruct (Hq r).
Qed.

(* ---------- the plugin extractor ---------- *)
Lemma clean_join_t_nolinks t R dest p :
  Forall good_comp R -> nolinks t R -> clean_join_t t R dest = inr p ->
  exists cur, p = (R ++ cur)%list /\ Forall good_comp cur /\ nolinks t p.
Proof.
  intros Hg Hn. unfold clean_join_t. destruct (contains_char colon dest); [discriminate|].
  destruct (existsb _ _); [discriminate|]. destruct (is_abs _); [discriminate|].
  destruct (secure_join t R _) as [e|out] eqn:E; [discriminate|]. intros H. inversion H; subst.
  eapply secure_join_nolinks; eauto.
Qed.

Lemma extract_entry_step R t e :
  Forall good_comp R -> nolinks t R -> step_in R t (fst (extract_entry t R e)).
Proof.
  intros Hg Hn. unfold extract_entry.
  destruct (clean_join_t t R (te_name e)) as [err|p] eqn:Ecj; [apply step_refl|].
  destruct (clean_join_t_nolinks t R _ _ Hg Hn Ecj) as (cur & -> & Hc & Hl).
  assert (Forall good_comp (R ++ cur)) as Hgo by (apply Forall_app; split; auto).
  assert (forall r : xres, fst (after_read (te_rerr e) r) = fst r) as Hafter.
  { intros [t1 [x|]]; simpl; auto. destruct (te_rerr e); reflexivity. }
  destruct (te_type e =? 53)%Z.
  { rewrite Hafter, fst_lift. apply k_mkdir_step; auto using prefixb_app. now apply nolinks_mid. }
  destruct (te_type e =? 48)%Z.
  { rewrite Hafter, fst_lift. apply k_write_step; auto using prefixb_app. }
  destruct ((te_type e =? 103)%Z || (te_type e =? 120)%Z); [rewrite Hafter|]; apply step_refl.
Qed.

Lemma extract_entries_step R : forall es t,
  Forall good_comp R -> nolinks t R -> step_in R t (fst (extract_entries t R es)).
Proof.
  induction es as [|e es IH]; intros t Hg Hn; simpl; [apply step_refl|].
  pose proof (extract_entry_step R t e Hg Hn) as H1.
  destruct (extract_entry t R e) as [t1 [x|]]; simpl in *; auto.
  eapply step_trans; [exact H1|]. apply IH; auto. eapply step_nolinks; eauto.
Qed.

Lemma extract_model_step R t s :
  Forall good_comp R -> nolinks t R -> dir_at t R -> step_in R t (fst (extract_model t R s)).
Proof.
  intros Hg Hn Hd. unfold extract_model. destruct (ts_gzerr s); [apply step_refl|].
  assert (step_in R t (fst (mkdir_all t R))) as Hmk.
  { apply mkdir_all_step; auto. left. apply prefixb_refl. }
  destruct (mkdir_all t R) as [t1 [e|]]; simpl in *; auto.
  assert (step_in R t1 (fst (extract_entries t1 R (ts_entries s)))) as He.
  { apply extract_entries_step; auto. eapply step_nolinks; eauto. }
  destruct (extract_entries t1 R (ts_entries s)) as [t2 [x|]]; simpl in *.
  - eapply step_trans; eauto.
  - destruct (ts_err s); simpl; eapply step_trans; eauto.
Qed.

Theorem extract_confined t R s t' e :
  Forall good_comp R -> nolinks t R -> (exists es, tget t R = Some (TDir es)) ->
  extract_model t R s = (t', e) ->
  (forall q, (forall r, q <> (R ++ r)%list) -> shallow_of (tget t' q) = shallow_of (tget t q)) /\
  (exists es', tget t' R = Some (TDir es')).
Proof.
  intros Hg Hn Hd H. pose proof (extract_model_step R t s Hg Hn Hd) as Hs. rewrite H in Hs. simpl in Hs.
  split; [|eapply step_dir_at; eauto].
  intros q Hq. eapply step_outside; eauto. destruct (prefixb R q) eqn:E; auto.
  apply prefixb_spec in E as (r & ->). now destruct (Hq r).
Qed.

(* symlinks planted in the destination, and the entries of the archive itself, never turn
   into new symlinks: both operations only ever put regular files and empty directories *)
Lemma step_no_new_links R t t' : step_in R t t' ->
  forall q tg, tget t' q = Some (TLink tg) -> tget t q = Some (TLink tg).
Proof.
  induction 1 as [|t t1 loc n t2 _ IH _ Hleaf _ Hset]; intros q tg Hq; auto.
  apply IH. destruct (prefixb loc q) eqn:E.
  - exfalso. apply prefixb_spec in E as (r & ->). rewrite (tget_tset_inside _ _ _ _ r Hset) in Hq.
    eapply leaf_below; eauto.
  - pose proof (tset_shallow_outside _ _ _ _ Hset q E) as Hs. rewrite Hq in Hs. simpl in Hs.
    symmetry in Hs. now apply shallow_link.
Qed.

Theorem expand_no_new_links t R name fs t' e q tg :
  Forall good_comp R -> nolinks t R -> (exists es, tget t R = Some (TDir es)) ->
  expand_model t R name fs = (t', e) -> tget t' q = Some (TLink tg) -> tget t q = Some (TLink tg).
Proof.
  intros Hg Hn Hd H. pose proof (expand_model_step R t name fs Hg Hn Hd) as Hs. rewrite H in Hs.
  eapply step_no_new_links; eauto.
Qed.

Theorem extract_no_new_links t R s t' e q tg :
  Forall good_comp R -> nolinks t R -> (exists es, tget t R = Some (TDir es)) ->
  extract_model t R s = (t', e) -> tget t' q = Some (TLink tg) -> tget t q = Some (TLink tg).
Proof.
  intros Hg Hn Hd H. pose proof (extract_model_step R t s Hg Hn Hd) as Hs. rewrite H in Hs.
  eapply step_no_new_links; eauto.
Qed.

(* path/filepath.Match (Go 1.24, match.go) on a slash platform, as it is: scanChunk,
   matchChunk, getEsc and the main loop with its star handling, byte-wise except where the
   code decodes a rune ('?' and character classes).  Quirks kept: a class or its negation may
   match the separator; a malformed pattern is reported only if the scan reaches it; after a
   chunk has failed the rest of the chunk is still parsed (with r = 0 in classes).
   Loops that consume the pattern run on fuel = its length; running out of fuel is a result of
   its own ([MFuel], [KFuel], [CFuel]) that MatchProofs.v shows unreachable.  Definitions only. *)
From Coq Require Import String Ascii NArith Bool Arith List.
From Helm Require Import Chart.Paths Chart.Utf8.
Import ListNotations.
Local Open Scope string_scope.

Definition c_star : ascii := "*"%char.
Definition c_quest : ascii := "?"%char.
Definition c_lbr : ascii := "["%char.
Definition c_rbr : ascii := "]"%char.
Definition c_caret : ascii := "^"%char.
Definition c_dash : ascii := "-"%char.

Definition is_empty (s : string) : bool := match s with EmptyString => true | _ => false end.

(* the leading stars of scanChunk: (star, pattern without them) *)
Fixpoint strip_stars (p : string) : bool * string :=
  match p with
  | String c t => if Ascii.eqb c c_star then (true, snd (strip_stars t)) else (false, p)
  | EmptyString => (false, EmptyString)
  end.

(* the Scan loop of scanChunk: (chunk, rest); a backslash skips the next byte if there is one,
   a star ends the chunk unless the scan is between '[' and ']' *)
Fixpoint scan_go (p : string) (inrange : bool) : string * string :=
  match p with
  | EmptyString => (EmptyString, EmptyString)
  | String c t =>
      if Ascii.eqb c bslash then
        match t with
        | String d t' => let '(ch, r) := scan_go t' inrange in (String c (String d ch), r)
        | EmptyString => (String c EmptyString, EmptyString)
        end
      else if Ascii.eqb c c_lbr then let '(ch, r) := scan_go t true in (String c ch, r)
      else if Ascii.eqb c c_rbr then let '(ch, r) := scan_go t false in (String c ch, r)
      else if Ascii.eqb c c_star then
        if inrange then let '(ch, r) := scan_go t inrange in (String c ch, r) else (EmptyString, p)
      else let '(ch, r) := scan_go t inrange in (String c ch, r)
  end.

(* scanChunk *)
Definition scan_chunk (pattern : string) : bool * string * string :=
  let '(star, p1) := strip_stars pattern in
  let '(chunk, rest) := scan_go p1 false in
  (star, chunk, rest).

(* getEsc: None = ErrBadPattern; otherwise the rune and the (non-empty) rest of the chunk *)
Definition get_esc (chunk : string) : option (N * string) :=
  match chunk with
  | EmptyString => None
  | String c t =>
      if Ascii.eqb c c_dash || Ascii.eqb c c_rbr then None else
      let chunk' := if Ascii.eqb c bslash then t else chunk in
      if is_empty chunk' then None else
      let '(r, n) := decode_rune chunk' in
      let nchunk := sdrop n chunk' in
      if (N.eqb r rune_error && Nat.eqb n 1) || is_empty nchunk then None else Some (r, nchunk)
  end.

Definition in_range (lo r hi : N) : bool := (N.leb lo r && N.leb r hi)%bool.

(* the "parse all ranges" loop of a character class *)
Inductive cres := CDone (matched : bool) (rest : string) | CBad | CFuel.

Fixpoint class_go (fuel : nat) (chunk : string) (r : N) (nrange_pos : bool) (matched : bool) : cres :=
  match fuel with
  | O => CFuel
  | S f =>
      let body :=
        match get_esc chunk with
        | None => CBad
        | Some (lo, c1) =>
            match c1 with
            | String d t1 =>
                if Ascii.eqb d c_dash then
                  match get_esc t1 with
                  | None => CBad
                  | Some (hi, c2) => class_go f c2 r true (matched || in_range lo r hi)
                  end
                else class_go f c1 r true (matched || in_range lo r lo)
            | EmptyString => CBad   (* getEsc never returns an empty rest without an error *)
            end
        end in
      match chunk with
      | String c t => if Ascii.eqb c c_rbr && nrange_pos then CDone matched t else body
      | EmptyString => body
      end
  end.

(* matchChunk: KYes rest / KNo / KBad (ErrBadPattern) *)
Inductive kres := KYes (rest : string) | KNo | KBad | KFuel.

Fixpoint chunk_go (fuel : nat) (chunk s : string) (failed : bool) : kres :=
  match chunk with
  | EmptyString => if failed then KNo else KYes s
  | String c t =>
      match fuel with
      | O => KFuel
      | S f =>
          let failed := failed || is_empty s in
          if Ascii.eqb c c_lbr then
            let '(r, s1) := if failed then (0%N, s) else let '(r, n) := decode_rune s in (r, sdrop n s) in
            let '(negated, ch1) := match t with
                                   | String d t' => if Ascii.eqb d c_caret then (true, t') else (false, t)
                                   | EmptyString => (false, t)
                                   end in
            match class_go (S (String.length ch1)) ch1 r false false with
            | CBad => KBad
            | CFuel => KFuel
            | CDone m rest => chunk_go f rest s1 (failed || Bool.eqb m negated)
            end
          else if Ascii.eqb c c_quest then
            if failed then chunk_go f t s failed
            else
              let f1 := match s with String a _ => Ascii.eqb a slash | EmptyString => false end in
              let '(_, n) := decode_rune s in
              chunk_go f t (sdrop n s) f1
          else
            (* '\\' takes the next byte literally; anything else is a literal itself *)
            let lit (d : ascii) (t' : string) :=
              if failed then chunk_go f t' s failed
              else match s with
                   | String a s' => chunk_go f t' s' (negb (Ascii.eqb d a))
                   | EmptyString => chunk_go f t' s true
                   end in
            if Ascii.eqb c bslash then
              match t with
              | EmptyString => KBad
              | String d t' => lit d t'
              end
            else lit c t
      end
  end.

Definition match_chunk (chunk s : string) : kres := chunk_go (String.length chunk) chunk s false.

Inductive mres := MYes | MNo | MBad | MFuel.

Definition mres_eqb (a b : mres) : bool :=
  match a, b with MYes, MYes | MNo, MNo | MBad, MBad | MFuel, MFuel => true | _, _ => false end.

(* "Look for match skipping i+1 bytes.  Cannot skip /."  [k] is the rest of the Pattern loop
   (continue Pattern with the remaining pattern), [last] says that the chunk is the last one *)
Fixpoint star_loop (k : string -> mres) (chunk : string) (last : bool) (nm : string) : mres :=
  match nm with
  | EmptyString => MNo
  | String a t =>
      if Ascii.eqb a slash then MNo else
      match match_chunk chunk t with
      | KYes t2 => if last && negb (is_empty t2) then star_loop k chunk last t else k t2
      | KBad => MBad
      | KFuel => MFuel
      | KNo => star_loop k chunk last t
      end
  end.

(* the Pattern loop of Match *)
Fixpoint match_go (fuel : nat) (pattern name : string) : mres :=
  match pattern with
  | EmptyString => if is_empty name then MYes else MNo
  | _ =>
      match fuel with
      | O => MFuel
      | S f =>
          let '(star, chunk, rest) := scan_chunk pattern in
          if star && is_empty chunk then (if contains_char slash name then MNo else MYes) else
          let after := if star then star_loop (match_go f rest) chunk (is_empty rest) name else MNo in
          match match_chunk chunk name with
          | KYes t => if is_empty t || negb (is_empty rest) then match_go f rest t else after
          | KBad => MBad
          | KFuel => MFuel
          | KNo => after
          end
      end
  end.

(* filepath.Match(pattern, name) *)
Definition gmatch (pattern name : string) : mres := match_go (String.length pattern) pattern name.

(* what pkg/ignore makes of it: a matcher (an error counts as "no match") and the probe of
   parseRule, filepath.Match(rule, "abc") *)
Definition gmatch_ok (pattern name : string) : bool := mres_eqb (gmatch pattern name) MYes.
Definition gmatch_err (pattern : string) : bool := mres_eqb (gmatch pattern "abc") MBad.

(* C15, round 4: concrete instances for the Wf2 round-trip theorems -- a codec in which
   Chart.yaml carries name, apiVersion and dependencies, and requirements.yaml carries the
   dependencies of a v1 chart; a v1 chart with requirements.yaml, requirements.lock, a provenance
   file directly in charts/ and two dependencies listed out of name order. *)
From Coq Require Import List String Ascii Bool Arith ZArith Lia.
From Helm Require Import Values.Tree Chart.Paths Chart.PathsProofs Chart.Archive Chart.Files Chart.Save Chart.Load
  Chart.Wf Chart.Wf2 Chart.LoadProofs Chart.RecProofs Chart.Rt2Proofs Chart.Examples15.
Import ListNotations.
Local Open Scope string_scope.

Definition metaU (api n deps : string) : meta := mkMeta api n "0.1.0" "" deps "{}".
(* Chart.yaml: C<name>:<apiVersion>:<dependencies>;  requirements.yaml: R<dependencies> *)
Definition encU (m : meta) : string := "C" ++ m_name m ++ ":" ++ m_api m ++ ":" ++ m_deps m.
Definition mergeU (m0 : meta) (d : string) : option meta :=
  match d with
  | String "R" t => Some (mkMeta (m_api m0) (m_name m0) (m_version m0) (m_type m0) t (m_rest m0))
  | String "C" t =>
      match split_on colon t with
      | n :: a :: r => Some (metaU a n (join ":" r))
      | _ => None
      end
  | _ => None
  end.
Definition restU (m : meta) : bool :=
  meta_eqb m (metaU (m_api m) (m_name m) (m_deps m)) &&
  negb (contains_char colon (m_name m)) && negb (contains_char colon (m_api m)).

Lemma codecU_ok :
  (forall m, validate sanK semverK restU m = Some m -> mergeU empty_meta (encU m) = Some m) /\
  (forall m, has_bom (encU m) = false) /\
  (forall l, lock_decK (lock_encK l) = Some (Some l)) /\
  (forall l, has_bom (lock_encK l) = false).
Proof.
  repeat split; try reflexivity.
  intros m H. unfold validate, sanK in H.
  repeat match type of H with context [if ?b then _ else _] => destruct b eqn:? end; try discriminate.
  match goal with E : negb (restU m) = false |- _ => apply negb_false_iff in E; unfold restU in E;
    rewrite !andb_true_iff, !negb_true_iff in E; destruct E as [[Em Hn] Ha] end.
  apply meta_eqb_eq in Em. unfold encU, mergeU.
  change ("C" ++ m_name m ++ ":" ++ m_api m ++ ":" ++ m_deps m)
    with (String "C" (m_name m ++ String colon (m_api m ++ String colon (m_deps m)))).
  cbv iota beta. rewrite (split_on_sep colon _ _ Hn), (split_on_sep colon _ _ Ha).
  destruct (split_on_cons colon (m_deps m)) as (h & r & Hs). rewrite Hs.
  f_equal. rewrite <- Hs. change ":" with (sep1 colon). rewrite join_split. now symmetry.
Qed.

Definition leafU (api n : string) (fs : list file) : chart := Chart (metaU api n "") None [] None None [] fs [].

(* a v1 chart: dependencies and lock live in requirements.*; dependencies listed as dep-b, dep-a *)
Definition c_v1 : chart :=
  Chart (metaU "v1" "legacy" "[dep-b,dep-a]") (Some "digest") [mkFile "values.yaml" "a: 1"] (Some (VStr "a: 1")) None
        [mkFile "templates/d.yaml" "kind: X"]
        [mkFile "requirements.yaml" "R[dep-b,dep-a]"; mkFile "README.md" "hi"; mkFile "requirements.lock" "Ldigest";
         mkFile "charts/dep-a-0.1.0.tgz.prov" "sig"]
        [leafU "v2" "dep-b" [mkFile "f" "b"]; leafU "v1" "dep-a" [mkFile "docs/a.prov" "p"]].

Lemma leafU_wf api n fs : (api = "v1" \/ api = "v2") -> wf_cname n = true -> contains_char colon n = false ->
  forallb (wf_file2 false) fs = true ->
  wf2_chart mergeU lock_decK parseK jsonK sanK semverK restU (own (leafU api n fs)).
Proof.
  intros Hapi Hn Hc Hf.
  assert (validate sanK semverK restU (metaU api n "") = Some (metaU api n "")) as Hv.
  { unfold validate, sanK, restU, semverK. simpl.
    destruct (wf_cname_props n Hn) as ((Hne & _) & Hs & _).
    assert (String.eqb api "" = false) as -> by (destruct Hapi as [-> | ->]; reflexivity).
    apply String.eqb_neq in Hne. rewrite Hne. unfold name_is_base.
    assert (path_base n = n) as ->.
    { unfold path_base. destruct n as [|a n']; [now rewrite String.eqb_refl in Hne|].
      assert (strip_trailing slash (String a n') = String a n') as ->.
      { clear -Hs. revert a Hs. induction n' as [|b t IH]; intros a Hs; simpl in *.
        - destruct (Ascii.eqb a slash); [discriminate|reflexivity].
        - apply orb_false_iff in Hs as [Ha Hs]. specialize (IH b Hs). simpl in IH. rewrite IH. reflexivity. }
      rewrite (split_on_nosep slash _ Hs). reflexivity. }
    rewrite String.eqb_refl. simpl. unfold meta_eqb. simpl. rewrite !String.eqb_refl, Hc. simpl.
    destruct Hapi as [-> | ->]; reflexivity. }
  constructor; simpl; auto.
  destruct Hapi as [-> | ->]; [right|left]; simpl; auto.
  repeat split; auto.
  - rewrite (v1_fold_v2 mergeU lock_decK fs _ _ Hf). reflexivity.
  - clear -Hf. induction fs as [|f l IH]; auto. simpl in *. apply andb_true_iff in Hf as [H1 H2].
    rewrite (IH H2), andb_true_r. unfold wf_file2 in *. rewrite !andb_true_iff in *.
    destruct H1 as [[[? ?] ?] Hr]. repeat split; auto. simpl in Hr. rewrite orb_false_r in Hr. now rewrite Hr.
Qed.

Lemma c_v1_ok :
  wf2_tree mergeU lock_decK parseK jsonK sanK semverK restU c_v1 /\ nobom_tree c_v1 /\ depth c_v1 = 2%nat /\
  map dname (c_deps c_v1) = ["dep-b"; "dep-a"] /\ map dname (c_deps (norm c_v1)) = ["dep-a"; "dep-b"].
Proof.
  split; [|split; [|repeat split; reflexivity]].
  - constructor.
    + constructor; simpl; auto; try reflexivity; try (right; repeat split; reflexivity).
    + simpl. repeat constructor; simpl; intuition discriminate.
    + repeat constructor.
    + constructor; [|constructor; [|constructor]].
      * constructor; [apply leafU_wf; auto; reflexivity|constructor|constructor|constructor].
      * constructor; [apply leafU_wf; auto; reflexivity|constructor|constructor|constructor].
  - repeat (constructor; simpl; auto).
Qed.

Lemma c_v1_saved :
  exists es, save encU lock_encK jsonK sanK semverK restU c_v1 = Some es /\ fits 1000 100 es /\
    exists c', load_archive mergeU lock_decK parseK untarK sanK semverK restU 1000 100 2 (mkTS false es false) = inr c'
               /\ chart_eqb (norm c_v1) c' = true /\ c_lock c' = Some "digest" /\
               m_deps (c_meta c') = "[dep-b,dep-a]" /\ map dname (c_deps c') = ["dep-a"; "dep-b"] /\
               map f_name (c_files c') = ["requirements.yaml"; "README.md"; "requirements.lock"; "charts/dep-a-0.1.0.tgz.prov"].
Proof.
  eexists. split; [vm_compute; reflexivity|]. split.
  - split; [repeat constructor; vm_compute; discriminate|vm_compute; reflexivity].
  - eexists. split; [vm_compute; reflexivity|]. repeat split; vm_compute; reflexivity.
Qed.

Definition save_load_example := conj codecU_ok (conj c_v1_ok c_v1_saved).

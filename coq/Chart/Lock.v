(* pkg/downloader/manager.go: writeLock, on a file-system model.
   A file system is a finite map path -> File | Dir | Symlink target; os.WriteFile follows
   a symlink at the final path component, os.Lstat does not. *)
From Coq Require Import List String Ascii Bool Arith.
From Helm Require Import Chart.Paths.
Import ListNotations.
Local Open Scope string_scope.

Inductive node := NFile (data : string) | NDir | NSymlink (target : string).

Definition fsys := list (string * node).

Fixpoint fs_get (p : string) (fs : fsys) : option node :=
  match fs with
  | [] => None
  | (q, n) :: t => if String.eqb p q then Some n else fs_get p t
  end.

Fixpoint fs_set (p : string) (n : node) (fs : fsys) : fsys :=
  match fs with
  | [] => [(p, n)]
  | (q, m) :: t => if String.eqb p q then (p, n) :: t else (q, m) :: fs_set p n t
  end.

(* where a symlink target points, seen from the directory that holds the link *)
Definition resolve_target (dir target : string) : string :=
  if is_abs target then path_clean target else path_join dir target.

Fixpoint dir_of_comps (l : list string) : list string :=
  match l with
  | [] | [_] => []
  | x :: t => x :: dir_of_comps t
  end.

(* filepath.Dir for a clean path *)
Definition path_dir (p : string) : string :=
  match dir_of_comps (split_on slash p) with
  | [] => "."
  | [EmptyString] => "/"
  | cs => join "/" cs
  end.

(* os.WriteFile(p, data): open with O_CREATE|O_TRUNC follows symlinks at the last component
   ([fuel] bounds the chain as the kernel's ELOOP does); writing to a directory fails. *)
Fixpoint write_file (fuel : nat) (fs : fsys) (p data : string) : option fsys :=
  match fs_get p fs with
  | None => Some (fs_set p (NFile data) fs)
  | Some (NFile _) => Some (fs_set p (NFile data) fs)
  | Some NDir => None
  | Some (NSymlink t) =>
      match fuel with
      | O => None
      | S fuel' => write_file fuel' fs (resolve_target (path_dir p) t) data
      end
  end.

Definition lock_name (legacy : bool) : string := if legacy then "requirements.lock" else "Chart.lock".

Definition lock_path (dir : string) (legacy : bool) : string := path_join dir (lock_name legacy).

(* writeLock after 2970e48: Lstat first, refuse a symlink *)
Definition write_lock (fs : fsys) (dir : string) (legacy : bool) (data : string) : option fsys :=
  let dest := lock_path dir legacy in
  match fs_get dest fs with
  | Some (NSymlink _) => None
  | _ => write_file 40 fs dest data
  end.

(* writeLock before the fix: os.WriteFile straight away *)
Definition write_lock_prefix (fs : fsys) (dir : string) (legacy : bool) (data : string) : option fsys :=
  write_file 40 fs (lock_path dir legacy) data.

(* pkg/ignore/rules.go: Parse / parseRule / AddDefaults / Rules.Ignore, as they are.
   filepath.Match is third-party: [pmatch pattern name] and [pmatch_err pattern]. *)
From Coq Require Import List String Ascii Bool Arith.
From Helm Require Import Chart.Paths Chart.Archive.
Import ListNotations.
Local Open Scope string_scope.

Inductive pkind := KRooted | KStructural | KBase.

Record pat := mkPat { p_rule : string; p_negate : bool; p_mustdir : bool; p_kind : pkind }.

(* ASCII white space (the generator uses no other): strings.TrimSpace *)
Definition is_space (a : ascii) : bool :=
  let n := nat_of_ascii a in Nat.eqb n 32 || (Nat.leb 9 n && Nat.leb n 13).

Fixpoint trim_left (s : string) : string :=
  match s with
  | String a t => if is_space a then trim_left t else s
  | EmptyString => EmptyString
  end.
Fixpoint trim_right (s : string) : string :=
  match s with
  | EmptyString => EmptyString
  | String a t =>
      match trim_right t with
      | EmptyString => if is_space a then EmptyString else String a EmptyString
      | t' => String a t'
      end
  end.
Definition trim_space (s : string) : string := trim_right (trim_left s).

Fixpoint has_infix (p s : string) : bool :=
  String.prefix p s || match s with String _ t => has_infix p t | EmptyString => false end.

(* strings.TrimSuffix(s, "/") : one trailing slash *)
Fixpoint trim_one_suffix (c : ascii) (s : string) : string :=
  match s with
  | EmptyString => EmptyString
  | String a EmptyString => if Ascii.eqb a c then EmptyString else s
  | String a t => String a (trim_one_suffix c t)
  end.
Definition ends_with_char (c : ascii) (s : string) : bool := negb (String.eqb (trim_one_suffix c s) s).

Section Ignore.
  Variable pmatch : string -> string -> bool.   (* filepath.Match(pattern, name) = (true, nil) *)
  Variable pmatch_err : string -> bool.         (* filepath.Match(pattern, "abc") returns an error *)

  (* parseRule: None = error, Some None = nothing added (blank line, comment) *)
  Definition parse_rule (line : string) : option (option pat) :=
    let rule := trim_space line in
    if String.eqb rule "" then Some None else
    if String.prefix "#" rule then Some None else
    if has_infix "**" rule then None else
    if pmatch_err rule then None else
    let neg := String.prefix "!" rule in
    let rule := if neg then substring 1 (String.length rule - 1) rule else rule in
    let md := ends_with_char slash rule in
    let rule := if md then trim_one_suffix slash rule else rule in
    let kind := if String.prefix "/" rule then KRooted
                else if contains_char slash rule then KStructural else KBase in
    Some (Some (mkPat rule neg md kind)).

  Fixpoint parse_lines (ls : list string) : option (list pat) :=
    match ls with
    | [] => Some []
    | l :: t =>
        match parse_rule l with
        | None => None
        | Some None => parse_lines t
        | Some (Some p) => match parse_lines t with Some r => Some (p :: r) | None => None end
        end
    end.

  (* bufio.Scanner lines: split at \n, one trailing \r dropped, no empty last token *)
  Definition nl : ascii := ascii_of_nat 10.
  Definition cr : ascii := ascii_of_nat 13.
  Definition scan_lines (text : string) : list string :=
    let ls := split_on nl text in
    let ls := match rev ls with EmptyString :: r => rev r | _ => ls end in
    map (trim_one_suffix cr) ls.

  (* Parse: the BOM is trimmed from the first line; AddDefaults appends templates/.?* *)
  Definition parse_ignore (text : option string) : option (list pat) :=
    let ls := match text with
              | None => []
              | Some t => match scan_lines t with
                          | l :: r => trim_bom l :: r
                          | [] => []
                          end
              end in
    match parse_lines ls, parse_rule "templates/.?*" with
    | Some ps, Some (Some d) => Some (ps ++ [d])%list
    | Some ps, Some None => Some ps
    | _, _ => None
    end.

  Definition pat_match (p : pat) (n : string) : bool :=
    match p_kind p with
    | KRooted => pmatch (substring 1 (String.length (p_rule p) - 1) (p_rule p)) n
    | KStructural => pmatch (p_rule p) n
    | KBase => pmatch (p_rule p) (path_base n)
    end.

  (* Rules.Ignore *)
  Fixpoint ignore_go (ps : list pat) (n : string) (isdir : bool) : bool :=
    match ps with
    | [] => false
    | p :: t =>
        if p_negate p then
          if p_mustdir p && negb isdir then true
          else if negb (pat_match p n) then true
          else ignore_go t n isdir
        else if p_mustdir p && negb isdir then ignore_go t n isdir
        else if pat_match p n then true
        else ignore_go t n isdir
    end.

  Definition rules_ignore (ps : list pat) (n : string) (isdir : bool) : bool :=
    if String.eqb n "" || String.eqb n "." || String.eqb n "./" then false else ignore_go ps n isdir.
End Ignore.

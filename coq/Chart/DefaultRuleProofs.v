(* LoadDir without a .helmignore (or with one that has only blank lines and comments): exactly the
   built-in rule of AddDefaults applies -- dotfiles directly in templates/ are excluded, nothing else. *)
From Coq Require Import List String Ascii Bool Arith ZArith.
From Helm Require Import Values.Tree Chart.Paths Chart.Archive Chart.Files Chart.Save Chart.Load Chart.Ignore
  Chart.Utf8 Chart.Match Chart.MatchProofs Chart.IgnoreProofs.
Import ListNotations.
Local Open Scope string_scope.

Lemma parse_lines_blank pe ls :
  Forall (fun l => String.eqb (trim_space l) "" = true \/ String.prefix "#" (trim_space l) = true) ls ->
  parse_lines pe ls = Some [].
Proof.
  induction 1 as [|l ls Hl _ IH]; [reflexivity|]. cbn [parse_lines].
  assert (parse_rule pe l = Some None) as ->.
  { unfold parse_rule. destruct (String.eqb (trim_space l) "") eqn:E; [reflexivity|].
    destruct Hl as [Hl|Hl]; [congruence|now rewrite Hl]. }
  exact IH.
Qed.

Definition special_path (n : string) : bool := String.eqb n "" || String.eqb n "." || String.eqb n "./".

Lemma default_rule_only :
  (* no .helmignore: the rule set is the built-in rule alone *)
  parse_ignore gmatch_err None = Some [default_pat] /\
  (* a .helmignore with only blank lines and comments: the same *)
  (forall text,
     Forall (fun l => String.eqb (trim_space l) "" = true \/ String.prefix "#" (trim_space l) = true) (ignore_lines text) ->
     parse_ignore gmatch_err (Some text) = Some [default_pat]) /\
  (* what it excludes: the paths filepath.Match accepts for templates/.?* (files and directories alike) *)
  (forall n isdir, rules_ignore gmatch_ok [default_pat] n isdir = negb (special_path n) && gmatch_ok "templates/.?*" n) /\
  rules_ignore gmatch_ok [default_pat] "templates/.gitkeep" false = true /\
  rules_ignore gmatch_ok [default_pat] "templates/.DS_Store" false = true /\
  rules_ignore gmatch_ok [default_pat] "templates/.dir" true = true /\
  rules_ignore gmatch_ok [default_pat] "templates/." false = false /\
  rules_ignore gmatch_ok [default_pat] "templates/deployment.yaml" false = false /\
  rules_ignore gmatch_ok [default_pat] "templates/sub/.hidden" false = false /\
  rules_ignore gmatch_ok [default_pat] "charts/sub/templates/.swp" false = false /\
  rules_ignore gmatch_ok [default_pat] ".gitignore" false = false.
Proof.
  split; [vm_compute; reflexivity|]. split.
  - intros text H. unfold parse_ignore. fold (ignore_lines text). rewrite default_rule.
    now rewrite (parse_lines_blank gmatch_err _ H).
  - split.
    + intros n isdir. unfold rules_ignore, special_path. destruct (String.eqb n "" || String.eqb n "." || String.eqb n "./"); [reflexivity|].
      cbn [negb andb ignore_go default_pat p_negate p_mustdir pat_match p_kind p_rule].
      destruct (gmatch_ok "templates/.?*" n); reflexivity.
    + repeat split; vm_compute; reflexivity.
Qed.

(* ---------- a .helmignore with a line parseRule rejects: LoadDir fails, nothing is loaded or packaged ---------- *)
(* the lines parseRule refuses: not blank, not a comment, and containing ** or malformed for filepath.Match *)
Definition bad_line (l : string) : bool :=
  let r := trim_space l in
  negb (String.eqb r "") && negb (String.prefix "#" r) && (has_infix "**" r || gmatch_err r).

Lemma parse_rule_bad l : bad_line l = true -> parse_rule gmatch_err l = None.
Proof.
  unfold bad_line, parse_rule. rewrite !andb_true_iff, !negb_true_iff. intros [[-> ->] H].
  destruct (has_infix "**" (trim_space l)); [reflexivity|]. simpl in H. now rewrite H.
Qed.

Lemma parse_lines_bad ls l : In l ls -> bad_line l = true -> parse_lines gmatch_err ls = None.
Proof.
  induction ls as [|x ls IH]; intros Hin Hb; [contradiction|]. cbn [parse_lines].
  destruct Hin as [->|Hin]; [now rewrite (parse_rule_bad l Hb)|].
  destruct (parse_rule gmatch_err x) as [[p|]|]; auto; now rewrite (IH Hin Hb).
Qed.

Section LoadDirText.
  Variable md_merge : meta -> string -> option meta.
  Variable lock_dec : string -> option (option lockv).
  Variable parse_values : string -> option val.
  Variable untar : string -> tstream.
  Variable sanitize : meta -> meta.
  Variable is_semver : string -> bool.
  Variable rest_valid : meta -> bool.
  Variable maxt maxf : Z.

  (* LoadDir: the rules file (if any) is parsed first; a parse error is returned before anything is
     walked (directory.go: `r, err := ignore.ParseFile(ifile); if err != nil { return c, err }`) *)
  Definition load_dir_helmignore (text : option string) (fuel : nat) (walk : list file) : lerr + chart :=
    match parse_ignore gmatch_err text with
    | None => inl LIgnore
    | Some ps => load_dir_walk md_merge lock_dec parse_values untar sanitize is_semver rest_valid maxt maxf
                               (rules_ignore gmatch_ok ps) fuel walk
    end.

  Theorem malformed_helmignore_aborts text l fuel walk :
    In l (ignore_lines text) -> bad_line l = true ->
    load_dir_helmignore (Some text) fuel walk = inl LIgnore.
  Proof.
    intros Hin Hb. unfold load_dir_helmignore, parse_ignore. fold (ignore_lines text).
    now rewrite (parse_lines_bad _ l Hin Hb).
  Qed.

  Theorem malformed_helmignore_aborts2 text l fuel walk :
    In l (ignore_lines text) -> bad_line l = true ->
    parse_ignore gmatch_err (Some text) = None /\
    load_dir_helmignore (Some text) fuel walk = inl LIgnore.
  Proof.
    intros Hin Hb. split; [|now apply (malformed_helmignore_aborts text l)].
    unfold parse_ignore. fold (ignore_lines text). now rewrite (parse_lines_bad _ l Hin Hb).
  Qed.
End LoadDirText.

Definition mixed_text : string :=
  "secrets/" ++ String nl ("*.bak" ++ String nl ("/README.md" ++ String nl ("docs/**/*.png" ++ String nl ""))).

Lemma bad_line_examples :
  bad_line "docs/**/*.png" = true /\ bad_line "[z-" = true /\ bad_line "a/**" = true /\ bad_line "[" = true /\
  bad_line "x[]" = true /\ bad_line "abc\" = true /\ bad_line "  [a-  " = true /\
  bad_line "# [z-" = false /\ bad_line "*.bak" = false /\ bad_line "secrets/" = false /\ bad_line "x*[" = false /\
  In "docs/**/*.png" (ignore_lines mixed_text) /\ parse_ignore gmatch_err (Some mixed_text) = None.
Proof. repeat split; try (vm_compute; reflexivity). vm_compute. tauto. Qed.

(* LoadDir without a .helmignore (or with one that has only blank lines and comments): exactly the
   built-in rule of AddDefaults applies -- dotfiles directly in templates/ are excluded, nothing else. *)
From Coq Require Import List String Ascii Bool Arith ZArith.
From Helm Require Import Values.Tree Chart.Paths Chart.Archive Chart.Files Chart.Save Chart.Load Chart.Ignore
  Chart.Utf8 Chart.Match Chart.MatchProofs Chart.IgnoreProofs.
Import ListNotations.
Local Open Scope string_scope.

Lemma parse_lines_blank pe ls :
  Forall (fun l => String.eqb (trim_space l) "" = true \/ String.prefix "#" (trim_space l) = true) ls ->
  parse_lines pe ls = Some [].
Proof.
  induction 1 as [|l ls Hl _ IH]; [reflexivity|]. cbn [parse_lines].
  assert (parse_rule pe l = Some None) as ->.
  { unfold parse_rule. destruct (String.eqb (trim_space l) "") eqn:E; [reflexivity|].
    destruct Hl as [Hl|Hl]; [congruence|now rewrite Hl]. }
  exact IH.
Qed.

Definition special_path (n : string) : bool := String.eqb n "" || String.eqb n "." || String.eqb n "./".

Lemma default_rule_only :
  (* no .helmignore: the rule set is the built-in rule alone *)
  parse_ignore gmatch_err None = Some [default_pat] /\
  (* a .helmignore with only blank lines and comments: the same *)
  (forall text,
     Forall (fun l => String.eqb (trim_space l) "" = true \/ String.prefix "#" (trim_space l) = true) (ignore_lines text) ->
     parse_ignore gmatch_err (Some text) = Some [default_pat]) /\
  (* what it excludes: the paths filepath.Match accepts for templates/.?* (files and directories alike) *)
  (forall n isdir, rules_ignore gmatch_ok [default_pat] n isdir = negb (special_path n) && gmatch_ok "templates/.?*" n) /\
  rules_ignore gmatch_ok [default_pat] "templates/.gitkeep" false = true /\
  rules_ignore gmatch_ok [default_pat] "templates/.DS_Store" false = true /\
  rules_ignore gmatch_ok [default_pat] "templates/.dir" true = true /\
  rules_ignore gmatch_ok [default_pat] "templates/." false = false /\
  rules_ignore gmatch_ok [default_pat] "templates/deployment.yaml" false = false /\
  rules_ignore gmatch_ok [default_pat] "templates/sub/.hidden" false = false /\
  rules_ignore gmatch_ok [default_pat] "charts/sub/templates/.swp" false = false /\
  rules_ignore gmatch_ok [default_pat] ".gitignore" false = false.
Proof.
  split; [vm_compute; reflexivity|]. split.
  - intros text H. unfold parse_ignore. fold (ignore_lines text). rewrite default_rule.
    now rewrite (parse_lines_blank gmatch_err _ H).
  - split.
    + intros n isdir. unfold rules_ignore, special_path. destruct (String.eqb n "" || String.eqb n "." || String.eqb n "./"); [reflexivity|].
      cbn [negb andb ignore_go default_pat p_negate p_mustdir pat_match p_kind p_rule].
      destruct (gmatch_ok "templates/.?*" n); reflexivity.
    + repeat split; vm_compute; reflexivity.
Qed.

(* PathFns: the remaining path functions the C16 code paths call, on top of Chart/Paths.v
   (slash platform: path.X and filepath.X coincide).  Definitions only; proofs in
   PathFnsProofs.v.

     path.Join / filepath.Join (variadic)      path_join_n
     filepath.Dir                              path_dir_go
     strings.HasPrefix                         has_prefix
     securejoin.hasDotDot                      has_dotdot
     path.Clean, byte by byte (lazybuf loop)   clean_bytes     (cross-check of Paths.path_clean)
     an independent "is a clean path" test     is_clean_path
     cleanJoin with the final filepath.Join    clean_join2     (Paths.clean_join appends with "/",
                                                                which differs for the root "/")  *)
From Coq Require Import List String Ascii Bool Arith.
From Helm Require Import Chart.Paths.
Import ListNotations.
Local Open Scope string_scope.

(* strings.HasPrefix(s, p) *)
Definition has_prefix (s p : string) : bool := String.prefix p s.

(* path.Join(elem...): leading empty elements are skipped, the rest is joined with "/"
   (later empty elements still contribute a separator) and cleaned; all empty -> "" *)
Fixpoint drop_empty (l : list string) : list string :=
  match l with
  | EmptyString :: t => drop_empty t
  | _ => l
  end.

Definition path_join_n (elems : list string) : string :=
  match drop_empty elems with
  | [] => EmptyString
  | l => path_clean (join "/" l)
  end.

(* the part of s up to and including its last slash ("" when there is none) *)
Fixpoint upto_last_slash (s : string) : string :=
  match s with
  | EmptyString => EmptyString
  | String a t =>
      if contains_char slash t then String a (upto_last_slash t)
      else if Ascii.eqb a slash then String a EmptyString else EmptyString
  end.

(* filepath.Dir: Clean(path[:i+1]) where i is the index of the last separator *)
Definition path_dir_go (s : string) : string := path_clean (upto_last_slash s).

(* securejoin.hasDotDot: strings.Contains("/"+path+"/", "/../") *)
Definition has_dotdot (p : string) : bool :=
  existsb (fun c => String.eqb c "..") (split_on slash p).

(* ---------- an independent statement of "p is a clean path" ----------
   ".", "/", "/g1/../gn" (n >= 1) or "../../g1/../gn" (at least one component), where the gi
   are non-empty and different from "." and "..". *)
Fixpoint drop_dotdot (l : list string) : list string :=
  match l with
  | c :: t => if String.eqb c ".." then drop_dotdot t else l
  | [] => []
  end.

Definition is_nil {A} (l : list A) : bool := match l with [] => true | _ => false end.

Definition clean_body (cs : list string) : bool :=
  match cs with
  | EmptyString :: rest => negb (is_nil rest) && forallb good_compb rest
  | _ => forallb good_compb (drop_dotdot cs)
  end.

Definition is_clean_path (p : string) : bool :=
  String.eqb p "." || String.eqb p "/" || clean_body (split_on slash p).

(* ---------- path.Clean as the Go source has it: the lazybuf loop over bytes ----------
   The output buffer is kept as the reversed list of bytes written so far ([out], so that
   out.w = length out and out.index(i) = nth from the end); [dotdot] is the length of the
   prefix that must not be backed over.  [fuel] bounds the loop by the input length. *)
Fixpoint list_of_string (s : string) : list ascii :=
  match s with EmptyString => [] | String a t => a :: list_of_string t end.

Fixpoint string_of_rev (l : list ascii) (acc : string) : string :=
  match l with [] => acc | a :: t => string_of_rev t (String a acc) end.

(* out.w--, then for out.w > dotdot && out.index(out.w) != '/' { out.w-- }: [kept] is the
   buffer after the decrement, [top] the byte just dropped from view (index(w)) *)
Fixpoint pop_go (dotdot : nat) (kept : list ascii) (top : ascii) {struct kept} : list ascii :=
  if Nat.leb (List.length kept) dotdot then kept
  else if Ascii.eqb top slash then kept
  else match kept with
       | [] => []
       | b :: k' => pop_go dotdot k' b
       end.

Definition pop_elem (out : list ascii) (dotdot : nat) : list ascii :=
  match out with
  | [] => []
  | a :: t => pop_go dotdot t a
  end.

(* copy bytes of one path element to the output: for ; r < n && path[r] != '/'; r++ *)
Fixpoint copy_elem (inp : list ascii) (out : list ascii) : list ascii * list ascii :=
  match inp with
  | [] => ([], out)
  | a :: t => if Ascii.eqb a slash then (inp, out) else copy_elem t (a :: out)
  end.

Definition at_elem_end (rest : list ascii) : bool :=
  match rest with [] => true | a :: _ => Ascii.eqb a slash end.

Fixpoint clean_loop (fuel : nat) (rooted : bool) (inp out : list ascii) (dotdot : nat) : list ascii :=
  match fuel with
  | O => out
  | S fuel' =>
      match inp with
      | [] => out
      | a :: t =>
          if Ascii.eqb a slash then clean_loop fuel' rooted t out dotdot                 (* empty path element *)
          else if Ascii.eqb a "."%char && at_elem_end t then clean_loop fuel' rooted t out dotdot   (* . element *)
          else if Ascii.eqb a "."%char &&
                  match t with b :: t2 => Ascii.eqb b "."%char && at_elem_end t2 | [] => false end then
            (* .. element: remove to last / *)
            let t2 := match t with _ :: t2 => t2 | [] => [] end in
            if Nat.ltb dotdot (List.length out) then
              clean_loop fuel' rooted t2 (pop_elem out dotdot) dotdot                   (* can backtrack *)
            else if negb rooted then
              (* cannot backtrack, but not rooted, so append .. element *)
              let out1 := if Nat.ltb 0 (List.length out) then slash :: out else out in
              let out2 := "."%char :: "."%char :: out1 in
              clean_loop fuel' rooted t2 out2 (List.length out2)
            else clean_loop fuel' rooted t2 out dotdot
          else
            (* real path element: add slash if needed, copy element *)
            let out1 := if (rooted && negb (Nat.eqb (List.length out) 1)) || (negb rooted && negb (Nat.eqb (List.length out) 0))
                        then slash :: out else out in
            let '(rest, out2) := copy_elem inp out1 in
            clean_loop fuel' rooted rest out2 dotdot
      end
  end.

Definition clean_bytes (s : string) : string :=
  match s with
  | EmptyString => "."
  | String a t =>
      let rooted := Ascii.eqb a slash in
      let inp := list_of_string s in
      let out :=
        if rooted then clean_loop (S (String.length s)) true (list_of_string t) [slash] 1
        else clean_loop (S (String.length s)) false inp [] 0 in
      match out with
      | [] => "."                                  (* Turn empty string into "." *)
      | _ => string_of_rev out EmptyString
      end
  end.

(* ---------- securejoin's lexical part and cleanJoin with the real final join ----------
   SecureJoinVFS (v0.4.1) on a root below which nothing is a symlink: refuses a root with a
   ".." component, resolves the unsafe path as if root were "/", and returns
   filepath.Join(root, filepath.Join("/", currentPath)). *)
Inductive cj_err2 := CJ2Colon | CJ2DotDot | CJ2Abs | CJ2Root | CJ2Lstat.

Definition nul : ascii := Ascii.zero.
Definition has_nul (s : string) : bool := contains_char nul s.

Definition secure_join_lex2 (root unsafe : string) : option string :=
  if has_dotdot root then None else
  let cs := clean_go true [] (split_on slash unsafe) in
  Some (path_join_n [root; "/" ++ join "/" cs]).

Definition clean_join2 (root dest : string) : cj_err2 + string :=
  if contains_char colon dest then inl CJ2Colon else
  let dest := replace_char bslash slash dest in
  if existsb (fun p => String.eqb p "..") (split_on slash dest) then inl CJ2DotDot else
  if is_abs dest then inl CJ2Abs else
  match secure_join_lex2 (path_clean root) dest with
  | None => inl CJ2Root
  | Some p =>
      (* SecureJoin calls Lstat on every component it appends: a NUL byte is EINVAL *)
      if has_nul dest then inl CJ2Lstat else inr p
  end.

(* C15_save_load_roundtrip: Save then LoadArchive on the chart trees of Chart/Wf2.v -- v1
   charts that keep dependencies and lock in requirements.* files, provenance files directly in
   charts/, dependency lists in any order.  Save writes the tree below <name>/charts/<dep>/...;
   LoadFiles groups by the first path element, sorts the names and recurses; the reloaded tree
   is the original with every dependency list in name order ([norm]). *)
From Coq Require Import List String Ascii Bool Arith ZArith Lia ZifyBool Permutation Sorted.
From Helm Require Import Common.SortUniq Values.Tree Chart.Paths Chart.PathsProofs Chart.Archive Chart.ArchiveProofs
  Chart.Files Chart.Save Chart.Load Chart.Wf Chart.Wf2 Chart.LoadProofs Chart.AgreeProofs Chart.RecProofs.
Import ListNotations.
Local Open Scope string_scope.

(* ---------- byte order on strings is a total order; the two insertion sorts ---------- *)
Lemma nat_of_ascii_inj a b : nat_of_ascii a = nat_of_ascii b -> a = b.
Proof. intros H. rewrite <- (ascii_nat_embedding a), <- (ascii_nat_embedding b). now rewrite H. Qed.

Lemma str_leb_refl a : str_leb a a = true.
Proof. induction a as [|c t IH]; simpl; auto. now rewrite Nat.ltb_irrefl. Qed.

Lemma str_leb_total : total str_leb.
Proof.
  intros a. induction a as [|c1 t1 IH]; intros [|c2 t2]; simpl; auto.
  destruct (Nat.ltb (nat_of_ascii c1) (nat_of_ascii c2)) eqn:E1; auto.
  destruct (Nat.ltb (nat_of_ascii c2) (nat_of_ascii c1)) eqn:E2; auto.
Qed.

Lemma str_leb_trans : trans str_leb.
Proof.
  intros a. induction a as [|c1 t1 IH]; intros [|c2 t2] [|c3 t3]; simpl; auto; try discriminate.
  destruct (Nat.ltb (nat_of_ascii c1) (nat_of_ascii c2)) eqn:E12;
  destruct (Nat.ltb (nat_of_ascii c2) (nat_of_ascii c1)) eqn:E21;
  destruct (Nat.ltb (nat_of_ascii c2) (nat_of_ascii c3)) eqn:E23;
  destruct (Nat.ltb (nat_of_ascii c3) (nat_of_ascii c2)) eqn:E32;
  destruct (Nat.ltb (nat_of_ascii c1) (nat_of_ascii c3)) eqn:E13;
  destruct (Nat.ltb (nat_of_ascii c3) (nat_of_ascii c1)) eqn:E31; auto; try discriminate; try lia.
  apply IH.
Qed.

Lemma str_leb_antisym a : forall b, str_leb a b = true -> str_leb b a = true -> a = b.
Proof.
  induction a as [|c1 t1 IH]; intros [|c2 t2]; simpl; auto; try discriminate.
  destruct (Nat.ltb (nat_of_ascii c1) (nat_of_ascii c2)) eqn:E1;
  destruct (Nat.ltb (nat_of_ascii c2) (nat_of_ascii c1)) eqn:E2; try discriminate; try lia.
  intros H1 H2. assert (c1 = c2) as -> by (apply nat_of_ascii_inj; lia). f_equal. now apply IH.
Qed.

Lemma insert_str_sinsert x l : insert_str x l = sinsert str_leb x l.
Proof. induction l as [|y t IH]; simpl; auto. now rewrite IH. Qed.

Lemma sort_strs_ssort l : sort_strs l = ssort str_leb l.
Proof. unfold sort_strs. induction l as [|x t IH]; simpl; auto. now rewrite IH, insert_str_sinsert. Qed.

Lemma insert_chart_sinsert x l : insert_chart x l = sinsert name_leb x l.
Proof. induction l as [|y t IH]; simpl; auto. now rewrite IH. Qed.

Lemma sort_charts_ssort l : sort_charts l = ssort name_leb l.
Proof. unfold sort_charts. induction l as [|x t IH]; simpl; auto. now rewrite IH, insert_chart_sinsert. Qed.

Lemma sort_charts_in x l : In x (sort_charts l) <-> In x l.
Proof. rewrite sort_charts_ssort. apply ssort_In. Qed.

(* sorting the names = the names of the sorted charts *)
Lemma insert_map_dname x l : insert_str (dname x) (map dname l) = map dname (insert_chart x l).
Proof. induction l as [|y t IH]; simpl; auto. unfold name_leb. destruct (str_leb (dname x) (dname y)); simpl; congruence. Qed.

Lemma sort_map_dname l : sort_strs (map dname l) = map dname (sort_charts l).
Proof.
  unfold sort_strs, sort_charts. induction l as [|x t IH]; simpl; auto. now rewrite IH, insert_map_dname.
Qed.

(* sorting commutes with a map that keeps the names, up to a relation that holds pointwise *)
Lemma Forall2_insert (R : chart -> chart -> Prop) a b l1 l2 :
  dname a = dname b -> R a b -> Forall2 (fun x y => dname x = dname y /\ R x y) l1 l2 ->
  Forall2 (fun x y => dname x = dname y /\ R x y) (insert_chart a l1) (insert_chart b l2).
Proof.
  intros Hn HR H. induction H as [|x y l1 l2 [Hxy Rxy] H IH]; simpl; [repeat constructor; auto|].
  unfold name_leb. rewrite Hn, Hxy. destruct (str_leb (dname b) (dname y)); repeat constructor; auto.
Qed.

Lemma Forall2_sort_maps (R : chart -> chart -> Prop) (f g : chart -> chart) l :
  (forall x, In x l -> dname (f x) = dname (g x) /\ R (f x) (g x)) ->
  Forall2 (fun x y => dname x = dname y /\ R x y) (sort_charts (map f l)) (sort_charts (map g l)).
Proof.
  unfold sort_charts. induction l as [|x t IH]; intros H; simpl; [constructor|].
  destruct (H x (or_introl eq_refl)) as [Hn HR].
  apply Forall2_insert; auto. apply IH. intros y Hy. apply H. now right.
Qed.

Lemma sort_charts_map_names (f : chart -> chart) l :
  (forall x, dname (f x) = dname x) -> sort_charts (map f l) = map f (sort_charts l).
Proof.
  intros Hf. unfold sort_charts. induction l as [|x t IH]; simpl; auto. rewrite IH.
  generalize (fold_right insert_chart [] t). intros l0. induction l0 as [|y u IHu]; simpl; auto.
  unfold name_leb. rewrite !Hf. destruct (str_leb (dname x) (dname y)); simpl; congruence.
Qed.

(* ---------- dedup / grouping with pairwise different (not necessarily sorted) names ---------- *)
Lemma dedup_blocks_nodup {A} (name : A -> string) (k : A -> nat) (l : list A) :
  NoDup (map name l) -> (forall x, In x l -> (k x > 0)%nat) ->
  dedup (flat_map (fun x => repeat (name x) (k x)) l) = map name l.
Proof.
  induction l as [|x l IH]; intros Hs Hk; simpl; auto.
  inversion Hs as [|? ? Hx Hl]; subst. specialize (IH Hl (fun y Hy => Hk y (or_intror Hy))).
  assert (existsb (String.eqb (name x)) (flat_map (fun y => repeat (name y) (k y)) l) = false) as Hnot.
  { clear -Hx. induction l as [|y l IH]; simpl; auto. simpl in Hx.
    rewrite existsb_app, IH, orb_false_r by tauto.
    assert (name x <> name y) as Hne by (intros E; apply Hx; now left).
    clear -Hne. induction (k y); simpl; auto. apply String.eqb_neq in Hne. now rewrite Hne. }
  pose proof (Hk x (or_introl eq_refl)) as Hpos.
  induction (k x) as [|n IHn]; [lia|]. simpl.
  destruct n as [|n].
  - simpl. rewrite Hnot. now rewrite IH.
  - assert (existsb (String.eqb (name x)) (repeat (name x) (S n) ++ flat_map (fun y => repeat (name y) (k y)) l) = true) as ->.
    { simpl. now rewrite String.eqb_refl. }
    apply IHn. lia.
Qed.

Lemma filter_block_nodup {A B} (name : A -> string) (block : A -> list (string * B)) (l : list A) d :
  In d l -> NoDup (map name l) ->
  (forall x, Forall (fun p => fst p = name x) (block x)) ->
  filter (fun p => String.eqb (fst p) (name d)) (flat_map block l) = block d.
Proof.
  intros Hin Hs Hb.
  assert (forall x, name x = name d -> filter (fun p => String.eqb (fst p) (name d)) (block x) = block x) as Hsame.
  { intros x Hx. specialize (Hb x). induction (block x) as [|p t IH]; simpl; auto. inversion Hb; subst.
    rewrite H1, Hx, String.eqb_refl. f_equal. auto. }
  assert (forall x, name x <> name d -> filter (fun p => String.eqb (fst p) (name d)) (block x) = []) as Hdiff.
  { intros x Hx. specialize (Hb x). induction (block x) as [|p t IH]; simpl; auto. inversion Hb; subst.
    rewrite H1. apply String.eqb_neq in Hx. rewrite Hx. auto. }
  induction l as [|x l IH]; [contradiction|]. simpl. rewrite filter_app.
  inversion Hs as [|? ? Hx Hl]; subst. destruct Hin as [->|Hin].
  - rewrite Hsame by reflexivity.
    assert (filter (fun p => String.eqb (fst p) (name d)) (flat_map block l) = []) as ->; [|now rewrite app_nil_r].
    clear -Hx Hdiff. induction l as [|y l IH]; simpl; auto. simpl in Hx.
    rewrite filter_app, IH, app_nil_r by tauto. apply Hdiff. intros E. apply Hx. now left.
  - rewrite (IH Hin Hl). rewrite Hdiff; auto. intros E. apply Hx. rewrite E. now apply in_map.
Qed.

(* ---------- LoadFiles' second loop on the Files list of a Wf2 chart ---------- *)
Section Loops2.
  Variable md_merge : meta -> string -> option meta.
  Variable lock_dec : string -> option (option lockv).
  Variable parse_values : string -> option val.
  Notation lstep := (load_step md_merge lock_dec parse_values).
  Notation lloop := (load_loop md_merge lock_dec parse_values).
  Notation V1FOLD := (v1_fold md_merge lock_dec).

  (* charts/<x>.prov directly in charts/: stays with the parent (fix 5eb1a12) *)
  Lemma lstep_prov om lk vs sch tpl fls sub f :
    prov_direct (f_name f) = true ->
    lstep (mkLS om lk vs sch tpl fls sub) f = inr (mkLS om lk vs sch tpl (fls ++ [f]) sub).
  Proof.
    unfold prov_direct. rewrite !andb_true_iff, negb_true_iff. intros [[Hp He] Hs].
    pose proof (prefix_split "charts/" (f_name f) Hp) as Hn. simpl String.length in Hn.
    set (X := substring 7 (String.length (f_name f) - 7) (f_name f)) in *. clearbody X.
    apply String.eqb_eq in He.
    destruct f as [n d]. simpl f_name in *. subst n.
    unfold load_step. cbn [f_name f_data].
    change (String.eqb ("charts/" ++ X) "Chart.yaml") with false.
    change (String.eqb ("charts/" ++ X) "Chart.lock") with false.
    change (String.eqb ("charts/" ++ X) "values.yaml") with false.
    change (String.eqb ("charts/" ++ X) "values.schema.json") with false.
    change (String.eqb ("charts/" ++ X) "requirements.yaml") with false.
    change (String.eqb ("charts/" ++ X) "requirements.lock") with false.
    change (String.prefix "templates/" ("charts/" ++ X)) with false.
    rewrite (prefix_app "charts/" X). cbv iota.
    replace (substring 7 (String.length ("charts/" ++ X) - 7) ("charts/" ++ X)) with X
      by (symmetry; exact (substring_app_tail "charts/" X)).
    rewrite He, Hs. reflexivity.
  Qed.

  Lemma wf_file2_cases v1 f : wf_file2 v1 f = true ->
    (v1 = true /\ f_name f = "requirements.yaml") \/ (v1 = true /\ f_name f = "requirements.lock") \/
    (reserved (f_name f) = false /\ String.prefix "templates/" (f_name f) = false /\
     (String.prefix "charts/" (f_name f) = false \/ prov_direct (f_name f) = true)).
  Proof.
    unfold wf_file2. rewrite !andb_true_iff, !orb_true_iff, !negb_true_iff. intros [[[_ Ht] Hc] Hr].
    destruct Hr as [Hr|Hr].
    - right. right. tauto.
    - rewrite andb_true_iff, orb_true_iff in Hr. destruct Hr as [-> [Hy|Hl]].
      + left. split; auto. now apply String.eqb_eq.
      + right. left. split; auto. now apply String.eqb_eq.
  Qed.

  Lemma lloop_files2 v1 vs sch tpl sub l : forall m0 lk fls m1 lk1,
    (v1 = true -> m_api m0 = "v1") ->
    forallb (wf_file2 v1) l = true ->
    V1FOLD m0 lk l = Some (m1, lk1) ->
    lloop (mkLS (Some m0) lk vs sch tpl fls sub) l = inr (mkLS (Some m1) lk1 vs sch tpl (fls ++ l) sub).
  Proof.
    induction l as [|f l IH]; intros m0 lk fls m1 lk1 Hv Hw Hf; cbn [load_loop].
    - simpl in Hf. inversion Hf; subst. now rewrite app_nil_r.
    - cbn [forallb] in Hw. apply andb_true_iff in Hw as [Hwf Hw]. cbn [v1_fold] in Hf.
      destruct (wf_file2_cases v1 f Hwf) as [[-> Hn]|[[-> Hn]|(Hr & Ht & Hc)]].
      + unfold is_req_yaml in Hf. rewrite Hn in Hf. simpl String.eqb in Hf. cbv iota in Hf.
        destruct (md_merge m0 (f_data f)) as [m'|] eqn:Em; [|discriminate].
        destruct (String.eqb (m_api m') "v1") eqn:Ea; [|discriminate].
        unfold load_step. rewrite Hn. simpl String.eqb. cbv iota. unfold meta_or_new. rewrite Em.
        unfold is_v1. rewrite Ea. rewrite (IH m' lk (fls ++ [f])%list m1 lk1); auto.
        * now rewrite <- app_assoc.
        * intros _. now apply String.eqb_eq.
      + unfold is_req_yaml, is_req_lock in Hf. rewrite Hn in Hf. simpl String.eqb in Hf. cbv iota in Hf.
        destruct (lock_dec (f_data f)) as [l'|] eqn:El; [|discriminate].
        unfold load_step. rewrite Hn. simpl String.eqb. cbv iota. rewrite El. unfold meta_or_new, is_v1.
        rewrite (Hv eq_refl). simpl String.eqb. cbv iota.
        rewrite (IH m0 l' (fls ++ [f])%list m1 lk1); auto. now rewrite <- app_assoc.
      + assert (is_req_yaml f = false /\ is_req_lock f = false) as [Hy Hl].
        { unfold is_req_yaml, is_req_lock. unfold reserved in Hr. rewrite !orb_false_iff in Hr. tauto. }
        rewrite Hy, Hl in Hf.
        assert (lstep (mkLS (Some m0) lk vs sch tpl fls sub) f = inr (mkLS (Some m0) lk vs sch tpl (fls ++ [f]) sub)) as ->.
        { destruct Hc as [Hc|Hc]; [now apply lstep_file|now apply lstep_prov]. }
        rewrite (IH m0 lk (fls ++ [f])%list m1 lk1); auto. now rewrite <- app_assoc.
  Qed.

  (* without requirements.* files nothing happens to metadata and lock *)
  Lemma v1_fold_v2 l : forall m lk, forallb (wf_file2 false) l = true -> V1FOLD m lk l = Some (m, lk).
  Proof.
    induction l as [|f l IH]; intros m lk H; [reflexivity|]. cbn [forallb] in H. apply andb_true_iff in H as [Hf H].
    destruct (wf_file2_cases false f Hf) as [[? _]|[[? _]|(Hr & _)]]; try discriminate.
    cbn [v1_fold]. unfold is_req_yaml, is_req_lock. unfold reserved in Hr. rewrite !orb_false_iff in Hr.
    destruct Hr as ((((_ & _) & _) & ->) & ->). now apply IH.
  Qed.
End Loops2.

Section Rt2.
  Variable md_enc : meta -> string.
  Variable lock_enc : lockv -> string.
  Variable json_valid : string -> bool.
  Variable sanitize : meta -> meta.
  Variable is_semver : string -> bool.
  Variable rest_valid : meta -> bool.
  Variable md_merge : meta -> string -> option meta.
  Variable lock_dec : string -> option (option lockv).
  Variable parse_values : string -> option val.
  Variable untar : string -> tstream.
  Variable maxt maxf : Z.

  Hypothesis md_rt : forall m, validate sanitize is_semver rest_valid m = Some m ->
                               md_merge empty_meta (md_enc m) = Some m.
  Hypothesis md_nobom : forall m, has_bom (md_enc m) = false.
  Hypothesis lock_rt : forall l, lock_dec (lock_enc l) = Some (Some l).
  Hypothesis lock_nobom : forall l, has_bom (lock_enc l) = false.

  (* the metadata Save marshals into Chart.yaml: without the dependencies for apiVersion v1 *)
  Definition yaml_meta (m : meta) : meta := if String.eqb (m_api m) "v1" then strip_deps m else m.
  Definition md_enc2 (m : meta) : string := md_enc (yaml_meta m).

  Notation SP := (saved_pairs md_enc2 lock_enc).
  Notation TP := (tree_pairs md_enc2 lock_enc).
  Notation LOADED := (loaded_files md_enc2 lock_enc).
  Notation WF2 := (wf2_chart md_merge lock_dec parse_values json_valid sanitize is_semver rest_valid).
  Notation WT2 := (wf2_tree md_merge lock_dec parse_values json_valid sanitize is_semver rest_valid).
  Notation LFILES := (load_files md_merge lock_dec parse_values untar sanitize is_semver rest_valid maxt maxf).
  Notation lstep := (load_step md_merge lock_dec parse_values).
  Notation lloop := (load_loop md_merge lock_dec parse_values).
  Notation DF := (dep_files md_enc2 lock_enc).
  Notation ST := (sub_table md_enc2 lock_enc).

  (* the chart LoadFiles rebuilds: Raw holds every file of the subtree, dependencies by name *)
  Fixpoint canon2 (c : chart) : chart :=
    Chart (c_meta c) (c_lock c) (map mk2 (TP c)) (c_values c) (c_schema c)
          (c_templates c) (c_files c) (sort_charts (map canon2 (c_deps c))).

  Lemma canon2_eq c :
    canon2 c = Chart (c_meta c) (c_lock c) (map mk2 (TP c)) (c_values c) (c_schema c)
                     (c_templates c) (c_files c) (sort_charts (map canon2 (c_deps c))).
  Proof. destruct c; reflexivity. Qed.

  Lemma canon2_name c : dname (canon2 c) = dname c.
  Proof. rewrite canon2_eq. reflexivity. Qed.

  Lemma wf2_files c : WF2 c -> exists v1, forallb (wf_file2 v1) (c_files c) = true.
  Proof. intros [_ [[_ H]|(_ & _ & _ & H)] _ _ _ _ _]; eauto. Qed.

  Lemma wf2_yaml_valid c : WF2 c ->
    validate sanitize is_semver rest_valid (yaml_meta (c_meta c)) = Some (yaml_meta (c_meta c)).
  Proof.
    intros [Hv [[Ha _]|(Ha & Hs & _)] _ _ _ _ _]; unfold yaml_meta; rewrite Ha; simpl; assumption.
  Qed.

  (* the chart's own files through the two loops of LoadFiles *)
  Lemma own_loops2 c extra :
    WF2 (own c) ->
    Forall (fun f => String.eqb (f_name f) "Chart.yaml" = false) extra ->
    load_meta md_merge None (LOADED c ++ extra) = inr (Some (yaml_meta (c_meta c))) /\
    lloop (mkLS (Some (yaml_meta (c_meta c))) None None None [] [] []) (LOADED c) =
      inr (mkLS (Some (c_meta c)) (c_lock c) (c_values c) (c_schema c) (c_templates c) (c_files c) []).
  Proof.
    intros Hwf Hextra. pose proof (wf2_yaml_valid _ Hwf) as Hyv. destruct (wf2_files _ Hwf) as [v1f Hfl].
    destruct Hwf as [Hval Hapi Hname Hvals Hsch Htpl _].
    unfold own in *. cbn [c_meta c_lock c_values c_schema c_templates c_files c_deps] in *.
    change (raw_values (Chart (c_meta c) (c_lock c) (c_raw c) (c_values c) (c_schema c) (c_templates c) (c_files c) [])) with (raw_values c) in Hvals.
    destruct (validate_inv _ _ _ _ _ Hval) as (_ & Hapine & _ & _).
    assert (Forall (fun f => String.prefix "templates/" (f_name f) = true) (c_templates c)) as HT.
    { apply Forall_forall. intros f Hf. rewrite forallb_forall in Htpl. now destruct (wf_template_props f (Htpl f Hf)). }
    assert (Forall (fun f => String.eqb (f_name f) "Chart.yaml" = false) (c_files c)) as HFc.
    { apply Forall_forall. intros f Hf. rewrite forallb_forall in Hfl.
      destruct (wf_file2_cases v1f f (Hfl f Hf)) as [[_ ->]|[[_ ->]|(Hr & _)]]; try reflexivity.
      now apply reserved_not_chartyaml. }
    set (rest := (map mk2 (lock_seg lock_enc c) ++ map (fun f => mkFile "values.yaml" (f_data f)) (raw_values c) ++
                  map mk2 (schema_seg c) ++ c_templates c ++ c_files c)%list).
    assert (Forall (fun f => String.eqb (f_name f) "Chart.yaml" = false) rest) as Hrest.
    { unfold rest. repeat (apply Forall_app; split); auto.
      - unfold lock_seg. destruct (String.eqb (m_api (c_meta c)) "v2"); [|constructor].
        destruct (c_lock c); repeat constructor.
      - apply Forall_forall. intros f Hf. apply in_map_iff in Hf as (g & <- & _). reflexivity.
      - unfold schema_seg. destruct (c_schema c); repeat constructor.
      - eapply Forall_impl; [|exact HT]. intros f Hf. simpl in Hf.
        destruct (String.eqb (f_name f) "Chart.yaml") eqn:E; auto.
        apply String.eqb_eq in E. rewrite E in Hf. discriminate. }
    rewrite (loaded_files_eq md_enc2 lock_enc c). fold rest. split.
    - cbn [app load_meta f_name f_data]. simpl String.eqb. cbv iota.
      unfold meta_or_new, md_enc2. rewrite (md_rt _ Hyv).
      assert (default_api (yaml_meta (c_meta c)) = yaml_meta (c_meta c)) as ->.
      { unfold default_api. assert (m_api (yaml_meta (c_meta c)) = m_api (c_meta c)) as ->.
        { unfold yaml_meta. destruct (String.eqb (m_api (c_meta c)) "v1"); reflexivity. }
        apply String.eqb_neq in Hapine. now rewrite Hapine. }
      apply load_meta_other. apply Forall_app. split; assumption.
    - cbn [load_loop]. rewrite lstep_chartyaml by reflexivity.
      unfold rest. rewrite lloop_app.
      destruct Hapi as [[Ha Hw]|(Ha & Hsv & Hfold & Hw)].
      + (* v2: Chart.lock *)
        assert (yaml_meta (c_meta c) = c_meta c) as -> by (unfold yaml_meta; rewrite Ha; reflexivity).
        rewrite (lloop_lock lock_enc md_merge lock_dec parse_values lock_rt c _ _ _ _ _ _ (or_introl Ha)). cbv beta iota. rewrite lloop_app.
        rewrite (lloop_values md_merge lock_dec parse_values _ _ _ _ _ _ (raw_values c) None (c_values c) Hvals). cbv beta iota. rewrite lloop_app.
        rewrite (lloop_schema md_merge lock_dec parse_values c). cbv beta iota. rewrite lloop_app.
        rewrite (lloop_templates md_merge lock_dec parse_values _ _ _ _ _ _ (c_templates c) [] HT). cbv beta iota.
        rewrite (lloop_files2 md_merge lock_dec parse_values false _ _ _ _ (c_files c) (c_meta c) (c_lock c) [] (c_meta c) (c_lock c)); auto.
        * discriminate.
        * now apply v1_fold_v2.
      + (* v1: no Chart.lock; metadata and lock from requirements.* *)
        assert (yaml_meta (c_meta c) = strip_deps (c_meta c)) as -> by (unfold yaml_meta; rewrite Ha; reflexivity).
        assert (lock_seg lock_enc c = []) as -> by (unfold lock_seg; rewrite Ha; reflexivity).
        cbn [map load_loop]. rewrite lloop_app.
        rewrite (lloop_values md_merge lock_dec parse_values _ _ _ _ _ _ (raw_values c) None (c_values c) Hvals). cbv beta iota. rewrite lloop_app.
        rewrite (lloop_schema md_merge lock_dec parse_values c). cbv beta iota. rewrite lloop_app.
        rewrite (lloop_templates md_merge lock_dec parse_values _ _ _ _ _ _ (c_templates c) [] HT). cbv beta iota.
        rewrite (lloop_files2 md_merge lock_dec parse_values true _ _ _ _ (c_files c) (strip_deps (c_meta c)) None [] (c_meta c) (c_lock c)); auto.
  Qed.

  Lemma lloop_deps2 om lk vs sch tpl fls deps : forall sub,
    Forall (fun d => contains_char slash (dname d) = false) deps ->
    lloop (mkLS om lk vs sch tpl fls sub) (map mk2 (DF deps)) =
    inr (mkLS om lk vs sch tpl fls (sub ++ ST deps)).
  Proof. intros sub H. now apply lloop_deps. Qed.

  (* one level of LoadFiles, given the dependencies load *)
  Lemma level2 fuel c :
    WF2 (own c) ->
    NoDup (map dname (c_deps c)) ->
    Forall (fun d => dep_name_ok (dname d)) (c_deps c) ->
    Forall (fun d => contains_char slash (dname d) = false) (c_deps c) ->
    (forall d, In d (c_deps c) -> LFILES fuel (map mk2 (TP d)) = inr (canon2 d)) ->
    LFILES (S fuel) (map mk2 (TP c)) = inr (canon2 c).
  Proof.
    intros Hwf Hnd Hok Hns IH.
    destruct (own_loops2 c (map mk2 (DF (c_deps c))) Hwf (dep_files_not_chartyaml _ _ _)) as [Hmeta Hloop].
    assert (validate sanitize is_semver rest_valid (c_meta c) = Some (c_meta c)) as Hval by (now destruct Hwf).
    rewrite canon2_eq, (tree_pairs_eq md_enc2 lock_enc c), map_app.
    change (map mk2 (SP c)) with (LOADED c).
    cbn [load_files]. rewrite Hmeta. rewrite lloop_app, Hloop. cbv beta iota.
    rewrite (lloop_deps2 _ _ _ _ _ _ (c_deps c) [] Hns). cbn [app].
    cbn [ls_meta ls_lock ls_values ls_schema ls_templates ls_files ls_sub]. rewrite Hval.
    rewrite (sub_table_names md_enc2 lock_enc).
    rewrite (dedup_blocks_nodup dname (fun d => List.length (TP d)) (c_deps c) Hnd).
    2:{ intros d _. pose proof (tree_pairs_nonempty md_enc2 lock_enc d). destruct (TP d); [congruence|simpl; lia]. }
    rewrite sort_map_dname.
    rewrite (subs_loop_map _ dname canon2 (sort_charts (c_deps c))).
    { rewrite (sort_charts_map_names canon2 (c_deps c) canon2_name). reflexivity. }
    intros d Hd. apply (proj1 (sort_charts_in d _)) in Hd. cbv beta.
    rewrite Forall_forall in Hok, Hns. destruct (Hok d Hd) as [Hfc Hext]. rewrite Hfc, Hext.
    unfold sub_files, sub_table.
    rewrite (filter_block_nodup dname (fun d => map (sub_entry (dname d)) (TP d)) (c_deps c) d Hd Hnd).
    2:{ intros x. apply Forall_forall. intros p Hp. apply in_map_iff in Hp as (q & <- & _). reflexivity. }
    rewrite (cut_first_block (dname d) (TP d) (Hns d Hd)).
    rewrite (IH d Hd). reflexivity.
  Qed.

  Lemma wf2_tree_cname c : WT2 c -> wf_cname (dname c) = true.
  Proof. intros H. inversion H as [c' Hwf _ _ _]; subst. now destruct Hwf. Qed.

  Lemma wf2_tree_noslash c : WT2 c -> contains_char slash (dname c) = false.
  Proof. intros H. now destruct (wf_cname_props _ (wf2_tree_cname c H)) as (_ & Hs & _). Qed.

  (* LoadFiles on the files of a whole tree *)
  Lemma load_tree2 : forall n c, (depth c <= n)%nat -> WT2 c -> LFILES n (map mk2 (TP c)) = inr (canon2 c).
  Proof.
    induction n as [|n IH]; intros c Hd Hwf.
    - destruct c; simpl in Hd; lia.
    - inversion Hwf as [c' Hown Hnd Hok Hdeps]; subst.
      apply level2; auto.
      + apply Forall_forall. intros d Hin. rewrite Forall_forall in Hdeps. now apply wf2_tree_noslash, Hdeps.
      + intros d Hin. apply IH.
        * pose proof (depth_dep c d Hin). lia.
        * rewrite Forall_forall in Hdeps. now apply Hdeps.
  Qed.

  (* ---------- the reloaded tree is the original with the dependencies in name order ---------- *)
  Lemma raw_values_own2 c : WF2 (own c) -> filter is_values_file (LOADED c) = raw_values c.
  Proof.
    intros Hwf. destruct (wf2_files _ Hwf) as [v1f Hfl]. destruct Hwf as [_ _ _ _ _ Htpl _].
    cbn [own c_templates c_files] in *.
    rewrite (loaded_files_eq md_enc2 lock_enc c). cbn [filter is_values_file f_name]. simpl String.eqb. cbv iota.
    rewrite !filter_app.
    assert (filter is_values_file (map mk2 (lock_seg lock_enc c)) = []) as ->.
    { unfold lock_seg. destruct (String.eqb (m_api (c_meta c)) "v2"); [|reflexivity]. destruct (c_lock c); reflexivity. }
    assert (filter is_values_file (map mk2 (schema_seg c)) = []) as ->.
    { unfold schema_seg. destruct (c_schema c); reflexivity. }
    assert (filter is_values_file (c_templates c) = []) as ->.
    { rewrite forallb_forall in Htpl. clear -Htpl. induction (c_templates c) as [|f l IH]; auto.
      simpl. destruct (wf_template_props f (Htpl f (or_introl eq_refl))) as (_ & Hp).
      unfold is_values_file at 1. destruct (String.eqb (f_name f) "values.yaml") eqn:E.
      - apply String.eqb_eq in E. rewrite E in Hp. discriminate.
      - apply IH. intros x Hx. apply Htpl. now right. }
    assert (filter is_values_file (c_files c) = []) as ->.
    { rewrite forallb_forall in Hfl. clear -Hfl. induction (c_files c) as [|f l IH]; auto.
      simpl. unfold is_values_file at 1.
      assert (String.eqb (f_name f) "values.yaml" = false) as ->.
      { destruct (wf_file2_cases v1f f (Hfl f (or_introl eq_refl))) as [[_ ->]|[[_ ->]|(Hr & _)]]; try reflexivity.
        unfold reserved in Hr. rewrite !orb_false_iff in Hr. tauto. }
      apply IH. intros x Hx. apply Hfl. now right. }
    simpl. rewrite !app_nil_r.
    unfold raw_values. induction (c_raw c) as [|f l IH]; simpl; auto.
    destruct (is_values_file f) eqn:E; simpl; auto.
    unfold is_values_file in E. apply String.eqb_eq in E. rewrite IH.
    destruct f as [n d]; simpl in *; subst. reflexivity.
  Qed.

  Lemma raw_values_canon2 c : WF2 (own c) -> raw_values (canon2 c) = raw_values c.
  Proof.
    intros Hwf. rewrite canon2_eq. unfold raw_values at 1. cbn [c_raw].
    rewrite (tree_pairs_eq md_enc2 lock_enc c), map_app, filter_app, (filter_values_nested md_enc2 lock_enc), app_nil_r.
    change (map mk2 (SP c)) with (LOADED c). now apply raw_values_own2.
  Qed.

  Lemma norm_eq c :
    norm c = Chart (c_meta c) (c_lock c) (c_raw c) (c_values c) (c_schema c) (c_templates c) (c_files c)
                   (sort_charts (map norm (c_deps c))).
  Proof. destruct c; reflexivity. Qed.

  Lemma same_tree_canon2 : forall n c, (depth c <= n)%nat -> WT2 c -> same_tree (norm c) (canon2 c).
  Proof.
    induction n as [|n IH]; intros c Hd Hwf.
    - destruct c; simpl in Hd; lia.
    - inversion Hwf as [c' Hown _ _ Hdeps]; subst.
      pose proof (raw_values_canon2 c Hown) as Hrv.
      rewrite canon2_eq in *. rewrite norm_eq.
      constructor; cbn [c_meta c_lock c_values c_schema c_templates c_files c_deps]; auto.
      assert (Forall2 (fun x y => dname x = dname y /\ same_tree x y)
                      (sort_charts (map norm (c_deps c))) (sort_charts (map canon2 (c_deps c)))) as HF.
      { apply Forall2_sort_maps. intros d Hin. split.
        - rewrite canon2_name, norm_eq. reflexivity.
        - apply IH; [pose proof (depth_dep c d Hin); lia|]. rewrite Forall_forall in Hdeps. now apply Hdeps. }
      clear -HF. induction HF as [|x y l1 l2 [_ H] _ IHF]; constructor; auto.
  Qed.

  (* ---------- names and contents of the whole tree ---------- *)
  Lemma wf_file2_fname v1 f : wf_file2 v1 f = true -> wf_fname (f_name f) = true.
  Proof. unfold wf_file2. rewrite !andb_true_iff. tauto. Qed.

  Lemma own_names_ok2 c : WF2 (own c) -> Forall (fun p => wf_fname (fst p) = true) (SP c).
  Proof.
    intros Hwf. destruct (wf2_files _ Hwf) as [v1f Hfl]. destruct Hwf as [_ _ _ _ _ Htpl _].
    cbn [own c_templates c_files] in *.
    unfold saved_pairs, lock_seg, schema_seg. repeat (apply Forall_app; split).
    - repeat constructor.
    - destruct (String.eqb (m_api (c_meta c)) "v2"); [|constructor]. destruct (c_lock c); repeat constructor.
    - apply Forall_forall. intros p Hp. apply in_map_iff in Hp as (f & <- & _). reflexivity.
    - destruct (c_schema c); repeat constructor.
    - apply Forall_forall. intros p Hp. apply in_map_iff in Hp as (f & <- & Hf).
      rewrite forallb_forall in Htpl. now destruct (wf_template_props f (Htpl f Hf)).
    - apply Forall_forall. intros p Hp. apply in_map_iff in Hp as (f & <- & Hf).
      rewrite forallb_forall in Hfl. apply (wf_file2_fname v1f). now apply Hfl.
  Qed.

  Lemma tree_names_ok2 : forall c, WT2 c -> Forall (fun p => wf_fname (fst p) = true) (TP c).
  Proof.
    apply (chart_tree_ind (fun c => WT2 c -> Forall (fun p => wf_fname (fst p) = true) (TP c))).
    intros c IH Hwf. inversion Hwf as [c' Hown _ _ Hdeps]; subst.
    rewrite (tree_pairs_eq md_enc2 lock_enc c). apply Forall_app. split; [now apply own_names_ok2|].
    unfold dep_files. apply Forall_forall. intros p Hp. apply in_flat_map in Hp as (d & Hd & Hp).
    apply in_map_iff in Hp as (q & <- & Hq). rewrite Forall_forall in Hdeps.
    unfold nest. cbn [fst]. apply wf_fname_nest.
    - apply wf2_tree_cname. now apply Hdeps.
    - specialize (IH d Hd (Hdeps d Hd)). rewrite Forall_forall in IH. now apply IH.
  Qed.

  Lemma md_nobom2 : forall m, has_bom (md_enc2 m) = false.
  Proof. intros m. apply md_nobom. Qed.

  Lemma tree_nobom2 : forall c, nobom_tree c -> Forall (fun p => has_bom (snd p) = false) (TP c).
  Proof. exact (tree_nobom md_enc2 lock_enc md_nobom2 lock_nobom). Qed.

  (* LoadArchiveFiles on the entries of a whole tree *)
  Notation TE := (tree_entries md_enc2 lock_enc).

  Lemma archive_of_tree2 c :
    WT2 c -> nobom_tree c -> fits maxt maxf (TE c) ->
    load_archive_files maxt maxf (mkTS false (TE c) false) = inr (map mk2 (TP c)).
  Proof.
    intros Hwf Hnb [Hf1 Hf2].
    pose proof (tree_names_ok2 c Hwf) as Hn. pose proof (tree_nobom2 c Hnb) as Hb.
    pose proof (wf2_tree_cname c Hwf) as Hcn.
    unfold load_archive_files, load_archive_trace. cbn [ts_gzerr ts_entries ts_err].
    set (L := map (fun p => (dname c ++ "/" ++ fst p, fst p, snd p)) (TP c)).
    assert (TE c = map (fun x => let '(name, fn, body) := x in tar_entry name body) L) as Hes
      by (unfold tree_entries, L; rewrite map_map; reflexivity).
    pose proof (load_go_saved maxf L maxt) as HL. rewrite <- Hes in HL.
    assert (fst (load_go maxf maxt (TE c)) = inr (map mk2 (TP c))) as HL'.
    { rewrite HL.
      - unfold L. rewrite map_map. f_equal. apply map_ext_in. intros p Hp. unfold mk2.
        rewrite Forall_forall in Hb. now rewrite trim_bom_nobom by (apply Hb; assumption).
      - unfold L. apply Forall_forall. intros [[name fn] body] Hx. apply in_map_iff in Hx as (p & Hx & Hin).
        inversion Hx; subst. split.
        + apply saved_name; auto. rewrite Forall_forall in Hn. now apply Hn.
        + rewrite Forall_forall in Hf1.
          change (slen (snd p)) with (te_size (tar_entry (dname c ++ "/" ++ fst p) (snd p))).
          apply Hf1. unfold tree_entries. apply in_map_iff. exists p. split; [reflexivity|assumption].
      - assert (map te_size (TE c) = map (fun x : string * string * string => slen (snd x)) L) as <-; [|exact Hf2].
        unfold tree_entries, L. rewrite !map_map. reflexivity. }
    destruct (load_go maxf maxt (TE c)) as [res rs]. simpl in HL'. subst res. simpl.
    pose proof (tree_pairs_nonempty md_enc2 lock_enc c). destruct (TP c); [congruence|reflexivity].
  Qed.

  (* ---------- Save on a whole tree ---------- *)
  Notation WTC := (write_tar_contents md_enc lock_enc json_valid).
  Notation EAT := (entries_at md_enc2 lock_enc).

  Local Opaque path_join.
  Lemma save_tree2 : forall c, WT2 c -> forall pre, pre = "" \/ good_path pre ->
    WTC pre c = Some (EAT (base_of pre (dname c)) c).
  Proof.
    apply (chart_tree_ind (fun c => WT2 c -> forall pre, pre = "" \/ good_path pre ->
              WTC pre c = Some (EAT (base_of pre (dname c)) c))).
    intros c IH Hwf pre Hpre. inversion Hwf as [c' Hown Hnd Hok Hdeps]; subst.
    pose proof (wf2_tree_cname c Hwf) as Hcn.
    destruct (base_ok pre (dname c) Hpre Hcn) as [HB HBg]. set (B := base_of pre (dname c)) in *.
    destruct (wf2_files _ Hown) as [v1f Hfl].
    destruct Hown as [Hval Hapi Hname Hvals Hsch Htpl _].
    cbn [own c_meta c_lock c_values c_schema c_templates c_files] in *.
    destruct (validate_inv _ _ _ _ _ Hval) as (_ & _ & Hbase & _).
    assert (forall fn, wf_fname fn = true -> path_join B fn = B ++ "/" ++ fn) as Hj.
    { intros fn Hf. now destruct (path_join_good B fn HBg (good_path_fname fn Hf)). }
    assert (path_join B "charts" = B ++ "/charts" /\ good_path (B ++ "/charts")) as [HBc HBcg].
    { apply path_join_good; auto. unfold good_path. simpl. repeat constructor; discriminate. }
    unfold entries_at. rewrite (tree_pairs_eq md_enc2 lock_enc c), map_app.
    destruct c as [m lk raw vs sch tpl fls deps]. cbn [write_tar_contents c_meta c_lock c_raw c_schema c_templates c_files c_deps] in *.
    unfold dname in HB, B, Hcn. cbn [c_meta] in HB, B, Hcn.
    rewrite Hbase. cbn [negb]. cbv iota. rewrite HB. fold B.
    rewrite !Hj by reflexivity.
    assert (match sch with
            | Some s => if json_valid s then Some [tar_entry (B ++ "/" ++ "values.schema.json") s] else None
            | None => Some []
            end = Some (map (fun p => tar_entry (B ++ "/" ++ fst p) (snd p))
                            match sch with Some s => [("values.schema.json", s)] | None => [] end)) as ->.
    { destruct sch as [s|]; [|reflexivity]. rewrite Hsch. reflexivity. }
    rewrite (map_entries_base B tpl HBg).
    2:{ apply Forall_forall. intros f Hf. rewrite forallb_forall in Htpl. now destruct (wf_template_props f (Htpl f Hf)). }
    rewrite (map_entries_base B fls HBg).
    2:{ apply Forall_forall. intros f Hf. rewrite forallb_forall in Hfl. apply (wf_file2_fname v1f). now apply Hfl. }
    change (B ++ "/" ++ "charts") with (B ++ "/charts").
    rewrite (deps_loop_flat _ (fun d => EAT ((B ++ "/charts") ++ "/" ++ dname d) d) deps).
    2:{ intros d Hd. rewrite Forall_forall in Hdeps.
        rewrite (IH d Hd (Hdeps d Hd) (B ++ "/charts") (or_intror HBcg)).
        unfold base_of. destruct (B ++ "/charts") eqn:E; [|reflexivity].
        destruct B; discriminate. }
    f_equal. unfold saved_pairs, lock_seg, schema_seg, raw_values, md_enc2, yaml_meta.
    cbn [c_meta c_lock c_raw c_schema c_templates c_files]. rewrite !map_app, !map_map.
    cbn [app map fst snd]. f_equal. rewrite <- !app_assoc.
    apply (f_equal2 (@app tentry)); [destruct (String.eqb (m_api m) "v2"); [destruct lk|]; reflexivity|].
    apply (f_equal2 (@app tentry)); [reflexivity|].
    apply (f_equal2 (@app tentry)); [reflexivity|].
    apply (f_equal2 (@app tentry)); [reflexivity|].
    apply (f_equal2 (@app tentry)); [reflexivity|].
    unfold dep_files, entries_at. clear. induction deps as [|d deps IHd]; cbn [flat_map map]; auto.
    rewrite map_app, IHd. f_equal. rewrite map_map. apply map_ext. intros p. unfold nest. cbn [fst snd].
    f_equal. now rewrite !append_assoc.
  Qed.
  Local Transparent path_join.

  (* Save on a well-formed tree: exactly the entries of the tree below <name>/ *)
  Lemma save_wf2 c : WT2 c -> save md_enc lock_enc json_valid sanitize is_semver rest_valid c = Some (TE c).
  Proof.
    intros Hwf. unfold save. inversion Hwf as [c' Hown _ _ _]; subst. destruct Hown as [Hval _ _ _ _ _ _].
    cbn [own c_meta] in Hval. rewrite Hval.
    assert (set_meta c (c_meta c) = c) as -> by (destruct c; reflexivity).
    rewrite (save_tree2 c Hwf "" (or_introl eq_refl)). reflexivity.
  Qed.

  Lemma save_filename_wf2 c : WT2 c ->
    save_filename sanitize is_semver rest_valid c = Some (m_name (c_meta c) ++ "-" ++ m_version (c_meta c) ++ ".tgz").
  Proof.
    intros Hwf. unfold save_filename. inversion Hwf as [c' Hown _ _ _]; subst. destruct Hown as [Hval _ _ _ _ _ _].
    cbn [own c_meta] in Hval. now rewrite Hval.
  Qed.

  (* C15_save_load_roundtrip *)
  Theorem save_load_roundtrip c :
    WT2 c -> nobom_tree c ->
    exists es, save md_enc lock_enc json_valid sanitize is_semver rest_valid c = Some es /\
      (fits maxt maxf es -> forall fuel, (depth c <= fuel)%nat -> exists c',
         load_archive md_merge lock_dec parse_values untar sanitize is_semver rest_valid maxt maxf fuel
                      (mkTS false es false) = inr c' /\
         same_tree (norm c) c').
  Proof.
    intros Hwf Hnb. exists (TE c). split.
    - unfold save. inversion Hwf as [c' Hown _ _ _]; subst. destruct Hown as [Hval _ _ _ _ _ _].
      cbn [own c_meta] in Hval. rewrite Hval.
      assert (set_meta c (c_meta c) = c) as -> by (destruct c; reflexivity).
      rewrite (save_tree2 c Hwf "" (or_introl eq_refl)). reflexivity.
    - intros Hfit fuel Hfuel. exists (canon2 c). split.
      + unfold load_archive. rewrite (archive_of_tree2 c Hwf Hnb Hfit). now apply load_tree2.
      + now apply (same_tree_canon2 (depth c)).
  Qed.
End Rt2.

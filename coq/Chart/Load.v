(* pkg/chart/v2/loader: LoadFiles (load.go), LoadArchive (archive.go), LoadDir
   (directory.go), as they are.  Definitions only. *)
From Coq Require Import List String Ascii Bool Arith ZArith.
From Helm Require Import Values.Tree Chart.Paths Chart.Archive Chart.Files Chart.Save.
Import ListNotations.
Local Open Scope string_scope.

Inductive lerr :=
| LMeta            (* cannot load Chart.yaml *)
| LLock            (* cannot load Chart.lock / requirements.lock *)
| LValues          (* cannot load values.yaml *)
| LReq             (* cannot load requirements.yaml *)
| LMissing         (* Chart.yaml file is missing *)
| LInvalid         (* Metadata.Validate failed *)
| LSub             (* error unpacking subchart ... *)
| LArchive (e : aerr)
| LDirTooBig       (* LoadDir: file larger than MaxDecompressedFileSize *)
| LIgnore          (* LoadDir: .helmignore does not parse *)
| LFuel.           (* model artefact: nesting deeper than the fuel; never a normal result *)

Definition lerr_eqb (a b : lerr) : bool :=
  match a, b with
  | LMeta, LMeta | LLock, LLock | LValues, LValues | LReq, LReq | LMissing, LMissing
  | LInvalid, LInvalid | LSub, LSub | LDirTooBig, LDirTooBig | LIgnore, LIgnore | LFuel, LFuel => true
  | LArchive x, LArchive y => aerr_eqb x y
  | _, _ => false
  end.

(* the accumulator of LoadFiles' second loop *)
Record lstate := mkLS {
  ls_meta : option meta;
  ls_lock : option lockv;
  ls_values : option val;
  ls_schema : option string;
  ls_templates : list file;               (* in order *)
  ls_files : list file;                   (* in order *)
  ls_sub : list (string * file) }.        (* (subchart name, file with the charts/ prefix cut), in order *)

(* the loop over the sorted subchart names: stops at the first error, skips the names
   [load_sub] answers with None (names starting with '_' or '.') *)
Fixpoint subs_loop (load_sub : string -> lerr + option chart) (l : list string) : lerr + list chart :=
  match l with
  | [] => inr []
  | n :: t =>
      match load_sub n with
      | inl e => inl e
      | inr None => subs_loop load_sub t
      | inr (Some sc) =>
          match subs_loop load_sub t with
          | inl e => inl e
          | inr r => inr (sc :: r)
          end
      end
  end.

Section Load.
  (* third-party *)
  Variable md_merge : meta -> string -> option meta.   (* yaml.Unmarshal(data, metadata) onto an existing value *)
  Variable lock_dec : string -> option (option lockv). (* yaml.Unmarshal(data, &c.Lock): error, or the pointer left in c.Lock (None = nil) *)
  Variable parse_values : string -> option val.        (* LoadValues *)
  Variable untar : string -> tstream.                  (* gzip + archive/tar on a nested .tgz *)
  Variable sanitize : meta -> meta.
  Variable is_semver : string -> bool.
  Variable rest_valid : meta -> bool.
  (* the limits in force *)
  Variable maxt maxf : Z.

  Definition meta_or_new (om : option meta) : meta := match om with Some m => m | None => empty_meta end.

  Definition default_api (m : meta) : meta := if String.eqb (m_api m) "" then set_api m "v1" else m.

  (* first loop: every Chart.yaml is unmarshalled onto the same Metadata value *)
  Fixpoint load_meta (om : option meta) (files : list file) : lerr + option meta :=
    match files with
    | [] => inr om
    | f :: t =>
        if String.eqb (f_name f) "Chart.yaml" then
          match md_merge (meta_or_new om) (f_data f) with
          | None => inl LMeta
          | Some m => load_meta (Some (default_api m)) t
          end
        else load_meta om t
    end.

  Definition is_v1 (om : option meta) : bool :=
    match om with Some m => String.eqb (m_api m) "v1" | None => false end.

  (* strings.SplitN(s, "/", 2) *)
  Definition split2 (s : string) : string * option string :=
    match split_on slash s with
    | [] => (s, None)
    | [x] => (x, None)
    | x :: rest => (x, Some (join "/" rest))
    end.

  (* one iteration of the second loop.  (An empty file reaches LoadFiles as an empty, non-nil
     slice from both readers: bytes.Buffer.ReadFrom allocates before it reads.) *)
  Definition load_step (st : lstate) (f : file) : lerr + lstate :=
    let n := f_name f in
    let '(mkLS om lk vs sch tpl fls sub) := st in
    if String.eqb n "Chart.yaml" then inr st
    else if String.eqb n "Chart.lock" then
      match lock_dec (f_data f) with
      | None => inl LLock
      | Some l => inr (mkLS om l vs sch tpl fls sub)
      end
    else if String.eqb n "values.yaml" then
      match parse_values (f_data f) with
      | None => inl LValues
      | Some v => inr (mkLS om lk (Some v) sch tpl fls sub)
      end
    else if String.eqb n "values.schema.json" then
      inr (mkLS om lk vs (Some (f_data f)) tpl fls sub)
    else if String.eqb n "requirements.yaml" then
      match md_merge (meta_or_new om) (f_data f) with
      | None => inl LReq
      | Some m =>
          let om' := Some m in
          inr (mkLS om' lk vs sch tpl (if is_v1 om' then fls ++ [f] else fls)%list sub)
      end
    else if String.eqb n "requirements.lock" then
      match lock_dec (f_data f) with
      | None => inl LLock
      | Some l =>
          let om' := Some (meta_or_new om) in
          inr (mkLS om' l vs sch tpl (if is_v1 om' then fls ++ [f] else fls)%list sub)
      end
    else if String.prefix "templates/" n then
      inr (mkLS om lk vs sch (tpl ++ [f])%list fls sub)
    else if String.prefix "charts/" n then
      let fname := substring 7 (String.length n - 7) n in
      (* after fix fd..: only provenance files directly in charts/ stay with the parent *)
      if String.eqb (path_ext n) ".prov" && negb (contains_char slash fname) then
        inr (mkLS om lk vs sch tpl (fls ++ [f])%list sub)
      else
        let cname := fst (split2 fname) in
        inr (mkLS om lk vs sch tpl fls (sub ++ [(cname, mkFile fname (f_data f))])%list)
    else inr (mkLS om lk vs sch tpl (fls ++ [f])%list sub).

  Fixpoint load_loop (st : lstate) (files : list file) : lerr + lstate :=
    match files with
    | [] => inr st
    | f :: t =>
        match load_step st f with
        | inl e => inl e
        | inr st' => load_loop st' t
        end
    end.

  (* the files of one subchart, first path element cut; entries without a second element dropped *)
  Definition sub_files (name : string) (sub : list (string * file)) : list file :=
    map snd (filter (fun p => String.eqb (fst p) name) sub).

  Fixpoint cut_first (files : list file) : list file :=
    match files with
    | [] => []
    | f :: t =>
        match snd (split2 (f_name f)) with
        | Some rest => mkFile rest (f_data f) :: cut_first t
        | None => cut_first t
        end
    end.

  Definition underscore : ascii := "_"%char.
  Definition dot : ascii := "."%char.

  Fixpoint load_files (fuel : nat) (files : list file) {struct fuel} : lerr + chart :=
    match fuel with
    | O => inl LFuel
    | S fuel' =>
        match load_meta None files with
        | inl e => inl e
        | inr om =>
            match load_loop (mkLS om None None None [] [] []) files with
            | inl e => inl e
            | inr st =>
                match ls_meta st with
                | None => inl LMissing
                | Some m0 =>
                    match validate sanitize is_semver rest_valid m0 with
                    | None => inl LInvalid
                    | Some m =>
                        let names := sort_strs (dedup (map fst (ls_sub st))) in
                        let load_sub (n : string) : lerr + option chart :=
                          if first_char_in n [underscore; dot] then inr None
                          else
                            let fs := sub_files n (ls_sub st) in
                            if String.eqb (path_ext n) ".tgz" then
                              match fs with
                              | [] => inl LSub
                              | f :: _ =>
                                  if negb (String.eqb (f_name f) n) then inl LSub
                                  else match load_archive_files maxt maxf (untar (f_data f)) with
                                       | inl _ => inl LSub
                                       | inr afs => match load_files fuel' afs with
                                                    | inl LFuel => inl LFuel
                                                    | inl _ => inl LSub
                                                    | inr sc => inr (Some sc)
                                                    end
                                       end
                              end
                            else match load_files fuel' (cut_first fs) with
                                 | inl LFuel => inl LFuel
                                 | inl _ => inl LSub
                                 | inr sc => inr (Some sc)
                                 end in
                        match subs_loop load_sub names with
                        | inl e => inl e
                        | inr deps =>
                            inr (Chart m (ls_lock st) files (ls_values st) (ls_schema st)
                                       (ls_templates st) (ls_files st) deps)
                        end
                    end
                end
            end
        end
    end.

  (* LoadArchive = LoadFiles after LoadArchiveFiles *)
  Definition load_archive (fuel : nat) (s : tstream) : lerr + chart :=
    match load_archive_files maxt maxf s with
    | inl e => inl (LArchive e)
    | inr fs => load_files fuel fs
    end.

  (* ---- LoadDir ---- *)
  (* fi.Size() > MaxDecompressedFileSize *)
  Definition dir_file_over_limit (size lim : Z) : bool := (size >? lim)%Z.
  (* one regular file of the directory tree: path relative to the chart directory, content *)
  Variable ignored : string -> bool -> bool.   (* rules.Ignore(path, isDir), .helmignore + defaults *)

  (* proper ancestor directories of a relative path: "a/b/c" -> ["a"; "a/b"] *)
  Fixpoint prefixes (acc : string) (comps : list string) : list string :=
    match comps with
    | [] | [_] => []
    | c :: t => let d := match acc with EmptyString => c | _ => acc ++ "/" ++ c end in d :: prefixes d t
    end.
  Definition ancestors (n : string) : list string := prefixes "" (split_on slash n).

  (* the walk skips a file that is ignored itself or lies below an ignored directory *)
  Definition eff_ignored (n : string) : bool :=
    ignored n false || existsb (fun d => ignored d true) (ancestors n).

  Fixpoint dir_files (walk : list file) : lerr + list file :=
    match walk with
    | [] => inr []
    | f :: t =>
        if eff_ignored (f_name f) then dir_files t
        else if dir_file_over_limit (slen (f_data f)) maxf then inl LDirTooBig
        else match dir_files t with
             | inl e => inl e
             | inr r => inr (mkFile (f_name f) (trim_bom (f_data f)) :: r)
             end
    end.

  (* [walk]: the regular files in the order sympath.Walk visits them *)
  Definition load_dir_walk (fuel : nat) (walk : list file) : lerr + chart :=
    match dir_files walk with
    | inl e => inl e
    | inr fs => load_files fuel fs
    end.
End Load.

(* the order of filepath.Walk: names sorted inside each directory, depth first; i.e. paths
   compared component by component *)
Fixpoint comps_leb (a b : list string) : bool :=
  match a, b with
  | [], _ => true
  | _ :: _, [] => false
  | x :: ta, y :: tb => if String.eqb x y then comps_leb ta tb else str_leb x y
  end.
Definition walk_leb (a b : file) : bool := comps_leb (split_on slash (f_name a)) (split_on slash (f_name b)).
Fixpoint insert_walk (x : file) (l : list file) : list file :=
  match l with
  | [] => [x]
  | y :: t => if walk_leb x y then x :: l else y :: insert_walk x t
  end.
Definition walk_sort (l : list file) : list file := fold_right insert_walk [] l.

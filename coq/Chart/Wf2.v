(* Well-formed chart trees, second version: what C15_save_load_roundtrip and
   C15_savedir_load_roundtrip quantify over.  Compared with Chart/Wf.v:
     - apiVersion v1 charts may carry dependencies and a lock; they keep them where the v1
       format has them, in requirements.yaml / requirements.lock among the files, and the
       metadata / lock must be what LoadFiles reconstructs from those files;
     - provenance files directly in charts/ (charts/x-1.2.3.tgz.prov) are allowed among the files;
     - the dependencies may be listed in any order (pairwise different names); the reloaded
       tree lists them by name ([norm]).
   Definitions only. *)
From Coq Require Import List String Ascii Bool Arith ZArith.
From Helm Require Import Values.Tree Chart.Paths Chart.Archive Chart.Files Chart.Save Chart.Load Chart.Wf.
Import ListNotations.
Local Open Scope string_scope.

Definition is_req_yaml (f : file) : bool := String.eqb (f_name f) "requirements.yaml".
Definition is_req_lock (f : file) : bool := String.eqb (f_name f) "requirements.lock".

(* charts/<one element>.prov: stays with the parent chart (fix 5eb1a12) *)
Definition prov_direct (n : string) : bool :=
  String.prefix "charts/" n && String.eqb (path_ext n) ".prov" &&
  negb (contains_char slash (substring 7 (String.length n - 7) n)).

(* a file of the Files list: clean relative name, not below templates/, below charts/ only as a
   direct provenance file, a reserved name only in a v1 chart and only requirements.* *)
Definition wf_file2 (v1 : bool) (f : file) : bool :=
  let n := f_name f in
  wf_fname n && negb (String.prefix "templates/" n) &&
  (negb (String.prefix "charts/" n) || prov_direct n) &&
  (negb (reserved n) || (v1 && (is_req_yaml f || is_req_lock f))).

(* byte order on chart names; insertion sort of a dependency list by name (the order in which
   LoadFiles returns the dependencies) *)
Definition name_leb (a b : chart) : bool := str_leb (dname a) (dname b).
Fixpoint insert_chart (x : chart) (l : list chart) : list chart :=
  match l with
  | [] => [x]
  | y :: t => if name_leb x y then x :: l else y :: insert_chart x t
  end.
Definition sort_charts (l : list chart) : list chart := fold_right insert_chart [] l.

(* the tree with every dependency list in name order *)
Fixpoint norm (c : chart) : chart :=
  Chart (c_meta c) (c_lock c) (c_raw c) (c_values c) (c_schema c) (c_templates c) (c_files c)
        (sort_charts (map norm (c_deps c))).

Section Wf2.
  Variable md_merge : meta -> string -> option meta.
  Variable lock_dec : string -> option (option lockv).
  Variable parse_values : string -> option val.
  Variable json_valid : string -> bool.
  Variable sanitize : meta -> meta.
  Variable is_semver : string -> bool.
  Variable rest_valid : meta -> bool.

  (* what the second loop of LoadFiles makes of the requirements.* files of a v1 chart, in file
     order: requirements.yaml is unmarshalled onto the metadata (which must stay v1),
     requirements.lock replaces the lock *)
  Fixpoint v1_fold (m : meta) (lk : option lockv) (l : list file) : option (meta * option lockv) :=
    match l with
    | [] => Some (m, lk)
    | f :: t =>
        if is_req_yaml f then
          match md_merge m (f_data f) with
          | Some m' => if String.eqb (m_api m') "v1" then v1_fold m' lk t else None
          | None => None
          end
        else if is_req_lock f then
          match lock_dec (f_data f) with
          | Some l' => v1_fold m l' t
          | None => None
          end
        else v1_fold m lk t
    end.

  Record wf2_chart (c : chart) : Prop := {
    w2_valid : validate sanitize is_semver rest_valid (c_meta c) = Some (c_meta c);
    w2_api :
      (m_api (c_meta c) = "v2" /\ forallb (wf_file2 false) (c_files c) = true) \/
      (m_api (c_meta c) = "v1" /\
       (* Chart.yaml of a v1 chart is written without the dependencies; they come back from requirements.yaml *)
       validate sanitize is_semver rest_valid (strip_deps (c_meta c)) = Some (strip_deps (c_meta c)) /\
       v1_fold (strip_deps (c_meta c)) None (c_files c) = Some (c_meta c, c_lock c) /\
       forallb (wf_file2 true) (c_files c) = true);
    w2_name : wf_cname (m_name (c_meta c)) = true;
    w2_values : vals_fold parse_values None (raw_values c) = Some (c_values c);
    w2_schema : match c_schema c with Some s => json_valid s = true | None => True end;
    w2_templates : forallb wf_template (c_templates c) = true;
    w2_nodeps : c_deps c = [] }.

  (* every node well-formed on its own; dependency names usable as directory names and
     pairwise different *)
  Inductive wf2_tree : chart -> Prop :=
  | Wf2Tree c :
      wf2_chart (own c) ->
      NoDup (map dname (c_deps c)) ->
      Forall (fun d => dep_name_ok (dname d)) (c_deps c) ->
      Forall wf2_tree (c_deps c) ->
      wf2_tree c.

End Wf2.

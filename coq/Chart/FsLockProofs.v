(* Proofs about writeLock on the nested file-system model (Chart/FsTree.v), and the
   non-vacuity / refutation examples of the nested model. *)
From Coq Require Import List String Ascii Bool Arith ZArith Lia.
From Helm Require Import Chart.Paths Chart.PathsProofs Chart.PathFns Chart.PathFnsProofs
  Chart.Archive Chart.Lock Chart.FsTree Chart.FsTreeProofs.
Import ListNotations.
Local Open Scope string_scope.

(* ---------- the follow flag only matters when the last component is a symlink ---------- *)
Definition not_at_link (w : wres) : Prop := forall l tg, w <> WAt l (TLink tg).

Lemma walk1_follow_same t : forall comps cur,
  not_at_link (walk1 t cur comps false) -> walk1 t cur comps true = walk1 t cur comps false.
Proof.
  induction comps as [|c rest IH]; intros cur H; simpl in *; auto.
  destruct (tget t cur) as [[d| es |tg]|]; auto.
  destruct (String.eqb c "" || String.eqb c "."); auto.
  destruct (String.eqb c ".."); auto.
  destruct (alookup c es) as [[d| es' |tg]|]; auto.
  destruct rest; auto. exfalso. eapply H; reflexivity.
Qed.

Lemma walk_unfold fuel t cur comps follow :
  walk fuel t cur comps follow =
  match walk1 t cur comps follow with
  | WLink dir tg rest =>
      match fuel with
      | O => WErr ELOOP
      | S f => if String.eqb tg "" then WErr ENOENT
               else walk f t (if is_abs tg then [] else dir) (split_on slash tg ++ rest) follow
      end
  | r => r
  end.
Proof. destruct fuel; reflexivity. Qed.

Lemma walk_follow_same t : forall fuel cur comps,
  not_at_link (walk fuel t cur comps false) -> walk fuel t cur comps true = walk fuel t cur comps false.
Proof.
  induction fuel as [|f IH]; intros cur comps H; rewrite !walk_unfold in *.
  - assert (not_at_link (walk1 t cur comps false)) as H1.
    { intros l tg E. rewrite E in H. eapply H; reflexivity. }
    now rewrite (walk1_follow_same t comps cur H1).
  - assert (not_at_link (walk1 t cur comps false)) as H1.
    { intros l tg E. rewrite E in H. eapply H; reflexivity. }
    rewrite (walk1_follow_same t comps cur H1).
    destruct (walk1 t cur comps false) as [| |d tg rest|]; auto.
    destruct (String.eqb tg ""); auto.
Qed.

(* ---------- what a resolution answers is what the tree holds there ---------- *)
Lemma walk1_sound t : forall comps cur follow,
  match walk1 t cur comps follow with
  | WAt loc n => tget t loc = Some n
  | WNew p c => (exists es, tget t p = Some (TDir es)) /\ tget t (p ++ [c]) = None
  | _ => True
  end.
Proof.
  induction comps as [|c rest IH]; intros cur follow; simpl.
  - destruct (tget t cur) eqn:E; auto.
  - destruct (tget t cur) as [[d| es |tg]|] eqn:Ecur; auto.
    destruct (String.eqb c "" || String.eqb c "."); [apply IH|].
    destruct (String.eqb c ".."); [apply IH|].
    assert (tget t (cur ++ [c]) = alookup c es) as Hsn by (rewrite tget_snoc, Ecur; reflexivity).
    destruct (alookup c es) as [[d| es' |tg]|] eqn:Ea; try apply IH.
    + destruct rest; [destruct follow|]; simpl; auto.
    + destruct rest; simpl; eauto.
Qed.

Lemma walk_sound t : forall fuel cur comps follow,
  match walk fuel t cur comps follow with
  | WAt loc n => tget t loc = Some n
  | WNew p c => (exists es, tget t p = Some (TDir es)) /\ tget t (p ++ [c]) = None
  | _ => True
  end.
Proof.
  induction fuel as [|f IH]; intros cur comps follow; rewrite walk_unfold;
    pose proof (walk1_sound t comps cur follow) as H1;
    destruct (walk1 t cur comps follow) as [| |d tg rest|]; auto.
  destruct (String.eqb tg ""); auto. apply IH.
Qed.

(* ---------- the last component of the path is the last component of the location ---------- *)
Definition ends_with (c : string) (w : wres) : Prop :=
  match w with
  | WAt loc _ => exists D, loc = (D ++ [c])%list
  | WNew _ c' => c' = c
  | WLink _ _ rest => exists rest', rest = (rest' ++ [c])%list
  | WErr _ => True
  end.

Lemma walk1_last t c : good_comp c -> forall l cur, ends_with c (walk1 t cur (l ++ [c]) false).
Proof.
  intros Hc. destruct (good_comp_eqbs c Hc) as [E1 E2].
  induction l as [|x l IH]; intros cur; simpl.
  - destruct (tget t cur) as [[d| es |tg]|]; simpl; auto. rewrite E1, E2.
    destruct (alookup c es) as [[d| es' |tg]|] eqn:Ea; simpl; eauto.
    + destruct (tget t (cur ++ [c])); simpl; eauto.
    + destruct (tget t (cur ++ [c])); simpl; eauto.
  - destruct (tget t cur) as [[d| es |tg]|]; simpl; auto.
    destruct (String.eqb x "" || String.eqb x "."); [apply IH|].
    destruct (String.eqb x ".."); [apply IH|].
    destruct (alookup x es) as [[d| es' |tg]|]; try apply IH.
    + destruct (l ++ [c])%list eqn:E; [destruct l; discriminate|]. simpl. rewrite <- E. eauto.
    + destruct (l ++ [c])%list eqn:E; [destruct l; discriminate|]. exact I.
Qed.

Lemma walk_last t c : good_comp c -> forall fuel l cur, ends_with c (walk fuel t cur (l ++ [c]) false).
Proof.
  intros Hc. induction fuel as [|f IH]; intros l cur; rewrite walk_unfold;
    pose proof (walk1_last t c Hc l cur) as H1;
    destruct (walk1 t cur (l ++ [c]) false) as [| |d tg rest|]; auto; simpl; auto.
  destruct (String.eqb tg ""); simpl; auto. destruct H1 as (rest' & ->).
  rewrite app_assoc. apply IH.
Qed.

(* filepath.Join(chartpath, name) ends in name *)
Lemma path_join_last a name : good_comp name -> noslash name ->
  exists l, split_on slash (path_join a name) = (l ++ [name])%list.
Proof.
  intros Hg Hn. assert (name <> "") as Hne by now apply good_nonempty.
  assert (split_on slash name = [name]) as Hs by now apply split_on_nosep.
  unfold path_join. destruct a as [|x a']; destruct name as [|y n'] eqn:En; try congruence.
  - rewrite <- En in *. exists []. rewrite path_clean_good; [exact Hs|]. rewrite Hs. constructor; auto.
  - rewrite <- En in *. set (a := String x a'). set (p := a ++ "/" ++ name).
    assert (p <> "") as Hp by discriminate.
    assert (is_abs p = is_abs a) as Ha by reflexivity.
    assert (clean_comps p = (clean_comps a ++ [name])%list) as Hc.
    { unfold clean_comps. rewrite Ha. unfold p. change (a ++ "/" ++ name) with (a ++ String slash name).
      rewrite split_on_concat, clean_go_app, Hs, clean_go_good by (constructor; auto).
      now rewrite rev_involutive. }
    rewrite path_clean_render by assumption. rewrite Hc, Ha.
    pose proof (clean_comps_noslash a) as Hna.
    assert (Forall noslash (clean_comps a ++ [name])) as Hall by (apply Forall_app; split; auto).
    unfold render. destruct (is_abs a).
    + exists ("" :: clean_comps a).
      change ("/" ++ join "/" (clean_comps a ++ [name])) with (String slash (join "/" (clean_comps a ++ [name]))).
      rewrite split_on_slash_cons. change "/" with (sep1 slash).
      rewrite split_join; auto. destruct (clean_comps a); discriminate.
    + exists (clean_comps a).
      assert ((clean_comps a ++ [name])%list <> []) as Hne2 by (destruct (clean_comps a); discriminate).
      assert (forall l : list string, l <> [] -> match l with [] => "." | _ => join "/" l end = join "/" l) as Hr
        by (intros [|? ?] ?; [congruence|reflexivity]).
      rewrite Hr by assumption. change "/" with (sep1 slash). rewrite split_join; auto.
Qed.

Lemma lock_name_good legacy : good_comp (lock_name legacy) /\ noslash (lock_name legacy).
Proof. destruct legacy; (split; [repeat split; discriminate|reflexivity]). Qed.

(* writeLock on the nested model, for every tree, working directory and chart path: when it
   succeeds it has put a regular file at ONE location, D/<lock name>, where D/<lock name> is
   what lstat (no following of the last component) resolves the destination path to; that
   location held nothing or a regular file.  Symlinks in the chart path itself (the user's
   choice) are followed by the kernel; a symlink at the lock file's own name never is. *)
Theorem write_lock_t_confined t cwd chartpath legacy data t' :
  write_lock_t t cwd chartpath legacy data = (t', None) ->
  exists D,
    let loc := (D ++ [lock_name legacy])%list in
    (tget t loc = None \/ exists old, tget t loc = Some (TFile old)) /\
    tset t loc (TFile data) = Some t' /\
    (k_walk t cwd (path_join chartpath (lock_name legacy)) false = WNew D (lock_name legacy) \/
     exists old, k_walk t cwd (path_join chartpath (lock_name legacy)) false = WAt loc (TFile old)).
Proof.
  unfold write_lock_t. set (name := lock_name legacy). set (dest := path_join chartpath name).
  destruct (lock_name_good legacy) as [Hg Hn]. fold name in Hg, Hn.
  destruct (path_join_last chartpath name Hg Hn) as (l & Hl). fold dest in Hl.
  unfold k_walk. destruct (String.eqb dest ""); [discriminate|]. destruct (has_nul dest); [discriminate|].
  rewrite Hl. set (cur := if is_abs dest then [] else cwd).
  pose proof (walk_last t name Hg max_links l cur) as Hlast.
  pose proof (walk_sound t max_links cur (l ++ [name]) false) as Hsound.
  pose proof (walk_follow_same t max_links cur (l ++ [name])) as Hsame.
  destruct (walk max_links t cur (l ++ [name]) false) as [loc n|p c|d tg r|e] eqn:Ew.
  - destruct n as [old| es |tg]; [| |discriminate].
    + rewrite Hsame by (intros ? ? ?; discriminate). simpl. simpl in Hlast. destruct Hlast as (D & ->).
      unfold put. destruct (tset t (D ++ [name]) (TFile data)) as [t2|] eqn:Es; [|discriminate].
      intros H. inversion H; subst t2. exists D. cbv zeta. repeat split; eauto.
    + rewrite Hsame by (intros ? ? ?; discriminate). simpl. discriminate.
  - rewrite Hsame by (intros ? ? ?; discriminate). simpl. simpl in Hlast. subst c.
    destruct Hsound as [_ Hnone].
    unfold put. destruct (tset t (p ++ [name]) (TFile data)) as [t2|] eqn:Es; [|discriminate].
    intros H. inversion H; subst t2. exists p. cbv zeta. repeat split; eauto.
  - discriminate.
  - destruct e; try discriminate. rewrite Hsame by (intros ? ? ?; discriminate). simpl. discriminate.
Qed.

(* hence everything that is not the lock file location looks the same afterwards *)
Corollary write_lock_t_outside t cwd chartpath legacy data t' :
  write_lock_t t cwd chartpath legacy data = (t', None) ->
  exists D, forall q, prefixb (D ++ [lock_name legacy]) q = false ->
                      shallow_of (tget t' q) = shallow_of (tget t q).
Proof.
  intros H. destruct (write_lock_t_confined _ _ _ _ _ _ H) as (D & _ & Hs & _).
  exists D. intros q Hq. eapply tset_shallow_outside; eauto.
Qed.

(* a failed writeLock leaves the tree alone *)
Lemma write_lock_t_failed t cwd chartpath legacy data t' e :
  write_lock_t t cwd chartpath legacy data = (t', Some e) -> t' = t.
Proof.
  unfold write_lock_t.
  assert (forall w, match write_at t w true data with
                    | (t2, None) => True | (t2, Some _) => t2 = t end) as Hw.
  { intros w. unfold write_at, put. destruct w as [loc [old| |]| p c | |]; simpl; auto;
      match goal with |- context [tset ?a ?b ?c] => destruct (tset a b c) end; auto. }
  set (w := write_at t (k_walk t cwd (path_join chartpath (lock_name legacy)) true) true data).
  assert (forall t2 o, (let (t3, o0) := w in match o0 with Some e0 => (t3, Some (LWrite e0)) | None => (t3, None) end)
                       = (t2, Some o) -> t2 = t) as Hfin.
  { intros t2 o. specialize (Hw (k_walk t cwd (path_join chartpath (lock_name legacy)) true)). fold w in Hw.
    destruct w as [t3 [e0|]]; intros H; inversion H; subst; auto. }
  destruct (k_walk t cwd (path_join chartpath (lock_name legacy)) false) as [loc [| |]| | |[]];
    intros H; try (inversion H; reflexivity); eapply Hfin; eauto.
Qed.

(* ---------- examples on a tree with nested, chained, looping and dangling links ---------- *)
Definition ex_tree : tnode :=
  TDir [("sb", TDir [("outside", TDir [("target", TFile "canary"); ("dir", TDir [("keep", TFile "keep")])]);
                     ("work", TDir [("dest", TDir [("mychart", TLink "../../outside/dir");
                                                   ("abs", TLink "/sb/outside");
                                                   ("loop", TLink "loop");
                                                   ("a", TDir [("up", TLink "../../../outside/target");
                                                               ("chain", TLink "../abs/dir")]);
                                                   ("dang", TLink "/sb/outside/new");
                                                   ("chart", TDir [("Chart.lock", TLink "../../../outside/target")]);
                                                   ("linked", TLink "chart")])])])].

Definition ex_dest : list string := ["sb"; "work"; "dest"].

Lemma ex_dest_ok : Forall good_comp ex_dest /\ nolinks ex_tree ex_dest /\ exists es, tget ex_tree ex_dest = Some (TDir es).
Proof.
  split; [repeat constructor; discriminate|]. split; [|simpl; eauto].
  intros q Hq tg. destruct q as [|a [|b [|c [|d q]]]]; simpl in Hq;
    repeat (apply andb_true_iff in Hq as [? Hq]);
    repeat match goal with H : String.eqb _ _ = true |- _ => apply String.eqb_eq in H; subst end;
    simpl; try discriminate.
Qed.

(* the kernel model does follow the planted links out of the destination ... *)
Lemma ex_kernel_follows :
  c_walk ex_tree (ex_dest ++ ["mychart"; "keep"]) true = WAt ["sb"; "outside"; "dir"; "keep"] (TFile "keep") /\
  c_walk ex_tree (ex_dest ++ ["a"; "chain"; "keep"]) true = WAt ["sb"; "outside"; "dir"; "keep"] (TFile "keep") /\
  c_walk ex_tree (ex_dest ++ ["loop"; "x"]) true = WErr ELOOP /\
  c_walk ex_tree (ex_dest ++ ["dang"]) true = WNew ["sb"; "outside"] "new".
Proof. repeat split; vm_compute; reflexivity. Qed.

(* ... SecureJoin keeps every one of them inside ... *)
Lemma ex_secure_join :
  secure_join ex_tree ex_dest "mychart/keep" = inr (ex_dest ++ ["outside"; "dir"; "keep"])%list /\
  secure_join ex_tree ex_dest "a/chain/x" = inr (ex_dest ++ ["sb"; "outside"; "dir"; "x"])%list /\
  secure_join ex_tree ex_dest "abs/../../x" = inr (ex_dest ++ ["x"])%list /\
  secure_join ex_tree ex_dest "loop/x" = inl ELOOP /\
  secure_join ex_tree ex_dest "../../outside/target" = inr (ex_dest ++ ["outside"; "target"])%list.
Proof. repeat split; vm_compute; reflexivity. Qed.

(* ... and Expand with a lexical filepath.Join in place of SecureJoin would write through
   the planted chart-directory link (this is what the theorem excludes for the real code) *)
Definition expand_file_lexical (t : tnode) (chartdir : list string) (f : file) : xres :=
  let out := (chartdir ++ split_on slash (f_name f))%list in
  match mkdir_all t (removelast out) with
  | (t1, Some e) => (t1, Some (XKernel e))
  | (t1, None) => lift (k_write t1 out true (f_data f))
  end.

Lemma ex_lexical_join_escapes :
  let t' := fst (expand_file_lexical ex_tree (ex_dest ++ ["mychart"]) (mkFile "keep" "overwritten")) in
  tget t' ["sb"; "outside"; "dir"; "keep"] = Some (TFile "overwritten") /\
  tget ex_tree ["sb"; "outside"; "dir"; "keep"] = Some (TFile "keep").
Proof. split; vm_compute; reflexivity. Qed.

Lemma ex_expand_inside :
  let r := expand_model ex_tree ex_dest "mychart" [mkFile "Chart.yaml" "name: mychart"; mkFile "keep" "new"] in
  snd r = None /\
  tget (fst r) (ex_dest ++ ["outside"; "dir"; "keep"]) = Some (TFile "new") /\
  tget (fst r) ["sb"; "outside"; "dir"; "keep"] = Some (TFile "keep").
Proof. repeat split; vm_compute; reflexivity. Qed.

(* writeLock: a link at the lock file's own name is refused even when the chart directory is
   reached through a link; the version before fix 2970e48 wrote through it *)
Lemma ex_lock :
  snd (write_lock_t ex_tree [] "/sb/work/dest/chart" false "lock") = Some LSymlink /\
  snd (write_lock_t ex_tree [] "/sb/work/dest/linked" false "lock") = Some LSymlink /\
  (let r := write_lock_t_prefix ex_tree [] "/sb/work/dest/linked" false "lock" in
   snd r = None /\ tget (fst r) ["sb"; "outside"; "target"] = Some (TFile "lock")) /\
  (let r := write_lock_t ex_tree [] "/sb/work/dest/mychart" false "lock" in
   snd r = None /\ tget (fst r) ["sb"; "outside"; "dir"; "Chart.lock"] = Some (TFile "lock")).
Proof. repeat split; vm_compute; reflexivity. Qed.

(* Proofs about Save and the loaders (C15). *)
From Coq Require Import List String Ascii Bool Arith ZArith Lia ZifyBool.
From Helm Require Import Values.Tree Chart.Paths Chart.PathsProofs Chart.Archive Chart.ArchiveProofs
  Chart.Files Chart.Save Chart.Load Chart.Wf.
Import ListNotations.
Local Open Scope string_scope.

(* ---------- names: Save's join followed by the archive reader's strip is the identity ---------- *)
Lemma forallb_good l : forallb good_compb l = true -> Forall good_comp l.
Proof.
  induction l; simpl; intros H; constructor.
  - apply good_compb_iff. now apply andb_true_iff in H as [H _].
  - apply IHl. now apply andb_true_iff in H as [_ H].
Qed.

Lemma wf_fname_props n : wf_fname n = true ->
  Forall good_comp (split_on slash n) /\ contains_char bslash n = false /\
  drive_prefix n = false /\ String.prefix ".." n = false.
Proof.
  unfold wf_fname. rewrite !andb_true_iff, !negb_true_iff. intros [[[H1 H2] H3] H4].
  repeat split; auto. now apply forallb_good.
Qed.

Lemma wf_cname_props n : wf_cname n = true ->
  good_comp n /\ contains_char slash n = false /\ contains_char bslash n = false /\ n <> "Chart.yaml".
Proof.
  unfold wf_cname. rewrite !andb_true_iff, !negb_true_iff. intros [[[H1 H2] H3] H4].
  repeat split; auto; try (now apply good_compb_iff in H1; destruct H1 as (?&?&?)).
  now apply String.eqb_neq.
Qed.

Lemma good_not_empty n : Forall good_comp (split_on slash n) -> n <> "".
Proof. intros H ->. simpl in H. inversion H as [|? ? (Hx & _) _]. congruence. Qed.

Lemma saved_name cn fn :
  wf_cname cn = true -> wf_fname fn = true ->
  path_join (path_join "" cn) fn = cn ++ "/" ++ fn /\ arch_name (cn ++ "/" ++ fn) = inr fn.
Proof.
  intros Hc Hf. destruct (wf_cname_props cn Hc) as (Hg & Hns & Hnb & Hny).
  destruct (wf_fname_props fn Hf) as (Hfg & Hfb & Hfd & Hfp).
  assert (Forall good_comp (split_on slash cn)) as Hcs by (rewrite split_on_nosep by assumption; now constructor).
  assert (cn <> "") as Hcne by (now apply good_not_empty).
  assert (fn <> "") as Hfne by (now apply good_not_empty).
  assert (Forall good_comp (split_on slash (cn ++ "/" ++ fn))) as Hall.
  { change (cn ++ "/" ++ fn) with (cn ++ String slash fn). rewrite split_on_concat.
    apply Forall_app. split; assumption. }
  split.
  - assert (path_join "" cn = cn) as ->.
    { unfold path_join. destruct cn; [congruence|]. now apply path_clean_good. }
    unfold path_join. destruct cn; [congruence|]. destruct fn; [congruence|].
    now apply path_clean_good.
  - unfold arch_name.
    assert (contains_char bslash (cn ++ "/" ++ fn) = false) as ->.
    { rewrite !contains_char_app, Hnb, Hfb. reflexivity. }
    change (cn ++ "/" ++ fn) with (cn ++ String slash fn).
    rewrite split_on_sep by assumption.
    change (String slash "") with (sep1 slash). rewrite join_split, replace_char_id.
    assert (is_abs fn = false) as -> by (now destruct (clean_comps_good fn Hfg)).
    rewrite (path_clean_good fn Hfg).
    assert (String.eqb fn "." = false) as ->.
    { apply String.eqb_neq. intros ->. simpl in Hfg. inversion Hfg as [|? ? (_ & Hd & _) _]. congruence. }
    rewrite Hfp, Hfd.
    apply String.eqb_neq in Hny. rewrite Hny. reflexivity.
Qed.

(* ---------- the archive loop on entries written by writeToTar ---------- *)
Local Open Scope Z_scope.

Lemma substring_all s : substring 0 (String.length s) s = s.
Proof. induction s; simpl; congruence. Qed.

Lemma tar_entry_plain name body :
  te_isdir (tar_entry name body) || te_xheader (tar_entry name body) = false.
Proof. reflexivity. Qed.

Lemma trim_bom_nobom s : has_bom s = false -> trim_bom s = s.
Proof. unfold has_bom, trim_bom. now intros ->. Qed.

(* entries (name_i, body_i) whose names strip to fn_i, within the budget *)
Lemma load_go_saved maxf : forall (l : list (string * string * string)) rem,
  Forall (fun x => let '(name, fn, body) := x in arch_name name = inr fn /\ slen body <= maxf) l ->
  fold_right Z.add 0 (map (fun x => slen (snd x)) l) < rem ->
  fst (load_go maxf rem (map (fun x => let '(name, fn, body) := x in tar_entry name body) l))
  = inr (map (fun x => let '(name, fn, body) := x in mkFile fn (trim_bom body)) l).
Proof.
  induction l as [|[[name fn] body] l IH]; intros rem HF Hsum; simpl map.
  - reflexivity.
  - inversion HF as [|? ? Hhd HF']; subst. simpl in Hhd. destruct Hhd as [Hn Hsz]. simpl in Hsum.
    pose proof (slen_nonneg body) as Hb.
    assert (0 <= fold_right Z.add 0 (map (fun x => slen (snd x)) l)) as Hpos.
    { clear. induction l as [|x l IH]; simpl; [lia|]. pose proof (slen_nonneg (snd x)). lia. }
    simpl load_go. rewrite Hn. cbn [te_size te_data te_rerr]. unfold entry_over_remaining, entry_over_file_limit, short_read, budget_exhausted.
    assert ((slen body >? rem) = false) as -> by lia.
    assert ((slen body >? maxf) = false) as -> by lia.
    assert (Z.min (slen body) rem = slen body) as -> by lia.
    assert (((slen body <? slen body) || (rem - slen body <=? 0)) = false) as -> by lia.
    specialize (IH (rem - slen body) HF' ltac:(lia)).
    destruct (load_go maxf (rem - slen body) _) as [res rs] eqn:E. simpl in IH. subst res. simpl.
    unfold slen. rewrite Nat2Z.id, substring_all. reflexivity.
Qed.

(* ---------- LoadFiles' loops on the segments Save writes ---------- *)
Local Open Scope string_scope.

Lemma prefix_first (p s : string) a p' :
  p = String a p' -> String.prefix p s = true -> exists s', s = String a s'.
Proof.
  intros -> H. destruct s as [|b s']; simpl in H; [discriminate|].
  destruct (ascii_dec a b); [subst; eauto|discriminate].
Qed.

Section Loops.
  Variable md_merge : meta -> string -> option meta.
  Variable lock_dec : string -> option (option lockv).
  Variable parse_values : string -> option val.
  Notation lstep := (load_step md_merge lock_dec parse_values).
  Notation lloop := (load_loop md_merge lock_dec parse_values).

  Lemma lloop_app l1 : forall st l2,
    lloop st (l1 ++ l2) = match lloop st l1 with inl e => inl e | inr st' => lloop st' l2 end.
  Proof.
    induction l1 as [|f l1 IH]; intros st l2; simpl; auto.
    destruct (lstep st f); auto.
  Qed.

  Lemma load_meta_other om l :
    Forall (fun f => String.eqb (f_name f) "Chart.yaml" = false) l -> load_meta md_merge om l = inr om.
  Proof.
    induction l as [|f l IH]; intros HF; simpl; auto.
    inversion HF; subst. rewrite H1. auto.
  Qed.

  (* a template: name below templates/ *)
  Lemma lstep_template om lk vs sch tpl fls sub f :
    String.prefix "templates/" (f_name f) = true ->
    lstep (mkLS om lk vs sch tpl fls sub) f = inr (mkLS om lk vs sch (tpl ++ [f]) fls sub).
  Proof.
    intros H. destruct (prefix_first "templates/" (f_name f) "t" "emplates/" eq_refl H) as (s' & Hs).
    unfold load_step. rewrite H. rewrite Hs. reflexivity.
  Qed.

  Lemma lloop_templates om lk vs sch fls sub l : forall tpl,
    Forall (fun f => String.prefix "templates/" (f_name f) = true) l ->
    lloop (mkLS om lk vs sch tpl fls sub) l = inr (mkLS om lk vs sch (tpl ++ l) fls sub).
  Proof.
    induction l as [|f l IH]; intros tpl HF; cbn [load_loop].
    - now rewrite app_nil_r.
    - inversion HF; subst. rewrite lstep_template by assumption. rewrite IH by assumption.
      now rewrite <- app_assoc.
  Qed.

  (* any other file *)
  Lemma lstep_file om lk vs sch tpl fls sub f :
    reserved (f_name f) = false -> String.prefix "templates/" (f_name f) = false ->
    String.prefix "charts/" (f_name f) = false ->
    lstep (mkLS om lk vs sch tpl fls sub) f = inr (mkLS om lk vs sch tpl (fls ++ [f]) sub).
  Proof.
    unfold reserved. rewrite !orb_false_iff. intros (((((H1 & H2) & H3) & H4) & H5) & H6) Ht Hc.
    unfold load_step. now rewrite H1, H2, H3, H4, H5, H6, Ht, Hc.
  Qed.

  Lemma lloop_files om lk vs sch tpl sub l : forall fls,
    Forall (fun f => reserved (f_name f) = false /\ String.prefix "templates/" (f_name f) = false /\
                     String.prefix "charts/" (f_name f) = false) l ->
    lloop (mkLS om lk vs sch tpl fls sub) l = inr (mkLS om lk vs sch tpl (fls ++ l) sub).
  Proof.
    induction l as [|f l IH]; intros fls HF; cbn [load_loop].
    - now rewrite app_nil_r.
    - inversion HF as [|? ? (H1 & H2 & H3) HF']; subst. rewrite lstep_file by assumption.
      rewrite IH by assumption. now rewrite <- app_assoc.
  Qed.

  (* the values.yaml documents *)
  Lemma lloop_values om lk sch tpl fls sub l : forall vs r,
    vals_fold parse_values vs l = Some r ->
    lloop (mkLS om lk vs sch tpl fls sub) (map (fun f => mkFile "values.yaml" (f_data f)) l)
    = inr (mkLS om lk r sch tpl fls sub).
  Proof.
    induction l as [|f l IH]; intros vs r H; cbn [load_loop map vals_fold] in *.
    - now inversion H.
    - destruct (parse_values (f_data f)) as [v|] eqn:E; [|discriminate].
      unfold load_step at 1. cbn. rewrite E. now apply IH.
  Qed.
End Loops.

(* ---------- validate ---------- *)
Lemma validate_inv sanitize is_semver rest_valid m m' :
  validate sanitize is_semver rest_valid m = Some m' ->
  m' = sanitize m /\ m_api m' <> "" /\ name_is_base (m_name m') = true /\ is_semver (m_version m') = true.
Proof.
  unfold validate. set (s := sanitize m).
  destruct (String.eqb (m_api s) "") eqn:E1; [discriminate|].
  destruct (String.eqb (m_name s) ""); [discriminate|].
  destruct (name_is_base (m_name s)) eqn:E3; [|discriminate]. simpl.
  destruct (String.eqb (m_version s) ""); [discriminate|].
  destruct (is_semver (m_version s)) eqn:E5; [|discriminate]. simpl.
  destruct (valid_type (m_type s)); [|discriminate]. simpl.
  destruct (rest_valid s); [|discriminate]. simpl.
  intros H. inversion H; subst. apply String.eqb_neq in E1. auto.
Qed.

(* C15_invalid_not_packaged *)
Lemma invalid_not_saved md_enc lock_enc json_valid sanitize is_semver rest_valid c :
  name_is_base (m_name (sanitize (c_meta c))) = false \/ is_semver (m_version (sanitize (c_meta c))) = false ->
  save md_enc lock_enc json_valid sanitize is_semver rest_valid c = None.
Proof.
  intros H. unfold save.
  destruct (validate sanitize is_semver rest_valid (c_meta c)) as [m'|] eqn:E; auto.
  apply validate_inv in E as (-> & _ & H1 & H2). destruct H; congruence.
Qed.

Lemma invalid_not_packaged md_enc lock_enc json_valid sanitize is_semver rest_valid dep_names ver c :
  let m := if String.eqb ver "" then c_meta c else set_version (c_meta c) ver in
  is_semver (m_version m) = false \/ name_is_base (m_name (sanitize m)) = false
  \/ is_semver (m_version (sanitize m)) = false ->
  package md_enc lock_enc json_valid sanitize is_semver rest_valid dep_names ver c = None.
Proof.
  intros m H. unfold package. fold m.
  destruct (is_semver (m_version m)) eqn:E; simpl; [|reflexivity].
  destruct (check_dependencies dep_names (set_meta c m)); simpl; [|reflexivity].
  apply invalid_not_saved. destruct c; simpl. destruct H as [H|H]; [congruence|exact H].
Qed.

(* ---------- the round trip (chart without dependencies) ---------- *)
Section Roundtrip.
  Variable md_enc : meta -> string.
  Variable lock_enc : lockv -> string.
  Variable json_valid : string -> bool.
  Variable sanitize : meta -> meta.
  Variable is_semver : string -> bool.
  Variable rest_valid : meta -> bool.
  Variable md_merge : meta -> string -> option meta.
  Variable lock_dec : string -> option (option lockv).
  Variable parse_values : string -> option val.
  Variable untar : string -> tstream.
  Variable maxt maxf : Z.

  Hypothesis md_rt : forall m, validate sanitize is_semver rest_valid m = Some m ->
                               md_merge empty_meta (md_enc m) = Some m.
  Hypothesis md_nobom : forall m, has_bom (md_enc m) = false.
  Hypothesis lock_rt : forall l, lock_dec (lock_enc l) = Some (Some l).
  Hypothesis lock_nobom : forall l, has_bom (lock_enc l) = false.

  Notation SAVE := (save md_enc lock_enc json_valid sanitize is_semver rest_valid).
  Notation LOAD := (load_archive md_merge lock_dec parse_values untar sanitize is_semver rest_valid maxt maxf).
  Notation LFILES := (load_files md_merge lock_dec parse_values untar sanitize is_semver rest_valid maxt maxf).

  (* (archive name, name after the reader's strip, body) of every entry Save writes *)
  Definition lock_seg (c : chart) : list (string * string) :=
    if String.eqb (m_api (c_meta c)) "v2" then
      match c_lock c with Some l => [("Chart.lock", lock_enc l)] | None => [] end
    else [].
  Definition schema_seg (c : chart) : list (string * string) :=
    match c_schema c with Some s => [("values.schema.json", s)] | None => [] end.
  Definition saved_pairs (c : chart) : list (string * string) :=
    [("Chart.yaml", md_enc (c_meta c))] ++ lock_seg c ++
    map (fun f => ("values.yaml", f_data f)) (raw_values c) ++ schema_seg c ++
    map (fun f => (f_name f, f_data f)) (c_templates c) ++
    map (fun f => (f_name f, f_data f)) (c_files c).

  Definition triple (cn : string) (p : string * string) : string * string * string :=
    (cn ++ "/" ++ fst p, fst p, snd p).

  Lemma strip_deps_id m : m_deps m = "" -> strip_deps m = m.
  Proof. destruct m; simpl; intros ->; reflexivity. Qed.

  Lemma map_map_entries cn base l :
    Forall (fun f => path_join base (f_name f) = cn ++ "/" ++ f_name f) l ->
    map (fun f => tar_entry (path_join base (f_name f)) (f_data f)) l =
    map (fun x => let '(name, fn, body) := x in tar_entry name body)
        (map (triple cn) (map (fun f => (f_name f, f_data f)) l)).
  Proof.
    induction l as [|f l IH]; intros HF; simpl; auto.
    inversion HF; subst. rewrite H1. f_equal. auto.
  Qed.

  Lemma wf_template_props f : wf_template f = true ->
    wf_fname (f_name f) = true /\ String.prefix "templates/" (f_name f) = true.
  Proof. unfold wf_template. now rewrite andb_true_iff. Qed.

  Lemma wf_file_props f : wf_file f = true ->
    wf_fname (f_name f) = true /\ reserved (f_name f) = false /\
    String.prefix "templates/" (f_name f) = false /\ String.prefix "charts/" (f_name f) = false.
  Proof. unfold wf_file. rewrite !andb_true_iff, !negb_true_iff. tauto. Qed.

  (* what Save produces for a well-formed chart *)
  Local Opaque path_join.
  Lemma save_wf c :
    wf_chart parse_values json_valid sanitize is_semver rest_valid c ->
    SAVE c = Some (map (fun x => let '(name, fn, body) := x in tar_entry name body)
                       (map (triple (m_name (c_meta c))) (saved_pairs c))).
  Proof.
    intros [Hval Hapi Hname Hvals Hsch Htpl Hfls Hdeps].
    unfold save. rewrite Hval.
    assert (set_meta c (c_meta c) = c) as -> by (destruct c; reflexivity).
    destruct (validate_inv _ _ _ _ _ Hval) as (_ & _ & Hbase & _).
    destruct c as [m lk raw vs sch tpl fls deps]. simpl in *. subst deps.
    rewrite Hbase. simpl negb. cbv iota.
    set (cn := m_name m) in *.
    assert (forall fn, wf_fname fn = true -> path_join (path_join "" cn) fn = cn ++ "/" ++ fn) as Hj
      by (intros fn Hf; now destruct (saved_name cn fn Hname Hf)).
    rewrite !Hj by reflexivity.
    assert ((if String.eqb (m_api m) "v1" then strip_deps m else m) = m) as ->.
    { destruct Hapi as [->|(-> & Hd & _)]; [reflexivity|]. simpl. now apply strip_deps_id. }
    unfold saved_pairs, lock_seg, schema_seg, raw_values. simpl c_meta. simpl c_lock. simpl c_raw.
    simpl c_schema. simpl c_templates. simpl c_files.
    assert (match sch with
            | Some s => if json_valid s then Some [tar_entry (cn ++ "/" ++ "values.schema.json") s] else None
            | None => Some []
            end = Some (map (fun x => let '(name, fn, body) := x in tar_entry name body)
                            (map (triple cn) match sch with Some s => [("values.schema.json", s)] | None => [] end))) as ->.
    { destruct sch as [s|]; [|reflexivity]. rewrite Hsch. reflexivity. }
    rewrite (map_map_entries cn (path_join "" cn) tpl).
    2:{ apply Forall_forall. intros f Hf. apply Hj. rewrite forallb_forall in Htpl.
        now destruct (wf_template_props f (Htpl f Hf)). }
    rewrite (map_map_entries cn (path_join "" cn) fls).
    2:{ apply Forall_forall. intros f Hf. apply Hj. rewrite forallb_forall in Hfls.
        now destruct (wf_file_props f (Hfls f Hf)). }
    cbn [deps_loop]. f_equal. rewrite !map_app, !map_map, ?app_nil_r. cbn [app map triple fst snd].
    f_equal.
    destruct (String.eqb (m_api m) "v2"); [destruct lk|]; reflexivity.
  Qed.
  Local Transparent path_join.

  Lemma file_eta (f : file) : mkFile (f_name f) (f_data f) = f.
  Proof. now destruct f. Qed.

  Lemma map_file_eta (l : list file) : map (fun f => mkFile (f_name f) (f_data f)) l = l.
  Proof. induction l; simpl; [|rewrite file_eta]; congruence. Qed.

  (* the files the archive reader hands to LoadFiles *)
  Definition loaded_files (c : chart) : list file :=
    map (fun p => mkFile (fst p) (snd p)) (saved_pairs c).

  Lemma saved_names_strip c :
    wf_chart parse_values json_valid sanitize is_semver rest_valid c ->
    Forall (fun p => arch_name (m_name (c_meta c) ++ "/" ++ fst p) = inr (fst p)) (saved_pairs c).
  Proof.
    intros [Hval Hapi Hname Hvals Hsch Htpl Hfls Hdeps].
    assert (forall fn, wf_fname fn = true -> arch_name (m_name (c_meta c) ++ "/" ++ fn) = inr fn) as Hs
      by (intros fn Hf; now destruct (saved_name _ fn Hname Hf)).
    unfold saved_pairs, lock_seg, schema_seg. repeat (apply Forall_app; split).
    - constructor; [apply Hs; reflexivity|constructor].
    - destruct (String.eqb (m_api (c_meta c)) "v2"); [|constructor].
      destruct (c_lock c); constructor; [apply Hs; reflexivity|constructor].
    - apply Forall_forall. intros p Hp. apply in_map_iff in Hp as (f & <- & _). apply Hs. reflexivity.
    - destruct (c_schema c); constructor; [apply Hs; reflexivity|constructor].
    - apply Forall_forall. intros p Hp. apply in_map_iff in Hp as (f & <- & Hf). apply Hs.
      rewrite forallb_forall in Htpl. now destruct (wf_template_props f (Htpl f Hf)).
    - apply Forall_forall. intros p Hp. apply in_map_iff in Hp as (f & <- & Hf). apply Hs.
      rewrite forallb_forall in Hfls. now destruct (wf_file_props f (Hfls f Hf)).
  Qed.

  Lemma saved_nobom c : no_bom c -> Forall (fun p => has_bom (snd p) = false) (saved_pairs c).
  Proof.
    intros [Hv Hs Ht Hf]. unfold saved_pairs, lock_seg, schema_seg. repeat (apply Forall_app; split).
    - constructor; [apply md_nobom|constructor].
    - destruct (String.eqb (m_api (c_meta c)) "v2"); [|constructor].
      destruct (c_lock c); constructor; [apply lock_nobom|constructor].
    - apply Forall_forall. intros p Hp. apply in_map_iff in Hp as (f & <- & Hin).
      unfold bom_free in Hv. rewrite Forall_forall in Hv. now apply Hv.
    - destruct (c_schema c); constructor; [exact Hs|constructor].
    - apply Forall_forall. intros p Hp. apply in_map_iff in Hp as (f & <- & Hin).
      unfold bom_free in Ht. rewrite Forall_forall in Ht. now apply Ht.
    - apply Forall_forall. intros p Hp. apply in_map_iff in Hp as (f & <- & Hin).
      unfold bom_free in Hf. rewrite Forall_forall in Hf. now apply Hf.
  Qed.

  (* LoadArchiveFiles on Save's entries *)
  Lemma archive_of_saved c :
    wf_chart parse_values json_valid sanitize is_semver rest_valid c -> no_bom c ->
    let es := map (fun x => let '(name, fn, body) := x in tar_entry name body)
                  (map (triple (m_name (c_meta c))) (saved_pairs c)) in
    fits maxt maxf es ->
    load_archive_files maxt maxf (mkTS false es false) = inr (loaded_files c).
  Proof.
    intros Hwf Hnb es [Hfit1 Hfit2].
    pose proof (saved_names_strip c Hwf) as Hn. pose proof (saved_nobom c Hnb) as Hb.
    unfold load_archive_files, load_archive_trace. simpl ts_gzerr. simpl ts_entries. simpl ts_err. cbv iota.
    assert (map (fun x => let '(name, fn, body) := x in mkFile fn (trim_bom body))
                (map (triple (m_name (c_meta c))) (saved_pairs c)) = loaded_files c) as Hfs.
    { unfold loaded_files. rewrite map_map. apply map_ext_in. intros p Hp. unfold triple. simpl.
      rewrite Forall_forall in Hb. now rewrite trim_bom_nobom by (apply Hb; assumption). }
    pose proof (load_go_saved maxf (map (triple (m_name (c_meta c))) (saved_pairs c)) maxt) as HL.
    fold es in HL. rewrite Hfs in HL.
    assert (fst (load_go maxf maxt es) = inr (loaded_files c)) as HL'.
    { apply HL.
      - apply Forall_forall. intros [[name fn] body] Hx. apply in_map_iff in Hx as (p & Hp & Hin).
        unfold triple in Hp. inversion Hp; subst. split.
        + rewrite Forall_forall in Hn. now apply Hn.
        + rewrite Forall_forall in Hfit1.
          change (slen (snd p)) with (te_size (tar_entry (m_name (c_meta c) ++ "/" ++ fst p) (snd p))).
          apply Hfit1. unfold es. apply in_map_iff.
          exists (triple (m_name (c_meta c)) p). split; [reflexivity|]. now apply in_map.
      - assert (map te_size es = map (fun x : string * string * string => slen (snd x)) (map (triple (m_name (c_meta c))) (saved_pairs c))) as <-; [|exact Hfit2].
        unfold es. rewrite !map_map. apply map_ext. intros p. reflexivity. }
    destruct (load_go maxf maxt es) as [res rs]. simpl in HL'. subst res. simpl.
    unfold loaded_files, saved_pairs. reflexivity.
  Qed.
  Notation lstep := (load_step md_merge lock_dec parse_values).
  Notation lloop := (load_loop md_merge lock_dec parse_values).

  Lemma lstep_chartyaml st f : f_name f = "Chart.yaml" -> lstep st f = inr st.
  Proof. intros H. unfold load_step. destruct st. now rewrite H. Qed.

  Definition mk2 (p : string * string) : file := mkFile (fst p) (snd p).

  Lemma loaded_files_eq c :
    loaded_files c = mkFile "Chart.yaml" (md_enc (c_meta c)) ::
      (map mk2 (lock_seg c) ++ map (fun f => mkFile "values.yaml" (f_data f)) (raw_values c) ++
       map mk2 (schema_seg c) ++ c_templates c ++ c_files c)%list.
  Proof.
    unfold loaded_files, saved_pairs. rewrite !map_app, !map_map. simpl.
    now rewrite !map_file_eta.
  Qed.

  Lemma lloop_lock c om vs sch tpl fls sub :
    (m_api (c_meta c) = "v2") \/ (m_api (c_meta c) = "v1" /\ m_deps (c_meta c) = "" /\ c_lock c = None) ->
    lloop (mkLS om None vs sch tpl fls sub) (map mk2 (lock_seg c)) = inr (mkLS om (c_lock c) vs sch tpl fls sub).
  Proof.
    intros Hapi. unfold lock_seg. destruct Hapi as [->|(-> & _ & ->)]; simpl; [|reflexivity].
    destruct (c_lock c) as [l|]; simpl; [|reflexivity].
    unfold load_step. simpl. now rewrite lock_rt.
  Qed.

  Lemma lloop_schema c om lk vs tpl fls sub :
    lloop (mkLS om lk vs None tpl fls sub) (map mk2 (schema_seg c)) = inr (mkLS om lk vs (c_schema c) tpl fls sub).
  Proof.
    unfold schema_seg. destruct (c_schema c) as [s|]; simpl; reflexivity.
  Qed.

  Lemma reserved_not_chartyaml n : reserved n = false -> String.eqb n "Chart.yaml" = false.
  Proof. unfold reserved. rewrite !orb_false_iff. tauto. Qed.

  Lemma template_not n x : String.prefix "templates/" n = true -> (String.eqb n x = true -> String.prefix "templates/" x = true).
  Proof. intros H E. apply String.eqb_eq in E. now subst. Qed.

  Lemma files_of_saved c fuel :
    wf_chart parse_values json_valid sanitize is_semver rest_valid c ->
    LFILES (S fuel) (loaded_files c) =
    inr (Chart (c_meta c) (c_lock c) (loaded_files c) (c_values c) (c_schema c) (c_templates c) (c_files c) []).
  Proof.
    intros [Hval Hapi Hname Hvals Hsch Htpl Hfls Hdeps].
    destruct (validate_inv _ _ _ _ _ Hval) as (_ & Hapine & _ & _).
    assert (Forall (fun f => String.prefix "templates/" (f_name f) = true) (c_templates c)) as HT.
    { apply Forall_forall. intros f Hf. rewrite forallb_forall in Htpl. now destruct (wf_template_props f (Htpl f Hf)). }
    assert (Forall (fun f => reserved (f_name f) = false /\ String.prefix "templates/" (f_name f) = false /\
                             String.prefix "charts/" (f_name f) = false) (c_files c)) as HF.
    { apply Forall_forall. intros f Hf. rewrite forallb_forall in Hfls. destruct (wf_file_props f (Hfls f Hf)) as (_ & ? & ? & ?). auto. }
    set (rest := (map mk2 (lock_seg c) ++ map (fun f => mkFile "values.yaml" (f_data f)) (raw_values c) ++
                  map mk2 (schema_seg c) ++ c_templates c ++ c_files c)%list).
    assert (Forall (fun f => String.eqb (f_name f) "Chart.yaml" = false) rest) as Hrest.
    { unfold rest. repeat (apply Forall_app; split).
      - unfold lock_seg. destruct (String.eqb (m_api (c_meta c)) "v2"); [|constructor].
        destruct (c_lock c); repeat constructor.
      - apply Forall_forall. intros f Hf. apply in_map_iff in Hf as (g & <- & _). reflexivity.
      - unfold schema_seg. destruct (c_schema c); repeat constructor.
      - eapply Forall_impl; [|exact HT]. intros f Hf. simpl in Hf.
        destruct (String.eqb (f_name f) "Chart.yaml") eqn:E; auto.
        apply String.eqb_eq in E. rewrite E in Hf. discriminate.
      - eapply Forall_impl; [|exact HF]. intros f (Hr & _). now apply reserved_not_chartyaml. }
    rewrite (loaded_files_eq c). fold rest.
    cbn [load_files]. cbn [load_meta f_name f_data]. simpl String.eqb. cbv iota.
    unfold meta_or_new. rewrite (md_rt _ Hval).
    assert (default_api (c_meta c) = c_meta c) as ->.
    { unfold default_api. apply String.eqb_neq in Hapine. now rewrite Hapine. }
    rewrite (load_meta_other md_merge _ rest Hrest).
    cbn [load_loop]. rewrite lstep_chartyaml by reflexivity.
    unfold rest. rewrite lloop_app.
    rewrite (lloop_lock c _ _ _ _ _ _ Hapi). cbv beta iota. rewrite lloop_app.
    rewrite (lloop_values md_merge lock_dec parse_values _ _ _ _ _ _ (raw_values c) None (c_values c) Hvals). cbv beta iota. rewrite lloop_app.
    rewrite (lloop_schema c). cbv beta iota. rewrite lloop_app.
    rewrite (lloop_templates md_merge lock_dec parse_values _ _ _ _ _ _ (c_templates c) [] HT). cbv beta iota.
    rewrite (lloop_files md_merge lock_dec parse_values _ _ _ _ _ _ (c_files c) [] HF). cbv beta iota.
    cbn [ls_meta ls_lock ls_values ls_schema ls_templates ls_files ls_sub app map]. rewrite Hval.
    cbn [dedup sort_strs fold_right]. reflexivity.
  Qed.

  Lemma raw_values_loaded c :
    wf_chart parse_values json_valid sanitize is_semver rest_valid c ->
    filter is_values_file (loaded_files c) = raw_values c.
  Proof.
    intros [Hval Hapi Hname Hvals Hsch Htpl Hfls Hdeps].
    rewrite loaded_files_eq. cbn [filter is_values_file f_name]. simpl String.eqb. cbv iota.
    rewrite !filter_app.
    assert (filter is_values_file (map mk2 (lock_seg c)) = []) as ->.
    { unfold lock_seg. destruct (String.eqb (m_api (c_meta c)) "v2"); [|reflexivity]. destruct (c_lock c); reflexivity. }
    assert (filter is_values_file (map mk2 (schema_seg c)) = []) as ->.
    { unfold schema_seg. destruct (c_schema c); reflexivity. }
    assert (filter is_values_file (c_templates c) = []) as ->.
    { rewrite forallb_forall in Htpl. clear -Htpl. induction (c_templates c) as [|f l IH]; auto.
      simpl. destruct (wf_template_props f (Htpl f (or_introl eq_refl))) as (_ & Hp).
      unfold is_values_file at 1. destruct (String.eqb (f_name f) "values.yaml") eqn:E.
      - apply String.eqb_eq in E. rewrite E in Hp. discriminate.
      - apply IH. intros x Hx. apply Htpl. now right. }
    assert (filter is_values_file (c_files c) = []) as ->.
    { rewrite forallb_forall in Hfls. clear -Hfls. induction (c_files c) as [|f l IH]; auto.
      simpl. destruct (wf_file_props f (Hfls f (or_introl eq_refl))) as (_ & Hr & _).
      unfold is_values_file at 1. unfold reserved in Hr. rewrite !orb_false_iff in Hr.
      destruct Hr as (((((_ & _) & ->) & _) & _) & _). apply IH. intros x Hx. apply Hfls. now right. }
    simpl. rewrite !app_nil_r.
    unfold raw_values. induction (c_raw c) as [|f l IH]; simpl; auto.
    destruct (is_values_file f) eqn:E; simpl; auto.
    unfold is_values_file in E. apply String.eqb_eq in E. rewrite IH.
    destruct f as [n d]; simpl in *; subst. reflexivity.
  Qed.

  (* C15_roundtrip, chart without dependencies *)
  Theorem roundtrip c :
    wf_chart parse_values json_valid sanitize is_semver rest_valid c -> no_bom c ->
    exists es, SAVE c = Some es /\
      (fits maxt maxf es -> forall fuel, exists c', LOAD (S fuel) (mkTS false es false) = inr c' /\ same_content c c').
  Proof.
    intros Hwf Hnb. eexists. split; [apply (save_wf c Hwf)|].
    intros Hfit fuel. unfold load_archive. rewrite (archive_of_saved c Hwf Hnb Hfit).
    rewrite (files_of_saved c fuel Hwf). eexists. split; [reflexivity|].
    pose proof (raw_values_loaded c Hwf) as Hrv.
    destruct Hwf as [Hval Hapi Hname Hvals Hsch Htpl Hfls Hdeps].
    constructor; simpl; auto.
  Qed.
End Roundtrip.

(* ---------- ignore rules (C15_ignored_absent) ---------- *)
Section Ignore.
  Variable md_merge : meta -> string -> option meta.
  Variable lock_dec : string -> option (option lockv).
  Variable parse_values : string -> option val.
  Variable untar : string -> tstream.
  Variable sanitize : meta -> meta.
  Variable is_semver : string -> bool.
  Variable rest_valid : meta -> bool.
  Variable maxt maxf : Z.
  Variable ignored : string -> bool -> bool.
  Notation lstep := (load_step md_merge lock_dec parse_values).
  Notation lloop := (load_loop md_merge lock_dec parse_values).
  Notation LFILES := (load_files md_merge lock_dec parse_values untar sanitize is_semver rest_valid maxt maxf).
  Notation LDIR := (load_dir_walk md_merge lock_dec parse_values untar sanitize is_semver rest_valid maxt maxf).

  Definition no_ignore : string -> bool -> bool := fun _ _ => false.

  Lemma eff_ignored_none n : eff_ignored no_ignore n = false.
  Proof. unfold eff_ignored, no_ignore. simpl. induction (ancestors n); auto. Qed.

  (* ignored files have no influence: the walk with rules = the walk over the tree without them *)
  Lemma dir_files_filter walk :
    dir_files maxf ignored walk =
    dir_files maxf no_ignore (filter (fun f => negb (eff_ignored ignored (f_name f))) walk).
  Proof.
    induction walk as [|f walk IH]; simpl; auto.
    destruct (eff_ignored ignored (f_name f)); simpl; auto.
    rewrite eff_ignored_none. destruct (dir_file_over_limit (slen (f_data f)) maxf); auto. now rewrite IH.
  Qed.

  Lemma dir_files_kept walk fs :
    dir_files maxf ignored walk = inr fs -> Forall (fun f => eff_ignored ignored (f_name f) = false) fs.
  Proof.
    revert fs. induction walk as [|f walk IH]; simpl; intros fs H.
    - inversion H. constructor.
    - destruct (eff_ignored ignored (f_name f)) eqn:E; [auto|].
      destruct (dir_file_over_limit (slen (f_data f)) maxf); [discriminate|].
      destruct (dir_files maxf ignored walk) as [|r]; [discriminate|]. inversion H; subst.
      constructor; auto.
  Qed.

  Lemma lstep_incl st f st' :
    lstep st f = inr st' ->
    forall x, In x (ls_templates st') \/ In x (ls_files st') -> x = f \/ In x (ls_templates st) \/ In x (ls_files st).
  Proof.
    unfold load_step. destruct st as [om lk vs sch tpl fls sub]. intros H x Hx.
    repeat match type of H with
           | context [if ?b then _ else _] => destruct b
           | context [match ?e with _ => _ end] => destruct e
           end; try discriminate; inversion H; subst; simpl in *;
      rewrite ?in_app_iff in *; simpl in *; intuition.
  Qed.

  Lemma lloop_incl files : forall st st',
    lloop st files = inr st' ->
    forall x, In x (ls_templates st') \/ In x (ls_files st') -> In x files \/ In x (ls_templates st) \/ In x (ls_files st).
  Proof.
    induction files as [|f files IH]; intros st st' H x Hx; simpl in H.
    - inversion H; subst. auto.
    - destruct (lstep st f) as [|st1] eqn:E; [discriminate|].
      destruct (IH _ _ H x Hx) as [Hi|Hi]; [left; now right|].
      destruct (lstep_incl _ _ _ E x Hi) as [->|Hj]; [left; now left|auto].
  Qed.

  Lemma load_files_shape fuel files c :
    LFILES fuel files = inr c ->
    c_raw c = files /\ (forall x, In x (c_templates c) \/ In x (c_files c) -> In x files).
  Proof.
    destruct fuel; [discriminate|]. cbn [load_files]. intros H.
    destruct (load_meta md_merge None files) as [|om]; [discriminate|].
    destruct (lloop (mkLS om None None None [] [] []) files) as [|st] eqn:El; [discriminate|].
    destruct (ls_meta st); [|discriminate].
    destruct (validate sanitize is_semver rest_valid m); [|discriminate].
    match type of H with match ?e with _ => _ end = _ => destruct e end; [discriminate|].
    inversion H; subst; simpl. split; auto.
    intros x Hx. destruct (lloop_incl _ _ _ El x Hx) as [|[[]|[]]]; auto.
  Qed.

  Lemma ignored_absent fuel walk :
    LDIR ignored fuel walk = LDIR no_ignore fuel (filter (fun f => negb (eff_ignored ignored (f_name f))) walk) /\
    forall c, LDIR ignored fuel walk = inr c ->
      Forall (fun f => eff_ignored ignored (f_name f) = false) (c_raw c) /\
      (forall f, In f (c_templates c) \/ In f (c_files c) -> eff_ignored ignored (f_name f) = false).
  Proof.
    unfold load_dir_walk. split.
    - now rewrite dir_files_filter.
    - intros c H. destruct (dir_files maxf ignored walk) as [|fs] eqn:E; [discriminate|].
      pose proof (dir_files_kept _ _ E) as Hk.
      destruct (load_files_shape _ _ _ H) as [Hraw Hin]. rewrite Hraw. split; auto.
      intros f Hf. rewrite Forall_forall in Hk. apply Hk. auto.
  Qed.
End Ignore.

(* The theorems of FsTreeProofs / FsLockProofs with their hypotheses written out (no prefixb,
   nolinks, good_comp), in the form Props/C16.v states them. *)
From Coq Require Import List String Ascii Bool Arith ZArith.
From Helm Require Import Chart.Paths Chart.PathsProofs Chart.PathFns Chart.PathFnsProofs
  Chart.Archive Chart.Lock Chart.FsTree Chart.FsTreeProofs Chart.FsLockProofs Gen.SecureJoinLib.
Import ListNotations.
Local Open Scope string_scope.

Definition linkfree (t : tnode) (P : list string) : Prop :=
  forall q, (exists r, P = (q ++ r)%list) -> forall tg, tget t q <> Some (TLink tg).

Lemma linkfree_nolinks t P : linkfree t P -> nolinks t P.
Proof. intros H q Hq tg. apply H. now apply prefixb_spec. Qed.

Lemma nolinks_linkfree t P : nolinks t P -> linkfree t P.
Proof. intros H q Hq tg. apply (H q). now apply prefixb_spec. Qed.

Lemma secure_join_confined_x t root unsafe out :
  Forall good_comp root -> linkfree t root -> secure_join t root unsafe = inr out ->
  exists cur, out = (root ++ cur)%list /\ Forall good_comp cur /\ linkfree t out.
Proof.
  intros Hg Hn H.
  destruct (secure_join_nolinks t root unsafe out Hg (linkfree_nolinks _ _ Hn) H) as (cur & Ho & Hc & Hl).
  exists cur. repeat split; auto. now apply nolinks_linkfree.
Qed.

Lemma secure_join_resolves_x t root unsafe out follow :
  Forall good_comp root -> linkfree t root -> secure_join t root unsafe = inr out ->
  c_walk t out follow = WErr EINVAL \/
  match c_walk t out follow with
  | WAt loc n => loc = out /\ tget t out = Some n
  | WNew p c => (p ++ [c])%list = out /\ tget t out = None
  | WErr _ => tget t out = None
  | WLink _ _ _ => False
  end.
Proof.
  intros Hg Hn H. exact (secure_join_resolves t root unsafe out follow Hg (linkfree_nolinks _ _ Hn) H).
Qed.

Lemma expand_confined_x t R name fs t' e :
  Forall good_comp R -> linkfree t R -> (exists es, tget t R = Some (TDir es)) ->
  expand_model t R name fs = (t', e) ->
  (forall q, (forall r, q <> (R ++ r)%list) -> shallow_of (tget t' q) = shallow_of (tget t q)) /\
  (exists es', tget t' R = Some (TDir es')) /\
  (forall q tg, tget t' q = Some (TLink tg) -> tget t q = Some (TLink tg)).
Proof.
  intros Hg Hn Hd H. pose proof (linkfree_nolinks _ _ Hn) as Hn'.
  destruct (expand_confined t R name fs t' e Hg Hn' Hd H) as [H1 H2]. repeat split; auto.
  intros q tg. exact (expand_no_new_links t R name fs t' e q tg Hg Hn' Hd H).
Qed.

Lemma extract_confined_x t R s t' e :
  Forall good_comp R -> linkfree t R -> (exists es, tget t R = Some (TDir es)) ->
  extract_model t R s = (t', e) ->
  (forall q, (forall r, q <> (R ++ r)%list) -> shallow_of (tget t' q) = shallow_of (tget t q)) /\
  (exists es', tget t' R = Some (TDir es')) /\
  (forall q tg, tget t' q = Some (TLink tg) -> tget t q = Some (TLink tg)).
Proof.
  intros Hg Hn Hd H. pose proof (linkfree_nolinks _ _ Hn) as Hn'.
  destruct (extract_confined t R s t' e Hg Hn' Hd H) as [H1 H2]. repeat split; auto.
  intros q tg. exact (extract_no_new_links t R s t' e q tg Hg Hn' Hd H).
Qed.

(* end to end from the tar entries: LoadArchiveFiles, then Expand *)
Lemma expand_archive_confined_x t R name maxt maxf s fs t' e :
  Forall good_comp R -> linkfree t R -> (exists es, tget t R = Some (TDir es)) ->
  load_archive_files maxt maxf s = inr fs ->
  expand_model t R name fs = (t', e) ->
  (forall q, (forall r, q <> (R ++ r)%list) -> shallow_of (tget t' q) = shallow_of (tget t q)) /\
  (exists es', tget t' R = Some (TDir es')) /\
  (forall q tg, tget t' q = Some (TLink tg) -> tget t q = Some (TLink tg)).
Proof. intros Hg Hn Hd _. now apply expand_confined_x. Qed.

Lemma tree_hyp_ex :
  Forall good_comp ex_dest /\ linkfree ex_tree ex_dest /\ (exists es, tget ex_tree ex_dest = Some (TDir es)).
Proof.
  destruct ex_dest_ok as (H1 & H2 & H3). repeat split; auto. now apply nolinks_linkfree.
Qed.

Lemma cleanjoin2_example :
  clean_join2 "/" "a\b" = inr "/a/b" /\ clean_join2 "." "a" = inr "a" /\
  clean_join2 "/r/" "c:\x" = inl CJ2Colon /\ clean_join2 "../r" "a" = inl CJ2Root.
Proof. repeat split; vm_compute; reflexivity. Qed.

(* the library the model was transcribed from is the library Helm is built against *)
Lemma securejoin_source :
  sj_lib_max_symlinks = Z.of_nat sj_max_links /\ sj_lib_join_sha256 = sj_transcribed_sha256.
Proof. split; reflexivity. Qed.

(* Extract and Expand never create a link: any link afterwards was there before *)
Lemma extract_creates_no_link_x t R s t' e :
  Forall good_comp R -> linkfree t R -> (exists es, tget t R = Some (TDir es)) ->
  extract_model t R s = (t', e) ->
  forall q tg, tget t' q = Some (TLink tg) -> tget t q = Some (TLink tg).
Proof. intros Hg Hn Hd H. now destruct (extract_confined_x t R s t' e Hg Hn Hd H) as (_ & _ & H3). Qed.

Lemma expand_creates_no_link_x t R name fs t' e :
  Forall good_comp R -> linkfree t R -> (exists es, tget t R = Some (TDir es)) ->
  expand_model t R name fs = (t', e) ->
  forall q tg, tget t' q = Some (TLink tg) -> tget t q = Some (TLink tg).
Proof. intros Hg Hn Hd H. now destruct (expand_confined_x t R name fs t' e Hg Hn Hd H) as (_ & _ & H3). Qed.

(* why refusing link entries is the safe behaviour: a guard that checks a link's target
   lexically accepts "here -> ." followed by "up -> here/.." (textually the directory itself),
   and the second link leads to the PARENT of the destination *)
Definition guard_tree : tnode := TDir [("sb", TDir [("work", TDir [("dest", TDir []); ("secret", TFile "outside")])])].
Definition guard_dest : list string := ["sb"; "work"; "dest"].

Lemma lexical_link_guard_refuted :
  let r1 := lexical_link_entry guard_tree guard_dest "here" "." in
  let r2 := lexical_link_entry (fst r1) guard_dest "up" "here/.." in
  snd r1 = None /\ snd r2 = None /\
  tget (fst r2) (guard_dest ++ ["up"]) = Some (TLink "here/..") /\
  c_walk (fst r2) (guard_dest ++ ["up"]) true = WAt ["sb"; "work"] (TDir [("dest", TDir [("here", TLink "."); ("up", TLink "here/..")]); ("secret", TFile "outside")]) /\
  c_walk (fst r2) (guard_dest ++ ["up"; "secret"]) true = WAt ["sb"; "work"; "secret"] (TFile "outside") /\
  link_resolves_inside (fst r2) guard_dest (guard_dest ++ ["up"]) = false /\
  (* the single-entry attacks are refused by the same guard *)
  snd (lexical_link_entry guard_tree guard_dest "up" "..") = Some XName /\
  snd (lexical_link_entry guard_tree guard_dest "up" "/sb/work") = Some XName /\
  snd (lexical_link_entry guard_tree guard_dest "up" "a/../../x") = Some XName.
Proof. repeat split; vm_compute; reflexivity. Qed.

(* C15: concrete instances — a chart that meets the hypotheses of the round-trip theorem,
   and the K4 witness (a binary file that begins with a BOM) on the faithful model. *)
From Coq Require Import List String Ascii Bool Arith ZArith Lia.
From Helm Require Import Values.Tree Chart.Paths Chart.Archive Chart.Files Chart.Save Chart.Load
  Chart.Wf Chart.LoadProofs.
Import ListNotations.
Local Open Scope string_scope.

(* a toy instance of the third-party codecs: only [m0] is valid metadata *)
Definition m0 : meta := mkMeta "v2" "k4" "0.1.0" "" "" "{}".
Definition encK (m : meta) : string := "name: " ++ m_name m.
Definition mergeK (_ : meta) (_ : string) : option meta := Some m0.
Definition lock_encK (l : lockv) : string := "L" ++ l.
Definition lock_decK (d : string) : option (option lockv) :=
  match d with String _ t => Some (Some t) | EmptyString => None end.
Definition parseK (d : string) : option val := Some (VStr d).
Definition untarK (_ : string) : tstream := mkTS true [] false.
Definition sanK (m : meta) : meta := m.
Definition semverK (_ : string) : bool := true.
Definition restK (m : meta) : bool := meta_eqb m m0.
Definition jsonK (_ : string) : bool := true.

Lemma meta_eqb_eq a b : meta_eqb a b = true -> a = b.
Proof.
  unfold meta_eqb. rewrite !andb_true_iff, !String.eqb_eq. destruct a, b; simpl.
  intros [[[[[-> ->] ->] ->] ->] ->]. reflexivity.
Qed.

Lemma codecK_ok :
  (forall m, validate sanK semverK restK m = Some m -> mergeK empty_meta (encK m) = Some m) /\
  (forall m, has_bom (encK m) = false) /\
  (forall l, lock_decK (lock_encK l) = Some (Some l)) /\
  (forall l, has_bom (lock_encK l) = false).
Proof.
  repeat split; try reflexivity.
  intros m H. unfold validate, sanK in H.
  repeat match type of H with context [if ?b then _ else _] => destruct b eqn:? end; try discriminate.
  unfold restK in *. unfold mergeK. f_equal. symmetry. apply meta_eqb_eq.
  match goal with E : negb (meta_eqb m m0) = false |- _ => now apply negb_false_iff in E end.
Qed.

Definition bom3 : string := utf8bom.

(* a well-formed chart without BOMs *)
Definition c_ok : chart :=
  Chart m0 (Some "digest") [mkFile "values.yaml" "a: 1"] (Some (VStr "a: 1")) (Some "{}")
        [mkFile "templates/d.yaml" "kind: X"] [mkFile "README.md" "hi"; mkFile ".dotdir/f" "bin"] [].

(* the K4 witness: one file whose content begins with EF BB BF *)
Definition c_k4 : chart :=
  Chart m0 None [] None None [] [mkFile "bin/blob" (bom3 ++ "abc")] [].

Lemma c_ok_wf : wf_chart parseK jsonK sanK semverK restK c_ok /\ no_bom c_ok.
Proof.
  split.
  - constructor; simpl; auto; try reflexivity.
  - constructor; simpl; try reflexivity; repeat constructor.
Qed.

Lemma c_ok_saved :
  exists es, save encK lock_encK jsonK sanK semverK restK c_ok = Some es /\ fits 1000 100 es /\
    exists c', load_archive mergeK lock_decK parseK untarK sanK semverK restK 1000 100 1 (mkTS false es false) = inr c'
               /\ chart_eqb c_ok c' = true.
Proof.
  eexists. split; [vm_compute; reflexivity|]. split.
  - split; [repeat constructor; vm_compute; discriminate|vm_compute; reflexivity].
  - eexists. split; vm_compute; reflexivity.
Qed.

Lemma c_k4_wf : wf_chart parseK jsonK sanK semverK restK c_k4.
Proof. constructor; simpl; auto; reflexivity. Qed.

(* K4 on the model: the chart is well-formed, Save accepts it, the archive loads, and the
   file comes back three bytes shorter *)
Lemma bom_refuted :
  exists c es c',
    wf_chart parseK jsonK sanK semverK restK c /\
    save encK lock_encK jsonK sanK semverK restK c = Some es /\ fits 1000 100 es /\
    load_archive mergeK lock_decK parseK untarK sanK semverK restK 1000 100 1 (mkTS false es false) = inr c' /\
    c_files c = [mkFile "bin/blob" (bom3 ++ "abc")] /\ c_files c' = [mkFile "bin/blob" "abc"].
Proof.
  exists c_k4. eexists. eexists. split; [exact c_k4_wf|].
  split; [vm_compute; reflexivity|]. split.
  - split; [repeat constructor; vm_compute; discriminate|vm_compute; reflexivity].
  - split; [vm_compute; reflexivity|]. split; reflexivity.
Qed.

Lemma base_examples :
  String.eqb (path_base "charts/evil") "charts/evil" = false /\ String.eqb (path_base "good") "good" = true /\
  String.eqb (path_base "../x") "../x" = false /\ String.eqb (path_base "a/") "a/" = false.
Proof. repeat split; vm_compute; reflexivity. Qed.

(* ---- directory / archive agreement: a concrete tree with one ignored file ---- *)
From Helm Require Import Chart.AgreeProofs.

Definition ignK (n : string) (_ : bool) : bool := String.eqb n "README.md".
Definition walkK : list file :=
  [mkFile ".helmignore" "README.md"; mkFile "Chart.yaml" "name: k4"; mkFile "README.md" "ignored";
   mkFile "notes.txt" (utf8bom ++ utf8bom ++ "x");
   mkFile "templates/a.yaml" (utf8bom ++ "a: 1"); mkFile "values.schema.json" "{}"].

Lemma agree_example :
  wf_cname "k4" = true /\ Forall (fun f => wf_fname (f_name f) = true) walkK /\
  fits 1000 100 (map (fun f => tar_entry ("k4" ++ "/" ++ f_name f) (f_data f)) (kept ignK walkK)) /\
  kept ignK walkK <> [] /\
  exists c, load_dir_walk mergeK lock_decK parseK untarK sanK semverK restK 1000 100 ignK 1 walkK = inr c /\
            c_templates c = [mkFile "templates/a.yaml" "a: 1"] /\ c_files c = [mkFile ".helmignore" "README.md"; mkFile "notes.txt" (utf8bom ++ "x")].
Proof.
  split; [reflexivity|]. split; [repeat constructor|]. split.
  { split; [repeat constructor; vm_compute; discriminate|vm_compute; reflexivity]. }
  split; [vm_compute; discriminate|].
  eexists. split; [vm_compute; reflexivity|]. split; reflexivity.
Qed.

(* ---- recursive round trip: a toy codec that accepts every name, and a three-level tree ---- *)
From Helm Require Import Chart.RecProofs.

Definition metaT (n : string) : meta := mkMeta "v2" n "0.1.0" "" "" "{}".
Definition encT (m : meta) : string := "n:" ++ m_name m.
Definition mergeT (_ : meta) (d : string) : option meta := Some (metaT (substring 2 (String.length d - 2) d)).
Definition restT (m : meta) : bool := meta_eqb m (metaT (m_name m)).

Lemma substring_tail2 s : substring 2 (String.length ("n:" ++ s) - 2) ("n:" ++ s) = s.
Proof. simpl. rewrite Nat.sub_0_r. induction s; simpl; congruence. Qed.

Lemma codecT_ok :
  (forall m, validate sanK semverK restT m = Some m -> mergeT empty_meta (encT m) = Some m) /\
  (forall m, has_bom (encT m) = false) /\
  (forall l, lock_decK (lock_encK l) = Some (Some l)) /\
  (forall l, has_bom (lock_encK l) = false).
Proof.
  repeat split; try reflexivity.
  intros m H. unfold validate, sanK in H.
  repeat match type of H with context [if ?b then _ else _] => destruct b eqn:? end; try discriminate.
  unfold mergeT, encT. rewrite substring_tail2. f_equal. symmetry. apply meta_eqb_eq.
  match goal with E : negb (restT m) = false |- _ => now apply negb_false_iff in E end.
Qed.

Definition leafT (n : string) (fs : list file) : chart := Chart (metaT n) None [] None None [] fs [].
Definition treeT : chart :=
  Chart (metaT "top") (Some "digest") [mkFile "values.yaml" "a: 1"] (Some (VStr "a: 1")) None
        [mkFile "templates/d.yaml" "kind: X"] [mkFile "README.md" "hi"]
        [Chart (metaT "alpha") None [] None None [mkFile "templates/a.yaml" "a"] []
               [leafT "inner" [mkFile "docs/i.prov" "p"; mkFile "f" "f"]];
         leafT "zeta" [mkFile "docs/z.prov" "z"]].

Lemma treeT_ok :
  wf_tree parseK jsonK sanK semverK restT treeT /\ nobom_tree treeT /\ depth treeT = 3%nat.
Proof.
  assert (forall n fs, wf_cname n = true -> forallb wf_file fs = true -> wf_chart parseK jsonK sanK semverK restT (own (leafT n fs))) as Hleaf.
  { intros n fs Hn Hf. constructor; simpl; auto. unfold validate, sanK, restT, semverK. simpl.
    destruct (wf_cname_props n Hn) as ((Hne & _) & Hs & _).
    apply String.eqb_neq in Hne. rewrite Hne. unfold name_is_base.
    assert (path_base n = n) as ->.
    { unfold path_base. destruct n as [|a n']; [now rewrite String.eqb_refl in Hne|].
      assert (strip_trailing slash (String a n') = String a n') as ->.
      { clear -Hs. revert a Hs. induction n' as [|b t IH]; intros a Hs; simpl in *.
        - destruct (Ascii.eqb a slash); [discriminate|reflexivity].
        - apply orb_false_iff in Hs as [Ha Hs]. specialize (IH b Hs). simpl in IH. rewrite IH. reflexivity. }
      rewrite (PathsProofs.split_on_nosep slash _ Hs). reflexivity. }
    rewrite String.eqb_refl. simpl. unfold meta_eqb. simpl. now rewrite !String.eqb_refl. }
  assert (forall n fs, wf_cname n = true -> forallb wf_file fs = true ->
                       wf_tree parseK jsonK sanK semverK restT (leafT n fs)) as Hleaft.
  { intros n fs Hn Hf. constructor; [now apply Hleaf|exact I|constructor|constructor]. }
  pose proof (Hleaft "inner" [mkFile "docs/i.prov" "p"; mkFile "f" "f"] eq_refl eq_refl) as Hinner.
  pose proof (Hleaft "zeta" [mkFile "docs/z.prov" "z"] eq_refl eq_refl) as Hzeta.
  assert (wf_tree parseK jsonK sanK semverK restT
            (Chart (metaT "alpha") None [] None None [mkFile "templates/a.yaml" "a"] []
                   [leafT "inner" [mkFile "docs/i.prov" "p"; mkFile "f" "f"]])) as Halpha.
  { constructor.
    - constructor; simpl; auto; reflexivity.
    - simpl. split; [constructor|exact I].
    - constructor; [split; reflexivity|constructor].
    - constructor; [exact Hinner|constructor]. }
  split; [|split; [|reflexivity]].
  - constructor.
    + constructor; simpl; auto; reflexivity.
    + simpl. split; [constructor; [split; [reflexivity|discriminate]|constructor]|split; [constructor|exact I]].
    + constructor; [split; reflexivity|constructor; [split; reflexivity|constructor]].
    + constructor; [exact Halpha|constructor; [exact Hzeta|constructor]].
  - repeat (constructor; simpl; auto).
Qed.

Lemma treeT_saved :
  exists es, save encT lock_encK jsonK sanK semverK restT treeT = Some es /\ fits 1000 100 es /\
    exists c', load_archive mergeT lock_decK parseK untarK sanK semverK restT 1000 100 3 (mkTS false es false) = inr c'
               /\ chart_eqb treeT c' = true /\ List.length (c_deps c') = 2%nat.
Proof.
  eexists. split; [vm_compute; reflexivity|]. split.
  - split; [repeat constructor; vm_compute; discriminate|vm_compute; reflexivity].
  - eexists. split; [vm_compute; reflexivity|]. split; vm_compute; reflexivity.
Qed.

Definition roundtrip_example := conj codecK_ok (conj c_ok_wf c_ok_saved).
Definition roundtrip_rec_example := conj codecT_ok (conj treeT_ok treeT_saved).

(* a dependency two levels down whose name is a path: nothing is written *)
Definition badT : chart :=
  Chart (metaT "root") None [] None None [] []
        [Chart (metaT "mid") None [] None None [] [] [leafT "../../up" [mkFile "f" "f"]]].

Lemma badT_not_saved :
  bad_name_in (Chart (metaT "mid") None [] None None [] [] [leafT "../../up" [mkFile "f" "f"]]) /\
  save encT lock_encK jsonK sanK semverK restT badT = None.
Proof.
  split; [|vm_compute; reflexivity].
  apply (BadBelow _ (leafT "../../up" [mkFile "f" "f"])); [now left|]. apply BadHere. vm_compute. reflexivity.
Qed.

(* C15, round 4: a concrete instance for C15_savedir_load_roundtrip -- a toy tar+gzip codec
   (length-prefixed names and bodies) that reads back what it wrote, and the v1 chart of
   Examples15b saved as a directory and loaded from a walk in another order. *)
From Coq Require Import List String Ascii Bool Arith ZArith Lia Permutation.
From Helm Require Import Values.Tree Chart.Paths Chart.PathsProofs Chart.Archive Chart.Files Chart.Save Chart.Load
  Chart.SaveDir Chart.Wf Chart.Wf2 Chart.LoadProofs Chart.RecProofs Chart.Rt2Proofs Chart.Ignore Chart.Match Chart.IgnoreProofs
  Chart.DirProofs Chart.Examples15 Chart.Examples15b.
Import ListNotations.
Local Open Scope string_scope.

(* n in unary: n times '1', then '0' *)
Fixpoint enc_nat (n : nat) : string := match n with O => "0" | S k => String "1" (enc_nat k) end.
Definition enc_str (s : string) : string := enc_nat (String.length s) ++ s.
Fixpoint enc_list (l : list (string * string)) : string :=
  match l with
  | [] => "."
  | p :: t => String "E" (enc_str (fst p) ++ enc_str (snd p) ++ enc_list t)
  end.

Fixpoint dec_nat (s : string) : option (nat * string) :=
  match s with
  | String "0" r => Some (O, r)
  | String "1" r => match dec_nat r with Some (n, r') => Some (S n, r') | None => None end
  | _ => None
  end.
Fixpoint take (n : nat) (s : string) : option (string * string) :=
  match n, s with
  | O, _ => Some ("", s)
  | S k, String a r => match take k r with Some (h, t) => Some (String a h, t) | None => None end
  | S _, EmptyString => None
  end.
Definition dec_str (s : string) : option (string * string) :=
  match dec_nat s with Some (n, r) => take n r | None => None end.
Fixpoint dec_list (fuel : nat) (s : string) : option (list (string * string)) :=
  match fuel with
  | O => None
  | S f =>
      match s with
      | String "." EmptyString => Some []
      | String "E" r =>
          match dec_str r with
          | Some (n, r1) =>
              match dec_str r1 with
              | Some (d, r2) => match dec_list f r2 with Some t => Some ((n, d) :: t) | None => None end
              | None => None
              end
          | None => None
          end
      | _ => None
      end
  end.

Definition tgzU (es : list tentry) : string := enc_list (map (fun e => (te_name e, te_data e)) es).
Definition untarU (d : string) : tstream :=
  match dec_list (S (String.length d)) d with
  | Some l => mkTS false (map (fun p => tar_entry (fst p) (snd p)) l) false
  | None => mkTS true [] false
  end.

Lemma dec_enc_nat n r : dec_nat (enc_nat n ++ r) = Some (n, r).
Proof. induction n as [|k IH]; simpl; [reflexivity|]. now rewrite IH. Qed.

Lemma take_app s r : take (String.length s) (s ++ r) = Some (s, r).
Proof. induction s as [|a t IH]; simpl; [reflexivity|]. now rewrite IH. Qed.

Lemma dec_enc_str s r : dec_str (enc_str s ++ r) = Some (s, r).
Proof. unfold dec_str, enc_str. rewrite append_assoc, dec_enc_nat. apply take_app. Qed.

Lemma dec_enc_list l : forall fuel, (List.length l < fuel)%nat -> dec_list fuel (enc_list l) = Some l.
Proof.
  induction l as [|p t IH]; intros fuel Hf; (destruct fuel as [|f]; [lia|]); [reflexivity|].
  cbn [enc_list dec_list]. rewrite dec_enc_str, dec_enc_str.
  simpl in Hf. rewrite IH by lia. now destruct p.
Qed.

Lemma enc_list_length l : (List.length l < S (String.length (enc_list l)))%nat.
Proof.
  induction l as [|p t IH]; simpl; [lia|]. rewrite !MatchProofs.length_app. lia.
Qed.

Lemma tarU_ok :
  (forall l : list (string * string),
     untarU (tgzU (map (fun p => tar_entry (fst p) (snd p)) l)) = mkTS false (map (fun p => tar_entry (fst p) (snd p)) l) false) /\
  (forall es, has_bom (tgzU es) = false).
Proof.
  split.
  - intros l. unfold untarU, tgzU. rewrite map_map. cbn [te_name te_data tar_entry].
    assert (map (fun x : string * string => (fst x, snd x)) l = l) as -> by (induction l as [|[a b] t IH]; simpl; congruence).
    now rewrite (dec_enc_list l _ (enc_list_length l)).
  - intros es. unfold tgzU. destruct es; reflexivity.
Qed.

(* the rules of a chart directory without a .helmignore: the built-in rule only *)
Definition rules0 : list pat := [default_pat].
Definition ign0 : string -> bool -> bool := rules_ignore gmatch_ok rules0.

Definition walkU (tree : list file) : list file := walk_sort tree.

Lemma c_v1_dir :
  (contains_char nul (dname c_v1) = false /\
   fresh_all [] (map f_name (dir_tree encU lock_encK tgzU c_v1)) = true /\
   Forall (fun d => contains_char slash (m_version (c_meta d)) = false /\ fits 10000 1000 (tree_entries (md_enc2 encU) lock_encK d)) (c_deps c_v1)) /\
  parse_ignore gmatch_err None = Some rules0 /\
  exists tree, save_dir encU lock_encK jsonK sanK semverK restU tgzU c_v1 = Some tree /\
    map f_name tree = ["Chart.yaml"; "values.yaml"; "templates/d.yaml"; "requirements.yaml"; "README.md"; "requirements.lock";
                       "charts/dep-a-0.1.0.tgz.prov"; "charts/dep-b-0.1.0.tgz"; "charts/dep-a-0.1.0.tgz"] /\
    Permutation (walk_sort tree) tree /\ walk_sort tree <> tree /\
    Forall (fun f => eff_ignored ign0 (f_name f) = false /\ (slen (f_data f) <= 1000)%Z) tree /\
    exists c', load_dir_walk mergeU lock_decK parseK untarU sanK semverK restU 10000 1000 ign0 2 (walk_sort tree) = inr c' /\
      c_meta c' = c_meta c_v1 /\ c_lock c' = Some "digest" /\ c_values c' = c_values c_v1 /\
      map f_name (c_files c') = ["README.md"; "charts/dep-a-0.1.0.tgz.prov"; "requirements.lock"; "requirements.yaml"] /\
      map dname (c_deps c') = ["dep-a"; "dep-b"].
Proof.
  split; [split; [reflexivity|split; [vm_compute; reflexivity|]]|].
  { repeat constructor; try reflexivity; try (vm_compute; discriminate). }
  split; [vm_compute; reflexivity|].
  eexists. split; [vm_compute; reflexivity|]. split; [reflexivity|].
  split.
  { apply NoDup_Permutation.
    - vm_compute. repeat constructor; simpl; intuition discriminate.
    - vm_compute. repeat constructor; simpl; intuition discriminate.
    - intros x. vm_compute. tauto. }
  split; [vm_compute; discriminate|].
  split; [repeat constructor; vm_compute; try reflexivity; discriminate|].
  eexists. split; [vm_compute; reflexivity|]. repeat split; vm_compute; reflexivity.
Qed.

Definition savedir_example := conj codecU_ok (conj tarU_ok (conj c_v1_ok c_v1_dir)).

(* Proofs about Chart/Archive.v and the joins of Chart/Paths.v (C16). *)
From Coq Require Import List String Ascii Bool Arith ZArith Lia ZifyBool.
From Helm Require Import Chart.Paths Chart.PathsProofs Chart.Archive Gen.Limits.
Import ListNotations.
Local Open Scope string_scope.

(* ---------- names ---------- *)
Lemma split_pieces_nochar c d s :
  contains_char c s = false -> Forall (fun p => contains_char c p = false) (split_on d s).
Proof.
  induction s as [|x s IH]; simpl; intros H.
  - constructor; auto.
  - apply orb_false_iff in H as [Hx Hs]. specialize (IH Hs).
    destruct (Ascii.eqb x d).
    + constructor; auto.
    + destruct (split_on d s) as [|h r].
      * constructor; auto. simpl. now rewrite Hx.
      * inversion IH; subst. constructor; auto. simpl. now rewrite Hx.
Qed.

Lemma bslash_neq_slash : bslash <> slash.
Proof. discriminate. Qed.

(* the string the name pipeline hands to path.Clean contains no backslash *)
Lemma arch_pre_nobslash h p0 rest :
  let delim := if contains_char bslash h then bslash else slash in
  split_on delim h = p0 :: rest ->
  contains_char bslash (replace_char delim slash (join (String delim EmptyString) rest)) = false.
Proof.
  intros delim Hs. subst delim. destruct (contains_char bslash h) eqn:E.
  - apply contains_replace_char. exact bslash_neq_slash.
  - rewrite replace_char_id.
    pose proof (split_pieces_nochar bslash slash h E) as HF. rewrite Hs in HF. inversion HF; subst.
    apply contains_char_join; auto.
Qed.

Lemma path_clean_rel_shape n0 :
  is_abs n0 = false -> path_clean n0 <> "." -> String.prefix ".." (path_clean n0) = false ->
  exists g, path_clean n0 = join "/" g /\ g <> [] /\ Forall good_comp g /\ (forall c, In c g -> In c (split_on slash n0)).
Proof.
  intros Habs Hdot Hpre. unfold path_clean in *. destruct n0 as [|a n0'] eqn:En; [congruence|].
  rewrite <- En in *. rewrite Habs in *. unfold clean_comps in *. rewrite Habs in *.
  destruct (clean_go_shape0 (split_on slash n0)) as (k & g & Hc & Hg & Hin).
  rewrite Hc in *. destruct (repeat ".." k ++ g)%list eqn:E; [congruence|]. rewrite <- E in *.
  destruct k.
  - simpl in *. exists g. repeat split; auto. intro; subst; discriminate.
  - rewrite prefix_dotdot_join in Hpre by lia. discriminate.
Qed.

Lemma arch_name_clean h n : arch_name h = inr n -> clean_rel n.
Proof.
  unfold arch_name. set (delim := if contains_char bslash h then bslash else slash).
  destruct (split_on delim h) as [|p0 rest] eqn:Hs; [discriminate|].
  pose proof (arch_pre_nobslash h p0 rest Hs) as Hnb. fold delim in Hnb.
  set (n0 := replace_char delim slash (join (String delim EmptyString) rest)) in *.
  destruct (is_abs n0) eqn:Habs; [discriminate|].
  destruct (String.eqb (path_clean n0) ".") eqn:Hdot; [discriminate|].
  destruct (String.prefix ".." (path_clean n0)) eqn:Hpre; [discriminate|].
  destruct (drive_prefix (path_clean n0)) eqn:Hdrv; [discriminate|].
  destruct (String.eqb p0 "Chart.yaml"); [discriminate|].
  intros H. inversion H; subst n. clear H.
  apply String.eqb_neq in Hdot.
  destruct (path_clean_rel_shape n0 Habs Hdot Hpre) as (g & Hj & Hne & Hg & Hin).
  assert (Forall (fun p => contains_char slash p = false) g) as Hns.
  { apply Forall_forall. intros c Hc. pose proof (split_on_pieces slash n0) as HP.
    rewrite Forall_forall in HP. apply HP. auto. }
  assert (Forall (fun p => contains_char bslash p = false) g) as Hnbg.
  { apply Forall_forall. intros c Hc. pose proof (split_pieces_nochar bslash slash n0 Hnb) as HP.
    rewrite Forall_forall in HP. apply HP. auto. }
  rewrite Hj. unfold clean_rel. repeat split.
  - change "/" with (sep1 slash). rewrite split_join; auto.
  - apply contains_char_join; auto.
  - rewrite <- Hj. exact Hdrv.
Qed.

(* ---------- joins ---------- *)
Lemma is_abs_app d x : d <> "" -> is_abs (d ++ x) = is_abs d.
Proof. destruct d; [congruence|reflexivity]. Qed.

Lemma join_comps d n :
  d <> "" -> Forall good_comp (split_on slash n) ->
  clean_comps (d ++ "/" ++ n) = (clean_comps d ++ split_on slash n)%list.
Proof.
  intros Hd HF. unfold clean_comps. rewrite is_abs_app by assumption.
  change (d ++ "/" ++ n) with (d ++ String slash n). rewrite split_on_concat.
  rewrite clean_go_app. rewrite clean_go_good by assumption. now rewrite rev_involutive.
Qed.

Lemma arch_join_confined h n d :
  arch_name h = inr n -> d <> "" ->
  path_join d n = path_clean (d ++ "/" ++ n) /\
  clean_comps (d ++ "/" ++ n) = (clean_comps d ++ split_on slash n)%list /\
  split_on slash n <> [] /\ Forall good_comp (split_on slash n).
Proof.
  intros Hn Hd. destruct (arch_name_clean h n Hn) as (HF & _ & _).
  repeat split; auto.
  - unfold path_join. destruct d; [congruence|]. destruct n; [|reflexivity].
    simpl in HF. inversion HF as [|? ? (H & _) _]. congruence.
  - now apply join_comps.
  - apply split_on_nonempty.
Qed.

Lemma join_head_nonempty sep x l : x <> "" -> join sep (x :: l) <> "".
Proof. destruct x; [congruence|]. intros _. destruct l; simpl; discriminate. Qed.

Lemma path_clean_nonempty s : path_clean s <> "".
Proof.
  unfold path_clean. destruct s as [|a s']; [discriminate|].
  set (s := String a s'). destruct (is_abs s) eqn:Ha; [discriminate|].
  unfold clean_comps. rewrite Ha.
  destruct (clean_go_shape0 (split_on slash s)) as (k & g & Hc & Hg & _). rewrite Hc.
  destruct k; simpl.
  - destruct g as [|y g]; [discriminate|]. inversion Hg as [|? ? (Hy & _) _]; subst.
    now apply join_head_nonempty.
  - destruct (repeat ".." k ++ g)%list; discriminate.
Qed.

(* cleanJoin: the accepted name has no ".." component; the join only adds good components *)
Lemma clean_join_confined root dest p :
  clean_join root dest = inr p ->
  let dest' := replace_char bslash slash dest in
  let rest := filter (fun c => negb (trivial_comp c)) (split_on slash dest') in
  Forall good_comp rest /\
  clean_comps (path_clean root ++ "/" ++ dest') = (clean_comps (path_clean root) ++ rest)%list /\
  p = match rest with [] => path_clean root | _ => path_clean root ++ "/" ++ join "/" rest end.
Proof.
  unfold clean_join. destruct (contains_char colon dest); [discriminate|].
  set (dest' := replace_char bslash slash dest).
  destruct (existsb (fun p => String.eqb p "..") (split_on slash dest')) eqn:Hdd; [discriminate|].
  destruct (is_abs dest'); [discriminate|]. intros H. inversion H; subst p. clear H. cbv zeta.
  split; [now apply filter_nontrivial_good|]. split.
  - pose proof (path_clean_nonempty root) as Hne.
    unfold clean_comps at 1. rewrite is_abs_app by assumption.
    change (path_clean root ++ "/" ++ dest') with (path_clean root ++ String slash dest').
    rewrite split_on_concat, clean_go_app, clean_go_nodotdot by assumption.
    now rewrite rev_involutive.
  - unfold secure_join_lex. rewrite clean_go_nodotdot by assumption. simpl.
    destruct (filter (fun c => negb (trivial_comp c)) (split_on slash dest')); reflexivity.
Qed.

(* ---------- size budget ---------- *)
Local Open Scope Z_scope.

Definition wf_entry (e : tentry) : Prop := 0 <= te_size e /\ slen (te_data e) <= te_size e.

Definition sumZ (l : list Z) : Z := fold_right Z.add 0 l.

Lemma slen_nonneg s : 0 <= slen s.
Proof. unfold slen. lia. Qed.

Lemma length_substring0 n s : String.length (substring 0 n s) = Nat.min n (String.length s).
Proof.
  revert n. induction s as [|a s IH]; intros [|n]; simpl; auto.
Qed.

Lemma length_substring_le m n s : (String.length (substring m n s) <= String.length s)%nat.
Proof.
  revert m n. induction s as [|a s IH]; intros m n; destruct m, n; simpl; try lia.
  - specialize (IH 0%nat n). lia.
  - specialize (IH m 0%nat). lia.
  - specialize (IH m (S n)). lia.
Qed.

Lemma slen_trim_bom s : slen (trim_bom s) <= slen s.
Proof.
  unfold trim_bom, slen. destruct (String.prefix utf8bom s); [|lia].
  pose proof (length_substring_le 3 (String.length s - 3) s). lia.
Qed.

(* what the loop guarantees, for any result *)
Lemma load_go_reads maxf es : forall rem res rs,
  Forall wf_entry es -> load_go maxf rem es = (res, rs) ->
  Forall (fun r => 0 <= rd_n r <= Z.min (rd_size r) (rd_rem r)) rs /\ sumZ (map rd_n rs) <= Z.max 0 rem.
Proof.
  induction es as [|e es IH]; intros rem res rs HF H; simpl in H; unfold entry_over_remaining, entry_over_file_limit, short_read, budget_exhausted in H.
  - inversion H; subst. simpl. split; [constructor|lia].
  - inversion HF as [|? ? (Hs0 & Hsl) HF']; subst.
    destruct (te_isdir e || te_xheader e).
    { destruct (te_rerr e); [inversion H; subst; simpl; split; [constructor|lia]|]. eauto. }
    destruct (arch_name (te_name e)); [inversion H; subst; simpl; split; [constructor|lia]|].
    destruct (te_size e >? rem) eqn:E1; [inversion H; subst; simpl; split; [constructor|lia]|].
    destruct (te_size e >? maxf) eqn:E2; [inversion H; subst; simpl; split; [constructor|lia]|].
    pose proof (slen_nonneg (te_data e)) as Hd.
    assert (0 <= Z.min (slen (te_data e)) rem <= Z.min (te_size e) rem) as Hw by lia.
    destruct (te_rerr e).
    { inversion H; subst. simpl. split; [constructor; [simpl; lia|constructor]|lia]. }
    destruct ((Z.min (slen (te_data e)) rem <? te_size e) || (rem - Z.min (slen (te_data e)) rem <=? 0)) eqn:E3.
    { inversion H; subst. simpl. split; [constructor; [simpl; lia|constructor]|lia]. }
    destruct (load_go maxf (rem - Z.min (slen (te_data e)) rem) es) as [res' rs'] eqn:Er.
    inversion H; subst. apply orb_false_iff in E3 as [E3 E4].
    destruct (IH _ _ _ HF' Er) as [Ha Hb]. simpl. split; [constructor; [simpl; lia|assumption]|lia].
Qed.

(* what acceptance guarantees *)
Lemma load_go_accepts maxf es : forall rem fs rs,
  Forall wf_entry es -> load_go maxf rem es = (inr fs, rs) ->
  Forall (fun f => slen (f_data f) <= maxf) fs /\
  Forall (fun e => te_size e <= maxf) (filter counted es) /\
  (fs <> [] -> sumZ (map (fun f => slen (f_data f)) fs) < rem) /\
  (filter counted es <> [] -> sumZ (map te_size (filter counted es)) < rem) /\
  (fs = [] <-> filter counted es = []).
Proof.
  induction es as [|e es IH]; intros rem fs rs HF H; simpl in H; unfold entry_over_remaining, entry_over_file_limit, short_read, budget_exhausted in H.
  - inversion H; subst. simpl. repeat split; auto; try congruence.
  - inversion HF as [|? ? (Hs0 & Hsl) HF']; subst. simpl filter.
    destruct (te_isdir e || te_xheader e) eqn:Esk.
    { assert (counted e = false) as ->
        by (unfold counted; destruct (te_isdir e), (te_xheader e); simpl in *; congruence).
      destruct (te_rerr e); [discriminate|]. eauto. }
    assert (counted e = true) as ->
        by (unfold counted; destruct (te_isdir e), (te_xheader e); simpl in *; congruence).
    destruct (arch_name (te_name e)) as [|n]; [discriminate|].
    destruct (te_size e >? rem) eqn:E1; [discriminate|].
    destruct (te_size e >? maxf) eqn:E2; [discriminate|].
    destruct (te_rerr e); [discriminate|].
    set (w := Z.min (slen (te_data e)) rem) in *.
    destruct ((w <? te_size e) || (rem - w <=? 0)) eqn:E3; [discriminate|].
    destruct (load_go maxf (rem - w) es) as [res' rs'] eqn:Er.
    destruct res' as [|fs']; [discriminate|]. inversion H; subst. clear H.
    apply orb_false_iff in E3 as [E3 E4].
    assert (w = te_size e) as Hw by (subst w; lia).
    destruct (IH _ _ _ HF' Er) as (H1 & H2 & H3 & H4 & H5).
    assert (slen (trim_bom (substring 0 (Z.to_nat w) (te_data e))) <= w) as Hlen.
    { pose proof (slen_trim_bom (substring 0 (Z.to_nat w) (te_data e))) as Ht.
      unfold slen in *. rewrite length_substring0 in Ht. lia. }
    repeat split.
    + constructor; [simpl; lia|assumption].
    + constructor; [lia|assumption].
    + intros _. simpl. destruct fs' as [|f fs'].
      * simpl. lia.
      * assert (f :: fs' <> []) as Hne by discriminate. specialize (H3 Hne). simpl in *. lia.
    + intros _. simpl. destruct (filter counted es) as [|e' l] eqn:Ef.
      * simpl. lia.
      * assert (e' :: l <> []) as Hne by discriminate. specialize (H4 Hne). simpl in *. lia.
    + discriminate.
    + discriminate.
Qed.

Lemma size_budget maxt maxf s fs :
  Forall wf_entry (ts_entries s) -> load_archive_files maxt maxf s = inr fs ->
  Forall (fun f => slen (f_data f) <= maxf) fs /\
  sumZ (map (fun f => slen (f_data f)) fs) < maxt /\
  Forall (fun e => te_size e <= maxf) (filter counted (ts_entries s)) /\
  sumZ (map te_size (filter counted (ts_entries s))) < maxt.
Proof.
  intros HF H. unfold load_archive_files, load_archive_trace in H.
  destruct (ts_gzerr s); [discriminate|].
  destruct (load_go maxf maxt (ts_entries s)) as [res rs] eqn:E. simpl in H.
  destruct res as [|fs0]; [discriminate|]. destruct (ts_err s); [discriminate|].
  destruct fs0 as [|f fs0]; [discriminate|]. inversion H; subst fs. clear H.
  destruct (load_go_accepts _ _ _ _ _ HF E) as (H1 & H2 & H3 & H4 & H5).
  assert (f :: fs0 <> []) as Hne by discriminate.
  assert (filter counted (ts_entries s) <> []) as Hne2 by (intro Hc; apply H5 in Hc; congruence).
  repeat split; auto.
Qed.

Lemma size_budget_default s fs :
  Forall wf_entry (ts_entries s) ->
  load_archive_files max_decompressed_chart_size max_decompressed_file_size s = inr fs ->
  Forall (fun f => slen (f_data f) <= max_decompressed_file_size) fs /\
  sumZ (map (fun f => slen (f_data f)) fs) < max_decompressed_chart_size.
Proof.
  intros H1 H2. destruct (size_budget _ _ _ _ H1 H2) as (A & B & _). split; assumption.
Qed.

Lemma reads_bounded maxt maxf s :
  Forall wf_entry (ts_entries s) ->
  let rs := snd (load_archive_trace maxt maxf s) in
  Forall (fun r => 0 <= rd_n r <= Z.min (rd_size r) (rd_rem r)) rs /\ sumZ (map rd_n rs) <= Z.max 0 maxt.
Proof.
  intros HF. unfold load_archive_trace. destruct (ts_gzerr s); simpl; [split; [constructor|lia]|].
  destruct (load_go maxf maxt (ts_entries s)) as [res rs] eqn:E. simpl.
  eapply load_go_reads; eauto.
Qed.

(* K5: an entry with a regular type flag (48 = '0') and directory mode bits is skipped uncounted *)
Definition k5_stream : tstream :=
  mkTS false [mkTE "c/Chart.yaml" 48 420 4 "name" false;
              mkTE "c/big" 48 16877 40 "0123456789012345678901234567890123456789" false] false.

Lemma dirmode_refuted :
  exists s fs, Forall wf_entry (ts_entries s) /\ load_archive_files 10 5 s = inr fs /\
    sumZ (map te_size (filter (fun e => te_type e =? 48) (ts_entries s))) > 10.
Proof.
  exists k5_stream, [mkFile "Chart.yaml" "name"]. split; [|split].
  - repeat constructor; simpl; unfold slen; simpl; lia.
  - vm_compute. reflexivity.
  - vm_compute. reflexivity.
Qed.

(* the hypotheses of size_budget are met by a stream that is accepted with two files *)
Definition ok_stream : tstream :=
  mkTS false [mkTE "c/Chart.yaml" 48 420 4 "name" false; mkTE "c/dir/" 53 493 0 "" false;
              mkTE "c/templates/a.yaml" 48 420 3 "a:1" false] false.

Lemma size_budget_example :
  Forall wf_entry (ts_entries ok_stream) /\
  load_archive_files 10 5 ok_stream = inr [mkFile "Chart.yaml" "name"; mkFile "templates/a.yaml" "a:1"].
Proof. split; [repeat constructor; simpl; unfold slen; simpl; lia|vm_compute; reflexivity]. Qed.

(* every file of an accepted archive carries a clean relative name *)
Lemma load_go_names maxf es : forall rem fs rs,
  load_go maxf rem es = (inr fs, rs) -> Forall (fun f => clean_rel (f_name f)) fs.
Proof.
  induction es as [|e es IH]; intros rem fs rs H; simpl in H; unfold entry_over_remaining, entry_over_file_limit, short_read, budget_exhausted in H.
  - inversion H. constructor.
  - destruct (te_isdir e || te_xheader e).
    { destruct (te_rerr e); [discriminate|]. eauto. }
    destruct (arch_name (te_name e)) as [|n] eqn:En; [discriminate|].
    destruct (te_size e >? rem); [discriminate|].
    destruct (te_size e >? maxf); [discriminate|].
    destruct (te_rerr e); [discriminate|].
    destruct ((Z.min (slen (te_data e)) rem <? te_size e) || (rem - Z.min (slen (te_data e)) rem <=? 0)); [discriminate|].
    destruct (load_go maxf (rem - Z.min (slen (te_data e)) rem) es) as [res' rs'] eqn:Er.
    destruct res' as [|fs']; [discriminate|]. inversion H; subst.
    constructor; [simpl; eapply arch_name_clean; eauto|eauto].
Qed.

Lemma loaded_names_clean maxt maxf s fs :
  load_archive_files maxt maxf s = inr fs -> Forall (fun f => clean_rel (f_name f)) fs.
Proof.
  unfold load_archive_files, load_archive_trace. destruct (ts_gzerr s); [discriminate|].
  destruct (load_go maxf maxt (ts_entries s)) as [res rs] eqn:E. simpl.
  destruct res as [|fs0]; [discriminate|]. destruct (ts_err s); [discriminate|].
  destruct fs0; [discriminate|]. intros H. inversion H; subst. eapply load_go_names; eauto.
Qed.

Lemma names_example :
  arch_name "chart\sub/..\templates/./a.yaml" = inr "templates/a.yaml" /\
  arch_name "chart/../../etc/passwd" = inl EParent /\ arch_name "chart/c:/x" = inl EDrive.
Proof. repeat split; vm_compute; reflexivity. Qed.

Lemma cleanjoin_example :
  clean_join "/plugins/./cache/" "bin\.\x//y" = inr "/plugins/cache/bin/x/y" /\
  clean_join "/plugins" "a/../b" = inl CJDotDot /\ clean_join "/plugins" "c:x" = inl CJColon.
Proof. repeat split; vm_compute; reflexivity. Qed.

(* ---------- DownloadTo's file name ---------- *)
Local Open Scope string_scope.

Lemma last_in {A} (l : list A) d : l <> [] -> In (last l d) l.
Proof.
  induction l as [|x l IH]; [congruence|]. intros _. destruct l as [|y l]; [now left|].
  right. apply IH. discriminate.
Qed.

Lemma path_base_noslash s : path_base s = "/" \/ contains_char slash (path_base s) = false.
Proof.
  unfold path_base. destruct s as [|a s']; [now right|].
  destruct (strip_trailing slash (String a s')) as [|b t] eqn:E; [now left|]. right.
  pose proof (split_on_pieces slash (String b t)) as HP. rewrite Forall_forall in HP.
  apply HP. apply last_in. apply split_on_nonempty.
Qed.

Lemma download_confined upath name d :
  download_name upath = Some name -> d <> "" ->
  name <> "." /\ name <> ".." /\ contains_char slash name = false /\
  clean_comps (d ++ "/" ++ name) = (clean_comps d ++ (if String.eqb name "" then [] else [name]))%list.
Proof.
  unfold download_name. intros H Hd.
  destruct (String.eqb (path_base upath) ".") eqn:E1; [discriminate|].
  destruct (String.eqb (path_base upath) "..") eqn:E2; [discriminate|].
  destruct (String.eqb (path_base upath) "/") eqn:E3; [discriminate|].
  simpl in H. inversion H; subst name. clear H.
  apply String.eqb_neq in E1, E2, E3.
  destruct (path_base_noslash upath) as [|Hns]; [congruence|].
  repeat split; auto.
  unfold clean_comps. rewrite is_abs_app by assumption.
  change (d ++ "/" ++ path_base upath) with (d ++ String slash (path_base upath)).
  rewrite split_on_concat, clean_go_app, (split_on_nosep _ _ Hns).
  cbn [clean_go]. apply String.eqb_neq in E1, E2.
  destruct (String.eqb (path_base upath) "") eqn:E0; simpl.
  - now rewrite rev_involutive, app_nil_r.
  - rewrite E1, E2. simpl. now rewrite rev_involutive.
Qed.

Lemma download_examples :
  download_name "/charts/x-1.0.0.tgz" = Some "x-1.0.0.tgz" /\ download_name "/charts/../../x.tgz" = Some "x.tgz" /\
  download_name "/charts/.." = None /\ download_name "/" = None /\ download_name "/charts/." = None.
Proof. repeat split; vm_compute; reflexivity. Qed.

(* the per-file limit does not depend on the entry's name *)
Lemma file_limit_any_name :
  load_archive_files 1000 5 (mkTS false [mkTE "c/Chart.yaml" 48 420 4 "name" false;
                                         mkTE "c/charts/sub/files/blob.tgz" 48 420 6 "123456" false] false) = inl EFile /\
  load_archive_files 1000 5 (mkTS false [mkTE "c/Chart.yaml" 48 420 4 "name" false;
                                         mkTE "c/charts/sub-0.1.0.tgz" 48 420 6 "123456" false] false) = inl EFile.
Proof. split; vm_compute; reflexivity. Qed.

(* the operators read from archive.go against the model's predicates (by conversion: the
   generated definitions are string literals) *)
Lemma limit_operators (a b : Z) :
  cmp_of op_entry_vs_remaining a b = entry_over_remaining a b /\
  cmp_of op_entry_vs_file_limit a b = entry_over_file_limit a b /\
  cmp_of op_short_read a b = short_read a b /\
  cmp_of op_budget_exhausted a 0 = budget_exhausted a.
Proof. repeat split; reflexivity. Qed.

(* C07 correspondence: the engine evaluator on histories with pre-existing objects in every
   ownership placement (outcome class, ledger, objects, trace compared step by step). *)
From Helm Require Export Run.RunEng.

(* C07 correspondence.
   (1) The engine evaluator on histories with pre-existing objects in every ownership placement,
       charts that render ownership metadata of their own, and resources in two namespaces
       (outcome class, ledger, objects, trace compared step by step: Run/RunEng.v).
   (2) The transcription of validate.go's stamping code (Engine/Stamp.v) against direct runs of
       the real setMetadataVisitor / checkOwnership on the label and annotation maps of the
       case's objects: error or not, and the two maps afterwards.
   (4) The request level of the pre-flight check: the model run with the logging handler
       (Engine/OwnershipReq.v) yields, per install / upgrade, the GETs of the ownership look-up;
       they must be exactly the first requests that reached the simulated API server, and the
       only ones when nothing else happened (refusal, dry run).
   (5) Check-to-create races: the history run through the handler with an intruder
       (Engine/OwnershipRace.v; without intruders it is the plain handler, and then the plain
       comparison (1) is made as well).
   (3) The stamping model against the API server's store: after every successful install /
       upgrade of the history, each manifest resource is stored with every label and annotation
       the model computes for it (the forced three and whatever the chart rendered). *)
From Coq Require Import List String Bool Arith.
From Helm Require Import Common.Assoc Engine.Types Engine.Eff Engine.Ops Engine.Cluster Engine.Seq Engine.Stamp
                         Engine.OwnershipReq Engine.OwnershipRace.
From Helm Require Export Run.RunEng Engine.OwnershipRace.
Import ListNotations.

(* abbreviations the harness printer uses for recurring string literals (c07Abbrev in
   harness/cmd/hx/c07.go): parsing a literal costs coqc time per character *)
Local Open Scope string_scope.
Definition sL := "l:app.kubernetes.io/managed-by".
Definition sAN := "a:meta.helm.sh/release-name".
Definition sAS := "a:meta.helm.sh/release-namespace".
Definition sl := "app.kubernetes.io/managed-by".
Definition san := "meta.helm.sh/release-name".
Definition sas := "meta.helm.sh/release-namespace".
Definition sLN := "l:app.kubernetes.io/name".
Definition sAT := "a:example.com/note".
Definition sln := "app.kubernetes.io/name".
Definition sat := "example.com/note".
Definition sB1 := "ConfigMap/bystander".
Definition sB2 := "ConfigMap/bystander-other".
Definition sB3 := "Secret/bystander-labelled".
Definition sCB := "ConfigMap/base".
Definition sCM := "ConfigMap".
Definition sSE := "Secret".
Definition sSA := "ServiceAccount".
Definition sD := "default".
Definition sE := "elsewhere".
Definition sH := "Helm".
Definition sKM := "keep me".
Definition sCr := "create".
Definition sUp := "update".
Definition sDe := "delete".
Definition sHW := "hookwatch".
Definition sby := "bystander".
Definition sbo := "bystander-other".
Definition sbl := "bystander-labelled".
Local Close Scope string_scope.

Record stamp_obs := mkSO {
  so_rn : string; so_ns : string; so_force : bool;
  so_labels : strmap; so_annots : strmap;            (* the object's maps before *)
  so_owned : bool;                                   (* checkOwnership(obj, rn, ns) == nil *)
  so_res : option (strmap * strmap) }.               (* None: error; Some: the maps afterwards *)

Definition stamp_ok (s : stamp_obs) : bool :=
  let o := mkMeta (so_labels s) (so_annots s) in
  Bool.eqb (owned_meta o (so_rn s) (so_ns s)) (so_owned s) &&
  match set_metadata_visitor (so_rn s) (so_ns s) (so_force s) o, so_res s with
  | None, None => true
  | Some o', Some (l, a) =>
      fields_eqb (m_labels o') l && fields_eqb (m_annots o') a
      && Nat.eqb (List.length (m_labels o')) (List.length l) && Nat.eqb (List.length (m_annots o')) (List.length a)
  | _, _ => false
  end.

(* (3): what the model stamps on a rendered resource is contained in the stored object *)
Definition stored_has_stamp (objs : list (string * fields)) (r : res) : bool :=
  match aget (rkey r) objs with
  | Some f => fields_sub (flat_meta (stamp_meta RunEng.rn RunEng.ns (meta_of (r_fields r)))) f
  | None => false
  end.

Definition step_stored_ok (h : hstep) (o : step_obs) : bool :=
  match h, so_out o with
  | HOp c, OOk =>
      match oc_op c with
      | OpInstall fl _ _ m _ | OpUpgrade fl _ _ m _ =>
          (* a key named twice in one manifest is written twice; only the ownership values of the
             first writer are then guaranteed (C07_updated_objects_owned), not its other labels *)
          f_dry_run fl
          || forallb (fun r => negb (Nat.eqb (List.length (filter (fun x => String.eqb (rkey x) (rkey r)) m)) 1)
                               || stored_has_stamp (so_objs o) r) m
      | _ => true
      end
  | _, _ => true
  end.

Fixpoint steps_stored_ok (hs : list hstep) (os : list step_obs) : bool :=
  match hs, os with
  | h :: t, o :: u => step_stored_ok h o && steps_stored_ok t u
  | _, _ => true
  end.

(* (4): [log] = the first (number of manifest resources + 1) requests of an install / upgrade as
   they arrived at the server, GETs included ([] for other steps) *)
Definition rq_gets (t : list tev) : option (list (verb * string)) :=
  match t with
  | TKube (KCall n m) :: _ => if String.eqb n "existing" then Some m else None
  | _ => None
  end.

Fixpoint reqs_eqb (a b : list (verb * string)) : bool :=
  match a, b with
  | [], [] => true
  | x :: t, y :: u => verb_eqb (fst x) (fst y) && String.eqb (snd x) (snd y) && reqs_eqb t u
  | _, _ => false
  end.

Definition is_inst_upg (h : hstep) : bool :=
  match h with
  | HOp c => match oc_op c with OpInstall _ _ _ _ _ | OpUpgrade _ _ _ _ _ => true | _ => false end
  | HEdit _ => false
  end.

Definition step_log_ok (h : hstep) (m : world * outcome * list tev) (log : list (verb * string)) : bool :=
  if negb (is_inst_upg h) then true else
  let t := snd m in
  match rq_gets t with
  | Some g =>
      reqs_eqb (firstn (List.length g) log) g
      && (match t with [_] => Nat.eqb (List.length log) (List.length g) | _ => true end)
  | None => match t with [] => match log with [] => true | _ => false end | _ => true end
  end.

Fixpoint steps_log_ok (hs : list hstep) (ms : list (world * outcome * list tev)) (logs : list (list (verb * string))) : bool :=
  match hs, ms, logs with
  | h :: t, m :: u, l :: v => step_log_ok h m l && steps_log_ok t u v
  | [], [], [] => true
  | _, _, _ => false
  end.

(* (5): per step, the intruder of that operation (Engine/OwnershipRace.v): the whole history is run
   through the cluster handler that lets another actor create an object in the middle of an operation *)
Record case := mkC7 { c7_eng : RunEng.case; c7_stamps : list stamp_obs; c7_logs : list (list (verb * string));
                      c7_intr : list (option intruder) }.

Definition no_intruder (c : case) : bool :=
  forallb (fun i => match i with None => true | Some _ => false end) (c7_intr c).

Definition case_ok_i (c : case) : bool :=
  steps_agree (run_history_i RunEng.rn RunEng.ns (c_steps (c7_eng c)) (c7_intr c) (mkW [] (c_init (c7_eng c))))
              (c_obs (c7_eng c)).

Definition logs_ok (c : case) : bool :=
  steps_log_ok (c_steps (c7_eng c))
               (run_history_rq RunEng.rn RunEng.ns (c_steps (c7_eng c)) (mkW [] (c_init (c7_eng c))))
               (c7_logs c).

Definition case_ok7 (c : case) : bool :=
  (if no_intruder c then RunEng.case_ok (c7_eng c) else true)
  && case_ok_i c
  && forallb stamp_ok (c7_stamps c)
  && steps_stored_ok (c_steps (c7_eng c)) (c_obs (c7_eng c))
  && (if no_intruder c then logs_ok c else true).

Fixpoint mismatches_from7 (i : nat) (cs : list case) : list nat :=
  match cs with
  | [] => []
  | c :: t => if case_ok7 c then mismatches_from7 (S i) t else i :: mismatches_from7 (S i) t
  end.

Definition mismatches := mismatches_from7 0.

(* for debugging a mismatch: (engine agreement per step, stamps, store) *)
Definition diag7 (c : case) :=
  (RunEng.diag (c7_eng c), case_ok_i c, map stamp_ok (c7_stamps c),
   steps_stored_ok (c_steps (c7_eng c)) (c_obs (c7_eng c)), logs_ok c,
   map (fun m => rq_gets (snd m)) (run_history_rq RunEng.rn RunEng.ns (c_steps (c7_eng c)) (mkW [] (c_init (c7_eng c))))).

(* Correspondence evaluator for C16: runs the archive-loader, cleanJoin and writeLock models
   on the inputs the harness ran through the real code and reports disagreeing indices. *)
From Coq Require Import List String Bool Arith ZArith.
From Helm Require Import Chart.Paths Chart.Archive Chart.Lock Gen.Limits.
Import ListNotations.

Inductive lock_obs :=
| LRefused                 (* Update returned an error, lock path unchanged *)
| LWritten.                (* Update succeeded, lock path now holds a regular file *)

Inductive case :=
| CArch (lim : option (Z * Z)) (s : tstream) (obs : aerr + list file)
| CJoin (root dest : string) (obs : cj_err + string)
| CLock (pre : option node) (legacy : bool) (obs : lock_obs) (outside_changed : bool)
| CDownload (upath : string) (obs : option string)   (* base name of the file DownloadTo wrote; None = refused *)
| COracleOnly
| CPanic.

Definition file_eqb (a b : file) : bool :=
  String.eqb (f_name a) (f_name b) && String.eqb (f_data a) (f_data b).

Fixpoint list_eqb {A} (f : A -> A -> bool) (l1 l2 : list A) : bool :=
  match l1, l2 with
  | [], [] => true
  | a :: t1, b :: t2 => f a b && list_eqb f t1 t2
  | _, _ => false
  end.

Definition ares_eqb (a b : aerr + list file) : bool :=
  match a, b with
  | inl x, inl y => aerr_eqb x y
  | inr x, inr y => list_eqb file_eqb x y
  | _, _ => false
  end.

Definition cj_eqb (a b : cj_err + string) : bool :=
  match a, b with
  | inl CJColon, inl CJColon | inl CJDotDot, inl CJDotDot | inl CJAbs, inl CJAbs => true
  | inr x, inr y => String.eqb x y
  | _, _ => false
  end.

Definition node_is_file (n : option node) : bool := match n with Some (NFile _) => true | _ => false end.

Definition case_ok (c : case) : bool :=
  match c with
  | CArch lim s obs =>
      let '(mt, mf) := match lim with Some p => p | None => (max_decompressed_chart_size, max_decompressed_file_size) end in
      ares_eqb (load_archive_files mt mf s) obs
  | CJoin root dest obs => cj_eqb (clean_join root dest) obs
  | CLock pre legacy obs outside_changed =>
      let dir := "/sandbox/work/chart"%string in
      let p := lock_path dir legacy in
      let fs0 : fsys := ("/sandbox/outside/target"%string, NFile "canary"%string) :: (dir, NDir) ::
                        match pre with Some n => [(p, n)] | None => [] end in
      negb outside_changed &&
      match write_lock fs0 dir legacy "lock"%string, obs with
      | None, LRefused => true
      | Some fs1, LWritten => node_is_file (fs_get p fs1)
      | _, _ => false
      end
  | CDownload upath obs =>
      match download_name upath, obs with
      | Some a, Some b => String.eqb a b
      | None, None => true
      | _, _ => false
      end
  | COracleOnly => true
  | CPanic => false
  end.

Fixpoint mismatches_from (i : nat) (cs : list case) : list nat :=
  match cs with
  | [] => []
  | c :: t => if case_ok c then mismatches_from (S i) t else i :: mismatches_from (S i) t
  end.

Definition mismatches := mismatches_from 0.

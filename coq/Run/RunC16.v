(* Correspondence evaluator for C16: runs the archive-loader, cleanJoin and writeLock models
   on the inputs the harness ran through the real code and reports disagreeing indices. *)
From Coq Require Import List String Bool Arith ZArith.
From Helm Require Import Chart.Paths Chart.PathFns Chart.Archive Chart.Lock Chart.FsTree Gen.Limits.
Import ListNotations.

(* what os.Stat / os.Lstat answered on the materialised tree *)
Inductive robs :=
| RAt (loc : list string)      (* the same file as the one at this location (os.SameFile) *)
| RNoEnt | RNotDir | RLoop | RInval | ROther.

Inductive lock_obs :=
| LRefused                 (* Update returned an error, lock path unchanged *)
| LWritten.                (* Update succeeded, lock path now holds a regular file *)

Inductive case :=
| CArch (lim : option (Z * Z)) (s : tstream) (obs : aerr + list file)
| CJoin (root dest : string) (obs : cj_err + string)
| CLock (pre : option node) (legacy : bool) (obs : lock_obs) (outside_changed : bool)
| CDownload (upath : string) (obs : option string)   (* base name of the file DownloadTo wrote; None = refused *)
(* path.Clean = filepath.Clean, filepath.Base = path.Base, filepath.Dir = path.Dir, path.IsAbs on s *)
| CPath (s clean base dir : string) (isabs : bool)
| CPJoin (elems : list string) (obs : string)                        (* path.Join = filepath.Join *)
| CPrefix (s p : string) (obs : bool)                                (* strings.HasPrefix *)
| CJoin2 (root dest : string) (obs : cj_err2 + string)               (* cleanJoin, any root *)
(* on a tree materialised in the sandbox (the sandbox root is /sb in the model): *)
| CSecJoin (t : tnode) (root unsafe : string) (obs : option string)  (* securejoin.SecureJoin; None = error *)
| CResolve (t : tnode) (path : string) (follow : bool) (obs : robs)  (* os.Stat / os.Lstat *)
| CExpandT (t : tnode) (dest : list string) (chart_name : option string) (s : tstream)
           (failed : bool) (after : list (list string * shallow))    (* chartutil.Expand *)
| CExtractT (t : tnode) (dest : list string) (s : tstream)
            (failed : bool) (after : list (list string * shallow))   (* TarGzExtractor.Extract *)
| CLockT (t : tnode) (chartpath : string) (legacy : bool) (data : string)
         (failed : bool) (after : list (list string * shallow))      (* writeLock *)
| COracleOnly
| CPanic.

Definition file_eqb (a b : file) : bool :=
  String.eqb (f_name a) (f_name b) && String.eqb (f_data a) (f_data b).

Fixpoint list_eqb {A} (f : A -> A -> bool) (l1 l2 : list A) : bool :=
  match l1, l2 with
  | [], [] => true
  | a :: t1, b :: t2 => f a b && list_eqb f t1 t2
  | _, _ => false
  end.

Definition ares_eqb (a b : aerr + list file) : bool :=
  match a, b with
  | inl x, inl y => aerr_eqb x y
  | inr x, inr y => list_eqb file_eqb x y
  | _, _ => false
  end.

Definition cj_eqb (a b : cj_err + string) : bool :=
  match a, b with
  | inl CJColon, inl CJColon | inl CJDotDot, inl CJDotDot | inl CJAbs, inl CJAbs => true
  | inr x, inr y => String.eqb x y
  | _, _ => false
  end.

Definition cj2_eqb (a b : cj_err2 + string) : bool :=
  match a, b with
  | inl CJ2Colon, inl CJ2Colon | inl CJ2DotDot, inl CJ2DotDot | inl CJ2Abs, inl CJ2Abs | inl CJ2Root, inl CJ2Root
  | inl CJ2Lstat, inl CJ2Lstat => true
  | inr x, inr y => String.eqb x y
  | _, _ => false
  end.

Definition is_some {A} (o : option A) : bool := match o with Some _ => true | None => false end.

Definition robs_ok (w : wres) (o : robs) : bool :=
  match w, o with
  | WAt loc _, RAt l => list_eqb String.eqb loc l
  | WNew _ _, RNoEnt | WErr ENOENT, RNoEnt | WErr ENOTDIR, RNotDir | WErr ELOOP, RLoop | WErr EINVAL, RInval => true
  | _, _ => false
  end.

(* the observed listing (one entry per location, from a map) against the model's tree: the
   same number of locations, and every observed location holds the same shallow node *)
Definition tree_matches (t : tnode) (obs : list (list string * shallow)) : bool :=
  Nat.eqb (List.length (flatten 200 t [])) (List.length obs) &&
  forallb (fun ps => shallow_eqb (shallow_of (tget t (fst ps))) (snd ps)) obs.

(* Expand from the tar entries: LoadArchiveFiles under the source tree's limits, the chart
   name as sigs.k8s.io/yaml read it from the loaded Chart.yaml (None: it did not parse) *)
Definition run_expand (t : tnode) (dest : list string) (name : option string) (s : tstream) : tnode * bool :=
  match load_archive_files max_decompressed_chart_size max_decompressed_file_size s with
  | inl _ => (t, true)
  | inr fs =>
      match name with
      | None => (t, true)
      | Some n => let r := expand_model t dest n fs in (fst r, is_some (snd r))
      end
  end.

Definition node_is_file (n : option node) : bool := match n with Some (NFile _) => true | _ => false end.

Definition case_ok (c : case) : bool :=
  match c with
  | CArch lim s obs =>
      let '(mt, mf) := match lim with Some p => p | None => (max_decompressed_chart_size, max_decompressed_file_size) end in
      ares_eqb (load_archive_files mt mf s) obs
  | CJoin root dest obs => cj_eqb (clean_join root dest) obs
  | CLock pre legacy obs outside_changed =>
      let dir := "/sandbox/work/chart"%string in
      let p := lock_path dir legacy in
      let fs0 : fsys := ("/sandbox/outside/target"%string, NFile "canary"%string) :: (dir, NDir) ::
                        match pre with Some n => [(p, n)] | None => [] end in
      negb outside_changed &&
      match write_lock fs0 dir legacy "lock"%string, obs with
      | None, LRefused => true
      | Some fs1, LWritten => node_is_file (fs_get p fs1)
      | _, _ => false
      end
  | CDownload upath obs =>
      match download_name upath, obs with
      | Some a, Some b => String.eqb a b
      | None, None => true
      | _, _ => false
      end
  | CPath s clean base dir isabs =>
      String.eqb (path_clean s) clean && String.eqb (clean_bytes s) clean && is_clean_path clean &&
      String.eqb (path_base s) base && String.eqb (path_dir_go s) dir && Bool.eqb (is_abs s) isabs
  | CPJoin elems obs =>
      String.eqb (path_join_n elems) obs &&
      match elems with [a; b] => String.eqb (path_join a b) obs | _ => true end
  | CPrefix s p obs => Bool.eqb (has_prefix s p) obs
  | CJoin2 root dest obs => cj2_eqb (clean_join2 root dest) obs
  | CSecJoin t root unsafe obs =>
      match secure_join_s t root unsafe, obs with
      | inr a, Some b => String.eqb a b
      | inl _, None => true
      | _, _ => false
      end
  | CResolve t path follow obs => robs_ok (k_walk t [] path follow) obs
  | CExpandT t dest name s failed after =>
      let '(t', e) := run_expand t dest name s in
      Bool.eqb e failed && tree_matches t' after && new_links_inside t dest after
  | CExtractT t dest s failed after =>
      let r := extract_model t dest s in
      Bool.eqb (is_some (snd r)) failed && tree_matches (fst r) after && new_links_inside t dest after
  | CLockT t chartpath legacy data failed after =>
      let r := write_lock_t t [] chartpath legacy data in
      Bool.eqb (is_some (snd r)) failed && tree_matches (fst r) after
  | COracleOnly => true
  | CPanic => false
  end.

Fixpoint mismatches_from (i : nat) (cs : list case) : list nat :=
  match cs with
  | [] => []
  | c :: t => if case_ok c then mismatches_from (S i) t else i :: mismatches_from (S i) t
  end.

Definition mismatches := mismatches_from 0.
